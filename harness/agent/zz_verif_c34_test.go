//go:build verif

package agent

import (
	"context"
	"errors"
	"fmt"
	"runtime"
	"strings"
	"sync"
	"sync/atomic"
	"testing"
	"time"

	"github.com/honeycombio/refinery/config"
	"github.com/honeycombio/refinery/internal/health"
	"github.com/honeycombio/refinery/internal/verifkit"
	"github.com/honeycombio/refinery/logger"
	"github.com/honeycombio/refinery/metrics"
	"github.com/jonboulle/clockwork"
	"github.com/open-telemetry/opamp-go/client"
	"github.com/open-telemetry/opamp-go/client/types"
	"github.com/open-telemetry/opamp-go/protobufs"
	"go.opentelemetry.io/collector/pdata/pmetric"
)

// C34: usage reports neither lose nor double-count usage.
//
// Oracle (conservation, observed at the report payloads and send outcomes only):
//   * no datapoint of any report handed to the sender is negative;
//   * at every step, for every signal: sum(usage in successfully sent reports) <= growth
//     of the counter (nothing is counted twice);
//   * after the scripted history a final flush (report attempts that succeed) empties
//     whatever was waiting, and then sum(successfully sent) == growth for every signal.
//
// Three drivers, same oracle:
//   tracker  usageTracker.Add / NewReport / completeSend, the driver playing the send loop
//   send     usageTracker.Add + the real Agent.sendUsageReport with a scripted stub OpAMP
//            client (sent | pending-then-sent | failed | pending-then-failed), FakeClock
//   loop     the real healthCheck and reportUsagePeriodically goroutines on a FakeClock,
//            counters living in a real MultiMetrics (checks the counter -> signal mapping too)

// ---- adapter: everything that names unexported identifiers ------------------

var c34signals = []usageSignal{signal_traces, signal_logs, signal_events_received, signal_events_dropped}

func c34newTracker() *usageTracker { return newUsageTracker() }

func c34trackerAdd(u *usageTracker, s usageSignal, cumulative float64) { u.Add(s, cumulative) }

// c34trackerReport returns (payload, nil), (nil, nil) when there is nothing to report, or an error.
func c34trackerReport(u *usageTracker, now time.Time) ([]byte, error) {
	b, err := u.NewReport(serviceName, "verif", "verif-host", now)
	if errors.Is(err, errNoData) {
		return nil, nil
	}
	return b, err
}

func c34trackerComplete(u *usageTracker) { u.completeSend() }

func c34newAgent(clock clockwork.Clock, cl client.OpAMPClient, met metrics.Metrics) *Agent {
	ctx, cancel := context.WithCancel(context.Background())
	return &Agent{
		ctx:                 ctx,
		cancel:              cancel,
		clock:               clock,
		logger:              Logger{Logger: &logger.NullLogger{}},
		agentType:           serviceName,
		agentVersion:        "verif",
		hostname:            "verif-host",
		opampClient:         cl,
		effectiveConfig:     &config.MockConfig{},
		metrics:             met,
		health:              &health.MockHealthReporter{},
		usageTracker:        c34newTracker(),
		healthCheckInterval: defaultHealthCheckInterval,
		reportUsageInterval: defaultReportUsageInterval,
	}
}

func c34agentSend(a *Agent) error {
	err := a.sendUsageReport()
	if errors.Is(err, errNoData) {
		return nil
	}
	return err
}

func c34agentStartLoops(a *Agent, healthEvery, reportEvery time.Duration) {
	a.healthCheckInterval = healthEvery
	a.reportUsageInterval = reportEvery
	go a.healthCheck()
	go a.reportUsagePeriodically()
}

// the counters the agent reads, and the signal each feeds (agent.go healthCheck)
var c34counters = []struct {
	name   string
	signal usageSignal
}{
	{"bytes_received_traces", signal_traces},
	{"bytes_received_logs", signal_logs},
	{"incoming_router_span", signal_events_received},
	{"incoming_router_nonspan_event", signal_events_received},
	{"incoming_router_event", signal_events_received},
	{"events_dropped", signal_events_dropped},
}

// ---- payload decoding (boundary observation) --------------------------------

type c34usage map[usageSignal]int64

// c34decode sums the datapoints of a report per signal and returns the most negative value seen (0 if none).
func c34decode(payload []byte) (c34usage, int64, error) {
	u := &pmetric.JSONUnmarshaler{}
	m, err := u.UnmarshalMetrics(payload)
	if err != nil {
		return nil, 0, err
	}
	out := c34usage{}
	var minV int64
	rms := m.ResourceMetrics()
	for i := 0; i < rms.Len(); i++ {
		sms := rms.At(i).ScopeMetrics()
		for j := 0; j < sms.Len(); j++ {
			ms := sms.At(j).Metrics()
			for k := 0; k < ms.Len(); k++ {
				mt := ms.At(k)
				if mt.Type() != pmetric.MetricTypeSum {
					return nil, 0, fmt.Errorf("metric %q is not a sum", mt.Name())
				}
				dps := mt.Sum().DataPoints()
				for d := 0; d < dps.Len(); d++ {
					dp := dps.At(d)
					var v int64
					switch dp.ValueType() {
					case pmetric.NumberDataPointValueTypeInt:
						v = dp.IntValue()
					case pmetric.NumberDataPointValueTypeDouble:
						v = int64(dp.DoubleValue())
					}
					if v < minV {
						minV = v
					}
					sigAttr := ""
					if a, ok := dp.Attributes().Get("signal"); ok {
						sigAttr = a.Str()
					}
					var sig usageSignal
					switch {
					case mt.Name() == "bytes_received" && sigAttr == "traces":
						sig = signal_traces
					case mt.Name() == "bytes_received" && sigAttr == "logs":
						sig = signal_logs
					case mt.Name() == "events_received":
						sig = signal_events_received
					case mt.Name() == "events_dropped":
						sig = signal_events_dropped
					default:
						return nil, 0, fmt.Errorf("datapoint of unknown usage kind %q/%q", mt.Name(), sigAttr)
					}
					out[sig] += v
				}
			}
		}
	}
	return out, minV, nil
}

// ---- shared oracle ----------------------------------------------------------

type c34step struct {
	Op      string `json:"op"`
	Signal  string `json:"signal,omitempty"`
	Growth  int64  `json:"growth,omitempty"`
	Reading int64  `json:"cumulative,omitempty"`
	Outcome string `json:"outcome,omitempty"`
	Report  string `json:"report,omitempty"`
}

type c34ledger struct {
	run        *verifkit.Run
	unit       string
	growth     c34usage // counter growth since start, per signal
	sent       c34usage // usage carried by successfully sent reports
	hist       []c34step
	kinds      strings.Builder
	lastFailed bool // the most recent report that carried data failed to send
	consecFail bool // two report attempts in a row failed
	anyFail    bool
	// input classes that get their own double-count signature
	delayedAck bool // a report was accepted and its ack arrived only after fake time had passed
	toggled    bool // RecordUsage was switched off and on again
	reports    int
}

func c34newLedger(run *verifkit.Run, unit string) *c34ledger {
	return &c34ledger{run: run, unit: unit, growth: c34usage{}, sent: c34usage{}}
}

func (l *c34ledger) witness(extra ...any) map[string]any {
	w := map[string]any{"history": l.hist, "counter_growth": l.growth, "sent_successfully": l.sent}
	for i := 0; i+1 < len(extra); i += 2 {
		w[fmt.Sprint(extra[i])] = extra[i+1]
	}
	return w
}

// handed is called for every report payload handed to the sender, whatever the outcome.
func (l *c34ledger) handed(payload []byte) c34usage {
	u, minV, err := c34decode(payload)
	if err != nil {
		l.run.Violation("C34/"+l.unit+"/report-not-decodable", "usage report payload cannot be decoded: "+err.Error(), l.witness("payload", string(payload)))
		return c34usage{}
	}
	if minV < 0 {
		l.run.Violation("C34/"+l.unit+"/negative-datapoint", fmt.Sprintf("usage report contains a negative datapoint (%d)", minV), l.witness("payload", string(payload)))
	}
	return u
}

// outcome records how the attempt to send one data-carrying report ended.
func (l *c34ledger) outcome(u c34usage, delivered bool) {
	l.reports++
	if delivered {
		for s, v := range u {
			l.sent[s] += v
		}
		l.lastFailed = false
	} else {
		if l.lastFailed {
			l.consecFail = true
		}
		l.lastFailed = true
		l.anyFail = true
	}
	for _, s := range c34signals {
		if l.sent[s] > l.growth[s] {
			sig := "C34/" + l.unit + "/usage-double-counted"
			if l.delayedAck {
				sig += "/after-delayed-ack"
			}
			if l.toggled {
				sig += "/after-record-usage-off-on"
			}
			l.run.Violation(sig,
				fmt.Sprintf("signal %s: successfully sent reports carry %d but the counter only grew by %d", s, l.sent[s], l.growth[s]), l.witness("signal", string(s)))
		}
	}
}

// settle is called after the final flush.
func (l *c34ledger) settle() {
	for _, s := range c34signals {
		if l.sent[s] == l.growth[s] {
			continue
		}
		if l.sent[s] > l.growth[s] {
			continue // already reported by outcome()
		}
		sig := "C34/" + l.unit + "/usage-lost"
		what := fmt.Sprintf("signal %s: the counter grew by %d, successfully sent reports carry %d and nothing is waiting to be sent any more (%d lost)", s, l.growth[s], l.sent[s], l.growth[s]-l.sent[s])
		if l.consecFail {
			// one input class whatever the driver: the same history shape reaches the same code
			sig = "C34/usage-lost/consecutive-send-failures"
			what = "[" + l.unit + " driver] " + what + "; the history contains two report attempts in a row that failed"
		}
		l.run.Violation(sig, what, l.witness("signal", string(s)))
	}
	if l.anyFail && l.reports >= 2 {
		l.run.Nontrivial(l.unit + ":" + l.kinds.String())
	}
}

var c34growths = []int64{0, 1, 1, 2, 3, 10, 250, 1000, 65536, 1 << 33}

// ---- driver 1: usageTracker -------------------------------------------------

func c34tracker(run *verifkit.Run, rng *verifkit.Rand, sample bool) {
	l := c34newLedger(run, "tracker")
	u := c34newTracker()
	clock := clockwork.NewFakeClock()
	noConsec := rng.Bool() // half of the histories never fail twice in a row
	pFail := verifkit.Pick(rng, 0.2, 0.4, 0.7)
	steps := rng.Range(4, 40)
	for st := 0; st < steps; st++ {
		clock.Advance(time.Duration(rng.Range(0, 20)) * time.Second)
		if rng.Chance(0.55) {
			s := c34signals[rng.Intn(len(c34signals))]
			g := c34growths[rng.Intn(len(c34growths))]
			l.growth[s] += g
			c34trackerAdd(u, s, float64(l.growth[s]))
			l.hist = append(l.hist, c34step{Op: "reading", Signal: string(s), Growth: g, Reading: l.growth[s]})
			l.kinds.WriteByte('r')
			continue
		}
		fail := rng.Chance(pFail) && !(noConsec && l.lastFailed)
		c34trackerAttempt(l, u, clock, fail)
	}
	// final flush: attempts that succeed until nothing is waiting
	for i := 0; i < 3; i++ {
		c34trackerAttempt(l, u, clock, false)
	}
	l.settle()
	run.Count("tracker_reports", int64(l.reports))
	if sample {
		run.Sample(map[string]any{"driver": "tracker", "history": l.hist})
	}
}

func c34trackerAttempt(l *c34ledger, u *usageTracker, clock clockwork.Clock, fail bool) {
	payload, err := c34trackerReport(u, clock.Now())
	st := c34step{Op: "report"}
	switch {
	case err != nil:
		st.Report = "error: " + err.Error()
		l.hist = append(l.hist, st)
		l.kinds.WriteByte('e')
		return
	case payload == nil:
		st.Report = "nothing to report"
		l.hist = append(l.hist, st)
		l.kinds.WriteByte('n')
		return
	}
	usage := l.handed(payload)
	st.Report = fmt.Sprint(map[usageSignal]int64(usage))
	if fail {
		st.Outcome = "failed"
		l.kinds.WriteByte('F')
	} else {
		st.Outcome = "sent"
		l.kinds.WriteByte('S')
		c34trackerComplete(u)
	}
	l.hist = append(l.hist, st)
	l.outcome(usage, !fail)
}

// ---- driver 2: Agent.sendUsageReport with a scripted OpAMP client ------------

type c34client struct {
	client.OpAMPClient // nil: any other method is a harness bug and panics
	mu                 sync.Mutex
	script             []string      // per SendCustomMessage call: "ok" | "pending" | "err"; exhausted => "ok"
	ack                chan struct{} // accepted message whose "sent" channel the driver has not closed yet
	handed             [][]byte      // every payload passed in
	delivered          [][]byte      // payloads of calls that returned nil error
	async              bool
}

func (c *c34client) SendCustomMessage(msg *protobufs.CustomMessage) (chan struct{}, error) {
	c.mu.Lock()
	defer c.mu.Unlock()
	o := "ok"
	if len(c.script) > 0 {
		o, c.script = c.script[0], c.script[1:]
	}
	data := append([]byte(nil), msg.Data...)
	c.handed = append(c.handed, data)
	ch := make(chan struct{})
	done := func() {
		if c.async {
			go close(ch)
		} else {
			close(ch)
		}
	}
	switch o {
	case "err":
		return nil, errors.New("verif: connection refused")
	case "pending":
		done() // the previous message completes
		return ch, types.ErrCustomMessagePending
	case "ok-delayed":
		// accepted; the driver closes the channel later (after advancing the fake clock)
		c.delivered = append(c.delivered, data)
		c.ack = ch
		return ch, nil
	}
	c.delivered = append(c.delivered, data)
	done()
	return ch, nil
}

func (c *c34client) SetHealth(*protobufs.ComponentHealth) error { return nil }

func (c *c34client) take() (handed, delivered [][]byte) {
	c.mu.Lock()
	defer c.mu.Unlock()
	handed, delivered = c.handed, c.delivered
	c.handed, c.delivered = nil, nil
	return
}

func (c *c34client) outstanding() bool {
	c.mu.Lock()
	defer c.mu.Unlock()
	return c.ack != nil
}

// releaseAck closes the "sent" channel of the accepted message, if one is outstanding.
func (c *c34client) releaseAck() {
	c.mu.Lock()
	defer c.mu.Unlock()
	if c.ack != nil {
		close(c.ack)
		c.ack = nil
	}
}

func (c *c34client) setScript(s ...string) {
	c.mu.Lock()
	c.script = s
	c.mu.Unlock()
}

var c34outcomes = map[string][]string{
	"sent":                {"ok"},
	"pending-then-sent":   {"pending", "ok"},
	"failed":              {"err"},
	"pending-then-failed": {"pending", "err"},
	"sent-ack-delayed":    {"ok-delayed"},
}

func c34send(run *verifkit.Run, rng *verifkit.Rand, sample bool) {
	l := c34newLedger(run, "send")
	clock := clockwork.NewFakeClock()
	cl := &c34client{async: rng.Bool()}
	a := c34newAgent(clock, cl, &metrics.NullMetrics{})
	defer a.cancel()
	noConsec := rng.Bool()
	pFail := verifkit.Pick(rng, 0.2, 0.4, 0.7)
	steps := rng.Range(4, 40)
	attempt := func(outcome string) {
		cl.setScript(c34outcomes[outcome]...)
		var err error
		if outcome == "sent-ack-delayed" {
			// the client accepts the message; its "sent" channel is closed only after D of fake
			// time (up to several report periods) has passed while sendUsageReport waits
			errc := make(chan error, 1)
			go func() { errc <- c34agentSend(a) }()
			if !c34wait(func() bool { return cl.outstanding() || len(errc) > 0 }) {
				run.Inconclusive("send: sendUsageReport neither returned nor reached the client")
				return
			}
			if cl.outstanding() {
				d := time.Duration(verifkit.Pick(rng, 1, 10, 29, 30, 31, 45, 60, 90)) * time.Second
				for i := 0; i < 100; i++ {
					runtime.Gosched() // let the sender reach its wait (sensitivity only, no verdict depends on it)
				}
				for left := d; left > 0; left -= 5 * time.Second {
					step := 5 * time.Second
					if left < step {
						step = left
					}
					clock.Advance(step)
					for i := 0; i < 20; i++ {
						runtime.Gosched()
					}
				}
				cl.releaseAck()
				l.delayedAck = true
				l.hist = append(l.hist, c34step{Op: "ack of the accepted report arrives", Report: "after " + d.String()})
			}
			select {
			case err = <-errc:
			case <-time.After(20 * time.Second): // watchdog only
				run.Inconclusive("send: sendUsageReport did not return after the ack")
				return
			}
		} else {
			err = c34agentSend(a)
		}
		handed, delivered := cl.take()
		st := c34step{Op: "report", Outcome: outcome}
		if len(handed) == 0 {
			st.Outcome = ""
			st.Report = "nothing handed to the client"
			if err != nil {
				st.Report += ", error: " + err.Error()
			}
			l.hist = append(l.hist, st)
			l.kinds.WriteByte('n')
			return
		}
		if len(delivered) > 1 {
			run.Violation("C34/send/report-delivered-twice", "one report attempt delivered more than one message", l.witness())
		}
		usage := l.handed(handed[len(handed)-1])
		ok := len(delivered) >= 1
		st.Report = fmt.Sprint(map[usageSignal]int64(usage))
		l.hist = append(l.hist, st)
		if ok {
			l.kinds.WriteByte('S')
		} else {
			l.kinds.WriteByte('F')
		}
		l.outcome(usage, ok)
	}
	for st := 0; st < steps; st++ {
		clock.Advance(time.Duration(rng.Range(0, 20)) * time.Second)
		if rng.Chance(0.55) {
			s := c34signals[rng.Intn(len(c34signals))]
			g := c34growths[rng.Intn(len(c34growths))]
			l.growth[s] += g
			c34trackerAdd(a.usageTracker, s, float64(l.growth[s]))
			l.hist = append(l.hist, c34step{Op: "reading", Signal: string(s), Growth: g, Reading: l.growth[s]})
			l.kinds.WriteByte('r')
			continue
		}
		outcome := verifkit.Pick(rng, "sent", "sent", "pending-then-sent", "pending-then-sent", "sent-ack-delayed")
		if rng.Chance(pFail) && !(noConsec && l.lastFailed) {
			outcome = verifkit.Pick(rng, "failed", "pending-then-failed")
		}
		attempt(outcome)
	}
	for i := 0; i < 3; i++ {
		attempt("sent")
	}
	l.settle()
	run.Count("send_reports", int64(l.reports))
	if sample {
		run.Sample(map[string]any{"driver": "send", "history": l.hist})
	}
}

// ---- driver 3: the real loops on a fake clock ---------------------------------

// c34clock wraps a FakeClock so that the driver can tell when a ticker
// goroutine has finished handling a tick: `select { case <-t.Chan(): ... }`
// evaluates t.Chan() every time the loop re-enters the select.
type c34clock struct {
	*clockwork.FakeClock
	mu      sync.Mutex
	tickers []*c34ticker
}

type c34ticker struct {
	clockwork.Ticker
	period  time.Duration
	next    time.Time
	entries atomic.Int64
}

func (c *c34clock) NewTicker(d time.Duration) clockwork.Ticker {
	c.mu.Lock()
	defer c.mu.Unlock()
	t := &c34ticker{Ticker: c.FakeClock.NewTicker(d), period: d, next: c.FakeClock.Now().Add(d)}
	c.tickers = append(c.tickers, t)
	return t
}

func (t *c34ticker) Chan() <-chan time.Time {
	t.entries.Add(1)
	return t.Ticker.Chan()
}

func (c *c34clock) list() []*c34ticker {
	c.mu.Lock()
	defer c.mu.Unlock()
	return append([]*c34ticker(nil), c.tickers...)
}

// c34wait spins until cond holds; the wall-clock bound is a watchdog only.
func c34wait(cond func() bool) bool {
	deadline := time.Now().Add(20 * time.Second)
	for i := 0; !cond(); i++ {
		if i < 200 {
			runtime.Gosched()
			continue
		}
		time.Sleep(20 * time.Microsecond)
		if i%1000 == 0 && time.Now().After(deadline) {
			return false
		}
	}
	return true
}

// advance moves the clock by d (d <= every ticker period) and waits until every
// ticker goroutine whose tick fell into the step has handled it.
func (c *c34clock) advance(d time.Duration) bool {
	end := c.FakeClock.Now().Add(d)
	type exp struct {
		t    *c34ticker
		want int64
	}
	var due []exp
	for _, t := range c.list() {
		if !t.next.After(end) {
			due = append(due, exp{t, t.entries.Load() + 1})
			t.next = t.next.Add(t.period)
		}
	}
	c.FakeClock.Advance(d)
	for _, e := range due {
		e := e
		if !c34wait(func() bool { return e.t.entries.Load() >= e.want }) {
			return false
		}
	}
	return true
}

// advanceStall is advance for the loop driver with delayed acks: the ticker goroutine `skip`
// (parked in sendUsageReport on an outstanding ack) is not waited for - skippedDue reports
// whether its tick fell into the step - and a goroutine that does not come back to its select
// because it just started waiting for an ack (outstanding() turned true) is returned as stuck.
func (c *c34clock) advanceStall(d time.Duration, skip *c34ticker, outstanding func() bool) (ok bool, stuck *c34ticker, skippedDue bool) {
	end := c.FakeClock.Now().Add(d)
	type exp struct {
		t    *c34ticker
		want int64
	}
	var due []exp
	for _, t := range c.list() {
		if !t.next.After(end) {
			t.next = t.next.Add(t.period)
			if t == skip {
				skippedDue = true
				continue
			}
			due = append(due, exp{t, t.entries.Load() + 1})
		}
	}
	c.FakeClock.Advance(d)
	// Only the report goroutine can park on an outstanding ack, and while the ack is
	// outstanding it cannot be back in its select. So: wait until every due goroutine is back,
	// or until exactly one is not back while an ack is outstanding - that one is the parked
	// report goroutine (a health goroutine that is merely still working is waited for).
	notBack := func() []*c34ticker {
		var nb []*c34ticker
		for _, e := range due {
			if e.t.entries.Load() < e.want {
				nb = append(nb, e.t)
			}
		}
		return nb
	}
	if !c34wait(func() bool {
		nb := notBack()
		return len(nb) == 0 || (len(nb) == 1 && skip == nil && outstanding())
	}) {
		return false, nil, skippedDue
	}
	if nb := notBack(); len(nb) == 1 {
		stuck = nb[0]
	}
	return true, stuck, skippedDue
}

func c34setRecordUsage(a *Agent, on bool) {
	cfg := a.effectiveConfig.(*config.MockConfig)
	v := config.DefaultTrue(on)
	cfg.Mux.Lock()
	cfg.GetOpAmpConfigVal.RecordUsage = &v
	cfg.Mux.Unlock()
}

func c34loop(run *verifkit.Run, rng *verifkit.Rand, sample bool) {
	l := c34newLedger(run, "loop")
	clock := &c34clock{FakeClock: clockwork.NewFakeClock()}
	cl := &c34client{async: rng.Bool()}
	met := metrics.NewMultiMetrics()
	for _, c := range c34counters {
		met.Register(metrics.Metadata{Name: c.name, Type: metrics.Counter})
	}
	a := c34newAgent(clock, cl, met)
	// a.cancel is deliberately not called: healthCheck does not return on
	// ctx.Done() (it would spin); the parked goroutines are left behind.
	hEvery := time.Duration(verifkit.Pick(rng, 3, 5, 15)) * time.Second
	rEvery := time.Duration(verifkit.Pick(rng, 3, 7, 15)) * time.Second
	c34agentStartLoops(a, hEvery, rEvery)
	if !c34wait(func() bool {
		ts := clock.list()
		return len(ts) == 2 && ts[0].entries.Load() >= 1 && ts[1].entries.Load() >= 1
	}) {
		run.Inconclusive("loop: agent goroutines did not reach their tickers")
		return
	}
	noConsec := rng.Bool()
	pFail := verifkit.Pick(rng, 0.2, 0.4, 0.7)
	collect := func() {
		// at most one report attempt falls into one virtual second (report period >= 3 s);
		// an attempt hands its payload over once, or twice after a "pending" answer
		handed, delivered := cl.take()
		if len(handed) == 0 {
			return
		}
		if len(handed) > 2 || len(delivered) > 1 {
			run.Violation("C34/loop/report-delivered-twice", fmt.Sprintf("one report period handed %d payloads to the client and delivered %d", len(handed), len(delivered)), l.witness())
		}
		usage := l.handed(handed[len(handed)-1])
		ok := len(delivered) >= 1
		st := c34step{Op: "report", Report: fmt.Sprint(map[usageSignal]int64(usage))}
		if ok {
			st.Outcome = "delivered"
			l.kinds.WriteByte('S')
		} else {
			st.Outcome = "not delivered"
			l.kinds.WriteByte('F')
		}
		l.hist = append(l.hist, st)
		l.outcome(usage, ok)
	}
	grow := func() {
		if rng.Chance(0.5) {
			c := c34counters[rng.Intn(len(c34counters))]
			g := c34growths[rng.Intn(len(c34growths)-1)] // keep Count arguments modest
			met.Count(c.name, g)
			l.growth[c.signal] += g
			l.hist = append(l.hist, c34step{Op: "count " + c.name, Signal: string(c.signal), Growth: g, Reading: l.growth[c.signal]})
			l.kinds.WriteByte('r')
		}
	}
	stuckMsg := "loop: a ticker goroutine did not come back to its select"
	secs := rng.Range(20, 120)
	recordingOffFor := 0 // seconds left with RecordUsage switched off
	pToggle := verifkit.Pick(rng, 0.0, 0.02, 0.05)
	pDelay := verifkit.Pick(rng, 0.0, 0.1, 0.25)
	for s := 0; s < secs; s++ {
		// counters grow between ticks (also while usage recording is off)
		grow()
		// RecordUsage: on -> off for at least one health period -> on. The unchanged agent
		// simply takes no readings while it is off; the next reading after re-enabling carries
		// the whole delta, so conservation is unchanged.
		if recordingOffFor > 0 {
			recordingOffFor--
			if recordingOffFor == 0 {
				c34setRecordUsage(a, true)
				l.hist = append(l.hist, c34step{Op: "RecordUsage on"})
				l.kinds.WriteByte('+')
			}
		} else if rng.Chance(pToggle) {
			recordingOffFor = int(hEvery/time.Second) + rng.Range(1, 2*int(hEvery/time.Second))
			c34setRecordUsage(a, false)
			l.toggled = true
			l.hist = append(l.hist, c34step{Op: "RecordUsage off"})
			l.kinds.WriteByte('-')
		}
		// script the outcome of the next report attempt (at most one per second of virtual time)
		outcome := verifkit.Pick(rng, "sent", "pending-then-sent")
		if rng.Chance(pFail) && !(noConsec && l.lastFailed) {
			outcome = verifkit.Pick(rng, "failed", "pending-then-failed")
		} else if rng.Chance(pDelay) {
			outcome = "sent-ack-delayed"
		}
		cl.setScript(c34outcomes[outcome]...)
		ok, stuck, _ := clock.advanceStall(time.Second, nil, cl.outstanding)
		if !ok {
			run.Inconclusive(stuckMsg + " [main step; history kinds " + l.kinds.String() + "]")
			return
		}
		collect()
		if stuck == nil {
			continue
		}
		// the report goroutine handed a report to the client, which accepted it, and now waits
		// for the ack: keep the virtual time running (readings continue) for D, then ack
		d := rng.Range(1, 3*int(rEvery/time.Second)+5)
		base := stuck.entries.Load()
		buffered := int64(0)
		l.hist = append(l.hist, c34step{Op: "report accepted, ack outstanding", Report: fmt.Sprintf("for %ds", d)})
		l.kinds.WriteByte('A')
		l.delayedAck = true
		for i := 0; i < d; i++ {
			grow()
			cl.setScript() // anything sent meanwhile (there should be nothing) would be accepted at once
			ok, _, due := clock.advanceStall(time.Second, stuck, cl.outstanding)
			if !ok {
				run.Inconclusive(stuckMsg + " [while an ack is outstanding; history kinds " + l.kinds.String() + "]")
				return
			}
			if due {
				buffered = 1 // the ticker keeps one tick for the parked goroutine, further ones are dropped
			}
			collect()
		}
		cl.releaseAck()
		want := base + 1 + buffered
		if !c34wait(func() bool { return stuck.entries.Load() >= want }) {
			run.Inconclusive("loop: the report goroutine did not come back to its select after the ack")
			return
		}
		collect()
	}
	if recordingOffFor > 0 {
		c34setRecordUsage(a, true)
		l.hist = append(l.hist, c34step{Op: "RecordUsage on"})
	}
	// final flush: no more growth, every attempt succeeds; two report periods after a
	// health period make sure the last reading was taken and reported
	cl.setScript()
	for s := time.Duration(0); s < hEvery+2*rEvery+time.Second; s += time.Second {
		if !clock.advance(time.Second) {
			run.Inconclusive(stuckMsg + " [final flush; history kinds " + l.kinds.String() + "]")
			return
		}
		collect()
	}
	l.settle()
	run.Count("loop_reports", int64(l.reports))
	if sample {
		run.Sample(map[string]any{"driver": "loop", "health_every_s": hEvery.Seconds(), "report_every_s": rEvery.Seconds(), "history": l.hist})
	}
}

// c34concurrent: readings are recorded (usageTracker.Add, the health-check goroutine's role)
// while another goroutine generates and completes reports (the report goroutine's role);
// every report is "sent". Conservation: what the reports carried equals the final readings.
func c34concurrent(run *verifkit.Run, rng *verifkit.Rand, sample bool) {
	u := c34newTracker()
	adds := rng.Range(200, 1500)
	final := c34usage{}
	type rd struct {
		s usageSignal
		v int64
	}
	script := make([]rd, adds)
	for i := range script {
		s := c34signals[rng.Intn(len(c34signals))]
		final[s] += int64(rng.Range(1, 1000))
		script[i] = rd{s, final[s]}
	}
	yieldEvery := rng.Range(1, 8)
	var done atomic.Bool
	var wg sync.WaitGroup
	wg.Add(1)
	go func() {
		defer wg.Done()
		for i, r := range script {
			c34trackerAdd(u, r.s, float64(r.v))
			if i%yieldEvery == 0 {
				runtime.Gosched()
			}
		}
		done.Store(true)
	}()
	got := c34usage{}
	reports, overlapped := 0, 0
	now := time.Unix(1700000000, 0)
	report := func() bool {
		b, err := c34trackerReport(u, now)
		if err != nil {
			run.Violation("C34/concurrent/report-error", err.Error(), nil)
			return false
		}
		if b == nil {
			return true
		}
		usage, minV, err := c34decode(b)
		if err != nil {
			run.Violation("C34/concurrent/report-undecodable", err.Error(), nil)
			return false
		}
		if minV < 0 {
			run.Violation("C34/concurrent/negative-datapoint", fmt.Sprintf("datapoint %d", minV), nil)
		}
		for s, v := range usage {
			got[s] += v
		}
		c34trackerComplete(u)
		reports++
		return true
	}
	for !done.Load() {
		if !report() {
			wg.Wait()
			return
		}
		if !done.Load() {
			overlapped++
		}
	}
	wg.Wait()
	report()
	run.Count("concurrent_reports", int64(reports))
	run.Count("concurrent_reports_overlapping_readings", int64(overlapped))
	if overlapped >= 2 {
		run.Nontrivial(fmt.Sprintf("concurrent:%d:%d", reports, adds))
	}
	for _, s := range c34signals {
		if got[s] != final[s] {
			sig := "C34/concurrent/usage-lost"
			if got[s] > final[s] {
				sig = "C34/concurrent/usage-double-counted"
			}
			run.Violation(sig, fmt.Sprintf("signal %s: readings grew to %d while %d reports (all sent) carried %d", s, final[s], reports, got[s]),
				map[string]any{"readings": adds, "reports": reports, "final": fmt.Sprint(map[usageSignal]int64(final)), "reported": fmt.Sprint(map[usageSignal]int64(got))})
			break
		}
	}
	if sample {
		run.Sample(map[string]any{"driver": "concurrent", "readings": adds, "reports": reports, "reports_overlapping_readings": overlapped})
	}
}

// ---- entry point ------------------------------------------------------------

func TestVerif_C34(t *testing.T) {
	run := verifkit.Start(t, "C34", "agent")
	defer run.Finish()
	run.Rule("PRNG-scripted histories of monotone cumulative readings of the four usage signals (growth 0..2^33), report attempts and send outcomes (sent, pending-then-sent, failed, pending-then-failed; half of the histories never fail twice in a row), then a final flush; three drivers: usageTracker directly, Agent.sendUsageReport with a scripted OpAMP client, and the real healthCheck/reportUsagePeriodically goroutines on a FakeClock reading a real MultiMetrics; non-trivial = at least two data-carrying reports of which at least one failed; distinct = sequence of step kinds (reading / sent / failed / nothing-to-report)")
	run.Assume("a report counts as successfully sent when the OpAMP client accepted it (nil error) and closed the returned channel; counter readings are monotone and integral")
	run.Assume("loop driver: the wrapped FakeClock's Ticker.Chan() is re-evaluated each time a loop re-enters its select, which is what the driver waits for after each 1 s advance")

	run.Cases("tracker", run.N(3000, 300000), func(i int, rng *verifkit.Rand) { c34tracker(run, rng, i < 2) })
	run.Cases("send", run.N(2000, 150000), func(i int, rng *verifkit.Rand) { c34send(run, rng, i < 1) })
	run.Cases("loop", run.N(150, 4000), func(i int, rng *verifkit.Rand) { c34loop(run, rng, i < 1) })
	run.Cases("concurrent", run.N(60, 3000), func(i int, rng *verifkit.Rand) { c34concurrent(run, rng, i < 1) })
}
