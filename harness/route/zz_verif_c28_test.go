//go:build verif

package route

// C28 (unit "requests"): no request input can crash Refinery.
//
// Parent (TestVerif_C28Requests): generates hostile requests (seeded, structure-aware
// mutation, no coverage guidance) for every HTTP route, both gRPC Export methods and the
// peer listener, groups them into batches, and hands each batch to a child process
// (engine E8, verifkit.RunChild).
//
// Child (TestVerif_C28RequestsChild): hosts a REAL node wired like cmd/refinery/main.go
// (config loaded and validated by config.NewConfig from generated YAML, two route.Routers
// started with LnS on loopback HTTP ports + gRPC, collect.InMemCollector with its sample
// cache and every sampler type, sample.SamplerFactory, collect.StressRelief, health.Health,
// two transmit.DirectTransmissions: upstream -> a local sink, peer -> the node's own peer
// listener) and sends every request of the batch to itself over loopback, writing
// "S <i>" to the write-ahead log BEFORE sending and "D <i> <outcome>" after the answer.
//
// Refuting observation: the child dies (panic outside panicCatcher / net/http's recover,
// fatal error such as stack overflow or out of memory, os.Exit), or a request is not
// answered within the watchdog and that reproduces alone 2/2. Any answer, 4xx/5xx
// included, is fine. Signature: C28/requests/<CrashSite>/<message>.
//
// Unexported identifiers of package route used: none. The E3 file is listed only for its
// value tree / msgpack encoder / small-window compressors / raw gRPC codec.

import (
	"bytes"
	"context"
	"encoding/base64"
	"encoding/binary"
	"encoding/json"
	"fmt"
	"io"
	"math"
	"net"
	"net/http"
	"os"
	"path/filepath"
	"runtime"
	"runtime/debug"
	"sort"
	"strconv"
	"strings"
	"sync"
	"sync/atomic"
	"syscall"
	"testing"
	"time"

	"github.com/facebookgo/inject"
	"github.com/facebookgo/startstop"
	"github.com/jonboulle/clockwork"
	"go.opentelemetry.io/otel/trace"
	"go.opentelemetry.io/otel/trace/noop"
	collectorlogs "go.opentelemetry.io/proto/otlp/collector/logs/v1"
	collectortrace "go.opentelemetry.io/proto/otlp/collector/trace/v1"
	common "go.opentelemetry.io/proto/otlp/common/v1"
	logspb "go.opentelemetry.io/proto/otlp/logs/v1"
	resourcepb "go.opentelemetry.io/proto/otlp/resource/v1"
	tracepb "go.opentelemetry.io/proto/otlp/trace/v1"
	"google.golang.org/grpc"
	"google.golang.org/grpc/codes"
	"google.golang.org/grpc/credentials/insecure"
	"google.golang.org/grpc/metadata"
	"google.golang.org/grpc/status"
	"google.golang.org/protobuf/encoding/protojson"
	"google.golang.org/protobuf/proto"

	"github.com/honeycombio/refinery/collect"
	"github.com/honeycombio/refinery/config"
	"github.com/honeycombio/refinery/internal/health"
	"github.com/honeycombio/refinery/internal/peer"
	"github.com/honeycombio/refinery/internal/verifkit"
	"github.com/honeycombio/refinery/logger"
	"github.com/honeycombio/refinery/metrics"
	"github.com/honeycombio/refinery/pubsub"
	"github.com/honeycombio/refinery/sample"
	"github.com/honeycombio/refinery/sharder"
	"github.com/honeycombio/refinery/transmit"
	"github.com/honeycombio/refinery/types"
)

// -------------------------------------------------------------------------------------
// Batch file exchanged between parent and child
// -------------------------------------------------------------------------------------

type c28Req struct {
	Index      int               `json:"index"`
	Proto      string            `json:"proto"`    // "http" | "grpc"
	Listener   string            `json:"listener"` // "incoming" | "peer" (http only)
	Raw        []byte            `json:"raw,omitempty"`
	HalfClose  bool              `json:"half_close,omitempty"` // close the write side after sending (declared length > body)
	Method     string            `json:"method,omitempty"`     // grpc full method
	MD         map[string]string `json:"md,omitempty"`
	Payload    []byte            `json:"payload,omitempty"`
	Gzip      bool              `json:"gzip,omitempty"` // grpc message compression
	RawGzip   bool              `json:"raw_gzip,omitempty"` // grpc: Payload is sent as is, flagged as a gzip-compressed message
	WatchdogMs int               `json:"watchdog_ms,omitempty"` // 0 = the batch's
	BodyLen    int               `json:"-"`                     // parent only: len(Raw) / len(Payload) before the parent trimmed them
	Class      string            `json:"class"`                 // route / content / encoding / body class
	Desc       string            `json:"desc"`
}

type c28Profile struct {
	Name       string `json:"name"`
	ConfigYAML string `json:"config_yaml"` // placeholders @LISTEN@ @PEER@ @GRPC@ @API@
	RulesYAML  string `json:"rules_yaml"`
	PeerShare  int    `json:"peer_share"` // 1/PeerShare of the trace ids are owned by "the peer" (own peer listener); 0 = none
}

type c28Batch struct {
	Scale      int        `json:"scale"`       // 16 quick, 1 thorough: stack limit = 1e9/Scale, extreme inputs sized limit/Scale
	WatchdogMs int        `json:"watchdog_ms"` // per request
	Profile    c28Profile `json:"profile"`
	Requests   []c28Req   `json:"requests"`
}

const (
	c28KeyLegacy  = "c9945edf5d245834089a1bd6cc9ad01e"
	c28KeyLegacy2 = "0123456789abcdef0123456789abcdef"
	c28KeyIngest  = "hcxik_01hqk4k20cjeh63wca8vva5stw70nft6m5n8wr8f5mjx3762s8269j50wc" // 64 chars, classic ingest key pattern
	c28KeyEnv     = "abcdefghijklmnopqrstuv"                                           // environment lookup
	c28KeyEnv2    = "hcaik_01hqk4k20cjeh63wca8vva5stw70nft6m5n8wr8f5mjx3762s8269j50wcXX"
	c28QueryToken = "verif-query-token"
)

// -------------------------------------------------------------------------------------
// Child: the node
// -------------------------------------------------------------------------------------

type c28Shard struct{ addr string }

func (s *c28Shard) Equals(o sharder.Shard) bool { return s.addr == o.GetAddress() }
func (s *c28Shard) GetAddress() string          { return s.addr }

// c28Sharder: every share-th trace id (by FNV) belongs to peer, the rest to self.
type c28Sharder struct {
	self, peer *c28Shard
	share      int
}

func (s *c28Sharder) MyShard() sharder.Shard { return s.self }
func (s *c28Sharder) WhichShard(id string) sharder.Shard {
	if s.share > 0 {
		h := uint32(2166136261)
		for i := 0; i < len(id); i++ {
			h = (h ^ uint32(id[i])) * 16777619
		}
		if int(h%uint32(s.share)) == 0 {
			return s.peer
		}
	}
	return s.self
}

// c28CountingCollector counts the spans the routers handed to the real collector.
type c28CountingCollector struct {
	collect.Collector
	added atomic.Int64
}

func (c *c28CountingCollector) AddSpan(sp *types.Span) error {
	err := c.Collector.AddSpan(sp)
	if err == nil {
		c.added.Add(1)
	}
	return err
}
func (c *c28CountingCollector) AddSpanFromPeer(sp *types.Span) error {
	err := c.Collector.AddSpanFromPeer(sp)
	if err == nil {
		c.added.Add(1)
	}
	return err
}

// c28Routers mirrors app.App's two inline routers.
type c28Routers struct {
	Incoming Router `inject:"inline"`
	Peer     Router `inject:"inline"`
}

// c28ReqLogger: null logger that prints the FORMAT of error-level lines announcing an
// exit, so that verifkit.CrashSite can attribute an os.Exit.
type c28ReqLogger struct{ logger.NullLogger }
type c28ReqErrEntry struct{}

func (*c28ReqLogger) Error() logger.Entry                               { return c28ReqErrEntry{} }
func (e c28ReqErrEntry) WithField(string, interface{}) logger.Entry     { return e }
func (e c28ReqErrEntry) WithString(string, string) logger.Entry         { return e }
func (e c28ReqErrEntry) WithFields(map[string]interface{}) logger.Entry { return e }
func (e c28ReqErrEntry) Logf(f string, args ...interface{}) {
	if strings.Contains(f, "Exiting") {
		fmt.Fprintln(os.Stderr, verifkit.ErrLogPrefix+f)
	}
}

type c28Node struct {
	cfg        config.Config
	metrics    *metrics.MultiMetrics
	counting   *c28CountingCollector
	routers    *c28Routers
	graph      *inject.Graph
	sink       *http.Server
	sinkLn     net.Listener
	httpAddr   [2]string // incoming, peer
	grpcAddr   string
	grpcConn   *grpc.ClientConn
	grpcRawZ   *grpc.ClientConn // same server; messages go out unmodified but flagged "gzip"
	sinkEvents atomic.Int64
}

var c28PortCounter atomic.Int64

// c28FreePorts probes ports BELOW the kernel's ephemeral range (outgoing connections of other
// processes cannot grab them between probing and binding; Router.LnS does not survive a
// failed gRPC listen: it serves a nil listener).
func c28FreePorts(n int) ([]string, error) {
	var ls []net.Listener
	var out []string
	for tries := 0; len(out) < n && tries < 200; tries++ {
		port := 10000 + int((int64(os.Getpid())*131+c28PortCounter.Add(1)*7919+time.Now().UnixNano()/1000)%20000)
		l, err := net.Listen("tcp", "127.0.0.1:"+strconv.Itoa(port))
		if err != nil {
			continue
		}
		ls = append(ls, l)
		out = append(out, l.Addr().String())
	}
	if len(out) < n {
		for _, l := range ls {
			l.Close()
		}
		return nil, fmt.Errorf("no free loopback ports")
	}
	for _, l := range ls {
		l.Close()
	}
	return out, nil
}

// c28StartSink: what Honeycomb would be: /1/auth answers an environment, /1/batch one
// 202 per event, anything else (proxied paths) a small JSON document.
func (n *c28Node) startSink() error {
	ln, err := net.Listen("tcp", "127.0.0.1:0")
	if err != nil {
		return err
	}
	n.sinkLn = ln
	n.sink = &http.Server{Handler: http.HandlerFunc(func(w http.ResponseWriter, r *http.Request) {
		body, _ := io.ReadAll(io.LimitReader(r.Body, 64<<20))
		switch {
		case r.URL.Path == "/1/auth":
			key := r.Header.Get("X-Honeycomb-Team")
			if strings.Contains(key, "deny") {
				w.WriteHeader(401)
				return
			}
			env := "env-a"
			if len(key)%2 == 1 {
				env = "env-b"
			}
			w.Header().Set("Content-Type", "application/json")
			fmt.Fprintf(w, `{"api_key_access":{"events":true},"team":{"slug":"verif"},"environment":{"slug":%q,"name":%q},"id":"kid%d"}`, env, env, len(key)%3)
		case strings.HasPrefix(r.URL.Path, "/1/batch/"):
			cnt := 0
			fromNode := strings.HasPrefix(r.Header.Get("User-Agent"), "refinery/") // the node's upstream transmission, not a proxied request
			if fromNode && r.Header.Get("Content-Encoding") == "zstd" {
				if dec, err := verifkit.Decompress("zstd", body); err == nil {
					body = dec
				}
			}
			if fromNode && len(body) > 0 {
				switch c := body[0]; {
				case c >= 0x90 && c <= 0x9f:
					cnt = int(c & 0x0f)
				case c == 0xdc && len(body) >= 3:
					cnt = int(binary.BigEndian.Uint16(body[1:]))
				case c == 0xdd && len(body) >= 5:
					cnt = int(binary.BigEndian.Uint32(body[1:]))
				}
			}
			cnt = min(cnt, 100_000) // proxied requests carry arbitrary bodies here
			n.sinkEvents.Add(int64(cnt))
			w.Header().Set("Content-Type", "application/json")
			w.Write([]byte("[" + strings.TrimSuffix(strings.Repeat(`{"status":202},`, cnt), ",") + "]"))
		default:
			w.Header().Set("Content-Type", "application/json")
			w.Header().Add("X-Verif-Sink", "a")
			w.Header().Add("X-Verif-Sink", "b")
			w.Write([]byte(`{"sink":"ok"}`))
		}
	})}
	go n.sink.Serve(ln)
	return nil
}

func c28StartNode(p c28Profile, dir string) (*c28Node, error) {
	n := &c28Node{}
	if err := n.startSink(); err != nil {
		return nil, err
	}
	var lastErr error
	for attempt := 0; attempt < 4; attempt++ {
		if err := n.startOnce(p, dir); err != nil {
			lastErr = err
			continue
		}
		return n, nil
	}
	return nil, lastErr
}

func (n *c28Node) startOnce(p c28Profile, dir string) error {
	ports, err := c28FreePorts(3)
	if err != nil {
		return err
	}
	n.httpAddr = [2]string{ports[0], ports[1]}
	n.grpcAddr = ports[2]
	rep := strings.NewReplacer("@LISTEN@", ports[0], "@PEER@", ports[1], "@GRPC@", ports[2], "@API@", "http://"+n.sinkLn.Addr().String())
	cfgPath, rulesPath := filepath.Join(dir, "config.yaml"), filepath.Join(dir, "rules.yaml")
	if err := os.WriteFile(cfgPath, []byte(rep.Replace(p.ConfigYAML)), 0o644); err != nil {
		return err
	}
	if err := os.WriteFile(rulesPath, []byte(p.RulesYAML), 0o644); err != nil {
		return err
	}
	cfg, err := config.NewConfig(&config.CmdEnv{ConfigLocations: []string{cfgPath}, RulesLocations: []string{rulesPath}})
	if cfg == nil {
		return fmt.Errorf("HARNESS: profile %s does not validate: %v", p.Name, err)
	}
	n.cfg = cfg
	lgr := &c28ReqLogger{}
	collector := collect.GetCollectorImplementation(cfg).(*collect.InMemCollector)
	n.metrics = metrics.GetMetricsImplementation(cfg)
	peerURL := "http://" + ports[1]
	mine := &c28Sharder{self: &c28Shard{addr: "http://self.verif.invalid:8081"}}
	fwd := &c28Sharder{self: mine.self, peer: &c28Shard{addr: peerURL}, share: p.PeerShare}
	done := make(chan struct{})
	upT := &http.Transport{Proxy: nil, TLSHandshakeTimeout: 15 * time.Second}
	peerT := &http.Transport{Proxy: nil, TLSHandshakeTimeout: 1200 * time.Millisecond}
	upTx := transmit.NewDirectTransmission(types.TransmitTypeUpstream, upT, int(cfg.GetTracesConfig().GetMaxBatchSize()),
		time.Duration(cfg.GetTracesConfig().GetBatchTimeout()), 30*time.Second, true, cfg.GetAdditionalHeaders())
	peerTx := transmit.NewDirectTransmission(types.TransmitTypePeer, peerT, int(cfg.GetTracesConfig().GetMaxBatchSize()),
		time.Duration(cfg.GetTracesConfig().GetBatchTimeout()), 10*time.Second, cfg.GetCompressPeerCommunication(), nil)
	var nullA metrics.MetricsBackend = &metrics.NullMetrics{}
	var nullB metrics.MetricsBackend = &metrics.NullMetrics{}
	n.routers = &c28Routers{}
	g := &inject.Graph{}
	objects := []*inject.Object{
		{Value: cfg},
		{Value: peer.NewMockPeers([]string{peerURL}, "verif-c28")},
		{Value: &pubsub.LocalPubSub{}},
		{Value: lgr},
		{Value: upT, Name: "upstreamTransport"},
		{Value: peerT, Name: "peerTransport"},
		{Value: upTx, Name: "upstreamTransmission"},
		{Value: peerTx, Name: "peerTransmission"},
		{Value: mine},
		{Value: collector},
		{Value: nullA, Name: "promMetrics"},
		{Value: nullB, Name: "otelMetrics"},
		{Value: trace.Tracer(noop.Tracer{}), Name: "tracer"},
		{Value: clockwork.NewRealClock()},
		{Value: n.metrics, Name: "metrics"},
		{Value: "verif-c28", Name: "version"},
		{Value: &sample.SamplerFactory{}},
		{Value: &collect.StressRelief{Done: done}, Name: "stressRelief"},
		{Value: &health.Health{}},
		{Value: n.routers},
		{Value: "verif-c28-node", Name: "instanceID"},
	}
	if err := g.Provide(objects...); err != nil {
		return fmt.Errorf("HARNESS: provide: %w", err)
	}
	if err := g.Populate(); err != nil {
		return fmt.Errorf("HARNESS: populate: %w", err)
	}
	n.graph = g
	if err := startstop.Start(g.Objects(), nil); err != nil {
		return fmt.Errorf("HARNESS: start: %w", err)
	}
	n.counting = &c28CountingCollector{Collector: collector}
	n.routers.Incoming.Collector, n.routers.Peer.Collector = n.counting, n.counting
	n.routers.Incoming.Sharder, n.routers.Peer.Sharder = fwd, mine
	n.routers.Incoming.SetVersion("verif-c28")
	n.routers.Peer.SetVersion("verif-c28")
	n.routers.Incoming.SetType(types.RouterTypeIncoming)
	n.routers.Peer.SetType(types.RouterTypePeer)
	n.routers.Incoming.LnS()
	n.routers.Peer.LnS()
	// wait until both HTTP listeners answer /version
	deadline := time.Now().Add(5 * time.Second)
	for _, a := range n.httpAddr {
		for {
			resp, err := c28RawHTTPDo(a, []byte("GET /version HTTP/1.1\r\nHost: x\r\nConnection: close\r\n\r\n"), false, 2*time.Second)
			if err == nil && strings.Contains(resp, "verif-c28") {
				break
			}
			if time.Now().After(deadline) {
				n.stop()
				return fmt.Errorf("HARNESS: listener %s did not come up: %v %q", a, err, resp)
			}
			time.Sleep(5 * time.Millisecond)
		}
	}
	conn, err := grpc.NewClient(n.grpcAddr, grpc.WithTransportCredentials(insecure.NewCredentials()),
		grpc.WithDefaultCallOptions(grpc.MaxCallSendMsgSize(math.MaxInt32)))
	if err != nil {
		return fmt.Errorf("HARNESS: grpc client: %w", err)
	}
	n.grpcConn = conn
	conn2, err := grpc.NewClient(n.grpcAddr, grpc.WithTransportCredentials(insecure.NewCredentials()),
		grpc.WithDefaultCallOptions(grpc.MaxCallSendMsgSize(math.MaxInt32)), grpc.WithCompressor(c28PassThroughGzip{}))
	if err != nil {
		return fmt.Errorf("HARNESS: grpc client: %w", err)
	}
	n.grpcRawZ = conn2
	return nil
}

func (n *c28Node) metric(name string) int64 {
	v, _ := n.metrics.Get(name)
	return int64(v)
}

// idle: every span handed to the collector has been processed, every accepted trace has
// been decided, both transmissions are empty. Polled; a timeout is not a verdict.
func (n *c28Node) waitIdle(bound time.Duration) bool {
	deadline := time.Now().Add(bound)
	stable := 0
	for {
		ok := n.metric("span_processed") >= n.counting.added.Load() &&
			n.metric("trace_accepted") == n.metric("trace_send_kept")+n.metric("trace_send_dropped") &&
			n.metric("libhoney_upstream_queued_items") == 0 && n.metric("libhoney_peer_queued_items") == 0
		if ok {
			stable++
			if stable >= 3 {
				return true
			}
		} else {
			stable = 0
		}
		if time.Now().After(deadline) {
			return false
		}
		time.Sleep(3 * time.Millisecond)
	}
}

func (n *c28Node) stop() {
	if n.grpcConn != nil {
		n.grpcConn.Close()
	}
	if n.grpcRawZ != nil {
		n.grpcRawZ.Close()
	}
	if n.graph != nil {
		// stops routers (Router.Stop), collector, transmissions ... in reverse dependency order, as main.go does
		d := make(chan struct{})
		go func() { defer close(d); _ = startstop.Stop(n.graph.Objects(), nil) }()
		select {
		case <-d:
		case <-time.After(30 * time.Second):
		}
	}
}

// c28PassThroughGzip is a client-side-only grpc.Compressor that claims "gzip" and writes the
// message bytes unchanged: the payload is a hand-made (forged) gzip member which the server's
// real gzip decompressor has to deal with. It is not registered in the global encoding registry.
type c28PassThroughGzip struct{}

func (c28PassThroughGzip) Do(w io.Writer, p []byte) error { _, err := w.Write(p); return err }
func (c28PassThroughGzip) Type() string                   { return "gzip" }

// c28RawHTTPDo writes raw request bytes to addr and returns everything the server sent.
func c28RawHTTPDo(addr string, raw []byte, halfClose bool, bound time.Duration) (string, error) {
	conn, err := net.DialTimeout("tcp", addr, 5*time.Second)
	if err != nil {
		return "", err
	}
	defer conn.Close()
	conn.SetDeadline(time.Now().Add(bound))
	var werr error
	wdone := make(chan struct{})
	go func() {
		defer close(wdone)
		_, werr = conn.Write(raw)
		if halfClose {
			if tc, ok := conn.(*net.TCPConn); ok {
				tc.CloseWrite()
			}
		}
	}()
	resp, rerr := io.ReadAll(io.LimitReader(conn, 1<<20))
	<-wdone
	if len(resp) > 0 {
		return string(resp), nil
	}
	if rerr == nil {
		rerr = werr
	}
	return "", rerr
}

// send executes one request against the node and returns the WAL note.
func (n *c28Node) send(r *c28Req, watchdog time.Duration) string {
	if r.Proto == "grpc" {
		ctx, cancel := context.WithTimeout(context.Background(), watchdog)
		defer cancel()
		ctx = metadata.NewOutgoingContext(ctx, metadata.New(r.MD))
		var out []byte
		opts := []grpc.CallOption{grpc.ForceCodec(e3RawCodec{})}
		if r.Gzip {
			opts = append(opts, grpc.UseCompressor("gzip"))
		}
		payload := r.Payload
		conn := n.grpcConn
		if r.RawGzip {
			conn = n.grpcRawZ
		}
		err := conn.Invoke(ctx, r.Method, &payload, &out, opts...)
		code := codes.OK
		if err != nil {
			st, _ := status.FromError(err)
			code = st.Code()
		}
		if code == codes.DeadlineExceeded {
			return "HANG grpc"
		}
		return "g" + strconv.Itoa(int(code))
	}
	addr := n.httpAddr[0]
	if r.Listener == "peer" {
		addr = n.httpAddr[1]
	}
	resp, err := c28RawHTTPDo(addr, r.Raw, r.HalfClose, watchdog)
	if err != nil {
		if ne, ok := err.(net.Error); ok && ne.Timeout() {
			return "HANG http"
		}
		return "closed"
	}
	if len(resp) >= 12 && strings.HasPrefix(resp, "HTTP/1.") {
		return "h" + resp[9:12]
	}
	return "h???"
}

func TestVerif_C28RequestsChild(t *testing.T) {
	bf, start, ok := verifkit.InChild()
	if !ok {
		t.Skip("not a child")
	}
	b, err := os.ReadFile(bf)
	if err != nil {
		t.Fatal(err)
	}
	var batch c28Batch
	if err := json.Unmarshal(b, &batch); err != nil {
		t.Fatal(err)
	}
	// contain runaway allocations: a request of a few MB that makes the process map
	// more than this is a crash ("runtime: out of memory") on any realistic host
	asLimit := uint64(16 << 30) // full-size stacks (1 GB, copied while growing) must fit
	if batch.Scale > 1 {
		asLimit = 4 << 30
	}
	_ = syscall.Setrlimit(syscall.RLIMIT_AS, &syscall.Rlimit{Cur: asLimit, Max: asLimit})
	if batch.Scale > 1 {
		debug.SetMaxStack(1_000_000_000 / batch.Scale)
	}
	wal, err := verifkit.OpenWAL()
	if err != nil {
		t.Fatal(err)
	}
	defer wal.Close()
	node, err := c28StartNode(batch.Profile, t.TempDir())
	if err != nil {
		t.Fatal(err)
	}
	only := os.Getenv("VERIF_CHILD_ONLY") != ""
	drainEach := os.Getenv("VERIF_CHILD_DRAIN_EACH") != ""
	until := len(batch.Requests) - 1
	if s := os.Getenv("VERIF_CHILD_UNTIL"); s != "" {
		until, _ = strconv.Atoi(s)
	}
	watchdog := time.Duration(batch.WatchdogMs) * time.Millisecond
	for i := start; i <= until && i < len(batch.Requests); i++ {
		wal.Begin(i)
		wd := watchdog
		if ms := batch.Requests[i].WatchdogMs; ms > 0 {
			wd = time.Duration(ms) * time.Millisecond
		}
		note := node.send(&batch.Requests[i], wd)
		if strings.HasPrefix(note, "HANG") {
			buf := make([]byte, 1<<20)
			buf = buf[:runtime.Stack(buf, true)]
			// "[running]" would make verifkit.CrashSite take this dump for a crash dump
			fmt.Fprintf(os.Stderr, "VERIF-HANG request %d\n%s\n", i, strings.ReplaceAll(string(buf), "[running]", "[dumping]"))
		}
		if drainEach {
			if !node.waitIdle(5 * time.Second) {
				note += " undrained"
			}
		}
		wal.Done(i, note)
		if strings.HasPrefix(note, "HANG") {
			// the request is still being processed somewhere in this process; whatever it does
			// (memory, CPU) would be blamed on the following requests: end this child here,
			// the parent continues with a fresh one
			return
		}
		if only {
			break
		}
	}
	// drain: everything accepted goes through a sampler decision and out of the
	// transmissions before the process ends; a crash here belongs to the batch
	wal.Begin(len(batch.Requests))
	idle := node.waitIdle(8 * time.Second)
	node.stop()
	wal.Done(len(batch.Requests), fmt.Sprintf("drained idle=%v added=%d decided=%d sink_events=%d", idle, node.counting.added.Load(),
		node.metric("trace_send_kept")+node.metric("trace_send_dropped"), node.sinkEvents.Load()))
}

var _ = sort.Strings

// -------------------------------------------------------------------------------------
// Parent: node profiles (validated configuration + rules reading the fuzzed fields)
// -------------------------------------------------------------------------------------

const c28RulesYAML = `RulesVersion: 2
Samplers:
  __default__:
    RulesBasedSampler:
      CheckNestedFields: @NESTED@
      Rules:
        - Name: drop probes
          Drop: true
          Conditions:
            - Field: a
              Operator: "="
              Value: dropme
        - Name: int compare
          SampleRate: 2
          Conditions:
            - Fields: [http.status, b]
              Operator: ">="
              Value: 400
              Datatype: int
        - Name: float compare
          SampleRate: 3
          Scope: span
          Conditions:
            - Field: duration_ms
              Operator: "<"
              Value: 1.5
              Datatype: float
            - Field: a
              Operator: exists
        - Name: strings
          SampleRate: 1
          Conditions:
            - Field: a
              Operator: contains
              Value: x
              Datatype: string
            - Field: nested.x
              Operator: starts-with
              Value: "2"
        - Name: regex and in
          SampleRate: 4
          Conditions:
            - Field: b
              Operator: matches
              Value: "^[0-9a-f]+$"
            - Field: http.status
              Operator: in
              Value: [200, 201, 404]
              Datatype: int
        - Name: bool and root
          SampleRate: 1
          Conditions:
            - Field: root.a
              Operator: "!="
              Value: true
              Datatype: bool
            - Field: "?.NUM_DESCENDANTS"
              Operator: ">"
              Value: 1
        - Name: no root
          Conditions:
            - Operator: has-root-span
              Value: false
          Sampler:
            EMADynamicSampler:
              GoalSampleRate: 2
              FieldList: [a, b, root.http.status]
        - Name: fallthrough dynamic
          Sampler:
            DynamicSampler:
              SampleRate: 2
              ClearFrequency: 1s
              FieldList: [a, b, http.status, nested.x]
              UseTraceLength: true
  dyn:
    DynamicSampler:
      SampleRate: 3
      ClearFrequency: 1s
      FieldList: [a, http.status, nested]
  ema:
    EMADynamicSampler:
      GoalSampleRate: 2
      AdjustmentInterval: 1s
      FieldList: [a, b, root.a]
      UseTraceLength: true
  emat:
    EMAThroughputSampler:
      GoalThroughputPerSec: 10
      AdjustmentInterval: 1s
      FieldList: [a, http.status]
  win:
    WindowedThroughputSampler:
      GoalThroughputPerSec: 10
      UpdateFrequency: 1s
      LookbackFrequency: 5s
      FieldList: [b, nested.x]
  tot:
    TotalThroughputSampler:
      GoalThroughputPerSec: 10
      ClearFrequency: 1s
      FieldList: [a, b]
  det:
    DeterministicSampler:
      SampleRate: 2
  env-a:
    DynamicSampler:
      SampleRate: 2
      ClearFrequency: 1s
      FieldList: [a, b, http.status]
`

var c28Datasets = []string{"dyn", "ema", "emat", "win", "tot", "det", "other", "a b", "x/y", "é✓"}

func c28GenProfile(rng *verifkit.Rand, idx int) c28Profile {
	yn := func() string { return strconv.FormatBool(rng.Bool()) }
	stress := verifkit.Pick(rng, "never", "never", "never", "always")
	keys := ""
	switch rng.Intn(4) {
	case 0:
		keys = fmt.Sprintf("AccessKeys:\n  ReceiveKeys: [%s, %s]\n  AcceptOnlyListedKeys: true\n  SendKey: %s\n  SendKeyMode: listedonly\n", c28KeyLegacy, c28KeyEnv, c28KeyLegacy2)
	case 1:
		keys = fmt.Sprintf("AccessKeys:\n  ReceiveKeys: [%s]\n  ReceiveKeyIDs: [kid1]\n  AcceptOnlyListedKeys: false\n  SendKey: %s\n  SendKeyMode: missingonly\n", c28KeyLegacy2, c28KeyLegacy)
	case 2:
		keys = fmt.Sprintf("AccessKeys:\n  SendKey: %s\n  SendKeyMode: all\n", c28KeyEnv)
	}
	ids := verifkit.Pick(rng, "", "IDFields:\n  TraceNames: [trace.trace_id, traceId, a]\n  ParentNames: [trace.parent_id, parentId]\n")
	share := verifkit.Pick(rng, 0, 2, 3, 4)
	cfgYAML := fmt.Sprintf(`General:
  ConfigurationVersion: 2
Network:
  ListenAddr: "@LISTEN@"
  PeerListenAddr: "@PEER@"
  HoneycombAPI: "@API@"
%s%sRefineryTelemetry:
  AddRuleReasonToTrace: %s
  AddSpanCountToRoot: %s
  AddCountsToRoot: %s
  AddHostMetadataToTrace: %s
Traces:
  SendDelay: 100ms
  BatchTimeout: 10ms
  TraceTimeout: 1s
  SendTicker: 5ms
  SpanLimit: %d
  MaxBatchSize: 100
Debugging:
  QueryAuthToken: %s
  DryRun: %s
  AdditionalErrorFields: [a, trace.trace_id, nested]
PeerManagement:
  Type: file
  Peers: ["http://@PEER@"]
Collection:
  WorkerCount: 2
  IncomingQueueSize: 3000
  PeerQueueSize: 3000
GRPCServerParameters:
  Enabled: true
  ListenAddr: "@GRPC@"
SampleCache:
  KeptSize: 1000
  DroppedSize: 10000
StressRelief:
  Mode: %s
  SamplingRate: 2
Specialized:
  AdditionalAttributes:
    verif.extra: "1"
    a: overwritten
OpAMP:
  Enabled: false
`, keys, ids, yn(), yn(), yn(), yn(), verifkit.Pick(rng, 0, 3, 32000), c28QueryToken, verifkit.Pick(rng, "false", "false", "true"), stress)
	return c28Profile{
		Name:       fmt.Sprintf("p%d-stress=%s-share=%d", idx, stress, share),
		ConfigYAML: cfgYAML,
		RulesYAML:  strings.ReplaceAll(c28RulesYAML, "@NESTED@", yn()),
		PeerShare:  share,
	}
}

// -------------------------------------------------------------------------------------
// Parent: hostile values, encodings and byte-level mutations
// -------------------------------------------------------------------------------------

var c28Strings = []string{"", "x", "dropme", "200", "true", "2xx", "deadbeef", "a\x00b", "\xff\xfe\xfd", "é✓", " ", "%s%d%n", "\"quoted\"\\", "null", "NaN", "1e999", "-0"}

func c28Str(rng *verifkit.Rand) string {
	switch rng.Intn(12) {
	case 0:
		return strings.Repeat("A", verifkit.Pick(rng, 31, 32, 255, 256, 65535, 65536, 70000))
	case 1:
		return rng.Hex(rng.Range(0, 40))
	default:
		return c28Strings[rng.Intn(len(c28Strings))]
	}
}

// c28Val: a hostile field value (depth-bounded).
func c28Val(rng *verifkit.Rand, depth int) E3Val {
	k := rng.Intn(24)
	if depth <= 0 && k >= 18 {
		k = rng.Intn(18)
	}
	switch k {
	case 0:
		return VNil()
	case 1:
		return VBool(rng.Bool())
	case 2, 3:
		return VInt(verifkit.Pick[int64](rng, 0, 1, -1, 200, 404, 500, 127, 128, -32, -33, 65535, 1<<31, 1<<53+1, math.MaxInt64, math.MinInt64))
	case 4:
		return VUintW(verifkit.Pick[uint64](rng, 0, 255, 1<<32, math.MaxUint64, 1<<63), verifkit.Pick(rng, 0, 8, 16, 32, 64))
	case 5:
		return VF64(verifkit.Pick(rng, 0.0, 1.5, -1.5, math.NaN(), math.Inf(1), math.Inf(-1), 1e308, 5e-324, math.Copysign(0, -1), 1e19, -1e19))
	case 6:
		return VF32(verifkit.Pick[float32](rng, 0.1, float32(math.NaN()), float32(math.Inf(1)), 3.4e38))
	case 7, 8, 9, 10:
		return VStr(c28Str(rng))
	case 11:
		return VStrW(c28Str(rng), verifkit.Pick(rng, 8, 16, 32))
	case 12:
		return VBin([]byte(c28Str(rng)))
	case 13:
		return verifkit.Pick(rng, VTs32(1700000000), VTs64(1700000000, 999999999), VTs96(-1, 5), VTs96(math.MaxInt64, 999999999), VTs64(1<<34-1, 1<<30-1), VTs96(1, 2000000000))
	case 14:
		return VExt(int8(verifkit.Pick(rng, 0, 1, 5, -2, -128, 127, 99)), c28Random(rng, verifkit.Pick(rng, 0, 1, 2, 3, 4, 8, 16, 300)))
	case 15:
		return VExt(-1, []byte(rng.Hex(32))[:verifkit.Pick(rng, 0, 1, 3, 5, 7, 9, 11, 13)]) // timestamp ext of illegal length
	case 16:
		return VStr(verifkit.Pick(rng, "span_event", "link", "log", "trace", "", "unknown"))
	case 17:
		return VInt(int64(rng.Intn(1000)))
	case 18, 19, 20:
		n := rng.Range(0, 4)
		var xs []E3Val
		for i := 0; i < n; i++ {
			xs = append(xs, c28Val(rng, depth-1))
		}
		v := VArr(xs...)
		if rng.Chance(0.2) {
			v.Width = verifkit.Pick(rng, 16, 32)
		}
		return v
	default:
		n := rng.Range(0, 4)
		var kvs []E3KV
		for i := 0; i < n; i++ {
			kv := KV(verifkit.Pick(rng, "x", "y", "x", "", "a.b", c28Str(rng)), c28Val(rng, depth-1))
			kv.KeyBin = rng.Chance(0.1)
			kvs = append(kvs, kv)
		}
		v := VMap(kvs...)
		if rng.Chance(0.2) {
			v.Width = verifkit.Pick(rng, 16, 32)
		}
		return v
	}
}

var c28FieldNamesReq = []string{"a", "b", "http.status", "nested", "nested.x", "duration_ms", "name", "service.name", "c", ""}

var c28MetaFields = []string{"meta.signal_type", "meta.trace_id", "meta.annotation_type", "meta.refinery.probe", "meta.refinery.root",
	"meta.refinery.incoming_user_agent", "meta.refinery.local_hostname", "meta.stressed", "meta.refinery.reason", "meta.refinery.send_reason",
	"meta.span_event_count", "meta.span_link_count", "meta.span_count", "meta.event_count", "meta.refinery.original_sample_rate",
	"meta.refinery.final_sample_rate", "meta.refinery.sample_key", "meta.dryrun.kept", "meta.unknown"}

// c28TraceIDs: a small pool so that spans join traces, plus odd ones.
func c28TraceID(rng *verifkit.Rand) E3Val {
	switch rng.Intn(14) {
	case 0:
		return VStr("")
	case 1:
		return VInt(12345)
	case 2:
		return VBin([]byte("binary-trace-id"))
	case 3:
		return VStr(strings.Repeat("t", verifkit.Pick(rng, 1000, 70000)))
	case 4:
		return VNil()
	case 5:
		return VMap(KV("id", VStr("x")))
	case 6:
		return VStr(rng.Hex(32))
	default:
		return VStr(fmt.Sprintf("trace-%d", rng.Intn(40)))
	}
}

// c28EventTree: the "data" map of one libhoney event. weird = probability of a hostile choice.
func c28EventTree(rng *verifkit.Rand, weird float64) E3Val {
	var kvs []E3KV
	if rng.Chance(0.85) {
		name := verifkit.Pick(rng, "trace.trace_id", "trace.trace_id", "traceId", "a")
		if rng.Chance(weird) {
			kvs = append(kvs, KV(name, c28TraceID(rng)))
		} else {
			kvs = append(kvs, KV(name, VStr(fmt.Sprintf("trace-%d", rng.Intn(40)))))
		}
	}
	if rng.Chance(0.6) {
		name := verifkit.Pick(rng, "trace.parent_id", "parentId")
		if rng.Chance(weird) {
			kvs = append(kvs, KV(name, c28Val(rng, 1)))
		} else {
			kvs = append(kvs, KV(name, VStr(rng.Hex(16))))
		}
	}
	nf := rng.Range(0, 6)
	for i := 0; i < nf; i++ {
		name := c28FieldNamesReq[rng.Intn(len(c28FieldNamesReq))]
		if rng.Chance(weird) {
			kvs = append(kvs, KV(name, c28Val(rng, 3)))
		} else {
			kvs = append(kvs, KV(name, verifkit.Pick(rng, VStr("x1"), VInt(200), VInt(500), VF64(0.5), VBool(true), VStr("dropme"), VMap(KV("x", VStr("2y"))))))
		}
	}
	if rng.Chance(0.3 + weird/2) {
		nm := rng.Range(1, 3)
		for i := 0; i < nm; i++ {
			name := c28MetaFields[rng.Intn(len(c28MetaFields))]
			if rng.Chance(0.5) {
				kvs = append(kvs, KV(name, c28Val(rng, 1)))
			} else {
				kvs = append(kvs, KV(name, verifkit.Pick(rng, VBool(true), VBool(false), VInt(3), VStr("log"), VStr("span_event"), VStr("link"), VF64(2.5), VIntW(-1, 64))))
			}
		}
	}
	if rng.Chance(weird / 3) { // duplicate key
		if len(kvs) > 0 {
			kvs = append(kvs, KV(kvs[0].Key, c28Val(rng, 1)))
		}
	}
	if rng.Chance(weird / 4) {
		for i := 0; i < verifkit.Pick(rng, 16, 300, 70000); i++ { // map16 / map32 sized payloads
			kvs = append(kvs, KV("f"+strconv.Itoa(i), VInt(int64(i))))
		}
	}
	verifkit.Shuffle(rng, kvs)
	return VMap(kvs...)
}

// c28JSON renders the tree as (possibly non-standard) JSON: NaN/Infinity literals,
// invalid UTF-8 passed through, bin as string, ext as object, duplicate keys kept.
func c28JSON(b []byte, v E3Val) []byte {
	switch v.Kind {
	case KNil:
		return append(b, "null"...)
	case KBool:
		return strconv.AppendBool(b, v.Bool)
	case KInt:
		return strconv.AppendInt(b, v.Int, 10)
	case KUint:
		return strconv.AppendUint(b, v.Uint, 10)
	case KF32, KF64:
		switch {
		case math.IsNaN(v.F):
			return append(b, "NaN"...)
		case math.IsInf(v.F, 1):
			return append(b, "1e999"...)
		case math.IsInf(v.F, -1):
			return append(b, "-Infinity"...)
		}
		return strconv.AppendFloat(b, v.F, 'g', -1, 64)
	case KStr, KBin:
		s := v.Str
		if v.Kind == KBin {
			s = string(v.Bin)
		}
		b = append(b, '"')
		for i := 0; i < len(s); i++ {
			c := s[i]
			switch {
			case c == '"' || c == '\\':
				b = append(b, '\\', c)
			case c < 0x20:
				b = append(b, fmt.Sprintf("\\u%04x", c)...)
			default:
				b = append(b, c) // invalid UTF-8 goes out raw
			}
		}
		return append(b, '"')
	case KTime:
		return append(b, fmt.Sprintf("%q", time.Unix(v.Sec%4e9, v.Nsec%1e9).UTC().Format(time.RFC3339Nano))...)
	case KExt, KRaw:
		return append(b, fmt.Sprintf(`{"ext":%d,"b":%q}`, v.Ext, base64.StdEncoding.EncodeToString(v.Bin))...)
	case KArr:
		b = append(b, '[')
		for i, x := range v.Arr {
			if i > 0 {
				b = append(b, ',')
			}
			b = c28JSON(b, x)
		}
		return append(b, ']')
	case KMap:
		b = append(b, '{')
		for i, kv := range v.Map {
			if i > 0 {
				b = append(b, ',')
			}
			b = c28JSON(b, VStr(kv.Key))
			b = append(b, ':')
			b = c28JSON(b, kv.Val)
		}
		return append(b, '}')
	}
	return append(b, "null"...)
}

// c28HugeHeaders: msgpack headers declaring lengths the body does not have.
var c28HugeHeaders = [][]byte{
	{0xdd, 0xff, 0xff, 0xff, 0xff}, {0xdd, 0x7f, 0xff, 0xff, 0xff}, {0xdd, 0x01, 0x00, 0x00, 0x00}, {0xdc, 0xff, 0xff},
	{0xdf, 0xff, 0xff, 0xff, 0xff}, {0xdf, 0x00, 0x10, 0x00, 0x00}, {0xde, 0xff, 0xff},
	{0xdb, 0xff, 0xff, 0xff, 0xff}, {0xdb, 0x7f, 0xff, 0xff, 0xf0}, {0xda, 0xff, 0xff}, {0xd9, 0xff},
	{0xc6, 0xff, 0xff, 0xff, 0xff}, {0xc5, 0xff, 0xff}, {0xc9, 0xff, 0xff, 0xff, 0xff, 0xff}, {0xc8, 0xff, 0xff, 0x01}, {0xc7, 0xff, 0xff},
	{0xc1}, {0xd8, 0xff}, {0xd7, 0xff, 0xff, 0xff},
}

// c28Mutate applies 1..3 byte-level mutations; returns the mutated bytes and a class label.
func c28Mutate(rng *verifkit.Rand, in []byte, msgpackish bool) ([]byte, string) {
	b := append([]byte(nil), in...)
	label := ""
	for k := rng.Range(1, 3); k > 0; k-- {
		if len(b) == 0 {
			b = []byte{byte(rng.Intn(256))}
		}
		p := rng.Intn(len(b))
		switch m := rng.Intn(9); m {
		case 0:
			b = b[:p]
			label += "+trunc"
		case 1:
			b[p] = verifkit.Pick[byte](rng, 0x00, 0xff, 0x80, 0x7f, 0xc1, byte(rng.Intn(256)), b[p]^byte(1<<rng.Intn(8)))
			label += "+flip"
		case 2:
			b = append(b[:p], b[p+1:]...)
			label += "+del"
		case 3:
			ins := []byte{byte(rng.Intn(256))}
			if rng.Bool() {
				ins = bytes.Repeat([]byte{0xff}, 9)
				ins = append(ins, 0x01) // over-long varint
			}
			b = append(b[:p], append(ins, b[p:]...)...)
			label += "+ins"
		case 4:
			q := p + rng.Intn(len(b)-p)
			b = append(b[:q], append(append([]byte(nil), b[p:q]...), b[q:]...)...)
			label += "+dup"
		case 5:
			g := make([]byte, rng.Range(1, 16))
			for i := range g {
				g[i] = byte(rng.Intn(256))
			}
			b = append(b, g...)
			label += "+trail"
		case 6:
			if msgpackish {
				h := c28HugeHeaders[rng.Intn(len(c28HugeHeaders))]
				b = append(b[:p], append(append([]byte(nil), h...), b[p:]...)...)
				if rng.Bool() && p+len(h) < len(b) {
					b = append(b[:p+len(h)], b[p+len(h)+1:]...) // replace instead of insert
				}
				label += "+hugelen"
			} else {
				// protobuf / text: huge length varint or brace soup
				h := verifkit.Pick(rng, []byte{0xff, 0xff, 0xff, 0xff, 0x0f}, []byte{0xff, 0xff, 0xff, 0xff, 0xff, 0xff, 0xff, 0xff, 0x7f}, []byte("[[[[{{{{"), []byte{0x0b}, []byte{0x0c}, []byte{0x07})
				b = append(b[:p], append(append([]byte(nil), h...), b[p:]...)...)
				label += "+hugelen"
			}
		case 7:
			for i := p; i < len(b) && i < p+8; i++ {
				b[i] = byte(rng.Intn(256))
			}
			label += "+noise"
		default:
			if len(b) > 2 {
				q := rng.Intn(len(b))
				b[p], b[q] = b[q], b[p]
			}
			label += "+swap"
		}
	}
	return b, label
}

func c28Random(rng *verifkit.Rand, n int) []byte {
	b := make([]byte, n)
	for i := range b {
		b[i] = byte(rng.Intn(256))
	}
	return b
}

// -------------------------------------------------------------------------------------
// Parent: request builders
// -------------------------------------------------------------------------------------

type c28Gen struct {
	rng   *verifkit.Rand
	scale int // 16 quick, 1 thorough
	force int // extreme slots: 1 = msgpack / protobuf, 2 = JSON; 0 = PRNG's choice
	// benign: the request wrapper (method, path, key, headers, transport) is well-formed so
	// that the body is what reaches the decoder (used for the maximal-nesting inputs)
	benign bool
}

// nestPrefix returns depth copies of unit (deep nesting with a tiny body).
func c28Nest(unit []byte, depth int) []byte { return bytes.Repeat(unit, depth) }

// body of a libhoney request: returns bytes, content type and class label
func (g *c28Gen) libhoneyBody(batch bool, extreme bool) (body []byte, ct string, class string) {
	rng := g.rng
	msgpack := rng.Bool()
	if g.force != 0 {
		msgpack = g.force == 1
	}
	ct = verifkit.Pick(rng, "application/json", "application/json", "application/json; charset=utf-8", "text/plain", "")
	if msgpack {
		ct = verifkit.Pick(rng, "application/msgpack", "application/x-msgpack")
	}
	enc := func(v E3Val) []byte {
		if msgpack {
			return e3AppendMsgpack(nil, v)
		}
		return c28JSON(nil, v)
	}
	fam := "json"
	if msgpack {
		fam = "msgpack"
	}
	if extreme {
		// nesting as deep as the 5 MB body limit allows (divided by scale)
		depth := 5_000_000 / g.scale
		var pre, post []byte
		how := rng.Intn(3)
		if msgpack {
			switch how {
			case 0:
				pre, post = c28Nest([]byte{0x91}, depth), []byte{0xc0}
			case 1:
				pre, post = c28Nest([]byte{0x81, 0xa1, 'k'}, depth/3), []byte{0xc0}
			default:
				pre, post = c28Nest([]byte{0x92, 0x01}, depth/2), []byte{0xc0}
			}
			head := []byte{0x81, 0xa1, 'a'}
			if batch {
				head = append([]byte{0x91, 0x81, 0xa4, 'd', 'a', 't', 'a'}, head...)
			}
			return append(append(head, pre...), post...), ct, fam + "/extreme-depth-" + strconv.Itoa(how)
		}
		switch how {
		case 0:
			pre, post = c28Nest([]byte{'['}, depth/2), c28Nest([]byte{']'}, depth/2)
		case 1:
			pre, post = c28Nest([]byte(`{"k":`), depth/6), append([]byte("1"), c28Nest([]byte{'}'}, depth/6)...)
		default:
			pre, post = c28Nest([]byte{'['}, depth), nil // never closed
		}
		head, tail := []byte(`{"a":`), []byte("}")
		if batch {
			head, tail = []byte(`[{"data":{"a":`), []byte("}}]")
		}
		return append(append(append(head, pre...), post...), tail...), ct, fam + "/extreme-depth-" + strconv.Itoa(how)
	}
	weird := verifkit.Pick(rng, 0.0, 0.1, 0.3, 0.6)
	var tree E3Val
	if !batch {
		tree = c28EventTree(rng, weird)
		class = fam + "/event"
	} else {
		n := verifkit.Pick(rng, 0, 1, 1, 2, 3, 5)
		if rng.Chance(0.02) {
			n = 130 // more than MaxBatchSize
		}
		tree = E3Val{Kind: KArr}
		for i := 0; i < n; i++ {
			var kvs []E3KV
			if rng.Chance(0.7) {
				var tv E3Val
				switch {
				case !rng.Chance(weird):
					if msgpack {
						tv = VTs64(1700000000+int64(rng.Intn(1000)), int64(rng.Intn(1e9)))
					} else {
						tv = VStr(time.Unix(1700000000, int64(rng.Intn(1e9))).UTC().Format(time.RFC3339Nano))
					}
				default:
					tv = verifkit.Pick(rng, c28Val(rng, 1), VStr(g.eventTime()), VTs96(math.MinInt64, 0), VTs96(1<<62, 999999999), VInt(1700000000), VF64(1.7e9), VMap(KV("t", VInt(1))))
				}
				kvs = append(kvs, KV("time", tv))
			}
			if rng.Chance(0.6) {
				rv := VInt(int64(verifkit.Pick(rng, 1, 2, 10)))
				if rng.Chance(weird) {
					rv = verifkit.Pick(rng, VInt(0), VInt(-1), VInt(math.MinInt64), VUintW(math.MaxUint64, 64), VF64(1.5), VF64(math.NaN()), VStr("10"), VNil(), VBool(true), VArr(VInt(1)), VIntW(5, 64), VUintW(7, 8))
				}
				kvs = append(kvs, KV("samplerate", rv))
			}
			if rng.Chance(0.9) {
				dv := c28EventTree(rng, weird)
				if rng.Chance(weird / 2) {
					dv = verifkit.Pick(rng, VNil(), VArr(), VStr("data"), VInt(1), VMap(), VBin([]byte{0x81, 0xa1, 'a', 1}))
				}
				kvs = append(kvs, KV("data", dv))
			}
			if rng.Chance(weird / 2) {
				kvs = append(kvs, KV(verifkit.Pick(rng, "extra", "data", "time", "samplerate", ""), c28Val(rng, 2)))
			}
			verifkit.Shuffle(rng, kvs)
			item := VMap(kvs...)
			if rng.Chance(weird / 4) {
				item = verifkit.Pick(rng, VNil(), VInt(1), VStr("x"), VArr(VMap()), VBool(false))
			}
			tree.Arr = append(tree.Arr, item)
		}
		if rng.Chance(weird / 4) {
			tree = verifkit.Pick(rng, VMap(KV("data", VMap(KV("a", VInt(1))))), VNil(), VStr("[]"), VInt(0))
		}
		class = fam + "/batch" + strconv.Itoa(len(tree.Arr))
	}
	body = enc(tree)
	switch k := rng.Intn(20); {
	case k < 9: // as generated (valid or valid-but-weird)
		class += "/tree"
	case k < 15:
		var l string
		body, l = c28Mutate(rng, body, msgpack)
		class += "/mut" + l
	case k == 15:
		body, class = c28Random(rng, rng.Range(0, 64)), class+"/random"
	case k == 16:
		if msgpack {
			h := c28HugeHeaders[rng.Intn(len(c28HugeHeaders))]
			switch rng.Intn(3) {
			case 0:
				body = append([]byte(nil), h...)
			case 1:
				body = append([]byte{0x81, 0xa1, 'a'}, h...)
			default:
				body = append(append([]byte{0x91, 0x81, 0xa4, 'd', 'a', 't', 'a', 0x81, 0xa1, 'a'}, h...), 'x')
			}
			class += "/hugelen-only"
		} else {
			body = []byte(verifkit.Pick(rng, ``, `null`, `[]`, `{}`, `[{}]`, `[null]`, `[{"data":null}]`, `{"a":1e400}`, `{"a":-}`, "\xef\xbb\xbf{\"a\":1}", `{"a":"\ud800"}`, `[{"data":{"a":1},"time":12345,"samplerate":"x"}]`, `{"a":1}{"b":2}`, `[{"data":{"a":1}},]`))
			class += "/literal"
		}
	case k == 17: // moderate nesting
		// decoder depth limits sit at 300 (fastjson), 10000 (jsoniter), 100000 (msgp); divided
		// by scale like every other nesting depth (the quick tier is a 1/16 model)
		d := verifkit.Pick(rng, 50, 299, 301, 1000, 9999, 10001, 100001) / g.scale
		if msgpack {
			body = append(append([]byte{0x81, 0xa1, 'a'}, c28Nest([]byte{0x91}, d)...), 0xc0)
			if batch {
				body = append([]byte{0x91, 0x81, 0xa4, 'd', 'a', 't', 'a'}, body...)
			}
		} else {
			body = append(append([]byte(`{"a":`), c28Nest([]byte{'['}, d)...), append(c28Nest([]byte{']'}, d), '}')...)
			if batch {
				body = append(append([]byte(`[{"data":`), body...), "}]"...)
			}
		}
		class += "/nest"
	case k == 18 && !rng.Chance(0.2):
		class += "/tree"
	case k == 18: // big but legal
		body = enc(VMap(KV("trace.trace_id", VStr("trace-1")), KV("a", VStr(strings.Repeat("z", verifkit.Pick(rng, 100_000, 1_000_000, 4_999_000, 5_100_000))))))
		if batch {
			if msgpack {
				body = append([]byte{0x91, 0x81, 0xa4, 'd', 'a', 't', 'a'}, body...)
			} else {
				body = append(append([]byte(`[{"data":`), body...), "}]"...)
			}
		}
		class += "/big"
	default: // the other encoding under this content type
		if msgpack {
			body = c28JSON(nil, tree)
		} else {
			body = e3AppendMsgpack(nil, tree)
		}
		class += "/wrong-ct"
	}
	return body, ct, class
}

func (g *c28Gen) eventTime() string {
	rng := g.rng
	switch rng.Intn(10) {
	case 0:
		return time.Unix(1700000000, 1).UTC().Format(time.RFC3339Nano)
	case 1:
		return "1700000000"
	case 2:
		return strings.Repeat("9", rng.Range(1, 30))
	case 3:
		return "1700000000." + strings.Repeat("1", rng.Range(1, 400))
	case 4:
		return verifkit.Pick(rng, "0x7fffffffffffffff", "-1700000000000", "1_700_000_000_000", "1e400", "NaN", "Inf", "-Inf", "+1700000000123", "0b1010101010101", "017000000000000")
	case 5:
		return verifkit.Pick(rng, "9999-12-31T23:59:60Z", "0000-01-01T00:00:00Z", "2024-02-30T00:00:00+99:99", "292277026596-12-04T15:30:07Z")
	case 6:
		return strings.Repeat("1", 11) + "e" + strings.Repeat("9", rng.Range(1, 5))
	default:
		return c28Str(rng)
	}
}

// compress wraps body per the chosen encoding; returns bytes, header value ("" = none), label
func (g *c28Gen) encode(body []byte) ([]byte, string, string) {
	rng := g.rng
	r := &E3Req{Body: body}
	k := rng.Intn(17)
	if g.benign {
		k = verifkit.Pick(rng, 0, 2, 11)
	}
	switch k {
	case 12, 13, 14: // zstd frame(s) with valid magic and forged header fields
		b, l := c28ZstdForged(rng, body)
		return b, verifkit.Pick(rng, "zstd", "zstd", "zstd", "zstd", "zstd", "zstd", "zstd", "gzip"), "zstd-forged/" + l
	case 15: // gzip member(s) with forged fields
		b, l := c28GzipForged(rng, body)
		return b, verifkit.Pick(rng, "gzip", "gzip", "gzip", "gzip", "gzip", "gzip", "gzip", "zstd"), "gzip-forged/" + l
	case 16: // honest compression under the other label
		if rng.Bool() {
			r.Gzip()
			return r.Body, "zstd", "gzip-as-zstd"
		}
		r.Zstd()
		return r.Body, "gzip", "zstd-as-gzip"
	case 0, 1:
		r.Gzip()
		return r.Body, "gzip", "gzip"
	case 2, 3:
		r.Zstd()
		return r.Body, "zstd", "zstd"
	case 4:
		return body, verifkit.Pick(rng, "gzip", "zstd"), "label-only"
	case 5:
		return body, verifkit.Pick(rng, "deflate", "br", "identity", "GZIP", "gzip, zstd", "x"), "odd-label"
	case 6:
		if rng.Bool() {
			r.Gzip()
		} else {
			r.Zstd()
		}
		b, l := c28Mutate(rng, r.Body, false)
		return b, r.Header.Get("Content-Encoding"), "corrupt" + l
	case 7:
		r.Gzip()
		r2 := &E3Req{Body: r.Body}
		r2.Zstd()
		return r2.Body, verifkit.Pick(rng, "zstd", "gzip"), "double"
	default:
		return body, "", "plain"
	}
}

// c28Sizes: boundary values for declared sizes.
var c28Sizes = []uint64{0, 1, 255, 256, 65535, 65536 + 255, 1 << 20, 5_000_000, 8 << 20, 8<<20 + 1, 1 << 31, 1<<32 - 1, 1 << 32, 1 << 40, 1 << 42, 1 << 47, 1 << 62, 1 << 63, 1<<64 - 1}

func c28LE(v uint64, n int) []byte {
	b := make([]byte, n)
	for i := 0; i < n; i++ {
		b[i] = byte(v >> (8 * i))
	}
	return b
}

// c28ZstdFrame: a zstd frame with a valid magic number and freely chosen header fields,
// followed by blocks ("raw": payload in raw blocks; "rle": one RLE block of blockSize
// bytes; "lying": a block header that announces more than follows, any block type;
// "none": no block at all, i.e. truncated after the header).
func c28ZstdFrame(fcsFlag int, single bool, windowByte byte, dictFlag int, dictID uint64, fcs uint64, checksum bool, reserved bool, blocks string, payload []byte, blockSize uint32) []byte {
	b := []byte{0x28, 0xb5, 0x2f, 0xfd}
	d := byte(fcsFlag<<6) | byte(dictFlag)
	if single {
		d |= 1 << 5
	}
	if checksum {
		d |= 1 << 2
	}
	if reserved {
		d |= 1 << 3
	}
	b = append(b, d)
	if !single {
		b = append(b, windowByte)
	}
	b = append(b, c28LE(dictID, []int{0, 1, 2, 4}[dictFlag])...)
	switch fcsFlag {
	case 0:
		if single {
			b = append(b, byte(fcs))
		}
	case 1:
		b = append(b, c28LE(fcs-256, 2)...)
	case 2:
		b = append(b, c28LE(fcs, 4)...)
	default:
		b = append(b, c28LE(fcs, 8)...)
	}
	hdr := func(last bool, typ int, size uint32) []byte {
		v := size<<3 | uint32(typ)<<1
		if last {
			v |= 1
		}
		return []byte{byte(v), byte(v >> 8), byte(v >> 16)}
	}
	switch blocks {
	case "raw":
		for len(payload) > 100_000 {
			b = append(append(b, hdr(false, 0, 100_000)...), payload[:100_000]...)
			payload = payload[100_000:]
		}
		b = append(append(b, hdr(true, 0, uint32(len(payload)))...), payload...)
	case "rle":
		b = append(append(b, hdr(true, 1, blockSize)...), 'A')
	case "lying":
		b = append(append(b, hdr(true, int(blockSize%4), blockSize)...), payload[:min(len(payload), 8)]...)
	}
	if checksum && blocks != "none" {
		b = append(b, 1, 2, 3, 4)
	}
	return b
}

func c28Log2(v uint64) int {
	n := -1
	for ; v > 0; v >>= 1 {
		n++
	}
	return n
}

// c28ZstdForged: structure-aware hostile zstd bodies around payload.
func c28ZstdForged(rng *verifkit.Rand, payload []byte) ([]byte, string) {
	if len(payload) > 200_000 {
		payload = payload[:200_000]
	}
	size := c28Sizes[rng.Intn(len(c28Sizes))]
	fcsFlag := rng.Intn(4)
	forged := func() []byte {
		single := rng.Chance(0.3)
		window := verifkit.Pick[byte](rng, 0x00, 0x00, 0x00, 0x01, 0x50, 0x68, 0x70, 0x88, 0xf8, 0xff, byte(rng.Intn(256)))
		dictFlag := verifkit.Pick(rng, 0, 0, 0, 1, 2, 3)
		blocks := verifkit.Pick(rng, "none", "none", "raw", "raw", "rle", "lying")
		bs := verifkit.Pick[uint32](rng, 0, 1, 1000, 128<<10, 128<<10+1, 1<<21-1)
		return c28ZstdFrame(fcsFlag, single, window, dictFlag, verifkit.Pick[uint64](rng, 0, 1, 0xffffffff), size, rng.Chance(0.2), rng.Chance(0.05), blocks, payload, bs)
	}
	honest := func() []byte { return append([]byte(nil), (&E3Req{Body: payload}).Zstd().Body...) }
	skippable := func() []byte {
		b := []byte{byte(0x50 + rng.Intn(16)), 0x2a, 0x4d, 0x18}
		l := verifkit.Pick[uint64](rng, 0, 4, 1<<31, 1<<32-1, 1<<32-8)
		b = append(b, c28LE(l, 4)...)
		return append(b, c28Random(rng, int(min(l, 16)))...)
	}
	label := fmt.Sprintf("fcs%d~2^%d", fcsFlag, c28Log2(size))
	switch rng.Intn(7) {
	case 0, 1, 2:
		return forged(), "frame/" + label
	case 3:
		return append(honest(), forged()...), "honest+forged/" + label
	case 4:
		return append(skippable(), honest()...), "skippable+honest"
	case 5:
		return append(honest(), skippable()...), "honest+skippable"
	default:
		var b []byte
		for i := rng.Range(2, 40); i > 0; i-- { // many RLE frames: decompression bomb up to the decoder's limit
			b = append(b, c28ZstdFrame(0, false, 0x50, 0, 0, 0, false, false, "rle", nil, 1<<21-1)...)
		}
		return b, "rle-bomb"
	}
}

// c28GzipForged: gzip members with forged ISIZE / CRC / FLG / extra-field lengths, concatenated members.
func c28GzipForged(rng *verifkit.Rand, payload []byte) ([]byte, string) {
	if len(payload) > 200_000 {
		payload = payload[:200_000]
	}
	b := append([]byte(nil), (&E3Req{Body: payload}).Gzip().Body...)
	switch rng.Intn(9) {
	case 0: // forged ISIZE
		copy(b[len(b)-4:], c28LE(verifkit.Pick[uint64](rng, 0, 1<<31, 1<<32-1, 5_000_001), 4))
		return b, "isize"
	case 1: // forged CRC
		b[len(b)-8] ^= 0xff
		return b, "crc"
	case 2: // FEXTRA with a length the member does not have
		xlen := verifkit.Pick[uint64](rng, 0, 1, 0xffff, 0x8000)
		h := append([]byte{0x1f, 0x8b, 8, 4, 0, 0, 0, 0, 0, 0xff}, c28LE(xlen, 2)...)
		return append(append(h, c28Random(rng, int(min(xlen, 6)))...), b[10:]...), "fextra"
	case 3: // FNAME / FCOMMENT never terminated, FHCRC, reserved flag bits
		flg := verifkit.Pick[byte](rng, 8, 16, 2, 0x1f, 0xe0, 0xff)
		h := []byte{0x1f, 0x8b, 8, flg, 0, 0, 0, 0, 0, 0xff}
		return append(append(h, bytes.Repeat([]byte{'n'}, verifkit.Pick(rng, 0, 10, 70000))...), b[10:]...), "flags"
	case 4: // concatenated members
		n := rng.Range(2, 5)
		var out []byte
		for i := 0; i < n; i++ {
			out = append(out, b...)
		}
		return out, "members"
	case 5: // valid member followed by a header only / garbage
		tail := verifkit.Pick(rng, []byte{0x1f, 0x8b, 8, 0, 0, 0, 0, 0, 0, 0xff}, []byte{0x1f, 0x8b}, []byte{0, 0, 0, 0}, c28Random(rng, 20))
		return append(b, tail...), "member+tail"
	case 6: // unknown compression method / stored block with inconsistent LEN/NLEN
		return verifkit.Pick(rng, []byte{0x1f, 0x8b, 9, 0, 0, 0, 0, 0, 0, 0xff, 1, 0, 0, 0xff, 0xff}, []byte{0x1f, 0x8b, 8, 0, 0, 0, 0, 0, 0, 0xff, 1, 0xff, 0xff, 0xff, 0xff, 'x'},
			[]byte{0x1f, 0x8b, 8, 0, 0, 0, 0, 0, 0, 0xff, 1, 5, 0, 0xfa, 0xff, 'a', 'b'}, []byte{0x1f, 0x8b, 8, 0, 0, 0, 0, 0, 0, 0xff, 7}), "deflate-literal"
	case 7: // truncated inside the trailer / the header
		return b[:max(0, min(len(b), verifkit.Pick(rng, 3, 9, 10, 11, len(b)-8, len(b)-5, len(b)-1)))], "trunc"
	default: // bomb: zeros beyond the 5 MB / 20 MiB limits in a few KB
		z := &E3Req{Body: make([]byte, verifkit.Pick(rng, 5_000_001, 21<<20))}
		return append([]byte(nil), z.Gzip().Body...), "bomb"
	}
}

func (g *c28Gen) apiKey() (string, bool) {
	rng := g.rng
	if g.benign {
		return c28KeyLegacy, true
	}
	switch rng.Intn(14) {
	case 0:
		return "", false
	case 1:
		return "", true
	case 2:
		return c28KeyEnv, true
	case 3:
		return c28KeyEnv2, true
	case 4:
		return c28KeyIngest, true
	case 5:
		return c28KeyLegacy2, true
	case 6:
		return verifkit.Pick(rng, "deny-me-please-0123456", strings.Repeat("k", 8000), "key with spaces", "k\tk", "é✓é✓é✓é✓", "hcxik_short", strings.Repeat("f", 31), strings.Repeat("F", 32), "hc?ic_"+strings.Repeat("a", 58)), true
	default:
		return c28KeyLegacy, true
	}
}

func (g *c28Gen) datasetPath() string {
	rng := g.rng
	if g.benign {
		return verifkit.Pick(rng, "dyn", "ema", "other")
	}
	switch rng.Intn(12) {
	case 0:
		return verifkit.Pick(rng, "", "%", "%zz", "%2", "a%2Fb", "a%00b", "..", ".", "%2e%2e", "a%20b", "a+b", "a?x=1", "a#f", "a;b", "%C3%A9", "%ff%fe", "a//b", "a/b/c", strings.Repeat("d", 5000), "a b")
	default:
		ds := c28Datasets[rng.Intn(len(c28Datasets))]
		var b strings.Builder
		for i := 0; i < len(ds); i++ {
			c := ds[i]
			if (c >= 'a' && c <= 'z') || (c >= '0' && c <= '9') {
				b.WriteByte(c)
			} else {
				fmt.Fprintf(&b, "%%%02X", c)
			}
		}
		return b.String()
	}
}

type c28Hdr struct{ k, v string }

// rawHTTP renders the request. declLen<0 = exact Content-Length.
func c28RawHTTP(method, target, version string, hdrs []c28Hdr, body []byte, declLen int, chunked bool) []byte {
	var b bytes.Buffer
	fmt.Fprintf(&b, "%s %s %s\r\nHost: refinery.verif.invalid\r\nConnection: close\r\n", method, target, version)
	for _, h := range hdrs {
		fmt.Fprintf(&b, "%s: %s\r\n", h.k, h.v)
	}
	if chunked {
		b.WriteString("Transfer-Encoding: chunked\r\n\r\n")
		for len(body) > 0 {
			n := len(body)
			if n > 1000 {
				n = 1000
			}
			fmt.Fprintf(&b, "%x\r\n", n)
			b.Write(body[:n])
			b.WriteString("\r\n")
			body = body[n:]
		}
		b.WriteString("0\r\n\r\n")
		return b.Bytes()
	}
	if declLen < 0 {
		declLen = len(body)
	}
	if method != "GET" || len(body) > 0 || declLen > 0 {
		fmt.Fprintf(&b, "Content-Length: %d\r\n", declLen)
	}
	b.WriteString("\r\n")
	b.Write(body)
	return b.Bytes()
}

// finishHTTP adds transport-level hostility common to all HTTP requests.
func (g *c28Gen) finishHTTP(r *c28Req, method, target string, hdrs []c28Hdr, body []byte) {
	rng := g.rng
	version, declLen, chunked := "HTTP/1.1", -1, false
	k := rng.Intn(40)
	if g.benign {
		k, method = 39, "POST"
	}
	switch k {
	case 0:
		version = "HTTP/1.0"
	case 1:
		declLen = len(body) + rng.Range(1, 100) // client dies mid-body
		r.HalfClose = true
		r.Class += "/short-body"
	case 2:
		if len(body) > 0 {
			declLen = rng.Intn(len(body)) // trailing bytes after the declared body
			r.Class += "/long-body"
		}
	case 3:
		chunked = true
	case 4:
		hdrs = append(hdrs, c28Hdr{"X-Huge", strings.Repeat("h", verifkit.Pick(rng, 10_000, 1_100_000))})
		r.Class += "/huge-header"
	case 5:
		hdrs = append(hdrs, hdrs...) // every header twice
	case 6:
		hdrs = append(hdrs, c28Hdr{"User-Agent", verifkit.Pick(rng, "", strings.Repeat("u", 9000), "libhoney-go/1.2.3", "é✓", "a\tb")})
	case 7:
		hdrs = append(hdrs, c28Hdr{"X-Forwarded-For", "1.2.3.4, 5.6.7.8"}, c28Hdr{"Expect", "100-continue"})
	}
	r.Proto = "http"
	r.Raw = c28RawHTTP(method, target, version, hdrs, body, declLen, chunked)
	r.Desc = fmt.Sprintf("%s %s listener=%s class=%s body=%dB", method, c28Clip(target, 120), r.Listener, r.Class, len(body))
}

func c28Clip(s string, n int) string {
	if len(s) > n {
		return s[:n] + "…"
	}
	return s
}

func (g *c28Gen) libhoney(batch, extreme bool) c28Req {
	rng := g.rng
	if !extreme && rng.Chance(0.4) { // well-formed wrapper: the body is what gets exercised
		g.benign = true
		defer func() { g.benign = false }()
	}
	r := c28Req{Listener: verifkit.Pick(rng, "incoming", "incoming", "peer")}
	body, ct, class := g.libhoneyBody(batch, extreme)
	body, ce, encLabel := g.encode(body)
	route := "/1/events/"
	if batch {
		route = "/1/batch/"
	}
	var hdrs []c28Hdr
	if ct != "" {
		hdrs = append(hdrs, c28Hdr{"Content-Type", ct})
	}
	if ce != "" {
		hdrs = append(hdrs, c28Hdr{"Content-Encoding", ce})
	}
	if k, ok := g.apiKey(); ok {
		hdrs = append(hdrs, c28Hdr{verifkit.Pick(rng, "X-Honeycomb-Team", "X-Honeycomb-Team", "X-Hny-Team", "x-honeycomb-team"), k})
	}
	if !batch {
		if rng.Chance(0.5) {
			hdrs = append(hdrs, c28Hdr{"X-Honeycomb-Samplerate", verifkit.Pick(rng, "1", "2", "0", "-1", "-9223372036854775808", "18446744073709551615", "99999999999999999999", "1.5", "1e3", "abc", "", " 5", "0x10")})
		}
		if rng.Chance(0.5) {
			hdrs = append(hdrs, c28Hdr{"X-Honeycomb-Event-Time", g.eventTime()})
		}
	}
	r.Class = strings.TrimSuffix(route, "/") + "/" + r.Listener + "/" + class + "/" + encLabel
	g.finishHTTP(&r, verifkit.Pick(rng, "POST", "POST", "POST", "POST", "POST", "POST", "POST", "POST", "PUT", "GET"), route+g.datasetPath(), hdrs, body)
	return r
}

// ---- OTLP ----

func (g *c28Gen) anyValue(depth int) *common.AnyValue {
	rng := g.rng
	k := rng.Intn(12)
	if depth <= 0 && k >= 8 {
		k = rng.Intn(8)
	}
	switch k {
	case 0:
		return nil
	case 1:
		return &common.AnyValue{}
	case 2:
		return &common.AnyValue{Value: &common.AnyValue_BoolValue{BoolValue: rng.Bool()}}
	case 3:
		return &common.AnyValue{Value: &common.AnyValue_IntValue{IntValue: verifkit.Pick[int64](rng, 0, -1, 200, 500, math.MaxInt64, math.MinInt64)}}
	case 4:
		return &common.AnyValue{Value: &common.AnyValue_DoubleValue{DoubleValue: verifkit.Pick(rng, 0.5, math.NaN(), math.Inf(1), -1e308, 1e19)}}
	case 5:
		return &common.AnyValue{Value: &common.AnyValue_BytesValue{BytesValue: c28Random(rng, rng.Range(0, 20))}}
	case 6, 7:
		return &common.AnyValue{Value: &common.AnyValue_StringValue{StringValue: c28Str(rng)}}
	case 8, 9:
		arr := &common.ArrayValue{}
		for i := rng.Range(0, 3); i > 0; i-- {
			arr.Values = append(arr.Values, g.anyValue(depth-1))
		}
		return &common.AnyValue{Value: &common.AnyValue_ArrayValue{ArrayValue: arr}}
	default:
		kv := &common.KeyValueList{}
		for i := rng.Range(0, 3); i > 0; i-- {
			kv.Values = append(kv.Values, &common.KeyValue{Key: verifkit.Pick(rng, "x", "", "a.b", "x"), Value: g.anyValue(depth - 1)})
		}
		return &common.AnyValue{Value: &common.AnyValue_KvlistValue{KvlistValue: kv}}
	}
}

var c28OTLPKeys = []string{"a", "b", "http.status", "nested", "sampleRate", "SampleRate", "service.name", "meta.signal_type", "meta.annotation_type",
	"meta.refinery.probe", "trace.trace_id", "trace.parent_id", "exception.message", "exception.type", "exception.stacktrace", "", "duration_ms", "name", "meta.span_count"}

func (g *c28Gen) attrs(weird float64) []*common.KeyValue {
	rng := g.rng
	var out []*common.KeyValue
	for i := rng.Range(0, 5); i > 0; i-- {
		k := c28OTLPKeys[rng.Intn(len(c28OTLPKeys))]
		var v *common.AnyValue
		switch {
		case rng.Chance(weird):
			v = g.anyValue(3)
		case strings.EqualFold(k, "sampleRate"):
			v = verifkit.Pick(rng,
				&common.AnyValue{Value: &common.AnyValue_IntValue{IntValue: verifkit.Pick[int64](rng, 0, 1, 10, -5, math.MaxInt64, math.MinInt64, 1<<31, 1<<32)}},
				&common.AnyValue{Value: &common.AnyValue_StringValue{StringValue: verifkit.Pick(rng, "10", "-1", "abc", "1e400", "99999999999999999999", "", "1.5")}},
				&common.AnyValue{Value: &common.AnyValue_DoubleValue{DoubleValue: verifkit.Pick(rng, 1.5, math.NaN(), math.Inf(1), -1.0, 1e300)}})
		default:
			v = verifkit.Pick(rng,
				&common.AnyValue{Value: &common.AnyValue_StringValue{StringValue: verifkit.Pick(rng, "x1", "dropme", "200")}},
				&common.AnyValue{Value: &common.AnyValue_IntValue{IntValue: int64(verifkit.Pick(rng, 200, 404, 500))}},
				&common.AnyValue{Value: &common.AnyValue_BoolValue{BoolValue: true}})
		}
		out = append(out, &common.KeyValue{Key: k, Value: v})
	}
	if rng.Chance(weird / 3) {
		out = append(out, nil)
	}
	return out
}

func (g *c28Gen) idBytes(normal int) []byte {
	rng := g.rng
	switch rng.Intn(10) {
	case 0:
		return nil
	case 1:
		return c28Random(rng, verifkit.Pick(rng, 1, 7, 9, 15, 17, 32, 64, 1000))
	case 2:
		return make([]byte, normal)
	default:
		b := make([]byte, normal)
		b[normal-1] = byte(rng.Intn(40))
		b[0] = 0xab
		return b
	}
}

func (g *c28Gen) resource(weird float64) *resourcepb.Resource {
	if g.rng.Chance(weird / 4) {
		return nil
	}
	return &resourcepb.Resource{Attributes: g.attrs(weird), DroppedAttributesCount: uint32(g.rng.Intn(3))}
}

func (g *c28Gen) otlpTraces(weird float64) *collectortrace.ExportTraceServiceRequest {
	rng := g.rng
	req := &collectortrace.ExportTraceServiceRequest{}
	for i := verifkit.Pick(rng, 0, 1, 1, 1, 2); i > 0; i-- {
		rs := &tracepb.ResourceSpans{Resource: g.resource(weird), SchemaUrl: verifkit.Pick(rng, "", "http://s")}
		for j := verifkit.Pick(rng, 0, 1, 1, 2); j > 0; j-- {
			ss := &tracepb.ScopeSpans{}
			if rng.Bool() {
				ss.Scope = &common.InstrumentationScope{Name: c28Str(rng), Version: c28Str(rng), Attributes: g.attrs(weird)}
			}
			for k := verifkit.Pick(rng, 0, 1, 1, 2, 4); k > 0; k-- {
				sp := &tracepb.Span{TraceId: g.idBytes(16), SpanId: g.idBytes(8), Name: c28Str(rng),
					Kind:              tracepb.Span_SpanKind(verifkit.Pick(rng, 0, 1, 2, 5, 6, -1, 1000)),
					StartTimeUnixNano: verifkit.Pick[uint64](rng, 0, 1700000000000000000, math.MaxUint64, 1<<63),
					EndTimeUnixNano:   verifkit.Pick[uint64](rng, 0, 1700000000500000000, math.MaxUint64, 1),
					Attributes:        g.attrs(weird), TraceState: verifkit.Pick(rng, "", "a=b", c28Str(rng)), Flags: uint32(rng.Intn(4))}
				if rng.Chance(0.6) {
					sp.ParentSpanId = g.idBytes(8)
				}
				if rng.Chance(0.4) {
					sp.Status = &tracepb.Status{Code: tracepb.Status_StatusCode(verifkit.Pick(rng, 0, 1, 2, 3, -7)), Message: c28Str(rng)}
				}
				for e := verifkit.Pick(rng, 0, 0, 1, 3); e > 0; e-- {
					ev := &tracepb.Span_Event{TimeUnixNano: verifkit.Pick[uint64](rng, 0, 1700000000100000000, math.MaxUint64), Name: verifkit.Pick(rng, "exception", "e", ""), Attributes: g.attrs(weird)}
					if rng.Chance(weird / 4) {
						ev = nil
					}
					sp.Events = append(sp.Events, ev)
				}
				for l := verifkit.Pick(rng, 0, 0, 1, 2); l > 0; l-- {
					sp.Links = append(sp.Links, &tracepb.Span_Link{TraceId: g.idBytes(16), SpanId: g.idBytes(8), Attributes: g.attrs(weird), TraceState: c28Str(rng)})
				}
				if rng.Chance(weird / 5) {
					sp = nil
				}
				ss.Spans = append(ss.Spans, sp)
			}
			if rng.Chance(weird / 5) {
				ss = nil
			}
			rs.ScopeSpans = append(rs.ScopeSpans, ss)
		}
		if rng.Chance(weird / 5) {
			rs = nil
		}
		req.ResourceSpans = append(req.ResourceSpans, rs)
	}
	return req
}

func (g *c28Gen) otlpLogs(weird float64) *collectorlogs.ExportLogsServiceRequest {
	rng := g.rng
	req := &collectorlogs.ExportLogsServiceRequest{}
	for i := verifkit.Pick(rng, 0, 1, 1, 2); i > 0; i-- {
		rl := &logspb.ResourceLogs{Resource: g.resource(weird)}
		for j := verifkit.Pick(rng, 0, 1, 1, 2); j > 0; j-- {
			sl := &logspb.ScopeLogs{}
			if rng.Bool() {
				sl.Scope = &common.InstrumentationScope{Name: c28Str(rng), Attributes: g.attrs(weird)}
			}
			for k := verifkit.Pick(rng, 0, 1, 2, 3); k > 0; k-- {
				lr := &logspb.LogRecord{TimeUnixNano: verifkit.Pick[uint64](rng, 0, 1700000000000000000, math.MaxUint64), ObservedTimeUnixNano: verifkit.Pick[uint64](rng, 0, 5, math.MaxUint64),
					SeverityNumber: logspb.SeverityNumber(verifkit.Pick(rng, 0, 9, 24, 25, -1)), SeverityText: c28Str(rng), Body: g.anyValue(3), Attributes: g.attrs(weird),
					TraceId: g.idBytes(16), SpanId: g.idBytes(8), Flags: uint32(rng.Intn(3))}
				if rng.Chance(weird / 5) {
					lr = nil
				}
				sl.LogRecords = append(sl.LogRecords, lr)
			}
			rl.ScopeLogs = append(rl.ScopeLogs, sl)
		}
		req.ResourceLogs = append(req.ResourceLogs, rl)
	}
	return req
}

func c28PBVarint(b []byte, v uint64) []byte {
	for v >= 0x80 {
		b = append(b, byte(v)|0x80)
		v >>= 7
	}
	return append(b, byte(v))
}

func c28PBLen(field int, payload []byte) []byte {
	b := c28PBVarint(nil, uint64(field<<3|2))
	b = c28PBVarint(b, uint64(len(payload)))
	return append(b, payload...)
}

// c28DeepOTLP: an AnyValue nested through array_value (how=0) or kvlist_value (how=1) so
// that the whole request is about maxBytes long, inside a span attribute (traces) or a
// log body / attribute (logs).
func c28DeepOTLP(logs bool, how int, maxBytes int) []byte {
	cur := c28PBLen(1, []byte("x"))
	size := len(cur)
	var headers [][]byte
	for size < maxBytes-200 {
		if how == 0 {
			h1 := c28PBVarint(c28PBVarint(nil, 1<<3|2), uint64(size)) // ArrayValue.values
			size += len(h1)
			h2 := c28PBVarint(c28PBVarint(nil, 5<<3|2), uint64(size)) // AnyValue.array_value
			size += len(h2)
			headers = append(headers, h1, h2)
		} else {
			h0 := c28PBVarint(c28PBVarint(nil, 2<<3|2), uint64(size)) // KeyValue.value
			size += len(h0)
			k := []byte{1<<3 | 2, 1, 'k'} // KeyValue.key (written before value)
			size += len(k)
			h1 := c28PBVarint(c28PBVarint(nil, 1<<3|2), uint64(size)) // KeyValueList.values
			size += len(h1)
			h2 := c28PBVarint(c28PBVarint(nil, 6<<3|2), uint64(size)) // AnyValue.kvlist_value
			size += len(h2)
			headers = append(headers, append(k, h0...), h1, h2)
		}
	}
	any := make([]byte, 0, size)
	for i := len(headers) - 1; i >= 0; i-- {
		any = append(any, headers[i]...)
	}
	any = append(any, cur...)
	kv := append(c28PBLen(1, []byte("a")), c28PBLen(2, any)...)
	if logs {
		rec := append(c28PBLen(5, any), c28PBLen(6, kv)...) // LogRecord.body = 5, attributes = 6
		if how == 0 {
			rec = c28PBLen(6, kv)
		}
		return c28PBLen(1, c28PBLen(2, c28PBLen(2, rec))) // ResourceLogs.scope_logs=2, ScopeLogs.log_records=2
	}
	span := append(c28PBLen(1, bytes.Repeat([]byte{0xab}, 16)), c28PBLen(2, bytes.Repeat([]byte{0xcd}, 8))...)
	span = append(span, c28PBLen(9, kv)...)
	return c28PBLen(1, c28PBLen(2, c28PBLen(2, span)))
}

// otlpPayload: serialized request (protobuf or JSON) + label.
func (g *c28Gen) otlpPayload(logs bool, asJSON bool, extreme bool, limit int) ([]byte, string) {
	rng := g.rng
	if extreme {
		how := rng.Intn(2)
		if asJSON {
			d := limit / g.scale / 40
			body := `{"resourceSpans":[{"scopeSpans":[{"spans":[{"traceId":"abababababababababababababababab","spanId":"cdcdcdcdcdcdcdcd","attributes":[{"key":"a","value":` +
				strings.Repeat(`{"arrayValue":{"values":[`, d) + `{"stringValue":"x"}` + strings.Repeat(`]}}`, d) + `}]}]}]}]}`
			if logs {
				body = strings.Replace(strings.Replace(strings.Replace(body, "resourceSpans", "resourceLogs", 1), "scopeSpans", "scopeLogs", 1), `"spans"`, `"logRecords"`, 1)
			}
			return []byte(body), "json/extreme-depth"
		}
		return c28DeepOTLP(logs, how, limit/g.scale), "pb/extreme-depth-" + strconv.Itoa(how)
	}
	weird := verifkit.Pick(rng, 0.0, 0.1, 0.3, 0.6)
	var msg proto.Message
	if logs {
		msg = g.otlpLogs(weird)
	} else {
		msg = g.otlpTraces(weird)
	}
	var body []byte
	var err error
	fam := "pb"
	if asJSON {
		fam = "json"
		body, err = protojson.Marshal(msg)
	} else {
		body, err = proto.Marshal(msg)
	}
	if err != nil {
		// invalid UTF-8 in a string field etc.: protobuf refuses to marshal; fall back to a hand-made one
		body, fam = c28DeepOTLP(logs, rng.Intn(2), 600), fam+"-handmade"
	}
	switch k := rng.Intn(20); {
	case k < 8:
		return body, fam + "/tree"
	case k < 16:
		b, l := c28Mutate(rng, body, false)
		return b, fam + "/mut" + l
	case k == 16:
		return c28Random(rng, rng.Range(0, 200)), fam + "/random"
	case k == 17:
		d := verifkit.Pick(rng, 99, 101, 1000, 9999, 10001) / g.scale
		return c28DeepOTLP(logs, rng.Intn(2), d*8+8), fam + "/nest"
	case k == 18:
		// length prefixes pointing past the end / negative / zero field numbers / groups
		return verifkit.Pick(rng,
			[]byte{0x0a, 0xff, 0xff, 0xff, 0xff, 0x0f}, []byte{0x0a, 0xff, 0xff, 0xff, 0xff, 0xff, 0xff, 0xff, 0xff, 0xff, 0x01}, []byte{0x0a, 0x80},
			[]byte{0x00, 0x00}, []byte{0x0b, 0x0b, 0x0b, 0x0c}, []byte{0x0c}, []byte{0x0d, 1, 2}, []byte{0x09, 1, 2, 3}, []byte{0x0f}, []byte{0x0e},
			[]byte{0x0a, 0x04, 0x12, 0x02, 0x12, 0x00}, []byte{0x0a, 0x02, 0x0a, 0x7f}, []byte{0xfa, 0xff, 0xff, 0xff, 0xff, 0xff, 0xff, 0xff, 0xff, 0x7f, 0x00},
			c28PBLen(1, c28PBLen(2, c28PBLen(2, []byte{0x0a, 0x10}))), c28PBLen(1, c28PBLen(2, c28PBLen(2, []byte{0x39, 1, 2, 3}))), c28PBLen(1, c28PBLen(2, c28PBLen(2, []byte{0x4a, 0x03, 0x12, 0x01, 0x21})))), fam + "/wire-literal"
	default:
		if asJSON {
			b, _ := proto.Marshal(msg)
			return b, "json/wrong-ct"
		}
		b, _ := protojson.Marshal(msg)
		return b, "pb/wrong-ct"
	}
}

func (g *c28Gen) otlpHTTP(logs, extreme bool) c28Req {
	rng := g.rng
	if !extreme && rng.Chance(0.4) {
		g.benign = true
		defer func() { g.benign = false }()
	}
	r := c28Req{Listener: verifkit.Pick(rng, "incoming", "incoming", "incoming", "peer")}
	asJSON := rng.Chance(0.35)
	if g.force != 0 {
		asJSON = g.force == 2
	}
	body, class := g.otlpPayload(logs, asJSON, extreme, 20*1024*1024)
	ct := verifkit.Pick(rng, "application/protobuf", "application/x-protobuf")
	if asJSON {
		ct = "application/json"
	}
	if !extreme && rng.Chance(0.08) {
		ct = verifkit.Pick(rng, "", "text/plain", "application/msgpack", "application/json; charset=utf-8", "application/grpc", "APPLICATION/PROTOBUF")
	}
	body, ce, encLabel := g.encode(body)
	var hdrs []c28Hdr
	if ct != "" {
		hdrs = append(hdrs, c28Hdr{"Content-Type", ct})
	}
	if ce != "" {
		hdrs = append(hdrs, c28Hdr{"Content-Encoding", ce})
	}
	if k, ok := g.apiKey(); ok {
		hdrs = append(hdrs, c28Hdr{"x-honeycomb-team", k})
	}
	if rng.Chance(0.6) {
		hdrs = append(hdrs, c28Hdr{"x-honeycomb-dataset", verifkit.Pick(rng, c28Datasets[rng.Intn(len(c28Datasets))], "", strings.Repeat("d", 3000))})
	}
	path := "/v1/traces"
	if logs {
		path = "/v1/logs"
	}
	if !g.benign {
		path += verifkit.Pick(rng, "", "", "", "/", "//", "/x", "?a=b")
	}
	r.Class = path + "/" + r.Listener + "/" + class + "/" + encLabel
	g.finishHTTP(&r, verifkit.Pick(rng, "POST", "POST", "POST", "POST", "POST", "POST", "GET", "PATCH"), path, hdrs, body)
	return r
}

func (g *c28Gen) otlpGRPC(logs, extreme bool) c28Req {
	rng := g.rng
	if !extreme && rng.Chance(0.4) {
		g.benign = true
		defer func() { g.benign = false }()
	}
	// gRPC default MaxRecvMsgSize is 15 MB
	body, class := g.otlpPayload(logs, false, extreme, 15_000_000)
	r := c28Req{Proto: "grpc", Method: E3GRPCTraceExport, Payload: body, Gzip: rng.Chance(0.2), MD: map[string]string{}}
	if logs {
		r.Method = E3GRPCLogsExport
	}
	if !extreme && rng.Chance(0.04) {
		r.Method = verifkit.Pick(rng, "/opentelemetry.proto.collector.trace.v1.TraceService/Nope", "/grpc.health.v1.Health/Check", "/x/y", "/opentelemetry.proto.collector.metrics.v1.MetricsService/Export")
	}
	if k, ok := g.apiKey(); ok {
		if strings.IndexFunc(k, func(c rune) bool { return c < 0x20 || c > 0x7e }) >= 0 {
			k = "nonprintable-key-replaced"
		}
		r.MD[verifkit.Pick(rng, "x-honeycomb-team", "x-honeycomb-team", "x-hny-team")] = k
	}
	if rng.Chance(0.6) {
		r.MD["x-honeycomb-dataset"] = verifkit.Pick(rng, "dyn", "ema", "tot", "win", "emat", "det", "a b", "", strings.Repeat("d", 3000))
	}
	if rng.Chance(0.1) {
		r.MD["user-agent"] = c28Clip(strings.Map(func(c rune) rune {
			if c < 0x20 || c > 0x7e {
				return '?'
			}
			return c
		}, c28Str(rng)), 200)
	}
	r.Class = "grpc" + r.Method[strings.LastIndex(r.Method[:strings.LastIndex(r.Method, "/")], ".")+1:] + "/" + class
	if !extreme && !r.Gzip && rng.Chance(0.12) {
		var l string
		r.Payload, l = c28GzipForged(rng, body)
		r.RawGzip = true
		r.Class += "/gzip-forged/" + l
	}
	if r.Gzip {
		r.Class += "/gzip"
	}
	r.Desc = fmt.Sprintf("gRPC %s md=%v class=%s payload=%dB", r.Method, c28ClipMD(r.MD), r.Class, len(body))
	return r
}

func c28ClipMD(md map[string]string) map[string]string {
	out := map[string]string{}
	for k, v := range md {
		out[k] = c28Clip(v, 80)
	}
	return out
}

// ---- everything else: health, version, panic, query, proxy ----

func (g *c28Gen) misc() c28Req {
	rng := g.rng
	r := c28Req{Listener: verifkit.Pick(rng, "incoming", "peer")}
	method, body := "GET", []byte(nil)
	var hdrs []c28Hdr
	var path, class string
	switch rng.Intn(10) {
	case 0, 1:
		path = verifkit.Pick(rng, "/alive", "/ready", "/version", "/panic", "/alive/", "/ALIVE", "/version?x=%zz")
		method = verifkit.Pick(rng, "GET", "GET", "POST", "HEAD", "OPTIONS", "DELETE")
		class = "health" + path
	case 2, 3, 4:
		id := verifkit.Pick(rng, "trace-1", "", "%", "%zz", "a%2Fb", "<script>", "%22%7D", strings.Repeat("t", 5000), "é", "a b")
		path = verifkit.Pick(rng, "/query/trace/"+id, "/query/rules/"+verifkit.Pick(rng, "json", "yaml", "toml", "xml", "JSON", "")+"/"+verifkit.Pick(rng, "dyn", "__default__", "nope", id),
			"/query/allrules/"+verifkit.Pick(rng, "json", "yaml", "toml", "bogus", id), "/query/configmetadata", "/query/", "/query/nope")
		switch rng.Intn(4) {
		case 0:
		case 1:
			hdrs = append(hdrs, c28Hdr{"X-Honeycomb-Refinery-Query", "wrong%stoken"})
		default:
			hdrs = append(hdrs, c28Hdr{"X-Honeycomb-Refinery-Query", c28QueryToken})
		}
		method = verifkit.Pick(rng, "GET", "GET", "GET", "POST")
		class = "query/" + strings.SplitN(strings.TrimPrefix(path, "/query/"), "/", 2)[0]
	default:
		path = verifkit.Pick(rng, "/", "/1/markers/ds", "/1/auth", "/1/events", "/1/events/", "/1/batch", "/1/batch/", "/1/events/a/b", "/2/events/ds", "/v1/metrics", "/v1/", "/v2/traces",
			"//1//events//ds", "/1/../1/events/ds", "/%2e%2e/x", "/x?y="+strings.Repeat("q", 3000), "*", "/1/kinesis_events/ds", "http://evil.invalid/1/markers/x")
		method = verifkit.Pick(rng, "GET", "POST", "PUT", "DELETE", "PATCH", "HEAD", "OPTIONS", "CONNECT", "TRACE", "BREW")
		if method != "GET" && method != "HEAD" {
			body = verifkit.Pick(rng, nil, []byte(`{"message":"deploy"}`), c28Random(rng, 50), bytes.Repeat([]byte("p"), 200_000))
		}
		if k, ok := g.apiKey(); ok {
			hdrs = append(hdrs, c28Hdr{"X-Honeycomb-Team", k})
		}
		hdrs = append(hdrs, c28Hdr{"Content-Type", "application/json"})
		class = "proxy/" + method
	}
	r.Class = class + "/" + r.Listener
	g.finishHTTP(&r, method, path, hdrs, body)
	return r
}

// next: one request of the seeded mix.
func (g *c28Gen) next(extremeSlot int) c28Req {
	rng := g.rng
	if extremeSlot >= 0 {
		g.force, g.benign = 1+extremeSlot%2, true
		defer func() { g.force, g.benign = 0, false }()
		// slots 0..5 are cheap on every tree (quick uses only these); 6..9 nest OTLP protobuf as
		// deep as the size limits admit, which costs the husky translator tens of seconds each
		switch extremeSlot % 10 {
		case 0, 1:
			return g.libhoney(false, true)
		case 2, 3:
			return g.libhoney(true, true)
		case 4:
			g.force = 2
			return g.otlpHTTP(false, true)
		case 5:
			g.force = 2
			return g.otlpHTTP(true, true)
		case 6:
			g.force = 1
			return g.otlpHTTP(false, true)
		case 7:
			g.force = 1
			return g.otlpHTTP(true, true)
		case 8:
			g.force = 1
			return g.otlpGRPC(false, true)
		default:
			g.force = 1
			return g.otlpGRPC(true, true)
		}
	}
	switch k := rng.Intn(100); {
	case k < 22:
		return g.libhoney(false, false)
	case k < 46:
		return g.libhoney(true, false)
	case k < 58:
		return g.otlpHTTP(false, false)
	case k < 66:
		return g.otlpHTTP(true, false)
	case k < 80:
		return g.otlpGRPC(false, false)
	case k < 90:
		return g.otlpGRPC(true, false)
	default:
		return g.misc()
	}
}

// -------------------------------------------------------------------------------------
// Parent test
// -------------------------------------------------------------------------------------

const c28ChildTest = "TestVerif_C28RequestsChild"

func c28OutcomeClass(note string) string {
	switch {
	case strings.HasPrefix(note, "HANG"):
		return "hang"
	case strings.HasPrefix(note, "h") && len(note) >= 2:
		return "http" + note[1:2] + "xx"
	case note == "g0":
		return "grpc-ok"
	case strings.HasPrefix(note, "g"):
		return "grpc-" + note[1:]
	}
	return note
}

func c28Witness(r *c28Req, extra map[string]any) map[string]any {
	w := map[string]any{"index": r.Index, "class": r.Class, "desc": r.Desc, "proto": r.Proto}
	if r.Proto == "grpc" {
		w["method"], w["metadata"], w["grpc_gzip"] = r.Method, c28ClipMD(r.MD), r.Gzip || r.RawGzip
		w["payload_len"] = max(r.BodyLen, len(r.Payload))
		w["payload_head_base64"] = base64.StdEncoding.EncodeToString(r.Payload[:min(len(r.Payload), 600)])
	} else {
		w["listener"], w["half_close"] = r.Listener, r.HalfClose
		w["raw_len"] = max(r.BodyLen, len(r.Raw))
		head := r.Raw[:min(len(r.Raw), 1500)]
		w["raw_head"] = strconv.QuoteToASCII(string(head))
	}
	for k, v := range extra {
		w[k] = v
	}
	return w
}

type c28BatchResult struct {
	outcomes []verifkit.ChildOutcome // one per child (re)start, in order
	starts   []int
}

func TestVerif_C28Requests(t *testing.T) {
	if _, _, child := verifkit.InChild(); child {
		t.Skip("child mode")
	}
	run := verifkit.Start(t, "C28", "requests")
	defer run.Finish()
	run.Rule("seeded structure-aware hostile requests (no coverage guidance): every HTTP route (/1/events, /1/batch, /v1/traces, /v1/logs, /alive, /ready, /version, /panic, /query/*, proxied paths) x content types (JSON, msgpack, protobuf, OTLP JSON, wrong pairings) x encodings (none, gzip, zstd, label only, odd label, label disagreeing with the body, byte-corrupted, double, zstd frames with valid magic and forged header fields [single-segment flag, window descriptor, dictionary id, content-size field of every width with values 0..2^64-1], truncated after the header, honest frame followed by a forged one, skippable frames with huge lengths, RLE bombs, gzip members with forged ISIZE/CRC/flags/extra-field length, concatenated members, deflate bombs; forged gzip messages also on gRPC) with bodies that are valid-but-weird value trees (wrong-typed time/samplerate/data/trace id/meta fields, NaN, ext types, duplicate keys, huge maps), byte-mutated, truncated, random, huge declared lengths, moderately and maximally nested; hostile headers (API keys, sample rate, event time, dataset escapes, content-length mismatches, chunked, huge headers); gRPC trace/logs Export with raw payloads through a raw codec; both listeners. Every request is sent to a real node (validated config, real routers/collector/samplers/transmissions) in a child process; non-trivial = the node answered the request; distinct = distinct (route, listener, content, body class, encoding, outcome class)")
	run.Assume("the child process limits its address space (4 GiB quick, 16 GiB thorough): a request of a few MB that needs more is a crash (runtime out of memory)")
	run.Assume("quick tier: goroutine stacks are limited to 1/16 of the runtime default (62.5 MB instead of 1 GB) and maximal-nesting inputs are 1/16 of what the body size limits (5 MB libhoney, 20 MiB OTLP/HTTP, 15 MB gRPC) admit, assuming stack use linear in nesting depth; thorough tier: runtime default and full-size inputs")
	run.Assume("a crash is attributed to the request named by the write-ahead log; when it does not reproduce with per-request draining the witness is the preceding window of requests")

	scale, watchdog := 16, 10*time.Second
	n, perBatch, extremes, lanes := 6000, 1000, 6, 3
	if run.Thorough() {
		scale, watchdog = 1, 60*time.Second
		n, perBatch, extremes, lanes = 300000, 5000, 20, 4
	}
	dir := run.OutDir()

	// ---- generate (PRNG only) ----
	extremeAt := map[int]int{}
	er := run.Rand("extreme-slots")
	for s := 0; s < extremes; s++ {
		for {
			i := er.Intn(n)
			if _, dup := extremeAt[i]; !dup {
				extremeAt[i] = s
				break
			}
		}
	}
	// Every batch file is written as soon as its requests exist; the parent then keeps only the
	// first 1.5 KB of each body (for witnesses), so its memory does not grow with the tier.
	type batchDef struct {
		lo, hi int
		file   string
		b      c28Batch
		werr   error
	}
	var batches []*batchDef
	prof := run.Rand("profiles")
	var cur *batchDef
	flush := func() {
		if cur == nil {
			return
		}
		cur.hi = cur.lo + len(cur.b.Requests)
		js, err := json.Marshal(cur.b)
		if err == nil {
			err = os.WriteFile(cur.file, js, 0o644)
		}
		cur.werr = err
		for k := range cur.b.Requests {
			r := &cur.b.Requests[k]
			r.BodyLen = max(len(r.Raw), len(r.Payload))
			if len(r.Raw) > 1500 {
				r.Raw = append([]byte(nil), r.Raw[:1500]...)
			}
			if len(r.Payload) > 600 {
				r.Payload = append([]byte(nil), r.Payload[:600]...)
			}
		}
		batches = append(batches, cur)
		cur = nil
	}
	run.Cases("requests", n, func(i int, rng *verifkit.Rand) {
		g := &c28Gen{rng: rng, scale: scale}
		slot := -1
		if s, ok := extremeAt[i]; ok {
			slot = s
		}
		r := g.next(slot)
		r.Index = i
		if slot >= 0 && run.Thorough() {
			r.WatchdogMs = 600_000 // full-size maximal nesting takes the OTLP translator minutes
		}
		if cur == nil {
			pidx := i / perBatch
			cur = &batchDef{lo: len(batches) * perBatch, file: filepath.Join(dir, fmt.Sprintf("c28req-batch-%d.json", i))}
			cur.b = c28Batch{Scale: scale, WatchdogMs: int(watchdog / time.Millisecond), Profile: c28GenProfile(prof.Fork(strconv.Itoa(pidx)), pidx)}
		}
		cur.b.Requests = append(cur.b.Requests, r)
		if len(cur.b.Requests) >= perBatch {
			flush()
		}
	})
	flush()
	if len(batches) == 0 {
		return
	}

	// ---- execute batches in child processes (lanes in parallel; results handled in order) ----
	childTimeout := 20*time.Minute + 3*watchdog
	results := make([]*c28BatchResult, len(batches))
	var wg sync.WaitGroup
	sem := make(chan struct{}, lanes)
	for bi, bd := range batches {
		wg.Add(1)
		go func(bi int, bd *batchDef) {
			defer wg.Done()
			sem <- struct{}{}
			defer func() { <-sem }()
			err := bd.werr
			res := &c28BatchResult{}
			results[bi] = res
			if err != nil {
				res.outcomes = append(res.outcomes, verifkit.ChildOutcome{CrashedAt: -2, Message: "HARNESS: " + err.Error()})
				return
			}
			nreq := bd.hi - bd.lo
			start, startupRetries := 0, 0
			t0 := time.Now()
			defer func() { t.Logf("batch %d: %d child runs, %.1fs", bd.lo, len(res.outcomes), time.Since(t0).Seconds()) }()
			for restarts := 0; start <= nreq && restarts <= 40; restarts++ {
				out := verifkit.RunChild(dir, c28ChildTest, bd.file, start, childTimeout)
				if out.CrashedAt == -2 && len(out.Done) == 0 && startupRetries < 2 {
					startupRetries++ // died while starting the node (port taken in between): not an observation
					continue
				}
				res.outcomes = append(res.outcomes, out)
				res.starts = append(res.starts, start)
				next := -1
				if out.CrashedAt >= 0 {
					next = out.CrashedAt + 1
				} else if out.CrashedAt == -1 {
					for i, note := range out.Done {
						if strings.HasPrefix(note, "HANG") && i+1 > next {
							next = i + 1 // the child ended itself after a hang
						}
					}
				}
				if next < 0 {
					break
				}
				start = next
			}
		}(bi, bd)
	}
	wg.Wait()

	// ---- evaluate ----
	attributed := map[string]bool{} // signatures whose witness has already been pinned down by a replay
	for bi, bd := range batches {
		res := results[bi]
		nreq := bd.hi - bd.lo
		for oi, out := range res.outcomes {
			for i, note := range out.Done {
				if i >= nreq {
					if strings.Contains(note, "idle=false") {
						run.Count("drain_not_idle", 1)
					}
					var added, decided, sunk int64
					if k := strings.Index(note, "added="); k >= 0 {
						fmt.Sscanf(note[k:], "added=%d decided=%d sink_events=%d", &added, &decided, &sunk)
					}
					run.Count("spans_into_real_collector", added)
					run.Count("trace_decisions_by_real_samplers", decided)
					run.Count("events_transmitted_to_sink", sunk)
					continue
				}
				r := &bd.b.Requests[i]
				oc := c28OutcomeClass(note)
				run.Count("outcome_"+oc, 1)
				if oc == "closed" {
					continue
				}
				if oc == "hang" {
					if run.Counter("hangs_confirmed")+run.Counter("hangs_not_reproduced") >= 3 {
						run.Count("hangs_not_replayed", 1) // bounded effort: only the first three hangs of a run are replayed
						continue
					}
					// must reproduce alone 2/2 (the two confirmations run side by side)
					var o2 [2]verifkit.ChildOutcome
					var hw sync.WaitGroup
					for k := range o2 {
						hw.Add(1)
						go func(k int) {
							defer hw.Done()
							o2[k] = verifkit.RunChild(dir, c28ChildTest, bd.file, i, 3*watchdog+15*time.Minute, "VERIF_CHILD_ONLY=1")
						}(k)
					}
					hw.Wait()
					hung, site := 0, ""
					for k := range o2 {
						if strings.HasPrefix(o2[k].Done[i], "HANG") || (o2[k].TimedOut && o2[k].CrashedAt == i) {
							hung++
							site = c28HangSite(o2[k].Output)
						}
					}
					if hung == 2 {
						run.Count("hangs_confirmed", 1)
						run.Violation("C28/requests/hang/"+site, fmt.Sprintf("request not answered within %s (still being processed in %s), reproduced alone 2/2", watchdog, site), c28Witness(r, map[string]any{"profile": bd.b.Profile}))
					} else {
						run.Count("hangs_not_reproduced", 1)
						t.Logf("hang not reproduced alone: %s", r.Desc)
					}
					continue
				}
				run.Nontrivial(r.Class + " -> " + oc)
				if run.Counter("samples_taken") < 3 && i%97 == 0 {
					run.Count("samples_taken", 1)
					run.Sample(c28Witness(r, map[string]any{"outcome": note}))
				}
			}
			switch {
			case out.CrashedAt == -1:
			case out.CrashedAt == -2:
				run.Inconclusive(fmt.Sprintf("child of batch %d died outside any request: %s %s", bd.lo, out.Message, c28Tail28(out.Output, 30)))
			case out.TimedOut:
				run.Count("child_timeouts", 1)
				run.Inconclusive(fmt.Sprintf("child of batch %d hit its go test timeout at request %d", bd.lo, out.CrashedAt))
			default:
				run.Count("child_crashes", 1)
				j := out.CrashedAt
				msg := out.Message
				if strings.Contains(msg, "out of memory") {
					msg = "out of memory" // "runtime: out of memory" (mmap refused) and "out of memory" (heap limit) are one input class
				}
				sig := "C28/requests/" + out.Site + "/" + msg
				// attribution: replay the preceding window with per-request draining
				lo := max(res.starts[oi], j-32)
				witnessIdx, reproduced := j, false
				if j >= nreq {
					j = nreq - 1 // died while draining
					witnessIdx = j
				}
				if attributed[sig] {
					// only the first witness of a signature is written out; do not pay for more replays
					run.Violation(sig, fmt.Sprintf("request crashed the node in %s: %s", out.Site, msg), c28Witness(&bd.b.Requests[j], nil))
					continue
				}
				attributed[sig] = true
				// cheap first: the request named by the WAL alone (handler-side crashes reproduce at once)
				o2 := verifkit.RunChild(dir, c28ChildTest, bd.file, j, childTimeout, "VERIF_CHILD_ONLY=1")
				if o2.CrashedAt >= 0 && o2.Site == out.Site {
					reproduced = true
				} else {
					o2 = verifkit.RunChild(dir, c28ChildTest, bd.file, lo, childTimeout, "VERIF_CHILD_DRAIN_EACH=1", "VERIF_CHILD_UNTIL="+strconv.Itoa(j))
					if o2.CrashedAt >= 0 && o2.CrashedAt < nreq && o2.Site == out.Site {
						witnessIdx, reproduced = o2.CrashedAt, true
					}
				}
				r := &bd.b.Requests[witnessIdx]
				extra := map[string]any{"profile": bd.b.Profile, "reproduced_with_per_request_drain": reproduced, "wal_index_at_death": out.CrashedAt, "crash_output": c28Tail28(out.Output, 70)}
				if !reproduced {
					var window []string
					for k := lo; k <= j; k++ {
						window = append(window, bd.b.Requests[k].Desc)
					}
					extra["window"] = window
				}
				run.Violation(sig, fmt.Sprintf("request crashed the node in %s: %s", out.Site, msg), c28Witness(r, extra))
			}
		}
		os.Remove(bd.file)
	}
}

// c28HangSite: innermost Refinery frame of the goroutine that is still serving the request,
// taken from the goroutine dump the child writes when its watchdog fires.
func c28HangSite(output string) string {
	k := strings.Index(output, "VERIF-HANG request")
	if k < 0 {
		return "unknown"
	}
	for _, g := range strings.Split(output[k:], "\n\n") {
		if !strings.Contains(g, "refinery/route.") || !(strings.Contains(g, "net/http.(*conn).serve") || strings.Contains(g, "grpc.(*Server).handleStream")) {
			continue // not a goroutine serving a request of the node
		}
		if strings.Contains(g, "startSink") {
			continue
		}
		lines := strings.Split(g, "\n")
		for i, l := range lines {
			if !strings.HasPrefix(l, "github.com/honeycombio/refinery/") || (i+1 < len(lines) && strings.Contains(lines[i+1], "zz_verif_")) {
				continue
			}
			fn := strings.TrimPrefix(l, "github.com/honeycombio/refinery/")
			if p := strings.LastIndex(fn, "("); p > 0 {
				fn = fn[:p]
			}
			return fn
		}
	}
	return "unknown"
}

func c28Tail28(s string, n int) string {
	lines := strings.Split(s, "\n")
	for i, l := range lines {
		if strings.HasPrefix(l, "panic: ") || strings.HasPrefix(l, "fatal error: ") || strings.HasPrefix(l, "runtime: goroutine stack exceeds") {
			lines = lines[i:]
			break
		}
	}
	if len(lines) > n {
		lines = lines[:n]
	}
	return strings.Join(lines, "\n")
}
