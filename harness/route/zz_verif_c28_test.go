//go:build verif

package route

// C28 (unit "requests"): no request input can crash Refinery.
//
// Parent (TestVerif_C28Requests): generates hostile requests (seeded, structure-aware
// mutation, no coverage guidance) for every HTTP route, both gRPC Export methods and the
// peer listener, groups them into batches, and hands each batch to a child process
// (engine E8, verifkit.RunChild).
//
// Child (TestVerif_C28RequestsChild): hosts a REAL node wired like cmd/refinery/main.go
// (config loaded and validated by config.NewConfig from generated YAML, two route.Routers
// started with LnS on loopback HTTP ports + gRPC, collect.InMemCollector with its sample
// cache and every sampler type, sample.SamplerFactory, collect.StressRelief, health.Health,
// two transmit.DirectTransmissions: upstream -> a local sink, peer -> the node's own peer
// listener) and sends every request of the batch to itself over loopback, writing
// "S <i>" to the write-ahead log BEFORE sending and "D <i> <outcome>" after the answer.
//
// Refuting observation: the child dies (panic outside panicCatcher / net/http's recover,
// fatal error such as stack overflow or out of memory, os.Exit), or a request is not
// answered within the watchdog and that reproduces alone 2/2. Any answer, 4xx/5xx
// included, is fine. Signature: C28/requests/<CrashSite>/<message>.
//
// Unexported identifiers of package route used: none (the E3 file is listed only for its
// value tree / msgpack encoder / small-window compressors / raw gRPC codec).

import (
	"bytes"
	"context"
	"encoding/base64"
	"encoding/binary"
	"encoding/json"
	"fmt"
	"io"
	"math"
	"net"
	"net/http"
	"os"
	"path/filepath"
	"runtime"
	"runtime/debug"
	"sort"
	"strconv"
	"strings"
	"sync"
	"sync/atomic"
	"syscall"
	"testing"
	"time"

	"github.com/facebookgo/inject"
	"github.com/facebookgo/startstop"
	"github.com/jonboulle/clockwork"
	"go.opentelemetry.io/otel/trace"
	"go.opentelemetry.io/otel/trace/noop"
	collectorlogs "go.opentelemetry.io/proto/otlp/collector/logs/v1"
	collectortrace "go.opentelemetry.io/proto/otlp/collector/trace/v1"
	common "go.opentelemetry.io/proto/otlp/common/v1"
	logspb "go.opentelemetry.io/proto/otlp/logs/v1"
	resourcepb "go.opentelemetry.io/proto/otlp/resource/v1"
	tracepb "go.opentelemetry.io/proto/otlp/trace/v1"
	"google.golang.org/grpc"
	"google.golang.org/grpc/codes"
	"google.golang.org/grpc/credentials/insecure"
	"google.golang.org/grpc/metadata"
	"google.golang.org/grpc/status"
	"google.golang.org/protobuf/encoding/protojson"
	"google.golang.org/protobuf/proto"

	"github.com/honeycombio/refinery/collect"
	"github.com/honeycombio/refinery/config"
	"github.com/honeycombio/refinery/internal/health"
	"github.com/honeycombio/refinery/internal/peer"
	"github.com/honeycombio/refinery/internal/verifkit"
	"github.com/honeycombio/refinery/logger"
	"github.com/honeycombio/refinery/metrics"
	"github.com/honeycombio/refinery/pubsub"
	"github.com/honeycombio/refinery/sample"
	"github.com/honeycombio/refinery/sharder"
	"github.com/honeycombio/refinery/transmit"
	"github.com/honeycombio/refinery/types"
)

// -------------------------------------------------------------------------------------
// Batch file exchanged between parent and child
// -------------------------------------------------------------------------------------

type c28Req struct {
	Index     int               `json:"index"`
	Proto     string            `json:"proto"`    // "http" | "grpc"
	Listener  string            `json:"listener"` // "incoming" | "peer" (http only)
	Raw       []byte            `json:"raw,omitempty"`
	HalfClose bool              `json:"half_close,omitempty"` // close the write side after sending (declared length > body)
	Method    string            `json:"method,omitempty"`     // grpc full method
	MD        map[string]string `json:"md,omitempty"`
	Payload   []byte            `json:"payload,omitempty"`
	Gzip      bool              `json:"gzip,omitempty"` // grpc message compression
	Class     string            `json:"class"`          // route / content / encoding / body class
	Desc      string            `json:"desc"`
}

type c28Profile struct {
	Name       string `json:"name"`
	ConfigYAML string `json:"config_yaml"` // placeholders @LISTEN@ @PEER@ @GRPC@ @API@
	RulesYAML  string `json:"rules_yaml"`
	PeerShare  int    `json:"peer_share"` // 1/PeerShare of the trace ids are owned by "the peer" (own peer listener); 0 = none
}

type c28Batch struct {
	Scale      int         `json:"scale"`       // 16 quick, 1 thorough: stack limit = 1e9/Scale, extreme inputs sized limit/Scale
	WatchdogMs int         `json:"watchdog_ms"` // per request
	Profile    c28Profile  `json:"profile"`
	Requests   []c28Req    `json:"requests"`
}

const (
	c28KeyLegacy  = "c9945edf5d245834089a1bd6cc9ad01e"
	c28KeyLegacy2 = "0123456789abcdef0123456789abcdef"
	c28KeyIngest  = "hcxik_01hqk4k20cjeh63wca8vva5stw70nft6m5n8wr8f5mjx3762s8269j50wc" // 64 chars, classic ingest key pattern
	c28KeyEnv     = "abcdefghijklmnopqrstuv"                                           // environment lookup
	c28KeyEnv2    = "hcaik_01hqk4k20cjeh63wca8vva5stw70nft6m5n8wr8f5mjx3762s8269j50wcXX"
	c28QueryToken = "verif-query-token"
)

// -------------------------------------------------------------------------------------
// Child: the node
// -------------------------------------------------------------------------------------

type c28Shard struct{ addr string }

func (s *c28Shard) Equals(o sharder.Shard) bool { return s.addr == o.GetAddress() }
func (s *c28Shard) GetAddress() string          { return s.addr }

// c28Sharder: every share-th trace id (by FNV) belongs to peer, the rest to self.
type c28Sharder struct {
	self, peer *c28Shard
	share      int
}

func (s *c28Sharder) MyShard() sharder.Shard { return s.self }
func (s *c28Sharder) WhichShard(id string) sharder.Shard {
	if s.share > 0 {
		h := uint32(2166136261)
		for i := 0; i < len(id); i++ {
			h = (h ^ uint32(id[i])) * 16777619
		}
		if int(h%uint32(s.share)) == 0 {
			return s.peer
		}
	}
	return s.self
}

// c28CountingCollector counts the spans the routers handed to the real collector.
type c28CountingCollector struct {
	collect.Collector
	added atomic.Int64
}

func (c *c28CountingCollector) AddSpan(sp *types.Span) error {
	err := c.Collector.AddSpan(sp)
	if err == nil {
		c.added.Add(1)
	}
	return err
}
func (c *c28CountingCollector) AddSpanFromPeer(sp *types.Span) error {
	err := c.Collector.AddSpanFromPeer(sp)
	if err == nil {
		c.added.Add(1)
	}
	return err
}

// c28Routers mirrors app.App's two inline routers.
type c28Routers struct {
	Incoming Router `inject:"inline"`
	Peer     Router `inject:"inline"`
}

// c28ReqLogger: null logger that prints the FORMAT of error-level lines announcing an
// exit, so that verifkit.CrashSite can attribute an os.Exit.
type c28ReqLogger struct{ logger.NullLogger }
type c28ReqErrEntry struct{}

func (*c28ReqLogger) Error() logger.Entry                               { return c28ReqErrEntry{} }
func (e c28ReqErrEntry) WithField(string, interface{}) logger.Entry     { return e }
func (e c28ReqErrEntry) WithString(string, string) logger.Entry         { return e }
func (e c28ReqErrEntry) WithFields(map[string]interface{}) logger.Entry { return e }
func (e c28ReqErrEntry) Logf(f string, args ...interface{}) {
	if strings.Contains(f, "Exiting") {
		fmt.Fprintln(os.Stderr, verifkit.ErrLogPrefix+f)
	}
}

type c28Node struct {
	cfg        config.Config
	metrics    *metrics.MultiMetrics
	counting   *c28CountingCollector
	routers    *c28Routers
	graph      *inject.Graph
	sink       *http.Server
	sinkLn     net.Listener
	httpAddr   [2]string // incoming, peer
	grpcAddr   string
	grpcConn   *grpc.ClientConn
	sinkEvents atomic.Int64
}

func c28FreePorts(n int) ([]string, error) {
	var ls []net.Listener
	var out []string
	for i := 0; i < n; i++ {
		l, err := net.Listen("tcp", "127.0.0.1:0")
		if err != nil {
			return nil, err
		}
		ls = append(ls, l)
		out = append(out, l.Addr().String())
	}
	for _, l := range ls {
		l.Close()
	}
	return out, nil
}

// c28StartSink: what Honeycomb would be: /1/auth answers an environment, /1/batch one
// 202 per event, anything else (proxied paths) a small JSON document.
func (n *c28Node) startSink() error {
	ln, err := net.Listen("tcp", "127.0.0.1:0")
	if err != nil {
		return err
	}
	n.sinkLn = ln
	n.sink = &http.Server{Handler: http.HandlerFunc(func(w http.ResponseWriter, r *http.Request) {
		body, _ := io.ReadAll(io.LimitReader(r.Body, 64<<20))
		switch {
		case r.URL.Path == "/1/auth":
			key := r.Header.Get("X-Honeycomb-Team")
			if strings.Contains(key, "deny") {
				w.WriteHeader(401)
				return
			}
			env := "env-a"
			if len(key)%2 == 1 {
				env = "env-b"
			}
			w.Header().Set("Content-Type", "application/json")
			fmt.Fprintf(w, `{"api_key_access":{"events":true},"team":{"slug":"verif"},"environment":{"slug":%q,"name":%q},"id":"kid%d"}`, env, env, len(key)%3)
		case strings.HasPrefix(r.URL.Path, "/1/batch/"):
			cnt := 0
			if r.Header.Get("Content-Encoding") == "zstd" {
				if dec, err := verifkit.Decompress("zstd", body); err == nil {
					body = dec
				}
			}
			if len(body) > 0 {
				switch c := body[0]; {
				case c >= 0x90 && c <= 0x9f:
					cnt = int(c & 0x0f)
				case c == 0xdc && len(body) >= 3:
					cnt = int(binary.BigEndian.Uint16(body[1:]))
				case c == 0xdd && len(body) >= 5:
					cnt = int(binary.BigEndian.Uint32(body[1:]))
				}
			}
			n.sinkEvents.Add(int64(cnt))
			w.Header().Set("Content-Type", "application/json")
			w.Write([]byte("[" + strings.TrimSuffix(strings.Repeat(`{"status":202},`, cnt), ",") + "]"))
		default:
			w.Header().Set("Content-Type", "application/json")
			w.Header().Add("X-Verif-Sink", "a")
			w.Header().Add("X-Verif-Sink", "b")
			w.Write([]byte(`{"sink":"ok"}`))
		}
	})}
	go n.sink.Serve(ln)
	return nil
}

func c28StartNode(p c28Profile, dir string) (*c28Node, error) {
	n := &c28Node{}
	if err := n.startSink(); err != nil {
		return nil, err
	}
	var lastErr error
	for attempt := 0; attempt < 4; attempt++ {
		if err := n.startOnce(p, dir); err != nil {
			lastErr = err
			continue
		}
		return n, nil
	}
	return nil, lastErr
}

func (n *c28Node) startOnce(p c28Profile, dir string) error {
	ports, err := c28FreePorts(3)
	if err != nil {
		return err
	}
	n.httpAddr = [2]string{ports[0], ports[1]}
	n.grpcAddr = ports[2]
	rep := strings.NewReplacer("@LISTEN@", ports[0], "@PEER@", ports[1], "@GRPC@", ports[2], "@API@", "http://"+n.sinkLn.Addr().String())
	cfgPath, rulesPath := filepath.Join(dir, "config.yaml"), filepath.Join(dir, "rules.yaml")
	if err := os.WriteFile(cfgPath, []byte(rep.Replace(p.ConfigYAML)), 0o644); err != nil {
		return err
	}
	if err := os.WriteFile(rulesPath, []byte(p.RulesYAML), 0o644); err != nil {
		return err
	}
	cfg, err := config.NewConfig(&config.CmdEnv{ConfigLocations: []string{cfgPath}, RulesLocations: []string{rulesPath}})
	if cfg == nil {
		return fmt.Errorf("HARNESS: profile %s does not validate: %v", p.Name, err)
	}
	n.cfg = cfg
	lgr := &c28ReqLogger{}
	collector := collect.GetCollectorImplementation(cfg).(*collect.InMemCollector)
	n.metrics = metrics.GetMetricsImplementation(cfg)
	peerURL := "http://" + ports[1]
	mine := &c28Sharder{self: &c28Shard{addr: "http://self.verif.invalid:8081"}}
	fwd := &c28Sharder{self: mine.self, peer: &c28Shard{addr: peerURL}, share: p.PeerShare}
	done := make(chan struct{})
	upT := &http.Transport{Proxy: nil, TLSHandshakeTimeout: 15 * time.Second}
	peerT := &http.Transport{Proxy: nil, TLSHandshakeTimeout: 1200 * time.Millisecond}
	upTx := transmit.NewDirectTransmission(types.TransmitTypeUpstream, upT, int(cfg.GetTracesConfig().GetMaxBatchSize()),
		time.Duration(cfg.GetTracesConfig().GetBatchTimeout()), 30*time.Second, true, cfg.GetAdditionalHeaders())
	peerTx := transmit.NewDirectTransmission(types.TransmitTypePeer, peerT, int(cfg.GetTracesConfig().GetMaxBatchSize()),
		time.Duration(cfg.GetTracesConfig().GetBatchTimeout()), 10*time.Second, cfg.GetCompressPeerCommunication(), nil)
	var nullA metrics.MetricsBackend = &metrics.NullMetrics{}
	var nullB metrics.MetricsBackend = &metrics.NullMetrics{}
	n.routers = &c28Routers{}
	g := &inject.Graph{}
	objects := []*inject.Object{
		{Value: cfg},
		{Value: peer.NewMockPeers([]string{peerURL}, "verif-c28")},
		{Value: &pubsub.LocalPubSub{}},
		{Value: lgr},
		{Value: upT, Name: "upstreamTransport"},
		{Value: peerT, Name: "peerTransport"},
		{Value: upTx, Name: "upstreamTransmission"},
		{Value: peerTx, Name: "peerTransmission"},
		{Value: mine},
		{Value: collector},
		{Value: nullA, Name: "promMetrics"},
		{Value: nullB, Name: "otelMetrics"},
		{Value: trace.Tracer(noop.Tracer{}), Name: "tracer"},
		{Value: clockwork.NewRealClock()},
		{Value: n.metrics, Name: "metrics"},
		{Value: "verif-c28", Name: "version"},
		{Value: &sample.SamplerFactory{}},
		{Value: &collect.StressRelief{Done: done}, Name: "stressRelief"},
		{Value: &health.Health{}},
		{Value: n.routers},
		{Value: "verif-c28-node", Name: "instanceID"},
	}
	if err := g.Provide(objects...); err != nil {
		return fmt.Errorf("HARNESS: provide: %w", err)
	}
	if err := g.Populate(); err != nil {
		return fmt.Errorf("HARNESS: populate: %w", err)
	}
	n.graph = g
	if err := startstop.Start(g.Objects(), nil); err != nil {
		return fmt.Errorf("HARNESS: start: %w", err)
	}
	n.counting = &c28CountingCollector{Collector: collector}
	n.routers.Incoming.Collector, n.routers.Peer.Collector = n.counting, n.counting
	n.routers.Incoming.Sharder, n.routers.Peer.Sharder = fwd, mine
	n.routers.Incoming.SetVersion("verif-c28")
	n.routers.Peer.SetVersion("verif-c28")
	n.routers.Incoming.SetType(types.RouterTypeIncoming)
	n.routers.Peer.SetType(types.RouterTypePeer)
	n.routers.Incoming.LnS()
	n.routers.Peer.LnS()
	// wait until both HTTP listeners answer /version
	deadline := time.Now().Add(5 * time.Second)
	for _, a := range n.httpAddr {
		for {
			resp, err := c28RawHTTPDo(a, []byte("GET /version HTTP/1.1\r\nHost: x\r\nConnection: close\r\n\r\n"), false, 2*time.Second)
			if err == nil && strings.Contains(resp, "verif-c28") {
				break
			}
			if time.Now().After(deadline) {
				n.stop()
				return fmt.Errorf("HARNESS: listener %s did not come up: %v %q", a, err, resp)
			}
			time.Sleep(5 * time.Millisecond)
		}
	}
	conn, err := grpc.NewClient(n.grpcAddr, grpc.WithTransportCredentials(insecure.NewCredentials()),
		grpc.WithDefaultCallOptions(grpc.MaxCallSendMsgSize(math.MaxInt32)))
	if err != nil {
		return fmt.Errorf("HARNESS: grpc client: %w", err)
	}
	n.grpcConn = conn
	return nil
}

func (n *c28Node) metric(name string) int64 {
	v, _ := n.metrics.Get(name)
	return int64(v)
}

// idle: every span handed to the collector has been processed, every accepted trace has
// been decided, both transmissions are empty. Polled; a timeout is not a verdict.
func (n *c28Node) waitIdle(bound time.Duration) bool {
	deadline := time.Now().Add(bound)
	stable := 0
	for {
		ok := n.metric("span_processed") >= n.counting.added.Load() &&
			n.metric("trace_accepted") == n.metric("trace_send_kept")+n.metric("trace_send_dropped") &&
			n.metric("libhoney_upstream_queued_items") == 0 && n.metric("libhoney_peer_queued_items") == 0
		if ok {
			stable++
			if stable >= 3 {
				return true
			}
		} else {
			stable = 0
		}
		if time.Now().After(deadline) {
			return false
		}
		time.Sleep(3 * time.Millisecond)
	}
}

func (n *c28Node) stop() {
	if n.grpcConn != nil {
		n.grpcConn.Close()
	}
	if n.routers != nil {
		// Router.Stop waits for idle connections; bound it
		d := make(chan struct{})
		go func() {
			defer close(d)
			if n.routers.Incoming.server != nil {
				_ = n.routers.Incoming.Stop()
			}
			if n.routers.Peer.server != nil {
				_ = n.routers.Peer.Stop()
			}
		}()
		select {
		case <-d:
		case <-time.After(15 * time.Second):
		}
	}
	if n.graph != nil {
		_ = startstop.Stop(n.graph.Objects(), nil)
	}
}

// c28RawHTTPDo writes raw request bytes to addr and returns everything the server sent.
func c28RawHTTPDo(addr string, raw []byte, halfClose bool, bound time.Duration) (string, error) {
	conn, err := net.DialTimeout("tcp", addr, 5*time.Second)
	if err != nil {
		return "", err
	}
	defer conn.Close()
	conn.SetDeadline(time.Now().Add(bound))
	var werr error
	wdone := make(chan struct{})
	go func() {
		defer close(wdone)
		_, werr = conn.Write(raw)
		if halfClose {
			if tc, ok := conn.(*net.TCPConn); ok {
				tc.CloseWrite()
			}
		}
	}()
	resp, rerr := io.ReadAll(io.LimitReader(conn, 1<<20))
	<-wdone
	if len(resp) > 0 {
		return string(resp), nil
	}
	if rerr == nil {
		rerr = werr
	}
	return "", rerr
}

// send executes one request against the node and returns the WAL note.
func (n *c28Node) send(r *c28Req, watchdog time.Duration) string {
	if r.Proto == "grpc" {
		ctx, cancel := context.WithTimeout(context.Background(), watchdog)
		defer cancel()
		ctx = metadata.NewOutgoingContext(ctx, metadata.New(r.MD))
		var out []byte
		opts := []grpc.CallOption{grpc.ForceCodec(e3RawCodec{})}
		if r.Gzip {
			opts = append(opts, grpc.UseCompressor("gzip"))
		}
		payload := r.Payload
		err := n.grpcConn.Invoke(ctx, r.Method, &payload, &out, opts...)
		code := codes.OK
		if err != nil {
			st, _ := status.FromError(err)
			code = st.Code()
		}
		if code == codes.DeadlineExceeded {
			return "HANG grpc"
		}
		return "g" + strconv.Itoa(int(code))
	}
	addr := n.httpAddr[0]
	if r.Listener == "peer" {
		addr = n.httpAddr[1]
	}
	resp, err := c28RawHTTPDo(addr, r.Raw, r.HalfClose, watchdog)
	if err != nil {
		if ne, ok := err.(net.Error); ok && ne.Timeout() {
			return "HANG http"
		}
		return "closed"
	}
	if len(resp) >= 12 && strings.HasPrefix(resp, "HTTP/1.") {
		return "h" + resp[9:12]
	}
	return "h???"
}

func TestVerif_C28RequestsChild(t *testing.T) {
	bf, start, ok := verifkit.InChild()
	if !ok {
		t.Skip("not a child")
	}
	b, err := os.ReadFile(bf)
	if err != nil {
		t.Fatal(err)
	}
	var batch c28Batch
	if err := json.Unmarshal(b, &batch); err != nil {
		t.Fatal(err)
	}
	// contain runaway allocations: a request of a few MB that makes the process map
	// more than 16 GiB is a crash ("runtime: out of memory") on any host
	_ = syscall.Setrlimit(syscall.RLIMIT_AS, &syscall.Rlimit{Cur: 16 << 30, Max: 16 << 30})
	if batch.Scale > 1 {
		debug.SetMaxStack(1_000_000_000 / batch.Scale)
	}
	wal, err := verifkit.OpenWAL()
	if err != nil {
		t.Fatal(err)
	}
	defer wal.Close()
	node, err := c28StartNode(batch.Profile, t.TempDir())
	if err != nil {
		t.Fatal(err)
	}
	only := os.Getenv("VERIF_CHILD_ONLY") != ""
	drainEach := os.Getenv("VERIF_CHILD_DRAIN_EACH") != ""
	until := len(batch.Requests) - 1
	if s := os.Getenv("VERIF_CHILD_UNTIL"); s != "" {
		until, _ = strconv.Atoi(s)
	}
	watchdog := time.Duration(batch.WatchdogMs) * time.Millisecond
	for i := start; i <= until && i < len(batch.Requests); i++ {
		wal.Begin(i)
		note := node.send(&batch.Requests[i], watchdog)
		if strings.HasPrefix(note, "HANG") {
			buf := make([]byte, 1<<20)
			buf = buf[:runtime.Stack(buf, true)]
			fmt.Fprintf(os.Stderr, "VERIF-HANG request %d\n%s\n", i, buf)
		}
		if drainEach {
			if !node.waitIdle(5 * time.Second) {
				note += " undrained"
			}
		}
		wal.Done(i, note)
		if only {
			break
		}
	}
	// drain: everything accepted goes through a sampler decision and out of the
	// transmissions before the process ends; a crash here belongs to the batch
	wal.Begin(len(batch.Requests))
	idle := node.waitIdle(8 * time.Second)
	node.stop()
	wal.Done(len(batch.Requests), fmt.Sprintf("drained idle=%v added=%d decided=%d sink_events=%d", idle, node.counting.added.Load(),
		node.metric("trace_send_kept")+node.metric("trace_send_dropped"), node.sinkEvents.Load()))
}

var _ = sync.Mutex{}
var _ = sort.Strings
var _ = base64.StdEncoding
var _ = bytes.Equal

// -------------------------------------------------------------------------------------
// Parent: node profiles (validated configuration + rules reading the fuzzed fields)
// -------------------------------------------------------------------------------------

const c28RulesYAML = `RulesVersion: 2
Samplers:
  __default__:
    RulesBasedSampler:
      CheckNestedFields: @NESTED@
      Rules:
        - Name: drop probes
          Drop: true
          Conditions:
            - Field: a
              Operator: "="
              Value: dropme
        - Name: int compare
          SampleRate: 2
          Conditions:
            - Fields: [http.status, b]
              Operator: ">="
              Value: 400
              Datatype: int
        - Name: float compare
          SampleRate: 3
          Scope: span
          Conditions:
            - Field: duration_ms
              Operator: "<"
              Value: 1.5
              Datatype: float
            - Field: a
              Operator: exists
        - Name: strings
          SampleRate: 1
          Conditions:
            - Field: a
              Operator: contains
              Value: x
              Datatype: string
            - Field: nested.x
              Operator: starts-with
              Value: "2"
        - Name: regex and in
          SampleRate: 4
          Conditions:
            - Field: b
              Operator: matches
              Value: "^[0-9a-f]+$"
            - Field: http.status
              Operator: in
              Value: [200, 201, "x"]
              Datatype: int
        - Name: bool and root
          SampleRate: 1
          Conditions:
            - Field: root.a
              Operator: "!="
              Value: true
              Datatype: bool
            - Field: "?.NUM_DESCENDANTS"
              Operator: ">"
              Value: 1
        - Name: no root
          Conditions:
            - Operator: has-root-span
              Value: false
          Sampler:
            EMADynamicSampler:
              GoalSampleRate: 2
              FieldList: [a, b, root.http.status]
        - Name: fallthrough dynamic
          Sampler:
            DynamicSampler:
              SampleRate: 2
              ClearFrequency: 1s
              FieldList: [a, b, http.status, nested.x]
              UseTraceLength: true
  dyn:
    DynamicSampler:
      SampleRate: 3
      ClearFrequency: 1s
      FieldList: [a, http.status, nested]
  ema:
    EMADynamicSampler:
      GoalSampleRate: 2
      AdjustmentInterval: 1s
      FieldList: [a, b, root.a]
      UseTraceLength: true
  emat:
    EMAThroughputSampler:
      GoalThroughputPerSec: 10
      AdjustmentInterval: 1s
      FieldList: [a, http.status]
  win:
    WindowedThroughputSampler:
      GoalThroughputPerSec: 10
      UpdateFrequency: 1s
      LookbackFrequency: 5s
      FieldList: [b, nested.x]
  tot:
    TotalThroughputSampler:
      GoalThroughputPerSec: 10
      ClearFrequency: 1s
      FieldList: [a, b]
  det:
    DeterministicSampler:
      SampleRate: 2
  env-a:
    DynamicSampler:
      SampleRate: 2
      ClearFrequency: 1s
      FieldList: [a, b, http.status]
`

var c28Datasets = []string{"dyn", "ema", "emat", "win", "tot", "det", "other", "a b", "x/y", "é✓"}

func c28GenProfile(rng *verifkit.Rand, idx int) c28Profile {
	yn := func() string { return strconv.FormatBool(rng.Bool()) }
	stress := verifkit.Pick(rng, "never", "never", "never", "always")
	keys := ""
	switch rng.Intn(4) {
	case 0:
		keys = fmt.Sprintf("AccessKeys:\n  ReceiveKeys: [%s, %s]\n  AcceptOnlyListedKeys: true\n  SendKey: %s\n  SendKeyMode: listedonly\n", c28KeyLegacy, c28KeyEnv, c28KeyLegacy2)
	case 1:
		keys = fmt.Sprintf("AccessKeys:\n  ReceiveKeys: [%s]\n  ReceiveKeyIDs: [kid1]\n  AcceptOnlyListedKeys: false\n  SendKey: %s\n  SendKeyMode: missingonly\n", c28KeyLegacy2, c28KeyLegacy)
	case 2:
		keys = fmt.Sprintf("AccessKeys:\n  SendKey: %s\n  SendKeyMode: all\n", c28KeyEnv)
	}
	ids := verifkit.Pick(rng, "", "IDFields:\n  TraceNames: [trace.trace_id, traceId, a]\n  ParentNames: [trace.parent_id, parentId]\n")
	share := verifkit.Pick(rng, 0, 2, 3, 4)
	cfgYAML := fmt.Sprintf(`General:
  ConfigurationVersion: 2
Network:
  ListenAddr: "@LISTEN@"
  PeerListenAddr: "@PEER@"
  HoneycombAPI: "@API@"
%s%sRefineryTelemetry:
  AddRuleReasonToTrace: %s
  AddSpanCountToRoot: %s
  AddCountsToRoot: %s
  AddHostMetadataToTrace: %s
Traces:
  SendDelay: 100ms
  BatchTimeout: 10ms
  TraceTimeout: 1s
  SendTicker: 5ms
  SpanLimit: %d
  MaxBatchSize: 100
Debugging:
  QueryAuthToken: %s
  DryRun: %s
  AdditionalErrorFields: [a, trace.trace_id, nested]
PeerManagement:
  Type: file
  Peers: ["http://@PEER@"]
Collection:
  WorkerCount: 2
  IncomingQueueSize: 3000
  PeerQueueSize: 3000
GRPCServerParameters:
  Enabled: true
  ListenAddr: "@GRPC@"
SampleCache:
  KeptSize: 1000
  DroppedSize: 10000
StressRelief:
  Mode: %s
  SamplingRate: 2
Specialized:
  AdditionalAttributes:
    verif.extra: "1"
    a: overwritten
OpAMP:
  Enabled: false
`, keys, ids, yn(), yn(), yn(), yn(), verifkit.Pick(rng, 0, 3, 32000), c28QueryToken, verifkit.Pick(rng, "false", "false", "true"), stress)
	return c28Profile{
		Name:       fmt.Sprintf("p%d-stress=%s-share=%d", idx, stress, share),
		ConfigYAML: cfgYAML,
		RulesYAML:  strings.ReplaceAll(c28RulesYAML, "@NESTED@", yn()),
		PeerShare:  share,
	}
}

// -------------------------------------------------------------------------------------
// Parent: hostile values, encodings and byte-level mutations
// -------------------------------------------------------------------------------------

var c28Strings = []string{"", "x", "dropme", "200", "true", "2xx", "deadbeef", "a\x00b", "\xff\xfe\xfd", "é✓", " ", "%s%d%n", "\"quoted\"\\", "null", "NaN", "1e999", "-0"}

func c28Str(rng *verifkit.Rand) string {
	switch rng.Intn(12) {
	case 0:
		return strings.Repeat("A", verifkit.Pick(rng, 31, 32, 255, 256, 65535, 65536, 70000))
	case 1:
		return rng.Hex(rng.Range(0, 40))
	default:
		return c28Strings[rng.Intn(len(c28Strings))]
	}
}

// c28Val: a hostile field value (depth-bounded).
func c28Val(rng *verifkit.Rand, depth int) E3Val {
	k := rng.Intn(24)
	if depth <= 0 && k >= 18 {
		k = rng.Intn(18)
	}
	switch k {
	case 0:
		return VNil()
	case 1:
		return VBool(rng.Bool())
	case 2, 3:
		return VInt(verifkit.Pick[int64](rng, 0, 1, -1, 200, 404, 500, 127, 128, -32, -33, 65535, 1<<31, 1<<53+1, math.MaxInt64, math.MinInt64))
	case 4:
		return VUintW(verifkit.Pick[uint64](rng, 0, 255, 1<<32, math.MaxUint64, 1<<63), verifkit.Pick(rng, 0, 8, 16, 32, 64))
	case 5:
		return VF64(verifkit.Pick(rng, 0.0, 1.5, -1.5, math.NaN(), math.Inf(1), math.Inf(-1), 1e308, 5e-324, math.Copysign(0, -1), 1e19, -1e19))
	case 6:
		return VF32(verifkit.Pick[float32](rng, 0.1, float32(math.NaN()), float32(math.Inf(1)), 3.4e38))
	case 7, 8, 9, 10:
		return VStr(c28Str(rng))
	case 11:
		return VStrW(c28Str(rng), verifkit.Pick(rng, 8, 16, 32))
	case 12:
		return VBin([]byte(c28Str(rng)))
	case 13:
		return verifkit.Pick(rng, VTs32(1700000000), VTs64(1700000000, 999999999), VTs96(-1, 5), VTs96(math.MaxInt64, 999999999), VTs64(1<<34-1, 1<<30-1), VTs96(1, 2000000000))
	case 14:
		return VExt(int8(verifkit.Pick(rng, 0, 1, 5, -2, -128, 127, 99)), []byte(rng.Hex(verifkit.Pick(rng, 0, 1, 2, 4, 8, 16, 3, 300)/2*2))[:verifkit.Pick(rng, 0, 1, 2, 3)])
	case 15:
		return VExt(-1, []byte(rng.Hex(32))[:verifkit.Pick(rng, 0, 1, 3, 5, 7, 9, 11, 13)]) // timestamp ext of illegal length
	case 16:
		return VStr(verifkit.Pick(rng, "span_event", "link", "log", "trace", "", "unknown"))
	case 17:
		return VInt(int64(rng.Intn(1000)))
	case 18, 19, 20:
		n := rng.Range(0, 4)
		var xs []E3Val
		for i := 0; i < n; i++ {
			xs = append(xs, c28Val(rng, depth-1))
		}
		v := VArr(xs...)
		if rng.Chance(0.2) {
			v.Width = verifkit.Pick(rng, 16, 32)
		}
		return v
	default:
		n := rng.Range(0, 4)
		var kvs []E3KV
		for i := 0; i < n; i++ {
			kv := KV(verifkit.Pick(rng, "x", "y", "x", "", "a.b", c28Str(rng)), c28Val(rng, depth-1))
			kv.KeyBin = rng.Chance(0.1)
			kvs = append(kvs, kv)
		}
		v := VMap(kvs...)
		if rng.Chance(0.2) {
			v.Width = verifkit.Pick(rng, 16, 32)
		}
		return v
	}
}

var c28FieldNamesReq = []string{"a", "b", "http.status", "nested", "nested.x", "duration_ms", "name", "service.name", "c", ""}

var c28MetaFields = []string{"meta.signal_type", "meta.trace_id", "meta.annotation_type", "meta.refinery.probe", "meta.refinery.root",
	"meta.refinery.incoming_user_agent", "meta.refinery.local_hostname", "meta.stressed", "meta.refinery.reason", "meta.refinery.send_reason",
	"meta.span_event_count", "meta.span_link_count", "meta.span_count", "meta.event_count", "meta.refinery.original_sample_rate",
	"meta.refinery.final_sample_rate", "meta.refinery.sample_key", "meta.dryrun.kept", "meta.unknown"}

// c28TraceIDs: a small pool so that spans join traces, plus odd ones.
func c28TraceID(rng *verifkit.Rand) E3Val {
	switch rng.Intn(14) {
	case 0:
		return VStr("")
	case 1:
		return VInt(12345)
	case 2:
		return VBin([]byte("binary-trace-id"))
	case 3:
		return VStr(strings.Repeat("t", verifkit.Pick(rng, 1000, 70000)))
	case 4:
		return VNil()
	case 5:
		return VMap(KV("id", VStr("x")))
	case 6:
		return VStr(rng.Hex(32))
	default:
		return VStr(fmt.Sprintf("trace-%d", rng.Intn(40)))
	}
}

// c28EventTree: the "data" map of one libhoney event. weird = probability of a hostile choice.
func c28EventTree(rng *verifkit.Rand, weird float64) E3Val {
	var kvs []E3KV
	if rng.Chance(0.85) {
		name := verifkit.Pick(rng, "trace.trace_id", "trace.trace_id", "traceId", "a")
		if rng.Chance(weird) {
			kvs = append(kvs, KV(name, c28TraceID(rng)))
		} else {
			kvs = append(kvs, KV(name, VStr(fmt.Sprintf("trace-%d", rng.Intn(40)))))
		}
	}
	if rng.Chance(0.6) {
		name := verifkit.Pick(rng, "trace.parent_id", "parentId")
		if rng.Chance(weird) {
			kvs = append(kvs, KV(name, c28Val(rng, 1)))
		} else {
			kvs = append(kvs, KV(name, VStr(rng.Hex(16))))
		}
	}
	nf := rng.Range(0, 6)
	for i := 0; i < nf; i++ {
		name := c28FieldNamesReq[rng.Intn(len(c28FieldNamesReq))]
		if rng.Chance(weird) {
			kvs = append(kvs, KV(name, c28Val(rng, 3)))
		} else {
			kvs = append(kvs, KV(name, verifkit.Pick(rng, VStr("x1"), VInt(200), VInt(500), VF64(0.5), VBool(true), VStr("dropme"), VMap(KV("x", VStr("2y"))))))
		}
	}
	if rng.Chance(0.3 + weird/2) {
		nm := rng.Range(1, 3)
		for i := 0; i < nm; i++ {
			name := c28MetaFields[rng.Intn(len(c28MetaFields))]
			if rng.Chance(0.5) {
				kvs = append(kvs, KV(name, c28Val(rng, 1)))
			} else {
				kvs = append(kvs, KV(name, verifkit.Pick(rng, VBool(true), VBool(false), VInt(3), VStr("log"), VStr("span_event"), VStr("link"), VF64(2.5), VIntW(-1, 64))))
			}
		}
	}
	if rng.Chance(weird / 3) { // duplicate key
		if len(kvs) > 0 {
			kvs = append(kvs, KV(kvs[0].Key, c28Val(rng, 1)))
		}
	}
	if rng.Chance(weird / 4) {
		for i := 0; i < verifkit.Pick(rng, 16, 300, 70000); i++ { // map16 / map32 sized payloads
			kvs = append(kvs, KV("f"+strconv.Itoa(i), VInt(int64(i))))
		}
	}
	verifkit.Shuffle(rng, kvs)
	return VMap(kvs...)
}

// c28JSON renders the tree as (possibly non-standard) JSON: NaN/Infinity literals,
// invalid UTF-8 passed through, bin as string, ext as object, duplicate keys kept.
func c28JSON(b []byte, v E3Val) []byte {
	switch v.Kind {
	case KNil:
		return append(b, "null"...)
	case KBool:
		return strconv.AppendBool(b, v.Bool)
	case KInt:
		return strconv.AppendInt(b, v.Int, 10)
	case KUint:
		return strconv.AppendUint(b, v.Uint, 10)
	case KF32, KF64:
		switch {
		case math.IsNaN(v.F):
			return append(b, "NaN"...)
		case math.IsInf(v.F, 1):
			return append(b, "1e999"...)
		case math.IsInf(v.F, -1):
			return append(b, "-Infinity"...)
		}
		return strconv.AppendFloat(b, v.F, 'g', -1, 64)
	case KStr, KBin:
		s := v.Str
		if v.Kind == KBin {
			s = string(v.Bin)
		}
		b = append(b, '"')
		for i := 0; i < len(s); i++ {
			c := s[i]
			switch {
			case c == '"' || c == '\\':
				b = append(b, '\\', c)
			case c < 0x20:
				b = append(b, fmt.Sprintf("\\u%04x", c)...)
			default:
				b = append(b, c) // invalid UTF-8 goes out raw
			}
		}
		return append(b, '"')
	case KTime:
		return append(b, fmt.Sprintf("%q", time.Unix(v.Sec%4e9, v.Nsec%1e9).UTC().Format(time.RFC3339Nano))...)
	case KExt, KRaw:
		return append(b, fmt.Sprintf(`{"ext":%d,"b":%q}`, v.Ext, base64.StdEncoding.EncodeToString(v.Bin))...)
	case KArr:
		b = append(b, '[')
		for i, x := range v.Arr {
			if i > 0 {
				b = append(b, ',')
			}
			b = c28JSON(b, x)
		}
		return append(b, ']')
	case KMap:
		b = append(b, '{')
		for i, kv := range v.Map {
			if i > 0 {
				b = append(b, ',')
			}
			b = c28JSON(b, VStr(kv.Key))
			b = append(b, ':')
			b = c28JSON(b, kv.Val)
		}
		return append(b, '}')
	}
	return append(b, "null"...)
}

// c28HugeHeaders: msgpack headers declaring lengths the body does not have.
var c28HugeHeaders = [][]byte{
	{0xdd, 0xff, 0xff, 0xff, 0xff}, {0xdd, 0x7f, 0xff, 0xff, 0xff}, {0xdd, 0x01, 0x00, 0x00, 0x00}, {0xdc, 0xff, 0xff},
	{0xdf, 0xff, 0xff, 0xff, 0xff}, {0xdf, 0x00, 0x10, 0x00, 0x00}, {0xde, 0xff, 0xff},
	{0xdb, 0xff, 0xff, 0xff, 0xff}, {0xdb, 0x7f, 0xff, 0xff, 0xf0}, {0xda, 0xff, 0xff}, {0xd9, 0xff},
	{0xc6, 0xff, 0xff, 0xff, 0xff}, {0xc5, 0xff, 0xff}, {0xc9, 0xff, 0xff, 0xff, 0xff, 0xff}, {0xc8, 0xff, 0xff, 0x01}, {0xc7, 0xff, 0xff},
	{0xc1}, {0xd8, 0xff}, {0xd7, 0xff, 0xff, 0xff},
}

// c28Mutate applies 1..3 byte-level mutations; returns the mutated bytes and a class label.
func c28Mutate(rng *verifkit.Rand, in []byte, msgpackish bool) ([]byte, string) {
	b := append([]byte(nil), in...)
	label := ""
	for k := rng.Range(1, 3); k > 0; k-- {
		if len(b) == 0 {
			b = []byte{byte(rng.Intn(256))}
		}
		p := rng.Intn(len(b))
		switch m := rng.Intn(9); m {
		case 0:
			b = b[:p]
			label += "+trunc"
		case 1:
			b[p] = verifkit.Pick[byte](rng, 0x00, 0xff, 0x80, 0x7f, 0xc1, byte(rng.Intn(256)), b[p]^byte(1<<rng.Intn(8)))
			label += "+flip"
		case 2:
			b = append(b[:p], b[p+1:]...)
			label += "+del"
		case 3:
			ins := []byte{byte(rng.Intn(256))}
			if rng.Bool() {
				ins = bytes.Repeat([]byte{0xff}, 9)
				ins = append(ins, 0x01) // over-long varint
			}
			b = append(b[:p], append(ins, b[p:]...)...)
			label += "+ins"
		case 4:
			q := p + rng.Intn(len(b)-p)
			b = append(b[:q], append(append([]byte(nil), b[p:q]...), b[q:]...)...)
			label += "+dup"
		case 5:
			g := make([]byte, rng.Range(1, 16))
			for i := range g {
				g[i] = byte(rng.Intn(256))
			}
			b = append(b, g...)
			label += "+trail"
		case 6:
			if msgpackish {
				h := c28HugeHeaders[rng.Intn(len(c28HugeHeaders))]
				b = append(b[:p], append(append([]byte(nil), h...), b[p:]...)...)
				if rng.Bool() && p+len(h) < len(b) {
					b = append(b[:p+len(h)], b[p+len(h)+1:]...) // replace instead of insert
				}
				label += "+hugelen"
			} else {
				// protobuf / text: huge length varint or brace soup
				h := verifkit.Pick(rng, []byte{0xff, 0xff, 0xff, 0xff, 0x0f}, []byte{0xff, 0xff, 0xff, 0xff, 0xff, 0xff, 0xff, 0xff, 0x7f}, []byte("[[[[{{{{"), []byte{0x0b}, []byte{0x0c}, []byte{0x07})
				b = append(b[:p], append(append([]byte(nil), h...), b[p:]...)...)
				label += "+hugelen"
			}
		case 7:
			for i := p; i < len(b) && i < p+8; i++ {
				b[i] = byte(rng.Intn(256))
			}
			label += "+noise"
		default:
			if len(b) > 2 {
				q := rng.Intn(len(b))
				b[p], b[q] = b[q], b[p]
			}
			label += "+swap"
		}
	}
	return b, label
}

func c28Random(rng *verifkit.Rand, n int) []byte {
	b := make([]byte, n)
	for i := range b {
		b[i] = byte(rng.Intn(256))
	}
	return b
}
