//go:build verif

package route

// =====================================================================================
// E3 — router bench (shared by C19, C21, C22, C23 and later C09, C14, C24, C25, C37,
// C04 stress path, C20).  Full description: /verif/notes/E3.md.
//
// What it is: one or two REAL route.Router objects (incoming listener, peer listener)
// started through Router.LnS() exactly as cmd/refinery/main.go's dependency graph would
// start them (real gorilla mux, real middleware chain, real otelhttp wrappers, real gRPC
// server on a loopback port when asked for), whose collaborators are RECORDING and
// SCRIPTED:
//
//   b := e3New(t, E3Options{...})           // defer b.Close()
//   b.Cfg        *config.MockConfig         // mutate only through b.Config(func(c){...})
//   b.Collector  *E3Collector               // records AddSpan / AddSpanFromPeer /
//                                           // ProcessSpanImmediately; SetWouldBlock,
//                                           // SetStressed, SetImmediate script it
//   b.Upstream   *E3Transmission            // records EnqueueEvent/EnqueueSpan (snapshot)
//   b.PeerTx     *E3Transmission            //   "
//   b.Sharder    *E3Sharder                 // SetOwner(func(traceID) addr); "" = mine
//   b.Env        *E3Env                     // Set(func(key) (env, keyID, err))
//   b.Log        *E3Log                     // every observation, in order (Reset/Snapshot)
//   b.Metrics    *metrics.MockMetrics
//   b.Wire       *E3Wire                    // only with Options.Wire: real
//                                           // transmit.DirectTransmission -> fake Honeycomb
//
// Driving it:
//   resp := b.Serve(req)                    // in-process: router.server.Handler.ServeHTTP
//                                           // with a recorder that counts WriteHeader calls
//   resp := b.ServeTCP(listener, rawBytes)  // real loopback connection to the same mux
//                                           // (raw request bytes; half-close after writing)
//   b.GRPCTraces(md, req) / b.GRPCLogs(md, req) / b.GRPCRaw(method, md, payload)
//
// Building requests (explicit control over wire types and key ORDER):
//   E3Val / E3KV value tree: VStr VBin VInt VIntW VUintW VF32 VF64 VBool VNil VArr VMap
//   VTs32 VTs64 VTs96 VExt VRaw; e3AppendMsgpack / e3AppendJSON render it; e3DecodeMsgpack
//   is an independent decoder back into the same tree; e3Equiv compares trees modulo
//   harmless re-encodings.
//   e3EventReq / e3BatchReq  -> /1/events/<ds> and /1/batch/<ds>, JSON or msgpack
//   (*E3Req).Gzip() .Zstd()  -> Content-Encoding
//   e3OTLPTraceReq / e3OTLPLogsReq -> /v1/traces, /v1/logs (protobuf or JSON)
//
// Everything that touches unexported identifiers of package route is in the ADAPTER
// section right below; the rest uses exported API only.
// =====================================================================================

import (
	"bufio"
	"bytes"
	"compress/gzip"
	"context"
	"encoding/base64"
	"encoding/binary"
	"encoding/json"
	"errors"
	"fmt"
	"io"
	"math"
	"net"
	"net/http"
	"net/http/httptest"
	"net/url"
	"sort"
	"strconv"
	"strings"
	"sync"
	"testing"
	"time"

	"github.com/klauspost/compress/zstd"
	"go.opentelemetry.io/otel/trace/noop"
	collectorlogs "go.opentelemetry.io/proto/otlp/collector/logs/v1"
	collectortrace "go.opentelemetry.io/proto/otlp/collector/trace/v1"
	common "go.opentelemetry.io/proto/otlp/common/v1"
	logs "go.opentelemetry.io/proto/otlp/logs/v1"
	resource "go.opentelemetry.io/proto/otlp/resource/v1"
	trace "go.opentelemetry.io/proto/otlp/trace/v1"
	"google.golang.org/grpc"
	"google.golang.org/grpc/codes"
	"google.golang.org/grpc/credentials/insecure"
	"google.golang.org/grpc/metadata"
	"google.golang.org/grpc/status"
	"google.golang.org/protobuf/encoding/protojson"
	"google.golang.org/protobuf/proto"

	"github.com/honeycombio/refinery/collect"
	"github.com/honeycombio/refinery/config"
	"github.com/honeycombio/refinery/logger"
	"github.com/honeycombio/refinery/metrics"
	"github.com/honeycombio/refinery/sharder"
	"github.com/honeycombio/refinery/transmit"
	"github.com/honeycombio/refinery/types"
)

// -------------------------------------------------------------------------------------
// ADAPTER: the only code that uses unexported identifiers of package route.
// -------------------------------------------------------------------------------------

// e3AdapterHandler is the mux LnS() built (Router.server.Handler).
func e3AdapterHandler(r *Router) http.Handler { return r.server.Handler }

// e3AdapterSetEnv replaces the router's environment cache by one that asks fn on
// every miss; ttl 0 means every lookup is a miss (no wall-clock dependence).
func e3AdapterSetEnv(r *Router, ttl time.Duration, fn func(key string) (env, keyID string, err error)) {
	r.environmentCache = newEnvironmentCache(ttl, func(key string) (authData, error) {
		env, id, err := fn(key)
		if err != nil {
			return authData{}, err
		}
		return authData{environment: env, keyID: id}, nil
	})
}

// e3AdapterGRPCUp reports whether LnS() created a gRPC server.
func e3AdapterGRPCUp(r *Router) bool { return r.grpcServer != nil }

// e3AdapterStarted reports whether LnS() got as far as building the HTTP server.
func e3AdapterStarted(r *Router) bool { return r.server != nil }

// e3AdapterGetEventTime exposes the header/batch time parser for unit-level probes.
func e3AdapterGetEventTime(s string) time.Time { return getEventTime(s) }

// -------------------------------------------------------------------------------------
// Value tree with explicit msgpack wire types and ordered maps
// -------------------------------------------------------------------------------------

type E3Kind uint8

const (
	KNil E3Kind = iota
	KBool
	KInt  // signed family on the wire (or positive fixint when Width==0 and v>=0)
	KUint // unsigned family on the wire
	KF32  // float32 on the wire
	KF64  // float64 on the wire
	KStr  // str family
	KBin  // bin family
	KArr
	KMap
	KExt  // arbitrary extension (Ext = type, Bin = payload)
	KTime // msgpack timestamp extension -1; Width 32, 64 or 96
	KRaw  // pre-encoded bytes (msgpack) – for ill-formed inputs
)

func (k E3Kind) String() string {
	return [...]string{"nil", "bool", "int", "uint", "f32", "f64", "str", "bin", "arr", "map", "ext", "time", "raw"}[k]
}

type E3Val struct {
	Kind  E3Kind
	Bool  bool
	Int   int64
	Uint  uint64
	F     float64
	Str   string
	Bin   []byte
	Arr   []E3Val
	Map   []E3KV
	Width int // ints: 0 smallest, 8/16/32/64 forced; str/bin: 0 smallest, 8/16/32; time: 32/64/96
	Ext   int8
	Sec   int64
	Nsec  int64
}

type E3KV struct {
	Key    string
	KeyBin bool // encode the key as bin instead of str (msgpack only)
	Val    E3Val
	// KeyWidth forces the str/bin header width of the KEY on the msgpack wire: 0 =
	// minimal (as before), 8/16/32 = str8/str16/str32 (non-minimal but legal encodings).
	// Round 3, additive; the decoder does not fill it. For VALUES use VStrW.
	KeyWidth int
}

// KVW is KV with a forced key header width (see E3KV.KeyWidth).
func KVW(k string, keyWidth int, v E3Val) E3KV { return E3KV{Key: k, Val: v, KeyWidth: keyWidth} }

func VNil() E3Val                { return E3Val{Kind: KNil} }
func VBool(b bool) E3Val         { return E3Val{Kind: KBool, Bool: b} }
func VInt(v int64) E3Val         { return E3Val{Kind: KInt, Int: v} }
func VIntW(v int64, w int) E3Val { return E3Val{Kind: KInt, Int: v, Width: w} }
func VUintW(v uint64, w int) E3Val {
	return E3Val{Kind: KUint, Uint: v, Width: w}
}
func VF32(f float32) E3Val        { return E3Val{Kind: KF32, F: float64(f)} }
func VF64(f float64) E3Val        { return E3Val{Kind: KF64, F: f} }
func VStr(s string) E3Val         { return E3Val{Kind: KStr, Str: s} }
func VStrW(s string, w int) E3Val { return E3Val{Kind: KStr, Str: s, Width: w} }
func VBin(b []byte) E3Val         { return E3Val{Kind: KBin, Bin: b} }
func VArr(xs ...E3Val) E3Val      { return E3Val{Kind: KArr, Arr: xs} }
func VMap(kvs ...E3KV) E3Val      { return E3Val{Kind: KMap, Map: kvs} }
func VExt(t int8, b []byte) E3Val { return E3Val{Kind: KExt, Ext: t, Bin: b} }
func VRaw(b []byte) E3Val         { return E3Val{Kind: KRaw, Bin: b} }
func KV(k string, v E3Val) E3KV   { return E3KV{Key: k, Val: v} }

// VTs32/64/96: msgpack timestamp extension in the given format. The caller is
// responsible for the value fitting the format (32: nsec==0, sec<2^32; 64: sec<2^34).
func VTs32(sec int64) E3Val       { return E3Val{Kind: KTime, Width: 32, Sec: sec} }
func VTs64(sec, nsec int64) E3Val { return E3Val{Kind: KTime, Width: 64, Sec: sec, Nsec: nsec} }
func VTs96(sec, nsec int64) E3Val { return E3Val{Kind: KTime, Width: 96, Sec: sec, Nsec: nsec} }

// Get returns the value of the first entry named key of a KMap.
func (v E3Val) Get(key string) (E3Val, bool) {
	for _, kv := range v.Map {
		if kv.Key == key {
			return kv.Val, true
		}
	}
	return E3Val{}, false
}

func (v E3Val) String() string {
	b, err := e3AppendJSON(nil, v)
	if err != nil {
		return fmt.Sprintf("<%s>", v.Kind)
	}
	return string(b)
}

// MarshalJSON makes witnesses readable: {"k":"int","w":16,"v":5}
func (v E3Val) MarshalJSON() ([]byte, error) {
	m := map[string]any{"k": v.Kind.String()}
	if v.Width != 0 {
		m["w"] = v.Width
	}
	switch v.Kind {
	case KBool:
		m["v"] = v.Bool
	case KInt:
		m["v"] = v.Int
	case KUint:
		m["v"] = v.Uint
	case KF32, KF64:
		m["v"] = strconv.FormatFloat(v.F, 'g', -1, 64)
	case KStr:
		m["v"] = v.Str
	case KBin, KRaw:
		m["v"] = base64.StdEncoding.EncodeToString(v.Bin)
	case KExt:
		m["ext"] = v.Ext
		m["v"] = base64.StdEncoding.EncodeToString(v.Bin)
	case KArr:
		m["v"] = v.Arr
	case KMap:
		m["v"] = v.Map
	case KTime:
		m["sec"], m["nsec"] = v.Sec, v.Nsec
	}
	return json.Marshal(m)
}

func (kv E3KV) MarshalJSON() ([]byte, error) {
	return json.Marshal([]any{kv.Key, kv.Val})
}

func e3be16(b []byte, v uint16) []byte { return append(b, byte(v>>8), byte(v)) }
func e3be32(b []byte, v uint32) []byte {
	return append(b, byte(v>>24), byte(v>>16), byte(v>>8), byte(v))
}
func e3be64(b []byte, v uint64) []byte {
	return append(b, byte(v>>56), byte(v>>48), byte(v>>40), byte(v>>32), byte(v>>24), byte(v>>16), byte(v>>8), byte(v))
}

func e3AppendStrHeader(b []byte, n, w int) []byte {
	switch {
	case w == 0 && n < 32:
		return append(b, 0xa0|byte(n))
	case w == 8 || (w == 0 && n < 256):
		return append(b, 0xd9, byte(n))
	case w == 16 || (w == 0 && n < 65536):
		return e3be16(append(b, 0xda), uint16(n))
	default:
		return e3be32(append(b, 0xdb), uint32(n))
	}
}

func e3AppendBinHeader(b []byte, n, w int) []byte {
	switch {
	case w == 8 || (w == 0 && n < 256):
		return append(b, 0xc4, byte(n))
	case w == 16 || (w == 0 && n < 65536):
		return e3be16(append(b, 0xc5), uint16(n))
	default:
		return e3be32(append(b, 0xc6), uint32(n))
	}
}

// e3AppendMsgpack renders v with exactly the wire types it names.
func e3AppendMsgpack(b []byte, v E3Val) []byte {
	switch v.Kind {
	case KNil:
		return append(b, 0xc0)
	case KBool:
		if v.Bool {
			return append(b, 0xc3)
		}
		return append(b, 0xc2)
	case KInt:
		i, w := v.Int, v.Width
		if w == 0 {
			switch {
			case i >= 0 && i < 128:
				return append(b, byte(i))
			case i < 0 && i >= -32:
				return append(b, byte(int8(i)))
			case i >= math.MinInt8 && i <= math.MaxInt8:
				w = 8
			case i >= math.MinInt16 && i <= math.MaxInt16:
				w = 16
			case i >= math.MinInt32 && i <= math.MaxInt32:
				w = 32
			default:
				w = 64
			}
		}
		switch w {
		case 8:
			return append(b, 0xd0, byte(int8(i)))
		case 16:
			return e3be16(append(b, 0xd1), uint16(int16(i)))
		case 32:
			return e3be32(append(b, 0xd2), uint32(int32(i)))
		default:
			return e3be64(append(b, 0xd3), uint64(i))
		}
	case KUint:
		u, w := v.Uint, v.Width
		if w == 0 {
			switch {
			case u < 256:
				w = 8
			case u < 65536:
				w = 16
			case u < 1<<32:
				w = 32
			default:
				w = 64
			}
		}
		switch w {
		case 8:
			return append(b, 0xcc, byte(u))
		case 16:
			return e3be16(append(b, 0xcd), uint16(u))
		case 32:
			return e3be32(append(b, 0xce), uint32(u))
		default:
			return e3be64(append(b, 0xcf), u)
		}
	case KF32:
		return e3be32(append(b, 0xca), math.Float32bits(float32(v.F)))
	case KF64:
		return e3be64(append(b, 0xcb), math.Float64bits(v.F))
	case KStr:
		return append(e3AppendStrHeader(b, len(v.Str), v.Width), v.Str...)
	case KBin:
		return append(e3AppendBinHeader(b, len(v.Bin), v.Width), v.Bin...)
	case KArr:
		n := len(v.Arr)
		switch {
		case v.Width == 0 && n < 16:
			b = append(b, 0x90|byte(n))
		case v.Width == 16 || (v.Width == 0 && n < 65536):
			b = e3be16(append(b, 0xdc), uint16(n))
		default:
			b = e3be32(append(b, 0xdd), uint32(n))
		}
		for _, x := range v.Arr {
			b = e3AppendMsgpack(b, x)
		}
		return b
	case KMap:
		n := len(v.Map)
		switch {
		case v.Width == 0 && n < 16:
			b = append(b, 0x80|byte(n))
		case v.Width == 16 || (v.Width == 0 && n < 65536):
			b = e3be16(append(b, 0xde), uint16(n))
		default:
			b = e3be32(append(b, 0xdf), uint32(n))
		}
		for _, kv := range v.Map {
			if kv.KeyBin {
				b = append(e3AppendBinHeader(b, len(kv.Key), kv.KeyWidth), kv.Key...)
			} else {
				b = append(e3AppendStrHeader(b, len(kv.Key), kv.KeyWidth), kv.Key...)
			}
			b = e3AppendMsgpack(b, kv.Val)
		}
		return b
	case KExt:
		n := len(v.Bin)
		switch n {
		case 1:
			b = append(b, 0xd4)
		case 2:
			b = append(b, 0xd5)
		case 4:
			b = append(b, 0xd6)
		case 8:
			b = append(b, 0xd7)
		case 16:
			b = append(b, 0xd8)
		default:
			switch {
			case n < 256:
				b = append(b, 0xc7, byte(n))
			case n < 65536:
				b = e3be16(append(b, 0xc8), uint16(n))
			default:
				b = e3be32(append(b, 0xc9), uint32(n))
			}
		}
		b = append(b, byte(v.Ext))
		return append(b, v.Bin...)
	case KTime:
		switch v.Width {
		case 32:
			return e3be32(append(b, 0xd6, 0xff), uint32(v.Sec))
		case 64:
			return e3be64(append(b, 0xd7, 0xff), uint64(v.Nsec)<<34|uint64(v.Sec))
		default:
			b = append(b, 0xc7, 12, 0xff)
			b = e3be32(b, uint32(v.Nsec))
			return e3be64(b, uint64(v.Sec))
		}
	case KRaw:
		return append(b, v.Bin...)
	}
	panic("e3AppendMsgpack: bad kind")
}

var errE3NotJSON = errors.New("value has no JSON rendering")

// e3AppendJSON renders v as JSON keeping map order. Ints and floats become JSON
// numbers, KTime an RFC3339Nano string; bin/ext/raw have no rendering.
func e3AppendJSON(b []byte, v E3Val) ([]byte, error) {
	switch v.Kind {
	case KNil:
		return append(b, "null"...), nil
	case KBool:
		return strconv.AppendBool(b, v.Bool), nil
	case KInt:
		return strconv.AppendInt(b, v.Int, 10), nil
	case KUint:
		return strconv.AppendUint(b, v.Uint, 10), nil
	case KF32, KF64:
		if math.IsNaN(v.F) || math.IsInf(v.F, 0) {
			return b, errE3NotJSON
		}
		return strconv.AppendFloat(b, v.F, 'g', -1, 64), nil
	case KStr:
		s, err := json.Marshal(v.Str)
		if err != nil {
			return b, err
		}
		return append(b, s...), nil
	case KTime:
		s, _ := json.Marshal(time.Unix(v.Sec, v.Nsec).UTC().Format(time.RFC3339Nano))
		return append(b, s...), nil
	case KArr:
		b = append(b, '[')
		for i, x := range v.Arr {
			if i > 0 {
				b = append(b, ',')
			}
			var err error
			if b, err = e3AppendJSON(b, x); err != nil {
				return b, err
			}
		}
		return append(b, ']'), nil
	case KMap:
		b = append(b, '{')
		for i, kv := range v.Map {
			if i > 0 {
				b = append(b, ',')
			}
			k, _ := json.Marshal(kv.Key)
			b = append(b, k...)
			b = append(b, ':')
			var err error
			if b, err = e3AppendJSON(b, kv.Val); err != nil {
				return b, err
			}
		}
		return append(b, '}'), nil
	}
	return b, errE3NotJSON
}

var errE3Short = errors.New("msgpack: short input")

// e3DecodeMsgpack is an independent decoder (it shares no code with tinylib/msgp or
// vmihailenco/msgpack) from msgpack bytes into the value tree, keeping wire types,
// widths and map order.
func e3DecodeMsgpack(b []byte) (E3Val, []byte, error) {
	if len(b) == 0 {
		return E3Val{}, b, errE3Short
	}
	c := b[0]
	need := func(n int) bool { return len(b) >= 1+n }
	rdN := func(n int) uint64 {
		var u uint64
		for i := 0; i < n; i++ {
			u = u<<8 | uint64(b[1+i])
		}
		return u
	}
	body := func(hdr, n int, mk func([]byte) E3Val) (E3Val, []byte, error) {
		if len(b) < hdr+n {
			return E3Val{}, b, errE3Short
		}
		return mk(b[hdr : hdr+n]), b[hdr+n:], nil
	}
	seq := func(hdr, n int, isMap bool, w int) (E3Val, []byte, error) {
		rest := b[hdr:]
		out := E3Val{Kind: KArr, Width: w}
		if isMap {
			out.Kind = KMap
		}
		for i := 0; i < n; i++ {
			var k, v E3Val
			var err error
			if isMap {
				if k, rest, err = e3DecodeMsgpack(rest); err != nil {
					return E3Val{}, b, err
				}
			}
			if v, rest, err = e3DecodeMsgpack(rest); err != nil {
				return E3Val{}, b, err
			}
			if isMap {
				kv := E3KV{Val: v}
				switch k.Kind {
				case KStr:
					kv.Key = k.Str
				case KBin:
					kv.Key, kv.KeyBin = string(k.Bin), true
				default:
					kv.Key = "<non-string key " + k.String() + ">"
				}
				out.Map = append(out.Map, kv)
			} else {
				out.Arr = append(out.Arr, v)
			}
		}
		return out, rest, nil
	}
	ext := func(hdr, n int) (E3Val, []byte, error) {
		if len(b) < hdr+1+n {
			return E3Val{}, b, errE3Short
		}
		t := int8(b[hdr])
		p := b[hdr+1 : hdr+1+n]
		rest := b[hdr+1+n:]
		if t == -1 {
			switch n {
			case 4:
				return E3Val{Kind: KTime, Width: 32, Sec: int64(binary.BigEndian.Uint32(p))}, rest, nil
			case 8:
				u := binary.BigEndian.Uint64(p)
				return E3Val{Kind: KTime, Width: 64, Sec: int64(u & (1<<34 - 1)), Nsec: int64(u >> 34)}, rest, nil
			case 12:
				return E3Val{Kind: KTime, Width: 96, Nsec: int64(binary.BigEndian.Uint32(p)), Sec: int64(binary.BigEndian.Uint64(p[4:]))}, rest, nil
			}
		}
		return E3Val{Kind: KExt, Ext: t, Bin: append([]byte(nil), p...)}, rest, nil
	}
	str := func(w int) func([]byte) E3Val {
		return func(p []byte) E3Val { return E3Val{Kind: KStr, Str: string(p), Width: w} }
	}
	bin := func(w int) func([]byte) E3Val {
		return func(p []byte) E3Val { return E3Val{Kind: KBin, Bin: append([]byte(nil), p...), Width: w} }
	}
	switch {
	case c < 0x80:
		return E3Val{Kind: KInt, Int: int64(c)}, b[1:], nil
	case c >= 0xe0:
		return E3Val{Kind: KInt, Int: int64(int8(c))}, b[1:], nil
	case c >= 0x80 && c <= 0x8f:
		return seq(1, int(c&0x0f), true, 0)
	case c >= 0x90 && c <= 0x9f:
		return seq(1, int(c&0x0f), false, 0)
	case c >= 0xa0 && c <= 0xbf:
		return body(1, int(c&0x1f), str(0))
	}
	switch c {
	case 0xc0:
		return E3Val{Kind: KNil}, b[1:], nil
	case 0xc2, 0xc3:
		return E3Val{Kind: KBool, Bool: c == 0xc3}, b[1:], nil
	case 0xc4, 0xc5, 0xc6, 0xd9, 0xda, 0xdb:
		n := map[byte]int{0xc4: 1, 0xc5: 2, 0xc6: 4, 0xd9: 1, 0xda: 2, 0xdb: 4}[c]
		if !need(n) {
			return E3Val{}, b, errE3Short
		}
		l := int(rdN(n))
		if c <= 0xc6 {
			return body(1+n, l, bin(n*8))
		}
		return body(1+n, l, str(n*8))
	case 0xc7, 0xc8, 0xc9:
		n := map[byte]int{0xc7: 1, 0xc8: 2, 0xc9: 4}[c]
		if !need(n) {
			return E3Val{}, b, errE3Short
		}
		return ext(1+n, int(rdN(n)))
	case 0xd4, 0xd5, 0xd6, 0xd7, 0xd8:
		return ext(1, 1<<(c-0xd4))
	case 0xca:
		if !need(4) {
			return E3Val{}, b, errE3Short
		}
		return E3Val{Kind: KF32, F: float64(math.Float32frombits(uint32(rdN(4))))}, b[5:], nil
	case 0xcb:
		if !need(8) {
			return E3Val{}, b, errE3Short
		}
		return E3Val{Kind: KF64, F: math.Float64frombits(rdN(8))}, b[9:], nil
	case 0xcc, 0xcd, 0xce, 0xcf:
		n := 1 << (c - 0xcc)
		if !need(n) {
			return E3Val{}, b, errE3Short
		}
		return E3Val{Kind: KUint, Uint: rdN(n), Width: n * 8}, b[1+n:], nil
	case 0xd0, 0xd1, 0xd2, 0xd3:
		n := 1 << (c - 0xd0)
		if !need(n) {
			return E3Val{}, b, errE3Short
		}
		u := rdN(n)
		var i int64
		switch n {
		case 1:
			i = int64(int8(u))
		case 2:
			i = int64(int16(u))
		case 4:
			i = int64(int32(u))
		default:
			i = int64(u)
		}
		return E3Val{Kind: KInt, Int: i, Width: n * 8}, b[1+n:], nil
	case 0xdc, 0xdd, 0xde, 0xdf:
		n := 2
		if c == 0xdd || c == 0xdf {
			n = 4
		}
		if !need(n) {
			return E3Val{}, b, errE3Short
		}
		return seq(1+n, int(rdN(n)), c >= 0xde, n*8)
	}
	return E3Val{}, b, fmt.Errorf("msgpack: unknown lead byte %#x", c)
}

// e3Num classifies a numeric value: (isInt, integer value as big-ish pair, float value)
func e3Num(v E3Val) (isNum, isInt bool, neg bool, mag uint64, f float64) {
	switch v.Kind {
	case KInt:
		if v.Int < 0 {
			return true, true, true, uint64(-(v.Int + 1)) + 1, float64(v.Int)
		}
		return true, true, false, uint64(v.Int), float64(v.Int)
	case KUint:
		return true, true, false, v.Uint, float64(v.Uint)
	case KF32, KF64:
		return true, false, false, 0, v.F
	}
	return false, false, false, 0, 0
}

// e3Equiv: is `out` the same value as `in` up to harmless re-encoding?  Same kind in
// {nil,bool,integer,float,string,binary,array,map,time}; integers equal as mathematical
// integers (width/signedness family may change); floats equal as float64 (32<->64
// widening allowed); an integer never becomes a float or vice versa – except when
// viaJSON, where every number legitimately arrives as a float64 (compared numerically).
// Maps are compared as key sets (order-free); a duplicate key in `in` is compared
// against any one entry of `out`.
func e3Equiv(in, out E3Val, viaJSON bool) bool {
	inNum, inInt, inNeg, inMag, inF := e3Num(in)
	outNum, outInt, outNeg, outMag, outF := e3Num(out)
	if inNum || outNum {
		if !(inNum && outNum) {
			return false
		}
		if viaJSON {
			return inF == outF || (math.IsNaN(inF) && math.IsNaN(outF))
		}
		if inInt != outInt {
			return false
		}
		if inInt {
			return inNeg == outNeg && inMag == outMag
		}
		return inF == outF || (math.IsNaN(inF) && math.IsNaN(outF))
	}
	if in.Kind != out.Kind {
		return false
	}
	switch in.Kind {
	case KNil:
		return true
	case KBool:
		return in.Bool == out.Bool
	case KStr:
		return in.Str == out.Str
	case KBin:
		return bytes.Equal(in.Bin, out.Bin)
	case KExt:
		return in.Ext == out.Ext && bytes.Equal(in.Bin, out.Bin)
	case KTime:
		return in.Sec == out.Sec && in.Nsec == out.Nsec
	case KArr:
		if len(in.Arr) != len(out.Arr) {
			return false
		}
		for i := range in.Arr {
			if !e3Equiv(in.Arr[i], out.Arr[i], viaJSON) {
				return false
			}
		}
		return true
	case KMap:
		inKeys := map[string]bool{}
		for _, kv := range in.Map {
			inKeys[kv.Key] = true
			ok := false
			for _, okv := range out.Map {
				if okv.Key == kv.Key && e3Equiv(kv.Val, okv.Val, viaJSON) {
					ok = true
					break
				}
			}
			if !ok {
				return false
			}
		}
		for _, okv := range out.Map {
			if !inKeys[okv.Key] {
				return false
			}
		}
		return true
	}
	return false
}

// -------------------------------------------------------------------------------------
// Observation log and recording collaborators
// -------------------------------------------------------------------------------------

const (
	E3AtAddSpan         = "collector.AddSpan"
	E3AtAddSpanFromPeer = "collector.AddSpanFromPeer"
	E3AtImmediate       = "collector.ProcessSpanImmediately"
	E3AtUpstreamEvent   = "upstream.EnqueueEvent"
	E3AtUpstreamSpan    = "upstream.EnqueueSpan"
	E3AtPeerEvent       = "peer.EnqueueEvent"
	E3AtPeerSpan        = "peer.EnqueueSpan"
	E3AtEnvLookup       = "env.lookup"
)

// E3Event is a deep snapshot of a types.Event taken at the moment a collaborator was
// handed it (later mutation by the router does not change it).
type E3Event struct {
	APIHost     string         `json:"api_host"`
	APIKey      string         `json:"api_key"`
	Dataset     string         `json:"dataset"`
	Environment string         `json:"environment"`
	SampleRate  uint           `json:"sample_rate"`
	Timestamp   time.Time      `json:"timestamp"`
	IsSpan      bool           `json:"is_span"`            // handed over as *types.Span
	TraceID     string         `json:"trace_id"`           // Span.TraceID, or Data.MetaTraceID for events
	IsRoot      bool           `json:"is_root"`            // Span.IsRoot (false for events)
	Probe       bool           `json:"probe"`              // meta.refinery.probe set and true
	Fields      map[string]any `json:"fields"`             // Payload.All()
	Msgp        []byte         `json:"-"`                  // Payload.MarshalMsg(nil) – what a transmission would put on the wire
	MsgpErr     string         `json:"msgp_err,omitempty"` // error of MarshalMsg
	ID          string         `json:"id"`                 // Fields["verif.id"] when it is a string
}

// Wire decodes Msgp with the independent decoder.
func (e *E3Event) Wire() (E3Val, error) {
	v, rest, err := e3DecodeMsgpack(e.Msgp)
	if err != nil {
		return v, err
	}
	if len(rest) != 0 {
		return v, fmt.Errorf("%d trailing bytes", len(rest))
	}
	return v, nil
}

type E3Obs struct {
	Seq    int     `json:"seq"`
	Where  string  `json:"where"`
	Result string  `json:"result,omitempty"` // "ok", "ErrWouldBlock", "processed=true kept=false", env name, error text
	Key    string  `json:"key,omitempty"`    // env.lookup: the API key
	Ev     E3Event `json:"event"`
}

type E3Log struct {
	mu   sync.Mutex
	obs  []E3Obs
	hook func(E3Obs)
}

func (l *E3Log) add(o E3Obs) {
	l.mu.Lock()
	o.Seq = len(l.obs)
	l.obs = append(l.obs, o)
	h := l.hook
	l.mu.Unlock()
	if h != nil {
		h(o)
	}
}

// SetHook installs f (nil removes it): it is called, outside the log's lock and on the
// goroutine of the collaborator, right after every observation has been recorded and
// before the collaborator returns to the router. Fault scripts use it to act "after the
// k-th hand-over" (e.g. cancel the request's context). Added in round 2; absent = no-op.
func (l *E3Log) SetHook(f func(E3Obs)) {
	l.mu.Lock()
	l.hook = f
	l.mu.Unlock()
}

func (l *E3Log) Reset() {
	l.mu.Lock()
	l.obs = nil
	l.mu.Unlock()
}

func (l *E3Log) Snapshot() []E3Obs {
	l.mu.Lock()
	defer l.mu.Unlock()
	return append([]E3Obs(nil), l.obs...)
}

// Effects returns the observations that are side effects on data (everything except
// env lookups).
func (l *E3Log) Effects() []E3Obs {
	var out []E3Obs
	for _, o := range l.Snapshot() {
		if o.Where != E3AtEnvLookup {
			out = append(out, o)
		}
	}
	return out
}

// ByID groups data observations by the verif.id field of the event.
func (l *E3Log) ByID() map[string][]E3Obs {
	out := map[string][]E3Obs{}
	for _, o := range l.Effects() {
		out[o.Ev.ID] = append(out[o.Ev.ID], o)
	}
	return out
}

func e3Snapshot(ev *types.Event, sp *types.Span) E3Event {
	s := E3Event{
		APIHost: ev.APIHost, APIKey: ev.APIKey, Dataset: ev.Dataset, Environment: ev.Environment,
		SampleRate: ev.SampleRate, Timestamp: ev.Timestamp,
		TraceID: ev.Data.MetaTraceID,
		Probe:   ev.Data.MetaRefineryProbe.HasValue && ev.Data.MetaRefineryProbe.Value,
		Fields:  map[string]any{},
	}
	if sp != nil {
		s.IsSpan, s.TraceID, s.IsRoot = true, sp.TraceID, sp.IsRoot
	}
	for k, v := range ev.Data.All() {
		s.Fields[k] = v
	}
	if id, ok := s.Fields["verif.id"].(string); ok {
		s.ID = id
	}
	m, err := ev.Data.MarshalMsg(nil)
	if err != nil {
		s.MsgpErr = err.Error()
	}
	s.Msgp = m
	return s
}

// E3Collector implements collect.Collector.
type E3Collector struct {
	log        *E3Log
	mu         sync.Mutex
	inner      collect.Collector
	stressed   bool
	wouldBlock func(sp *types.Span) bool
	immediate  func(sp *types.Span) (processed, kept bool)
}

var _ collect.Collector = (*E3Collector)(nil)

// SetInner makes the recorder delegate to a real collector after recording.
func (c *E3Collector) SetInner(in collect.Collector) { c.mu.Lock(); c.inner = in; c.mu.Unlock() }

// SetStressed scripts Stressed().
func (c *E3Collector) SetStressed(s bool) { c.mu.Lock(); c.stressed = s; c.mu.Unlock() }

// SetWouldBlock scripts which spans AddSpan/AddSpanFromPeer refuse with
// collect.ErrWouldBlock (nil = accept everything).
func (c *E3Collector) SetWouldBlock(f func(sp *types.Span) bool) {
	c.mu.Lock()
	c.wouldBlock = f
	c.mu.Unlock()
}

// SetImmediate scripts ProcessSpanImmediately (nil = processed, kept).
func (c *E3Collector) SetImmediate(f func(sp *types.Span) (processed, kept bool)) {
	c.mu.Lock()
	c.immediate = f
	c.mu.Unlock()
}

func (c *E3Collector) add(where string, sp *types.Span, fromPeer bool) error {
	c.mu.Lock()
	wb, inner := c.wouldBlock, c.inner
	c.mu.Unlock()
	snap := e3Snapshot(sp.Event, sp)
	if wb != nil && wb(sp) {
		c.log.add(E3Obs{Where: where, Result: "ErrWouldBlock", Ev: snap})
		return collect.ErrWouldBlock
	}
	var err error
	if inner != nil {
		if fromPeer {
			err = inner.AddSpanFromPeer(sp)
		} else {
			err = inner.AddSpan(sp)
		}
	}
	res := "ok"
	if err != nil {
		res = err.Error()
		if errors.Is(err, collect.ErrWouldBlock) {
			res = "ErrWouldBlock"
		}
	}
	c.log.add(E3Obs{Where: where, Result: res, Ev: snap})
	return err
}

func (c *E3Collector) AddSpan(sp *types.Span) error { return c.add(E3AtAddSpan, sp, false) }
func (c *E3Collector) AddSpanFromPeer(sp *types.Span) error {
	return c.add(E3AtAddSpanFromPeer, sp, true)
}

func (c *E3Collector) Stressed() bool {
	c.mu.Lock()
	defer c.mu.Unlock()
	if c.inner != nil && !c.stressed {
		return c.inner.Stressed()
	}
	return c.stressed
}

func (c *E3Collector) GetStressedSampleRate(traceID string) (uint, bool, string) {
	c.mu.Lock()
	inner := c.inner
	c.mu.Unlock()
	if inner != nil {
		return inner.GetStressedSampleRate(traceID)
	}
	return 1, true, "verif"
}

func (c *E3Collector) ProcessSpanImmediately(sp *types.Span) (bool, bool) {
	c.mu.Lock()
	f, inner := c.immediate, c.inner
	c.mu.Unlock()
	snap := e3Snapshot(sp.Event, sp)
	processed, kept := true, true
	switch {
	case f != nil:
		processed, kept = f(sp)
	case inner != nil:
		processed, kept = inner.ProcessSpanImmediately(sp)
	}
	c.log.add(E3Obs{Where: E3AtImmediate, Result: fmt.Sprintf("processed=%v kept=%v", processed, kept), Ev: snap})
	return processed, kept
}

// E3Transmission implements transmit.Transmission.
type E3Transmission struct {
	name  string // "upstream" or "peer"
	log   *E3Log
	mu    sync.Mutex
	inner transmit.Transmission
}

var _ transmit.Transmission = (*E3Transmission)(nil)

func (t *E3Transmission) SetInner(in transmit.Transmission) { t.mu.Lock(); t.inner = in; t.mu.Unlock() }

func (t *E3Transmission) EnqueueEvent(ev *types.Event) {
	t.log.add(E3Obs{Where: t.name + ".EnqueueEvent", Result: "ok", Ev: e3Snapshot(ev, nil)})
	t.mu.Lock()
	in := t.inner
	t.mu.Unlock()
	if in != nil {
		in.EnqueueEvent(ev)
	}
}

func (t *E3Transmission) EnqueueSpan(sp *types.Span) {
	t.log.add(E3Obs{Where: t.name + ".EnqueueSpan", Result: "ok", Ev: e3Snapshot(sp.Event, sp)})
	t.mu.Lock()
	in := t.inner
	t.mu.Unlock()
	if in != nil {
		in.EnqueueSpan(sp)
	}
}

// E3Shard / E3Sharder: scripted ownership.
type E3Shard struct{ Addr string }

func (s *E3Shard) Equals(o sharder.Shard) bool { return s.Addr == o.GetAddress() }
func (s *E3Shard) GetAddress() string          { return s.Addr }

const E3SelfAddr = "http://self.verif.invalid:8081"

type E3Sharder struct {
	mu    sync.Mutex
	self  *E3Shard
	owner func(traceID string) string
}

var _ sharder.Sharder = (*E3Sharder)(nil)

// SetOwner scripts ownership: f returns the peer address owning the trace, or "" (or
// E3SelfAddr) for "mine". nil = everything is mine.
func (s *E3Sharder) SetOwner(f func(traceID string) string) { s.mu.Lock(); s.owner = f; s.mu.Unlock() }
func (s *E3Sharder) MyShard() sharder.Shard                 { return s.self }
func (s *E3Sharder) WhichShard(id string) sharder.Shard {
	s.mu.Lock()
	f := s.owner
	s.mu.Unlock()
	if f != nil {
		if a := f(id); a != "" && a != s.self.Addr {
			return &E3Shard{Addr: a}
		}
	}
	return s.self
}

// E3Env scripts what Honeycomb's /1/auth would answer for a key.
type E3Env struct {
	log *E3Log
	mu  sync.Mutex
	fn  func(key string) (env, keyID string, err error)
}

// Set scripts the lookup; nil = every key maps to environment "verif-env".
func (e *E3Env) Set(f func(key string) (env, keyID string, err error)) {
	e.mu.Lock()
	e.fn = f
	e.mu.Unlock()
}

func (e *E3Env) lookup(key string) (string, string, error) {
	e.mu.Lock()
	f := e.fn
	e.mu.Unlock()
	env, id, err := "verif-env", "", error(nil)
	if f != nil {
		env, id, err = f(key)
	}
	res := env
	if err != nil {
		res = "error: " + err.Error()
	}
	e.log.add(E3Obs{Where: E3AtEnvLookup, Key: key, Result: res})
	return env, id, err
}

type e3Health struct{}

func (e3Health) IsAlive() bool { return true }
func (e3Health) IsReady() bool { return true }

// -------------------------------------------------------------------------------------
// The bench
// -------------------------------------------------------------------------------------

type E3Listener int

const (
	E3Incoming E3Listener = iota
	E3Peer
)

func (l E3Listener) String() string {
	if l == E3Peer {
		return "peer"
	}
	return "incoming"
}

type E3Options struct {
	TraceIDFields  []string      // default trace.trace_id, traceId
	ParentIDFields []string      // default trace.parent_id, parentId
	GRPC           bool          // start the gRPC servers of the incoming router on a loopback port
	NoPeerRouter   bool          // do not start the peer-listener router
	EnvCacheTTL    time.Duration // 0: every environment lookup reaches b.Env
	Wire           bool          // upstream = real DirectTransmission posting to a fake Honeycomb (b.Wire)
	Configure      func(c *config.MockConfig)
}

type E3Bench struct {
	T         testing.TB
	Cfg       *config.MockConfig
	Metrics   *metrics.MockMetrics
	Log       *E3Log
	Collector *E3Collector
	Upstream  *E3Transmission
	PeerTx    *E3Transmission
	Sharder   *E3Sharder
	Env       *E3Env
	Wire      *E3Wire
	GRPCAddr  string

	routers  [2]*Router
	tcp      [2]*httptest.Server
	grpcConn *grpc.ClientConn
	closed   bool
}

func e3FreeAddr() (string, error) {
	l, err := net.Listen("tcp", "127.0.0.1:0")
	if err != nil {
		return "", err
	}
	a := l.Addr().String()
	l.Close()
	return a, nil
}

// e3New builds and starts the bench. Harness problems are t.Fatal.
func e3New(t testing.TB, o E3Options) *E3Bench {
	t.Helper()
	b := &E3Bench{T: t, Log: &E3Log{}}
	if o.TraceIDFields == nil {
		o.TraceIDFields = []string{"trace.trace_id", "traceId"}
	}
	if o.ParentIDFields == nil {
		o.ParentIDFields = []string{"trace.parent_id", "parentId"}
	}
	b.Metrics = &metrics.MockMetrics{}
	b.Metrics.Start()
	b.Collector = &E3Collector{log: b.Log}
	b.Upstream = &E3Transmission{name: "upstream", log: b.Log}
	b.PeerTx = &E3Transmission{name: "peer", log: b.Log}
	b.Sharder = &E3Sharder{self: &E3Shard{Addr: E3SelfAddr}}
	b.Env = &E3Env{log: b.Log}
	b.Cfg = &config.MockConfig{
		GetHoneycombAPIVal:   "http://honeycomb.verif.invalid",
		GetListenAddrVal:     "127.0.0.1:0",
		GetPeerListenAddrVal: "127.0.0.1:0",
		TraceIdFieldNames:    o.TraceIDFields,
		ParentIdFieldNames:   o.ParentIDFields,
		EnvironmentCacheTTL:  o.EnvCacheTTL,
		GetSamplerTypeVal:    &config.DeterministicSamplerConfig{SampleRate: 1},
		GetGRPCServerParameters: config.GRPCServerParameters{
			MaxConnectionIdle:     config.Duration(time.Minute),
			MaxConnectionAge:      config.Duration(3 * time.Minute),
			MaxConnectionAgeGrace: config.Duration(time.Minute),
			KeepAlive:             config.Duration(time.Minute),
			KeepAliveTimeout:      config.Duration(20 * time.Second),
			MaxSendMsgSize:        config.MemorySize(15_000_000),
			MaxRecvMsgSize:        config.MemorySize(15_000_000),
		},
		GetTracesConfigVal: config.TracesConfig{MaxBatchSize: 500},
	}
	if o.Wire {
		b.Wire = e3StartWire(t, b)
		b.Cfg.GetHoneycombAPIVal = b.Wire.URL
		b.Upstream.SetInner(b.Wire.tx)
	}
	if o.Configure != nil {
		o.Configure(b.Cfg)
	}
	start := func(rt types.RouterType) *Router {
		r := &Router{
			Config:               b.Cfg,
			Logger:               &logger.NullLogger{},
			Health:               e3Health{},
			HTTPTransport:        &http.Transport{},
			UpstreamTransmission: b.Upstream,
			PeerTransmission:     b.PeerTx,
			Sharder:              b.Sharder,
			Collector:            b.Collector,
			Metrics:              b.Metrics,
			Tracer:               noop.Tracer{},
		}
		r.SetVersion("verif")
		r.SetType(rt)
		r.LnS()
		if !e3AdapterStarted(r) {
			t.Fatalf("E3: Router.LnS() did not start the %s router", rt)
		}
		e3AdapterSetEnv(r, o.EnvCacheTTL, b.Env.lookup)
		return r
	}
	if o.GRPC {
		// LnS listens itself; pick a free loopback port and retry if someone grabbed it.
		for attempt := 0; ; attempt++ {
			addr, err := e3FreeAddr()
			if err != nil {
				t.Fatalf("E3: no loopback port: %v", err)
			}
			b.Cfg.GetGRPCEnabledVal, b.Cfg.GetGRPCListenAddrVal = true, addr
			probe, err := net.Listen("tcp", addr) // still free?
			if err == nil {
				probe.Close()
				b.GRPCAddr = addr
				break
			}
			if attempt > 5 {
				t.Fatalf("E3: cannot find a free gRPC port")
			}
		}
	}
	b.routers[E3Incoming] = start(types.RouterTypeIncoming)
	if o.GRPC {
		if !e3AdapterGRPCUp(b.routers[E3Incoming]) {
			t.Fatalf("E3: gRPC server not created by LnS")
		}
		conn, err := grpc.NewClient(b.GRPCAddr, grpc.WithTransportCredentials(insecure.NewCredentials()))
		if err != nil {
			t.Fatalf("E3: grpc client: %v", err)
		}
		b.grpcConn = conn
	}
	if !o.NoPeerRouter {
		b.routers[E3Peer] = start(types.RouterTypePeer)
	}
	return b
}

func (b *E3Bench) Close() {
	if b.closed {
		return
	}
	b.closed = true
	if b.grpcConn != nil {
		b.grpcConn.Close()
	}
	for _, s := range b.tcp {
		if s != nil {
			s.Close()
		}
	}
	for _, r := range b.routers {
		if r != nil {
			_ = r.Stop()
		}
	}
	if b.Wire != nil {
		b.Wire.close()
	}
}

// Config mutates the MockConfig under its write lock (never while a request is in
// flight on another goroutine that could be inside MockConfig.Reload).
func (b *E3Bench) Config(f func(c *config.MockConfig)) {
	b.Cfg.Mux.Lock()
	f(b.Cfg)
	b.Cfg.Mux.Unlock()
}

// ---- requests and responses ----

type E3Req struct {
	Listener E3Listener
	Method   string // default POST
	Path     string
	Header   http.Header
	Body     []byte
	// BodyReader, when set, replaces Body (fault injection: a reader that fails
	// mid-stream is what net/http hands a handler whose client went away).
	BodyReader io.Reader
	Note       string // free text for witnesses
	// Ctx, when set, is the request's context for Serve (a client that goes away is a
	// cancelled request context). nil = context.Background(), as before.
	Ctx context.Context
}

func (r *E3Req) Set(k, v string) *E3Req {
	if r.Header == nil {
		r.Header = http.Header{}
	}
	r.Header.Set(k, v)
	return r
}

// Gzip / Zstd compress the body and set Content-Encoding.
func (r *E3Req) Gzip() *E3Req {
	var buf bytes.Buffer
	e3GzipMu.Lock()
	e3GzipW.Reset(&buf)
	e3GzipW.Write(r.Body)
	e3GzipW.Close()
	e3GzipMu.Unlock()
	r.Body = buf.Bytes()
	return r.Set("Content-Encoding", "gzip")
}

// small-window, single-threaded encoders: the bodies are tiny and the default
// encoders spend milliseconds clearing their history tables
var (
	e3GzipMu     sync.Mutex
	e3GzipW, _   = gzip.NewWriterLevel(io.Discard, gzip.BestSpeed)
	e3ZstdEnc, _ = zstd.NewWriter(nil, zstd.WithEncoderConcurrency(1), zstd.WithEncoderLevel(zstd.SpeedFastest),
		zstd.WithWindowSize(1<<16), zstd.WithLowerEncoderMem(true))
)

func (r *E3Req) Zstd() *E3Req {
	r.Body = e3ZstdEnc.EncodeAll(r.Body, nil)
	return r.Set("Content-Encoding", "zstd")
}

// Witness is a JSON-able description of the request.
func (r *E3Req) Witness() map[string]any {
	body := string(r.Body)
	ct := r.Header.Get("Content-Type")
	if strings.Contains(ct, "msgpack") || strings.Contains(ct, "protobuf") || r.Header.Get("Content-Encoding") != "" {
		body = "base64:" + base64.StdEncoding.EncodeToString(r.Body)
	}
	if len(body) > 4000 {
		body = body[:4000] + "…"
	}
	return map[string]any{"listener": r.Listener.String(), "path": r.Path, "header": r.Header, "body": body, "note": r.Note}
}

type E3Resp struct {
	Status           int         `json:"status"`             // what a client would see: first WriteHeader, else 200
	WriteHeaderCalls []int       `json:"write_header_calls"` // every explicit WriteHeader call, in order
	Writes           int         `json:"writes"`             // number of Write calls
	HeaderAfterWrite bool        `json:"header_after_write"` // an explicit WriteHeader arrived after body bytes
	Body             string      `json:"body"`
	Header           http.Header `json:"header"`
	Panicked         string      `json:"panicked,omitempty"` // a panic escaped the handler chain
	TransportErr     string      `json:"transport_err,omitempty"`
}

// StatusesWritten is the number of statuses the handler chain produced: explicit
// WriteHeader calls, or 1 for the implicit 200.
func (r *E3Resp) StatusesWritten() int {
	if len(r.WriteHeaderCalls) == 0 {
		return 1
	}
	return len(r.WriteHeaderCalls)
}

func (r *E3Resp) IsError() bool { return r.Status >= 400 }

type e3Recorder struct {
	hdr   http.Header
	snap  http.Header
	resp  *E3Resp
	body  bytes.Buffer
	wrote bool
}

func (w *e3Recorder) Header() http.Header { return w.hdr }
func (w *e3Recorder) WriteHeader(code int) {
	w.resp.WriteHeaderCalls = append(w.resp.WriteHeaderCalls, code)
	if w.body.Len() > 0 || w.wrote {
		w.resp.HeaderAfterWrite = true
	}
	if w.snap == nil {
		w.snap = w.hdr.Clone()
		if !w.wrote {
			w.resp.Status = code
		}
	}
}
func (w *e3Recorder) Write(p []byte) (int, error) {
	if w.snap == nil {
		w.snap = w.hdr.Clone()
	}
	w.wrote = true
	w.resp.Writes++
	return w.body.Write(p)
}
func (w *e3Recorder) Flush() {}

// Serve runs the request through the listener's real mux in-process.
func (b *E3Bench) Serve(req *E3Req) *E3Resp {
	r := b.routers[req.Listener]
	if r == nil {
		b.T.Fatalf("E3: no %s router", req.Listener)
	}
	method := req.Method
	if method == "" {
		method = "POST"
	}
	var body io.Reader = bytes.NewReader(req.Body)
	if req.BodyReader != nil {
		body = req.BodyReader
	}
	hr, err := http.NewRequest(method, "http://refinery.verif.invalid"+req.Path, body)
	if err != nil {
		// what a client library would refuse to send; callers use ServeTCP for those
		return &E3Resp{TransportErr: err.Error()}
	}
	if req.Ctx != nil {
		hr = hr.WithContext(req.Ctx)
	}
	hr.RequestURI = req.Path
	hr.RemoteAddr = "127.0.0.1:55555"
	for k, vs := range req.Header {
		for _, v := range vs {
			hr.Header.Add(k, v)
		}
	}
	if req.BodyReader != nil {
		hr.ContentLength = -1
	}
	resp := &E3Resp{Status: 200}
	rec := &e3Recorder{hdr: http.Header{}, resp: resp}
	func() {
		defer func() {
			if p := recover(); p != nil {
				resp.Panicked = fmt.Sprint(p)
			}
		}()
		e3AdapterHandler(r).ServeHTTP(rec, hr)
	}()
	resp.Body = rec.body.String()
	resp.Header = rec.snap
	if resp.Header == nil {
		resp.Header = rec.hdr.Clone()
	}
	return resp
}

// ServeTCP sends raw bytes over a real loopback connection to an http.Server that
// serves the listener's real mux, half-closes, and parses whatever comes back. This is
// how inputs are delivered that no in-process *http.Request can carry (invalid
// escapes, short bodies).
func (b *E3Bench) ServeTCP(l E3Listener, raw []byte) *E3Resp {
	if b.tcp[l] == nil {
		b.tcp[l] = httptest.NewServer(e3AdapterHandler(b.routers[l]))
	}
	u, _ := url.Parse(b.tcp[l].URL)
	conn, err := net.DialTimeout("tcp", u.Host, 5*time.Second)
	if err != nil {
		return &E3Resp{TransportErr: err.Error()}
	}
	defer conn.Close()
	conn.SetDeadline(time.Now().Add(20 * time.Second))
	if _, err := conn.Write(raw); err != nil {
		return &E3Resp{TransportErr: err.Error()}
	}
	if tc, ok := conn.(*net.TCPConn); ok {
		tc.CloseWrite()
	}
	hr, err := http.ReadResponse(bufio.NewReader(conn), nil)
	if err != nil {
		return &E3Resp{TransportErr: err.Error()}
	}
	defer hr.Body.Close()
	body, _ := io.ReadAll(hr.Body)
	return &E3Resp{Status: hr.StatusCode, WriteHeaderCalls: []int{hr.StatusCode}, Body: string(body), Header: hr.Header}
}

// e3RawHTTP renders a request as HTTP/1.1 bytes, declaring declaredLen as
// Content-Length (≥ len(body) to simulate a client that dies mid-body; -1 = exact).
func e3RawHTTP(req *E3Req, rawPath string, declaredLen int) []byte {
	if declaredLen < 0 {
		declaredLen = len(req.Body)
	}
	var b bytes.Buffer
	m := req.Method
	if m == "" {
		m = "POST"
	}
	fmt.Fprintf(&b, "%s %s HTTP/1.1\r\nHost: refinery.verif.invalid\r\nConnection: close\r\nContent-Length: %d\r\n", m, rawPath, declaredLen)
	keys := make([]string, 0, len(req.Header))
	for k := range req.Header {
		keys = append(keys, k)
	}
	sort.Strings(keys)
	for _, k := range keys {
		for _, v := range req.Header[k] {
			fmt.Fprintf(&b, "%s: %s\r\n", k, v)
		}
	}
	b.WriteString("\r\n")
	b.Write(req.Body)
	return b.Bytes()
}

// e3FailingReader yields the first n bytes of p and then err (io.ErrUnexpectedEOF is
// what net/http reports when a client closes before Content-Length bytes arrived).
type e3FailingReader struct {
	p   []byte
	n   int
	err error
}

func (f *e3FailingReader) Read(out []byte) (int, error) {
	if f.n <= 0 {
		return 0, f.err
	}
	k := copy(out, f.p[:f.n])
	f.p, f.n = f.p[k:], f.n-k
	return k, nil
}

// ---- libhoney-style event requests ----

type E3Encoding int

const (
	E3JSON E3Encoding = iota
	E3Msgpack
)

func (e E3Encoding) String() string {
	if e == E3Msgpack {
		return "msgpack"
	}
	return "json"
}

func (e E3Encoding) ContentType() string {
	if e == E3Msgpack {
		return "application/msgpack"
	}
	return "application/json"
}

// E3Key* are API keys of the three classes Refinery distinguishes.
const (
	E3KeyLegacy = "c9945edf5d245834089a1bd6cc9ad01e"                                 // classic: no environment lookup
	E3KeyEnv    = "hcxik_01hqk4k20cjeh63wca8vva5stw70nft6m5n8wr8f5mjx3762s8269j50wc" // ingest key: environment lookup
	E3KeyEnv2   = "abcdefghijklmnopqrstuv"                                           // E&S configuration key: environment lookup
)

// e3EventReq builds POST /1/events/<dataset>. data must be a KMap. rate<0 omits the
// sample-rate header; eventTime "" omits the time header.
func e3EventReq(l E3Listener, enc E3Encoding, dataset, apiKey string, data E3Val, rate int64, eventTime string) (*E3Req, error) {
	req := &E3Req{Listener: l, Path: "/1/events/" + url.PathEscape(dataset), Header: http.Header{}}
	req.Set("Content-Type", enc.ContentType())
	if apiKey != "" {
		req.Set(types.APIKeyHeader, apiKey)
	}
	if rate >= 0 {
		req.Set(types.SampleRateHeader, strconv.FormatInt(rate, 10))
	}
	if eventTime != "" {
		req.Set(types.TimestampHeader, eventTime)
	}
	if enc == E3Msgpack {
		req.Body = e3AppendMsgpack(nil, data)
		return req, nil
	}
	var err error
	req.Body, err = e3AppendJSON(nil, data)
	return req, err
}

// E3BatchItem is one element of a /1/batch body. Entries are written in the order
// Extra…, time, samplerate, data unless Order names another one (values: "time",
// "samplerate", "data").
type E3BatchItem struct {
	Time  *E3Val // JSON: KStr (RFC3339 or digits); msgpack: KTime (or anything, for faults)
	Rate  *E3Val
	Data  *E3Val // KMap; nil omits the key
	Order []string
	Extra []E3KV
	Raw   *E3Val // when set, the element is exactly this value (ill-typed elements)
}

func (it E3BatchItem) val() E3Val {
	if it.Raw != nil {
		return *it.Raw
	}
	order := it.Order
	if order == nil {
		order = []string{"time", "samplerate", "data"}
	}
	m := append([]E3KV(nil), it.Extra...)
	for _, k := range order {
		switch k {
		case "time":
			if it.Time != nil {
				m = append(m, KV("time", *it.Time))
			}
		case "samplerate":
			if it.Rate != nil {
				m = append(m, KV("samplerate", *it.Rate))
			}
		case "data":
			if it.Data != nil {
				m = append(m, KV("data", *it.Data))
			}
		}
	}
	return VMap(m...)
}

// e3BatchReq builds POST /1/batch/<dataset>.
func e3BatchReq(l E3Listener, enc E3Encoding, dataset, apiKey string, items []E3BatchItem) (*E3Req, error) {
	req := &E3Req{Listener: l, Path: "/1/batch/" + url.PathEscape(dataset), Header: http.Header{}}
	req.Set("Content-Type", enc.ContentType())
	if apiKey != "" {
		req.Set(types.APIKeyHeader, apiKey)
	}
	arr := E3Val{Kind: KArr}
	for _, it := range items {
		arr.Arr = append(arr.Arr, it.val())
	}
	if enc == E3Msgpack {
		req.Body = e3AppendMsgpack(nil, arr)
		return req, nil
	}
	var err error
	req.Body, err = e3AppendJSON(nil, arr)
	return req, err
}

func e3P(v E3Val) *E3Val { return &v }

// ---- OTLP ----

// e3OTLPReq builds POST /v1/traces or /v1/logs from a protobuf message.
// contentType: "application/protobuf", "application/x-protobuf" or "application/json".
func e3OTLPReq(path, contentType, apiKey, dataset string, msg proto.Message) (*E3Req, error) {
	req := &E3Req{Listener: E3Incoming, Path: path, Header: http.Header{}}
	req.Set("Content-Type", contentType)
	if apiKey != "" {
		req.Set("x-honeycomb-team", apiKey)
	}
	if dataset != "" {
		req.Set("x-honeycomb-dataset", dataset)
	}
	var err error
	if contentType == "application/json" {
		req.Body, err = protojson.Marshal(msg)
	} else {
		req.Body, err = proto.Marshal(msg)
	}
	return req, err
}

// E3Span / E3LogRec are the OTLP items the bench can generate. Attrs values may be
// KStr, KInt, KBool, KF64 (anything else becomes its JSON text).
type E3Span struct {
	TraceID, SpanID, ParentID []byte
	Name                      string
	StartNs, EndNs            uint64
	Attrs                     []E3KV
}

type E3LogRec struct {
	TraceID, SpanID []byte
	TimeNs          uint64
	Body            string
	Attrs           []E3KV
}

func e3OTLPAttrs(kvs []E3KV) []*common.KeyValue {
	var out []*common.KeyValue
	for _, kv := range kvs {
		av := &common.AnyValue{}
		switch kv.Val.Kind {
		case KStr:
			av.Value = &common.AnyValue_StringValue{StringValue: kv.Val.Str}
		case KInt:
			av.Value = &common.AnyValue_IntValue{IntValue: kv.Val.Int}
		case KBool:
			av.Value = &common.AnyValue_BoolValue{BoolValue: kv.Val.Bool}
		case KF64, KF32:
			av.Value = &common.AnyValue_DoubleValue{DoubleValue: kv.Val.F}
		default:
			av.Value = &common.AnyValue_StringValue{StringValue: kv.Val.String()}
		}
		out = append(out, &common.KeyValue{Key: kv.Key, Value: av})
	}
	return out
}

func e3OTLPResource(service string) *resource.Resource {
	if service == "" {
		return &resource.Resource{}
	}
	return &resource.Resource{Attributes: e3OTLPAttrs([]E3KV{KV("service.name", VStr(service))})}
}

// e3OTLPTraces builds one ResourceSpans/ScopeSpans holding spans.
func e3OTLPTraces(service string, spans []E3Span) *collectortrace.ExportTraceServiceRequest {
	var ss []*trace.Span
	for _, s := range spans {
		ss = append(ss, &trace.Span{TraceId: s.TraceID, SpanId: s.SpanID, ParentSpanId: s.ParentID, Name: s.Name,
			StartTimeUnixNano: s.StartNs, EndTimeUnixNano: s.EndNs, Attributes: e3OTLPAttrs(s.Attrs)})
	}
	return &collectortrace.ExportTraceServiceRequest{ResourceSpans: []*trace.ResourceSpans{{
		Resource: e3OTLPResource(service), ScopeSpans: []*trace.ScopeSpans{{Spans: ss}}}}}
}

// e3OTLPLogs builds one ResourceLogs/ScopeLogs holding recs.
func e3OTLPLogs(service string, recs []E3LogRec) *collectorlogs.ExportLogsServiceRequest {
	var ls []*logs.LogRecord
	for _, r := range recs {
		ls = append(ls, &logs.LogRecord{TraceId: r.TraceID, SpanId: r.SpanID, TimeUnixNano: r.TimeNs,
			Body:       &common.AnyValue{Value: &common.AnyValue_StringValue{StringValue: r.Body}},
			Attributes: e3OTLPAttrs(r.Attrs)})
	}
	return &collectorlogs.ExportLogsServiceRequest{ResourceLogs: []*logs.ResourceLogs{{
		Resource: e3OTLPResource(service), ScopeLogs: []*logs.ScopeLogs{{LogRecords: ls}}}}}
}

// E3GRPCResult is the outcome of a unary gRPC call.
type E3GRPCResult struct {
	Code codes.Code `json:"code"`
	Msg  string     `json:"msg,omitempty"`
}

func (r E3GRPCResult) OK() bool { return r.Code == codes.OK }

func e3GRPCResult(err error) E3GRPCResult {
	if err == nil {
		return E3GRPCResult{Code: codes.OK}
	}
	st, _ := status.FromError(err)
	return E3GRPCResult{Code: st.Code(), Msg: st.Message()}
}

func (b *E3Bench) grpcCtx(md map[string]string) (context.Context, context.CancelFunc) {
	ctx, cancel := context.WithTimeout(context.Background(), 30*time.Second)
	return metadata.NewOutgoingContext(ctx, metadata.New(md)), cancel
}

// GRPCTraces calls TraceService/Export on the incoming router's real gRPC server.
func (b *E3Bench) GRPCTraces(md map[string]string, req *collectortrace.ExportTraceServiceRequest) E3GRPCResult {
	ctx, cancel := b.grpcCtx(md)
	defer cancel()
	_, err := collectortrace.NewTraceServiceClient(b.grpcConn).Export(ctx, req)
	return e3GRPCResult(err)
}

// GRPCLogs calls LogsService/Export.
func (b *E3Bench) GRPCLogs(md map[string]string, req *collectorlogs.ExportLogsServiceRequest) E3GRPCResult {
	ctx, cancel := b.grpcCtx(md)
	defer cancel()
	_, err := collectorlogs.NewLogsServiceClient(b.grpcConn).Export(ctx, req)
	return e3GRPCResult(err)
}

type e3RawCodec struct{}

func (e3RawCodec) Marshal(v any) ([]byte, error) { return *(v.(*[]byte)), nil }
func (e3RawCodec) Unmarshal(data []byte, v any) error {
	*(v.(*[]byte)) = append([]byte(nil), data...)
	return nil
}
func (e3RawCodec) Name() string { return "proto" }

const (
	E3GRPCTraceExport = "/opentelemetry.proto.collector.trace.v1.TraceService/Export"
	E3GRPCLogsExport  = "/opentelemetry.proto.collector.logs.v1.LogsService/Export"
)

// GRPCRaw sends arbitrary bytes as the request message of a unary method (what a
// broken or hostile gRPC client can put on the wire).
func (b *E3Bench) GRPCRaw(method string, md map[string]string, payload []byte) E3GRPCResult {
	ctx, cancel := b.grpcCtx(md)
	defer cancel()
	var out []byte
	err := b.grpcConn.Invoke(ctx, method, &payload, &out, grpc.ForceCodec(e3RawCodec{}))
	return e3GRPCResult(err)
}

// ---- wire: real DirectTransmission -> fake Honeycomb ----

// E3WireEvent is one event of a batch body received by the fake Honeycomb.
type E3WireEvent struct {
	Path    string      `json:"path"`
	Header  http.Header `json:"header"`
	Time    E3Val       `json:"time"` // as encoded on the wire
	Rate    E3Val       `json:"samplerate"`
	Data    E3Val       `json:"data"`
	ID      string      `json:"id"` // data["verif.id"]
	Problem string      `json:"problem,omitempty"`
}

type E3Wire struct {
	URL string
	srv *httptest.Server
	tx  *transmit.DirectTransmission
	mu  sync.Mutex
	evs []E3WireEvent
	ch  chan struct{}
}

func e3StartWire(t testing.TB, b *E3Bench) *E3Wire {
	w := &E3Wire{ch: make(chan struct{}, 1<<16)}
	dec, err := zstd.NewReader(nil)
	if err != nil {
		t.Fatalf("E3 wire: %v", err)
	}
	w.srv = httptest.NewServer(http.HandlerFunc(func(rw http.ResponseWriter, r *http.Request) {
		raw, _ := io.ReadAll(r.Body)
		problem := ""
		switch r.Header.Get("Content-Encoding") {
		case "zstd":
			if raw, err = dec.DecodeAll(raw, nil); err != nil {
				problem = "zstd: " + err.Error()
			}
		case "gzip":
			zr, err := gzip.NewReader(bytes.NewReader(raw))
			if err == nil {
				raw, err = io.ReadAll(zr)
			}
			if err != nil {
				problem = "gzip: " + err.Error()
			}
		}
		var n int
		var got []E3WireEvent
		if problem == "" {
			v, rest, err := e3DecodeMsgpack(raw)
			switch {
			case err != nil:
				problem = "msgpack: " + err.Error()
			case len(rest) != 0:
				problem = "trailing bytes after batch"
			case v.Kind != KArr:
				problem = "batch body is not an array"
			default:
				for _, e := range v.Arr {
					we := E3WireEvent{Path: r.URL.EscapedPath(), Header: r.Header.Clone()}
					we.Time, _ = e.Get("time")
					we.Rate, _ = e.Get("samplerate")
					we.Data, _ = e.Get("data")
					if id, ok := we.Data.Get("verif.id"); ok && id.Kind == KStr {
						we.ID = id.Str
					}
					got = append(got, we)
				}
				n = len(v.Arr)
			}
		}
		if problem != "" {
			got = append(got, E3WireEvent{Path: r.URL.EscapedPath(), Header: r.Header.Clone(), Problem: problem})
		}
		w.mu.Lock()
		w.evs = append(w.evs, got...)
		w.mu.Unlock()
		for range got {
			w.ch <- struct{}{}
		}
		// answer like Honeycomb: a msgpack/JSON array of per-event statuses
		rw.Header().Set("Content-Type", "application/json")
		rw.WriteHeader(200)
		rw.Write([]byte("[" + strings.TrimSuffix(strings.Repeat(`{"status":202},`, n), ",") + "]"))
	}))
	w.URL = w.srv.URL
	w.tx = transmit.NewDirectTransmission(types.TransmitTypeUpstream, &http.Transport{MaxIdleConnsPerHost: 16},
		1 /* maxBatchSize: every event is dispatched at once */, time.Hour, 30*time.Second, true, nil)
	w.tx.Config = b.Cfg
	w.tx.Logger = &logger.NullLogger{}
	w.tx.Metrics = b.Metrics
	w.tx.Version = "verif"
	if err := w.tx.Start(); err != nil {
		t.Fatalf("E3 wire: %v", err)
	}
	return w
}

// Await waits until n more events than `already` have reached the fake Honeycomb.
// It returns false on timeout (callers report run.Inconclusive, never a violation).
func (w *E3Wire) Await(n int, bound time.Duration) bool {
	timer := time.NewTimer(bound)
	defer timer.Stop()
	for i := 0; i < n; i++ {
		select {
		case <-w.ch:
		case <-timer.C:
			return false
		}
	}
	return true
}

// Take returns and clears what the fake Honeycomb has received.
func (w *E3Wire) Take() []E3WireEvent {
	w.mu.Lock()
	defer w.mu.Unlock()
	out := w.evs
	w.evs = nil
	return out
}

func (w *E3Wire) close() {
	_ = w.tx.Stop()
	w.srv.Close()
}
