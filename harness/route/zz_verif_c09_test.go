//go:build verif

package route

// C09: the sampling decision, rate and sample key of a trace do not depend on the order in
// which its spans arrived or on how each span was encoded.
//
// Metamorphic monitor. Per case ONE logical trace (field names -> logical values:
// integer within ±2^53, float, string, bool, null) and ONE sampler configuration (real
// rules file loaded by the real config loader) are generated. The trace is pushed through
// the REAL ingestion code of the bench's routers in several VARIANTS (wire encodings), the
// *types.Span objects the router hands to the collector are captured, assembled into a
// types.Trace in several ORDERS, and each (variant, order) is decided by a FRESH real
// sampler (b3Decide = what the collector worker does). Every outcome must equal the
// reference outcome (batch msgpack, signed ints, float64, generation order):
// same rate, reason, key — and keep where it is deterministic.
//
// Exclusions, as the property states: no sampler reads a field named in TraceNames /
// ParentNames; traces stay far below 100 distinct key values; integers stay within ±2^53.

import (
	"encoding/hex"
	"fmt"
	"math"
	"sort"
	"strconv"
	"strings"
	"testing"
	"time"

	"github.com/honeycombio/refinery/config"
	"github.com/honeycombio/refinery/internal/verifkit"
	"github.com/honeycombio/refinery/types"
)

// ---------------------------------------------------------------------------------
// logical values
// ---------------------------------------------------------------------------------

type c09Kind int

const (
	c09Int c09Kind = iota
	c09Float
	c09Str
	c09Bool
	c09Nil
)

type c09Val struct {
	K c09Kind
	I int64
	F float64
	S string
	B bool
	// Big != 0 (K == c09Float): an integer beyond ±2^53 that a JSON client writes as plain
	// digits. JSON carries no integers, so the value every encoding carries is F, the float64
	// nearest to it: the JSON paths get the digits, every other path the float64 F. (Integer
	// encodings of such values are excluded, as the property states.)
	Big int64
}

func (v c09Val) String() string {
	switch v.K {
	case c09Int:
		return "int:" + strconv.FormatInt(v.I, 10)
	case c09Float:
		if v.Big != 0 {
			return "float:" + strconv.FormatFloat(v.F, 'g', -1, 64) + "(json-text:" + strconv.FormatInt(v.Big, 10) + ")"
		}
		return "float:" + strconv.FormatFloat(v.F, 'g', -1, 64)
	case c09Str:
		return "str:" + strconv.Quote(v.S)
	case c09Bool:
		return "bool:" + strconv.FormatBool(v.B)
	}
	return "null"
}

func (v c09Val) MarshalJSON() ([]byte, error) { return []byte(strconv.Quote(v.String())), nil }

func c09I(i int64) c09Val   { return c09Val{K: c09Int, I: i} }
func c09F(f float64) c09Val { return c09Val{K: c09Float, F: f} }
func c09S(s string) c09Val  { return c09Val{K: c09Str, S: s} }
func c09Big(i int64) c09Val { return c09Val{K: c09Float, F: float64(i), Big: i} }

var c09BigInts = []int64{1<<53 + 1, 1<<53 + 3, math.MaxInt64, -(1<<53 + 1), 1234567890123456789, 1<<60 + 1}

func c09B(b bool) c09Val { return c09Val{K: c09Bool, B: b} }

func c09F32Exact(f float64) bool {
	return float64(float32(f)) == f && !math.IsInf(float64(float32(f)), 0)
}

// yaml renders the value as a rules-file scalar of the same type.
func (v c09Val) yaml() string {
	switch v.K {
	case c09Int:
		return strconv.FormatInt(v.I, 10)
	case c09Float:
		s := strconv.FormatFloat(v.F, 'f', -1, 64)
		if !strings.Contains(s, ".") {
			s += ".0"
		}
		return s
	case c09Str:
		return b3YAMLStr(v.S)
	case c09Bool:
		return strconv.FormatBool(v.B)
	}
	return "null"
}

var c09IntAnchors = []int64{0, 1, -1, 5, 6, 100, 127, 128, 200, 255, 256, 404, 500, -32, -33, -128, -129, 32767, 32768, 65535, 65536,
	99999, 999999, 1000000, 1000001, 1234567, 1 << 21, 1 << 24, 1<<24 + 1, 1<<31 - 1, 1 << 31, 1<<32 - 1, 1 << 32, 1 << 40,
	1<<53 - 1, 1 << 53, -(1 << 31), -(1 << 31) - 1, -1000000, -(1 << 53)}

var c09FloatAnchors = []float64{0.5, 1.5, -2.25, 0.1, 0.30000000000000004, 3.141592653589793, 1e-7, 1.0 / (1 << 20), 0.0001, 0.00001,
	123456.789, 5.0, 200.0, 1e6, 1234567.0, 2.5e6 + 0.5, 16777216.0, 16777217.0, 2.5e10, 1e15 + 0.5, 1e21, 1e22, -1e6, -0.75,
	99999.5, 1000000.5, 4294967296.0, 3.4028234663852886e38, 1e300, 2.2250738585072014e-308}

var c09Strings = []string{"5", "5.0", "200", "1e+06", "1000000", "true", "false", "", "abc", "abd", "GET", "/health", "<nil>", "0x10", " 5", "1.5", "-1"}

func c09PickVal(rng *verifkit.Rand, allowNil bool) c09Val {
	k := rng.Intn(100)
	switch {
	case k < 38:
		v := c09IntAnchors[rng.Intn(len(c09IntAnchors))]
		if rng.Chance(0.2) {
			v += int64(rng.Range(-2, 2))
		}
		if v > 1<<53 {
			v = 1 << 53
		}
		if v < -(1 << 53) {
			v = -(1 << 53)
		}
		return c09I(v)
	case k < 70:
		if rng.Chance(0.15) {
			return c09Big(c09BigInts[rng.Intn(len(c09BigInts))])
		}
		return c09F(c09FloatAnchors[rng.Intn(len(c09FloatAnchors))])
	case k < 88:
		return c09S(c09Strings[rng.Intn(len(c09Strings))])
	case k < 96 || !allowNil:
		return c09B(rng.Bool())
	default:
		return c09Val{K: c09Nil}
	}
}

// ---------------------------------------------------------------------------------
// logical trace
// ---------------------------------------------------------------------------------

type c09Field struct {
	Name string `json:"name"`
	Val  c09Val `json:"val"`
}

type c09Span struct {
	ID     string     `json:"id"` // verif.id
	Root   bool       `json:"root"`
	Fields []c09Field `json:"fields"` // client fields other than the IDs
	// OTLP source material (only for OTLP-origin cases)
	spanID, parentID []byte
	otlpAttrs        []c09Field // the attributes the client set (Fields becomes husky's field set)
}

type c09Trace struct {
	TraceID string    `json:"trace_id"`
	Spans   []c09Span `json:"spans"`
	OTLP    bool      `json:"otlp_origin"`
	traceID []byte
}

var c09FieldNames = []string{"f0", "f1", "f2", "http.status", "dur"}

// ---------------------------------------------------------------------------------
// encodings and variants
// ---------------------------------------------------------------------------------

type c09Path int

const (
	c09BatchMsgp c09Path = iota
	c09BatchJSON
	c09EventJSON
	c09EventMsgp
	c09OTLPProto
	c09OTLPJSON
	c09OTLPGRPC
)

func (p c09Path) String() string {
	return [...]string{"batch-msgpack", "batch-json", "event-json", "event-msgpack", "otlp-http-proto", "otlp-http-json", "otlp-grpc"}[p]
}

type c09Enc struct {
	Path c09Path
	Uint bool // non-negative integers in the unsigned family
	Wide bool // integers in a wider-than-necessary width
	F32  bool // floats as float32 where exact
	Peer bool // sent to another node first; arrives from that node's real DirectTransmission
	// IntAsF64 (naming hybrids only): integers as msgpack float64, which is the Go type a JSON
	// number decodes to
	IntAsF64 bool
}

func (e c09Enc) String() string {
	s := e.Path.String()
	if e.Uint {
		s += "+uint"
	}
	if e.Wide {
		s += "+wide"
	}
	if e.F32 {
		s += "+f32"
	}
	if e.Peer {
		s += "+via-peer"
	}
	return s
}

type c09Variant struct {
	Name     string
	Enc      []c09Enc // per span
	OneBatch bool     // all spans in one request (batch and OTLP paths)
	Shuffle  uint64   // seed for the payload key order
	// FlagFields (naming hybrids only): the numeric wire-type flags apply to these fields only
	FlagFields map[string]bool
}

// c09Wire renders a logical value for a msgpack/JSON path.
func c09Wire(v c09Val, e c09Enc, rng *verifkit.Rand) E3Val {
	switch v.K {
	case c09Int:
		if e.IntAsF64 {
			return VF64(float64(v.I))
		}
		if e.Uint && v.I >= 0 {
			w := 0
			if e.Wide {
				w = verifkit.Pick(rng, 16, 32, 64)
				for v.I >= 1<<uint(w) && w < 64 {
					w *= 2
				}
			}
			return VUintW(uint64(v.I), w)
		}
		if e.Wide {
			w := verifkit.Pick(rng, 16, 32, 64)
			for w < 64 && (v.I >= 1<<uint(w-1) || v.I < -(1<<uint(w-1))) {
				w *= 2
			}
			return VIntW(v.I, w)
		}
		return VInt(v.I)
	case c09Float:
		if v.Big != 0 && (e.Path == c09BatchJSON || e.Path == c09EventJSON) {
			// rendered as plain digits by the bench's JSON writer
			if v.Big > 0 {
				return E3Val{Kind: KUint, Uint: uint64(v.Big)}
			}
			return VInt(v.Big)
		}
		if e.F32 && c09F32Exact(v.F) {
			return VF32(float32(v.F))
		}
		return VF64(v.F)
	case c09Str:
		return VStr(v.S)
	case c09Bool:
		return VBool(v.B)
	}
	return VNil()
}

// c09Data is the payload map of one span under an encoding.
func c09Data(tr *c09Trace, i int, e c09Enc, shuffle uint64, flagFields map[string]bool) E3Val {
	sp := tr.Spans[i]
	rng := verifkit.NewRand(shuffle).Fork(sp.ID)
	kvs := []E3KV{KV("verif.id", VStr(sp.ID))}
	if !tr.OTLP {
		kvs = append(kvs, KV("trace.trace_id", VStr(tr.TraceID)))
		if !sp.Root {
			kvs = append(kvs, KV("trace.parent_id", VStr("p-"+sp.ID)))
		}
	}
	for _, f := range sp.Fields {
		fe := e
		if flagFields != nil && !flagFields[f.Name] {
			fe.Uint, fe.Wide, fe.F32, fe.IntAsF64 = false, false, false, false
		}
		kvs = append(kvs, KV(f.Name, c09Wire(f.Val, fe, rng)))
	}
	verifkit.Shuffle(rng, kvs)
	return VMap(kvs...)
}

// ---------------------------------------------------------------------------------
// sampler configurations
// ---------------------------------------------------------------------------------

type c09Cond struct {
	Fields   []string `json:"fields"` // 1 => Field, >1 => Fields; empty for has-root-span
	Op       string   `json:"op"`
	Datatype string   `json:"datatype,omitempty"`
	Values   []c09Val `json:"values,omitempty"` // 1 scalar; several => list (in / not-in)
	NoValue  bool     `json:"no_value,omitempty"`
}

// class names the comparison routine (from reading sampler_config.go / rules.go; used only
// to name signatures).
func (c c09Cond) class() string {
	switch c.Op {
	case "exists", "not-exists", "has-root-span":
		return "presence"
	case "starts-with", "contains", "does-not-contain", "matches":
		return "string-ops"
	case "in", "not-in":
		switch c.Datatype {
		case "int":
			return "in-int"
		case "float":
			return "in-float"
		}
		return "in-string"
	}
	switch c.Datatype {
	case "":
		return "untyped-compare"
	default:
		return c.Datatype + "-compare"
	}
}

func (c c09Cond) yaml(indent string) string {
	var sb strings.Builder
	first := true
	line := func(s string) {
		if first {
			sb.WriteString(indent + "- " + s + "\n")
			first = false
		} else {
			sb.WriteString(indent + "  " + s + "\n")
		}
	}
	switch len(c.Fields) {
	case 0:
	case 1:
		line("Field: " + b3YAMLStr(c.Fields[0]))
	default:
		line("Fields: " + b3YAMLList(c.Fields))
	}
	line("Operator: " + b3YAMLStr(c.Op))
	if !c.NoValue {
		if len(c.Values) == 1 && c.Op != "in" && c.Op != "not-in" {
			line("Value: " + c.Values[0].yaml())
		} else {
			xs := make([]string, len(c.Values))
			for i, v := range c.Values {
				xs[i] = v.yaml()
			}
			line("Value: [" + strings.Join(xs, ", ") + "]")
		}
	}
	if c.Datatype != "" {
		line("Datatype: " + c.Datatype)
	}
	return sb.String()
}

type c09Dyn struct {
	Kind           string   `json:"kind"` // DynamicSampler, EMADynamicSampler, TotalThroughputSampler, EMAThroughputSampler, WindowedThroughputSampler, DeterministicSampler
	FieldList      []string `json:"field_list,omitempty"`
	UseTraceLength bool     `json:"use_trace_length,omitempty"`
	Rate           int      `json:"rate"`
}

func (d c09Dyn) yaml(indent string) string {
	var sb strings.Builder
	sb.WriteString(indent + d.Kind + ":\n")
	in := indent + "  "
	switch d.Kind {
	case "DeterministicSampler":
		sb.WriteString(in + "SampleRate: " + strconv.Itoa(d.Rate) + "\n")
		return sb.String()
	case "DynamicSampler":
		sb.WriteString(in + "SampleRate: " + strconv.Itoa(d.Rate) + "\n")
	case "EMADynamicSampler":
		sb.WriteString(in + "GoalSampleRate: " + strconv.Itoa(d.Rate) + "\n")
	case "EMAThroughputSampler":
		sb.WriteString(in + "GoalThroughputPerSec: 100\n" + in + "InitialSampleRate: " + strconv.Itoa(d.Rate) + "\n")
	default:
		sb.WriteString(in + "GoalThroughputPerSec: 100\n")
	}
	sb.WriteString(in + "FieldList: " + b3YAMLList(d.FieldList) + "\n")
	if d.UseTraceLength {
		sb.WriteString(in + "UseTraceLength: true\n")
	}
	return sb.String()
}

type c09Rule struct {
	Name       string    `json:"name"`
	Scope      string    `json:"scope,omitempty"`
	Conds      []c09Cond `json:"conditions"`
	SampleRate int       `json:"sample_rate"`
	Drop       bool      `json:"drop,omitempty"`
	Down       *c09Dyn   `json:"downstream,omitempty"`
}

type c09Sampler struct {
	Rules []c09Rule `json:"rules,omitempty"` // rules sampler when non-nil
	Dyn   *c09Dyn   `json:"sampler,omitempty"`
}

func (s c09Sampler) rulesYAML() string {
	var sb strings.Builder
	sb.WriteString("RulesVersion: 2\nSamplers:\n  __default__:\n")
	if s.Dyn != nil {
		sb.WriteString(s.Dyn.yaml("    "))
		return sb.String()
	}
	sb.WriteString("    RulesBasedSampler:\n      Rules:\n")
	for _, r := range s.Rules {
		sb.WriteString("        - Name: " + b3YAMLStr(r.Name) + "\n")
		if r.Scope != "" {
			sb.WriteString("          Scope: " + r.Scope + "\n")
		}
		switch {
		case r.Down != nil:
			sb.WriteString("          Sampler:\n" + r.Down.yaml("            "))
		case r.Drop:
			sb.WriteString("          Drop: true\n")
		default:
			sb.WriteString("          SampleRate: " + strconv.Itoa(r.SampleRate) + "\n")
		}
		if len(r.Conds) > 0 {
			sb.WriteString("          Conditions:\n")
			for _, c := range r.Conds {
				sb.WriteString(c.yaml("            "))
			}
		}
	}
	return sb.String()
}

func c09PickField(rng *verifkit.Rand, allowRoot bool) string {
	f := c09FieldNames[rng.Intn(len(c09FieldNames))]
	if allowRoot && rng.Chance(0.25) {
		return "root." + f
	}
	return f
}

func c09GenDyn(rng *verifkit.Rand, allowDeterministic bool) *c09Dyn {
	kinds := []string{"DynamicSampler", "DynamicSampler", "EMADynamicSampler", "TotalThroughputSampler", "EMAThroughputSampler", "WindowedThroughputSampler"}
	if allowDeterministic {
		kinds = append(kinds, "DeterministicSampler")
	}
	d := &c09Dyn{Kind: kinds[rng.Intn(len(kinds))], Rate: verifkit.Pick(rng, 1, 2, 10, 100)}
	if d.Kind == "DeterministicSampler" {
		return d
	}
	seen := map[string]bool{}
	for n := rng.Range(1, 3); len(d.FieldList) < n; {
		f := c09PickField(rng, true)
		if !seen[f] {
			seen[f] = true
			d.FieldList = append(d.FieldList, f)
		}
	}
	d.UseTraceLength = rng.Chance(0.3)
	return d
}

// c09GenCond draws one valid condition; pool are the logical values occurring in the trace.
func c09GenCond(rng *verifkit.Rand, pool []c09Val, scope string) c09Cond {
	val := func() c09Val {
		if len(pool) > 0 && rng.Chance(0.7) {
			v := pool[rng.Intn(len(pool))]
			if v.K != c09Nil {
				return v
			}
		}
		return c09PickVal(rng, false)
	}
	numVal := func() c09Val {
		for i := 0; i < 20; i++ {
			v := val()
			switch v.K {
			case c09Int, c09Float:
				return v
			case c09Str:
				if _, err := strconv.ParseFloat(v.S, 64); err == nil && rng.Chance(0.5) {
					return v
				}
			}
		}
		return c09I(5)
	}
	intVal := func() c09Val {
		for i := 0; i < 20; i++ {
			v := val()
			switch v.K {
			case c09Int:
				return v
			case c09Float:
				if rng.Chance(0.5) {
					return v
				}
			case c09Str:
				if _, err := strconv.Atoi(v.S); err == nil {
					return v
				}
			}
		}
		return c09I(200)
	}
	c := c09Cond{}
	if rng.Chance(0.15) {
		c.Fields = []string{c09PickField(rng, true), c09PickField(rng, true)}
	} else {
		c.Fields = []string{c09PickField(rng, true)}
	}
	cmp := []string{"=", "!=", "<", "<=", ">", ">="}
	k := rng.Intn(100)
	switch {
	case k < 22: // untyped comparison
		v := val()
		if v.K == c09Int && v.I > -(1<<40) && v.I < 1<<40 && rng.Chance(0.25) {
			v = c09F(float64(v.I) + verifkit.Pick(rng, 0.5, -0.5, 0.25)) // fractional threshold next to an integer value
		}
		c.Op, c.Values = cmp[rng.Intn(6)], []c09Val{v}
	case k < 34:
		c.Op, c.Datatype, c.Values = cmp[rng.Intn(6)], "int", []c09Val{intVal()}
	case k < 46:
		c.Op, c.Datatype, c.Values = cmp[rng.Intn(6)], "float", []c09Val{numVal()}
	case k < 56:
		c.Op, c.Datatype, c.Values = cmp[rng.Intn(6)], "string", []c09Val{val()}
	case k < 60:
		c.Op, c.Datatype, c.Values = cmp[rng.Intn(2)], "bool", []c09Val{verifkit.Pick(rng, c09B(true), c09B(false), c09S("true"), c09I(1), c09I(0))}
	case k < 72:
		c.Op = verifkit.Pick(rng, "starts-with", "contains", "does-not-contain")
		v := val()
		// a prefix / infix of the value's text so that the operator is not trivially false
		var text string
		switch v.K {
		case c09Int:
			text = strconv.FormatInt(v.I, 10)
		case c09Float:
			text = strconv.FormatFloat(v.F, 'f', -1, 64)
		case c09Str:
			text = v.S
		case c09Bool:
			text = strconv.FormatBool(v.B)
		}
		if len(text) > 2 && rng.Chance(0.6) {
			text = text[:rng.Range(1, len(text)-1)]
		}
		if rng.Chance(0.3) && v.K == c09Int {
			c.Values = []c09Val{v}
		} else {
			c.Values = []c09Val{c09S(text)}
		}
	case k < 78:
		c.Op = "matches"
		c.Values = []c09Val{c09S(verifkit.Pick(rng, `^[0-9]+$`, `^-?[0-9]+$`, `e\+`, `^[0-9]+\.[0-9]+$`, `^1`, `0$`, `^(true|false)$`, `\.`))}
	case k < 90:
		c.Op = verifkit.Pick(rng, "in", "not-in")
		c.Datatype = verifkit.Pick(rng, "", "string", "int", "float")
		// the loader requires all list elements to have the same YAML type
		kind := verifkit.Pick(rng, c09Int, c09Float, c09Str)
		if c.Datatype == "int" && kind == c09Float {
			kind = c09Int
		}
		ofKind := func() c09Val {
			for i := 0; i < 30; i++ {
				v := val()
				if v.K != kind {
					continue
				}
				if kind == c09Str && c.Datatype == "int" {
					if _, err := strconv.Atoi(v.S); err != nil {
						continue
					}
				}
				if kind == c09Str && c.Datatype == "float" {
					if _, err := strconv.ParseFloat(v.S, 64); err != nil {
						continue
					}
				}
				return v
			}
			switch kind {
			case c09Int:
				return c09I(200)
			case c09Float:
				return c09F(1.5)
			}
			return c09S("5")
		}
		n := rng.Range(1, 3)
		for i := 0; i < n; i++ {
			c.Values = append(c.Values, ofKind())
		}
	case k < 96:
		c.Op, c.NoValue = verifkit.Pick(rng, "exists", "not-exists"), true
	default:
		if scope == "span" {
			c.Op, c.NoValue = "exists", true
		} else {
			c.Op, c.Fields, c.Values = "has-root-span", nil, []c09Val{c09B(rng.Bool())}
		}
	}
	return c
}

func c09GenSampler(rng *verifkit.Rand, pool []c09Val) c09Sampler {
	k := rng.Intn(100)
	switch {
	case k < 62:
		var rules []c09Rule
		n := rng.Range(1, 3)
		for i := 0; i < n; i++ {
			r := c09Rule{Name: fmt.Sprintf("r%d", i), Scope: verifkit.Pick(rng, "", "trace", "span")}
			for j, m := 0, rng.Range(1, 2); j < m; j++ {
				r.Conds = append(r.Conds, c09GenCond(rng, pool, r.Scope))
			}
			switch rng.Intn(4) {
			case 0:
				r.Drop = true
			case 1:
				r.Down = c09GenDyn(rng, false)
			default:
				r.SampleRate = verifkit.Pick(rng, 1, 1, 7, 50)
			}
			rules = append(rules, r)
		}
		if rng.Chance(0.5) {
			rules = append(rules, c09Rule{Name: "fallback", SampleRate: verifkit.Pick(rng, 1, 3)})
		}
		return c09Sampler{Rules: rules}
	case k < 95:
		return c09Sampler{Dyn: c09GenDyn(rng, false)}
	default:
		return c09Sampler{Dyn: &c09Dyn{Kind: "DeterministicSampler", Rate: verifkit.Pick(rng, 1, 2, 10)}}
	}
}

// ---------------------------------------------------------------------------------
// the rig: bench + capture + peer hop + config
// ---------------------------------------------------------------------------------

type c09Rig struct {
	t    *testing.T
	run  *verifkit.Run
	b    *E3Bench
	cap  *b3Capture
	hop  *b3PeerHop
	dir  string
	cfg  config.Config
	main string
}

const c09APIKey = E3KeyEnv

// ingest pushes the trace through the routers under variant v and returns the captured
// spans indexed like tr.Spans. ok=false means the harness could not observe (reason given).
func (g *c09Rig) ingest(tr *c09Trace, v c09Variant) (spans []*types.Span, problem string, inconclusive bool) {
	g.cap.Take()
	g.hop.Take()
	g.b.Log.Reset()
	n := len(tr.Spans)
	bad := func(what string, req *E3Req, resp *E3Resp) string {
		return fmt.Sprintf("%s: status %d body %q panic %q (%v)", what, resp.Status, resp.Body, resp.Panicked, req.Witness())
	}
	send := func(idx []int, peer bool) string {
		if len(idx) == 0 {
			return ""
		}
		e0 := v.Enc[idx[0]]
		switch e0.Path {
		case c09OTLPProto, c09OTLPJSON, c09OTLPGRPC:
			var sps []E3Span
			for _, i := range idx {
				sps = append(sps, c09OTLPSpan(tr, i))
			}
			msg := e3OTLPTraces("svc", sps)
			if e0.Path == c09OTLPGRPC {
				res := g.b.GRPCTraces(map[string]string{"x-honeycomb-team": c09APIKey}, msg)
				if !res.OK() {
					return fmt.Sprintf("otlp grpc: %v %s", res.Code, res.Msg)
				}
				return ""
			}
			ct := "application/protobuf"
			if e0.Path == c09OTLPJSON {
				ct = "application/json"
			}
			req, err := e3OTLPReq("/v1/traces", ct, c09APIKey, "", msg)
			if err != nil {
				return "otlp request: " + err.Error()
			}
			if resp := g.b.Serve(req); resp.Status != 200 || resp.Panicked != "" {
				return bad("otlp", req, resp)
			}
			return ""
		}
		batchOf := func(is []int) string {
			enc := E3Msgpack
			if v.Enc[is[0]].Path == c09BatchJSON {
				enc = E3JSON
			}
			var items []E3BatchItem
			for _, i := range is {
				d := c09Data(tr, i, v.Enc[i], v.Shuffle, v.FlagFields)
				items = append(items, E3BatchItem{Data: &d})
			}
			req, err := e3BatchReq(E3Incoming, enc, "ds", c09APIKey, items)
			if err != nil {
				return "batch request: " + err.Error()
			}
			resp := g.b.Serve(req)
			if resp.Status != 200 || resp.Panicked != "" || strings.Contains(resp.Body, `"error"`) {
				return bad("batch", req, resp)
			}
			return ""
		}
		if v.OneBatch && (e0.Path == c09BatchMsgp || e0.Path == c09BatchJSON) {
			return batchOf(idx)
		}
		for _, i := range idx {
			e := v.Enc[i]
			switch e.Path {
			case c09BatchMsgp, c09BatchJSON:
				if p := batchOf([]int{i}); p != "" {
					return p
				}
			case c09EventJSON, c09EventMsgp:
				enc := E3JSON
				if e.Path == c09EventMsgp {
					enc = E3Msgpack
				}
				req, err := e3EventReq(E3Incoming, enc, "ds", c09APIKey, c09Data(tr, i, e, v.Shuffle, v.FlagFields), -1, "")
				if err != nil {
					return "event request: " + err.Error()
				}
				if resp := g.b.Serve(req); resp.Status != 200 || resp.Panicked != "" {
					return bad("event", req, resp)
				}
			default:
				return "mixed OTLP variants are not generated"
			}
		}
		return ""
	}
	var viaPeer, direct []int
	for i := 0; i < n; i++ {
		if v.Enc[i].Peer {
			viaPeer = append(viaPeer, i)
		} else {
			direct = append(direct, i)
		}
	}
	if len(viaPeer) > 0 {
		// phase 1: another node owns the trace; this node forwards through a real
		// DirectTransmission, the hop records what arrives at the owner
		g.b.Sharder.SetOwner(func(string) string { return g.hop.URL() })
		p := send(viaPeer, true)
		if p == "" && !g.hop.Await(len(viaPeer), 20*time.Second) {
			g.b.Sharder.SetOwner(nil)
			return nil, "peer hop: forwarded events did not arrive within 20s", true
		}
		g.b.Sharder.SetOwner(nil)
		if p != "" {
			return nil, p, false
		}
		if got := g.cap.Take(); len(got) != 0 {
			return nil, fmt.Sprintf("peer phase: %d spans reached the local collector although another node owns the trace", len(got)), false
		}
		// phase 2: this node is the owner and receives exactly those requests on its peer listener
		for _, r := range g.hop.Take() {
			if resp := g.hop.Replay(g.b, r); resp.Status != 200 || resp.Panicked != "" || strings.Contains(resp.Body, `"error"`) {
				return nil, fmt.Sprintf("peer replay %s: status %d body %q", r.Path, resp.Status, resp.Body), false
			}
		}
	}
	if p := send(direct, false); p != "" {
		return nil, p, false
	}
	got := g.cap.Take()
	byID := map[string]*types.Span{}
	for _, c := range got {
		id, _ := c.Span.Data.Get("verif.id").(string)
		if byID[id] != nil {
			return nil, "span " + id + " captured twice", false
		}
		byID[id] = c.Span
	}
	spans = make([]*types.Span, n)
	for i, sp := range tr.Spans {
		s := byID[sp.ID]
		if s == nil {
			return nil, fmt.Sprintf("span %s was not handed to the collector (%d captured)", sp.ID, len(got)), false
		}
		spans[i] = s
	}
	return spans, "", false
}

func c09OTLPSpan(tr *c09Trace, i int) E3Span {
	sp := tr.Spans[i]
	s := E3Span{TraceID: tr.traceID, SpanID: sp.spanID, ParentID: sp.parentID, Name: "op", StartNs: 1_700_000_000_000_000_000, EndNs: 1_700_000_000_250_000_000}
	s.Attrs = append(s.Attrs, KV("verif.id", VStr(sp.ID)))
	for _, f := range sp.otlpAttrs {
		switch f.Val.K {
		case c09Int:
			s.Attrs = append(s.Attrs, KV(f.Name, VInt(f.Val.I)))
		case c09Float:
			s.Attrs = append(s.Attrs, KV(f.Name, VF64(f.Val.F)))
		case c09Str:
			s.Attrs = append(s.Attrs, KV(f.Name, VStr(f.Val.S)))
		case c09Bool:
			s.Attrs = append(s.Attrs, KV(f.Name, VBool(f.Val.B)))
		}
	}
	return s
}

// ---------------------------------------------------------------------------------
// case generation
// ---------------------------------------------------------------------------------

func c09GenTrace(rng *verifkit.Rand, thorough bool, otlp bool) (*c09Trace, []c09Val) {
	tr := &c09Trace{OTLP: otlp}
	tr.traceID = make([]byte, 16)
	for i := range tr.traceID {
		tr.traceID[i] = byte(rng.Intn(256))
	}
	tr.TraceID = hex.EncodeToString(tr.traceID)
	maxSpans := 5
	if thorough {
		maxSpans = 9
	}
	n := rng.Range(1, maxSpans)
	// a small pool so that values recur across spans and rule values hit them
	var pool []c09Val
	for i, m := 0, rng.Range(3, 7); i < m; i++ {
		pool = append(pool, c09PickVal(rng, !otlp))
	}
	// numerically equal int/float twins make int-vs-float handling visible
	if rng.Chance(0.4) {
		for _, v := range pool {
			if v.K == c09Int && float64(v.I) == math.Trunc(float64(v.I)) && math.Abs(float64(v.I)) < 1<<53 {
				pool = append(pool, c09F(float64(v.I)))
				break
			}
		}
	}
	hasRoot := rng.Chance(0.85)
	rootIdx := rng.Intn(n)
	for i := 0; i < n; i++ {
		sp := c09Span{ID: fmt.Sprintf("s%d-%s", i, rng.Hex(4)), Root: hasRoot && i == rootIdx}
		sp.spanID = []byte{byte(i + 1), 2, 3, 4, 5, 6, 7, byte(rng.Intn(256))}
		if !sp.Root {
			sp.parentID = []byte{0xee, 2, 3, 4, 5, 6, 7, 8}
		}
		for _, name := range c09FieldNames {
			if rng.Chance(0.6) {
				sp.Fields = append(sp.Fields, c09Field{Name: name, Val: pool[rng.Intn(len(pool))]})
			}
		}
		sp.otlpAttrs = sp.Fields
		tr.Spans = append(tr.Spans, sp)
	}
	return tr, pool
}

// c09FromOTLP rebuilds the logical field set of an OTLP-origin trace from what husky
// produced, so that every other variant carries the same names and equal values.
func c09FromOTLP(tr *c09Trace, spans []*types.Span) (string, bool) {
	for i, sp := range spans {
		var fields []c09Field
		for k, v := range sp.Data.All() {
			if k == "verif.id" || strings.HasPrefix(k, "meta.refinery.") {
				continue
			}
			switch x := v.(type) {
			case int64:
				fields = append(fields, c09Field{k, c09I(x)})
			case float64:
				fields = append(fields, c09Field{k, c09F(x)})
			case string:
				fields = append(fields, c09Field{k, c09S(x)})
			case bool:
				fields = append(fields, c09Field{k, c09B(x)})
			default:
				return fmt.Sprintf("husky produced field %q of type %T", k, v), false
			}
		}
		sort.Slice(fields, func(a, b int) bool { return fields[a].Name < fields[b].Name })
		tr.Spans[i].Fields = fields
		tr.Spans[i].Root = sp.IsRoot
	}
	if len(spans) > 0 {
		tr.TraceID = spans[0].TraceID
	}
	return "", true
}

func c09Uniform(name string, n int, e c09Enc, oneBatch bool, shuffle uint64) c09Variant {
	v := c09Variant{Name: name, OneBatch: oneBatch, Shuffle: shuffle}
	for i := 0; i < n; i++ {
		v.Enc = append(v.Enc, e)
	}
	return v
}

func c09Variants(rng *verifkit.Rand, tr *c09Trace, thorough bool) []c09Variant {
	n := len(tr.Spans)
	sh := func() uint64 { return rng.Uint64() }
	vs := []c09Variant{
		c09Uniform("batch-msgpack+uint", n, c09Enc{Path: c09BatchMsgp, Uint: true, Wide: rng.Bool()}, rng.Bool(), sh()),
		c09Uniform("batch-msgpack+f32", n, c09Enc{Path: c09BatchMsgp, F32: true}, rng.Bool(), sh()),
		c09Uniform("batch-msgpack+wide", n, c09Enc{Path: c09BatchMsgp, Wide: true}, rng.Bool(), sh()),
		c09Uniform("batch-json", n, c09Enc{Path: c09BatchJSON}, rng.Bool(), sh()),
		c09Uniform("event-json", n, c09Enc{Path: c09EventJSON}, false, sh()),
		c09Uniform("event-msgpack", n, c09Enc{Path: c09EventMsgp}, false, sh()),
		c09Uniform("event-msgpack+uint+f32", n, c09Enc{Path: c09EventMsgp, Uint: true, F32: true}, false, sh()),
		c09Uniform("via-peer(batch-msgpack)", n, c09Enc{Path: c09BatchMsgp, Peer: true}, rng.Bool(), sh()),
	}
	switch rng.Intn(3) {
	case 0:
		vs = append(vs, c09Uniform("via-peer(batch-msgpack+uint+f32)", n, c09Enc{Path: c09BatchMsgp, Uint: true, F32: true, Peer: true}, rng.Bool(), sh()))
	case 1:
		vs = append(vs, c09Uniform("via-peer(event-json)", n, c09Enc{Path: c09EventJSON, Peer: true}, false, sh()))
	default:
		vs = append(vs, c09Uniform("via-peer(batch-json)", n, c09Enc{Path: c09BatchJSON, Peer: true}, rng.Bool(), sh()))
	}
	if tr.OTLP {
		vs = append(vs, c09Uniform("otlp-http-proto", n, c09Enc{Path: c09OTLPProto}, true, sh()),
			c09Uniform("otlp-http-json", n, c09Enc{Path: c09OTLPJSON}, true, sh()),
			c09Uniform("otlp-grpc", n, c09Enc{Path: c09OTLPGRPC}, true, sh()))
	}
	// per-span choices
	mixes := 2
	if thorough {
		mixes = 4
	}
	for m := 0; m < mixes; m++ {
		v := c09Variant{Name: fmt.Sprintf("mixed-%d", m), Shuffle: sh()}
		for i := 0; i < n; i++ {
			e := c09Enc{Path: verifkit.Pick(rng, c09BatchMsgp, c09BatchMsgp, c09BatchJSON, c09EventJSON, c09EventMsgp)}
			if e.Path == c09BatchMsgp || e.Path == c09EventMsgp {
				e.Uint, e.Wide, e.F32 = rng.Bool(), rng.Chance(0.3), rng.Bool()
			}
			e.Peer = rng.Chance(0.25)
			v.Enc = append(v.Enc, e)
		}
		vs = append(vs, v)
	}
	return vs
}

// ---------------------------------------------------------------------------------
// comparison and naming
// ---------------------------------------------------------------------------------

func c09KeepComparable(a, b b3Outcome) bool {
	det := func(o b3Outcome) bool {
		return o.Rate <= 1 || strings.Contains(o.Reason, "deterministic/")
	}
	return det(a) && det(b)
}

func c09Same(a, b b3Outcome) (bool, string) {
	switch {
	case a.Panic != "" || b.Panic != "":
		if a.Panic != b.Panic {
			return false, "panic"
		}
		return true, ""
	case a.Rate != b.Rate:
		return false, "rate"
	case a.Reason != b.Reason:
		return false, "reason"
	case a.Key != b.Key:
		return false, "key"
	case c09KeepComparable(a, b) && a.Keep != b.Keep:
		return false, "keep"
	}
	return true, ""
}

func c09GoType(v any) string {
	if v == nil {
		return "nil"
	}
	return fmt.Sprintf("%T", v)
}

func c09RootIdx(tr *c09Trace) int {
	for i, sp := range tr.Spans {
		if sp.Root {
			return i
		}
	}
	return -1
}

// c09TypePairs: the Go types the sampler sees in the two captured span sets for the
// field a probe reads, where they differ ("int64-vs-uint64"). only >= 0 restricts the
// comparison to the values held by that span.
func c09TypePairs(fields []string, a, b []*types.Span, rootIdx, only int) []string {
	set := map[string]bool{}
	for i := range a {
		for _, f := range fields {
			target := i
			name := f
			if strings.HasPrefix(f, "root.") {
				if rootIdx < 0 {
					continue
				}
				target, name = rootIdx, f[len("root."):]
			}
			if !a[target].Data.Exists(name) && !b[target].Data.Exists(name) {
				continue
			}
			if only < 0 || only == target {
				ta, tb := c09GoType(a[target].Data.Get(name)), c09GoType(b[target].Data.Get(name))
				if ta != tb {
					if ta > tb {
						ta, tb = tb, ta
					}
					set[ta+"-vs-"+tb] = true
				}
			}
			break // a condition uses the first field that exists
		}
	}
	var xs []string
	for k := range set {
		xs = append(xs, k)
	}
	sort.Strings(xs)
	return xs
}

// c09Fidelity compares the numeric values the router handed to the collector with the
// logical values the client encoded. A difference means ingestion itself changed a value.
func c09Fidelity(tr *c09Trace, v c09Variant, spans []*types.Span) (string, string) {
	for i, sp := range tr.Spans {
		for _, f := range sp.Fields {
			var want float64
			switch f.Val.K {
			case c09Int:
				want = float64(f.Val.I)
			case c09Float:
				want = f.Val.F
			default:
				continue
			}
			var got float64
			if f.Val.Big != 0 {
				// every path carries the float64 F; an exact integer coming out of a JSON
				// path means that path did not read the number like the other JSON path does
				switch x := spans[i].Data.Get(f.Name).(type) {
				case int64, uint64, int:
					if fmt.Sprint(x) != strconv.FormatFloat(f.Val.F, 'f', -1, 64) {
						return "C09/ingest/" + v.Enc[i].Path.String() + "/integer-beyond-2^53-kept-exact",
							fmt.Sprintf("span %s field %s: client sent JSON number %d (float64 %s on every other path), the collector was handed %T %v", sp.ID, f.Name, f.Val.Big, strconv.FormatFloat(f.Val.F, 'f', -1, 64), x, x)
					}
				}
			}
			switch x := spans[i].Data.Get(f.Name).(type) {
			case int64:
				got = float64(x)
			case uint64:
				got = float64(x)
			case int:
				got = float64(x)
			case float64:
				got = x
			case float32:
				got = float64(x)
			default:
				return "C09/ingest/" + v.Enc[i].Path.String() + "/number-changed-kind",
					fmt.Sprintf("span %s field %s: client sent %s, the collector was handed %T %v", sp.ID, f.Name, f.Val, x, x)
			}
			if got != want {
				return "C09/ingest/" + v.Enc[i].Path.String() + "/number-altered",
					fmt.Sprintf("span %s field %s: client sent %s, the collector was handed %s", sp.ID, f.Name, f.Val, strconv.FormatFloat(got, 'g', -1, 64))
			}
		}
	}
	return "", ""
}

type c09Eval struct {
	Variant string    `json:"variant"`
	Order   []int     `json:"order"`
	Encs    []string  `json:"encodings"`
	Out     b3Outcome `json:"outcome"`
}

// decide ingests the trace under v and decides it with spans assembled in the given order.
func (g *c09Rig) decide(cfg config.Config, tr *c09Trace, v c09Variant, order []int) (c09Eval, []*types.Span, string, bool) {
	b3UseConfig(g.b, cfg)
	spans, problem, inc := g.ingest(tr, v)
	ev := c09Eval{Variant: v.Name, Order: order}
	for _, e := range v.Enc {
		ev.Encs = append(ev.Encs, e.String())
	}
	if problem != "" {
		return ev, nil, problem, inc
	}
	ordered := make([]*types.Span, len(order))
	for i, j := range order {
		ordered[i] = spans[j]
	}
	ev.Out = b3Decide(cfg, ordered)
	return ev, spans, "", false
}

// c09Probe is a single-mechanism sampler used only to NAME a disagreement that the full
// configuration has already shown.
type c09Part struct {
	Mechanism string
	Fields    []string
}

type c09Probe struct {
	Parts   []c09Part // what the probe reads: one condition / key field, or all conditions of one rule
	Sampler c09Sampler
	cfg     config.Config
}

// c09Probes: level 0 = one condition or one key field; level 1 = one whole rule (its
// conditions have to hold together, on one span for span scope).
func c09Probes(s c09Sampler, level int) []*c09Probe {
	var out []*c09Probe
	dynProbes := func(d *c09Dyn) {
		if d == nil || d.Kind == "DeterministicSampler" || level != 0 {
			return
		}
		for _, f := range d.FieldList {
			m := "key/span-field"
			if strings.HasPrefix(f, "root.") {
				m = "key/root-field"
			}
			out = append(out, &c09Probe{Parts: []c09Part{{m, []string{f}}},
				Sampler: c09Sampler{Dyn: &c09Dyn{Kind: "DynamicSampler", Rate: 1, FieldList: []string{f}}}})
		}
	}
	dynProbes(s.Dyn)
	for _, r := range s.Rules {
		if level == 0 {
			for _, c := range r.Conds {
				out = append(out, &c09Probe{Parts: []c09Part{{"rules/" + c.class(), c.Fields}},
					Sampler: c09Sampler{Rules: []c09Rule{{Name: "probe", Scope: r.Scope, Conds: []c09Cond{c}, SampleRate: 1}}}})
			}
			dynProbes(r.Down)
		} else if len(r.Conds) > 1 {
			p := &c09Probe{Sampler: c09Sampler{Rules: []c09Rule{{Name: "probe", Scope: r.Scope, Conds: r.Conds, SampleRate: 1}}}}
			for _, c := range r.Conds {
				p.Parts = append(p.Parts, c09Part{"rules/" + c.class(), c.Fields})
			}
			out = append(out, p)
		}
	}
	return out
}

// c09Case runs one (trace, sampler) case: every variant in generation order against the
// reference (encoding effects), every further order against the same variant (order effects).
func (g *c09Rig) runCase(tr *c09Trace, smp c09Sampler, variants []c09Variant, orders [][]int, sample bool) {
	run, t := g.run, g.t
	n := len(tr.Spans)
	ident := orders[0]
	load := func(s c09Sampler) config.Config {
		cfg, err := b3LoadConfig(g.dir, g.main, s.rulesYAML())
		if cfg == nil {
			t.Fatalf("C09 harness: generated rules rejected by the real loader: %v\n%s", err, s.rulesYAML())
		}
		return cfg
	}
	cfg := load(smp)
	ref := c09Uniform("batch-msgpack (reference)", n, c09Enc{Path: c09BatchMsgp}, true, 1)
	refEval, refSpans, problem, inc := g.decide(cfg, tr, ref, ident)
	if problem != "" {
		if inc {
			run.Inconclusive(problem)
			return
		}
		t.Fatalf("C09 harness: reference ingestion failed: %s", problem)
	}
	if refEval.Out.Panic != "" {
		run.Violation("C09/crash/reference", "the sampler panicked on the reference encoding: "+refEval.Out.Panic,
			map[string]any{"trace": tr, "sampler": smp, "eval": refEval})
		return
	}
	probes := c09Probes(smp, 0)
	ruleProbes := c09Probes(smp, 1)
	mechs := map[string]bool{}
	for _, p := range probes {
		mechs[p.Parts[0].Mechanism] = true
	}
	var ms []string
	for m := range mechs {
		ms = append(ms, m)
	}
	sort.Strings(ms)
	reasonClass := refEval.Out.Reason
	if i := strings.Index(reasonClass, ":"); i >= 0 {
		reasonClass = reasonClass[:i]
	}
	if refEval.Out.Key != "" || (strings.HasPrefix(refEval.Out.Reason, "rules/") && len(ms) > 0) {
		run.Nontrivial(strings.Join(ms, ",") + "|" + reasonClass)
	}
	if sample {
		run.Sample(map[string]any{"trace": tr, "rules_yaml": smp.rulesYAML(), "reference": refEval})
	}
	rootIdx := c09RootIdx(tr)

	probeCfg := func(p *c09Probe) config.Config {
		if p.cfg == nil {
			p.cfg = load(p.Sampler)
		}
		return p.cfg
	}
	// nameEncoding: which single mechanisms already disagree between the reference and v,
	// and for which wire type
	nameEncoding := func(v c09Variant, vSpans []*types.Span) []string {
		if sig, _ := c09Fidelity(tr, v, vSpans); sig != "" {
			return []string{sig}
		}
		set := map[string]bool{}
		for _, level := range [][]*c09Probe{probes, ruleProbes} {
			for _, p := range level {
				pc := probeCfg(p)
				ea, sa, p1, _ := g.decide(pc, tr, ref, ident)
				eb, sb, p2, _ := g.decide(pc, tr, v, ident)
				if p1 != "" || p2 != "" {
					continue
				}
				if same, _ := c09Same(ea.Out, eb.Out); same {
					continue
				}
				// candidates: (what the probe reads, wire-type class seen there)
				type cand struct {
					part c09Part
					cls  string
				}
				var cands []cand
				for _, part := range p.Parts {
					for _, cls := range c09TypePairs(part.Fields, sa, sb, rootIdx, -1) {
						cands = append(cands, cand{part, cls})
					}
				}
				// hybrid: the reference encoding, except that the fields the given candidates
				// read get, on the spans that show the candidate's class, the wire type that
				// decodes to the Go type seen in the variant
				hybrid := func(cs []cand) c09Variant {
					h := c09Variant{Name: "hybrid", Shuffle: v.Shuffle, Enc: append([]c09Enc(nil), ref.Enc...), FlagFields: map[string]bool{}}
					for _, c := range cs {
						for _, f := range c.part.Fields {
							h.FlagFields[strings.TrimPrefix(f, "root.")] = true
						}
						for i := 0; i < n; i++ {
							for _, pr := range c09TypePairs(c.part.Fields, sa, sb, rootIdx, i) {
								if pr != c.cls {
									continue
								}
								switch c.cls {
								case "int64-vs-uint64":
									h.Enc[i].Uint = true
								case "float32-vs-float64":
									h.Enc[i].F32 = true
								case "float64-vs-int64":
									h.Enc[i].IntAsF64 = true
								default:
									h.Enc[i], h.FlagFields = v.Enc[i], nil
								}
							}
						}
					}
					return h
				}
				reproduces := func(cs []cand) bool {
					eh, _, ph, _ := g.decide(pc, tr, hybrid(cs), ident)
					if ph != "" {
						return false
					}
					same, _ := c09Same(ea.Out, eh.Out)
					return !same
				}
				if len(p.Parts) > 1 && len(cands) > 1 {
					// whole-rule probe: keep the conditions that are type-sensitive by themselves
					// on one of the spans in question (that span alone, plus a root span reduced
					// to the root. fields the condition reads)
					var sensitive []cand
					for _, c := range cands {
						var single *c09Probe
						for _, q := range probes {
							if q.Parts[0].Mechanism == c.part.Mechanism && strings.Join(q.Parts[0].Fields, ",") == strings.Join(c.part.Fields, ",") &&
								len(q.Sampler.Rules) == 1 {
								single = q
							}
						}
						if single == nil {
							continue
						}
						h := hybrid([]cand{c})
						if h.FlagFields == nil {
							continue
						}
						hit := false
						for i := 0; i < n && !hit; i++ {
							if len(c09TypePairs(c.part.Fields, sa, sb, rootIdx, i)) == 0 {
								continue
							}
							sub := &c09Trace{TraceID: tr.TraceID, OTLP: tr.OTLP, traceID: tr.traceID, Spans: []c09Span{tr.Spans[i]}}
							encs := []c09Enc{h.Enc[i]}
							if rootIdx >= 0 && rootIdx != i {
								rs := tr.Spans[rootIdx]
								var kept []c09Field
								for _, f := range rs.Fields {
									keep := strings.HasPrefix(f.Name, "trace.") || strings.HasPrefix(f.Name, "meta.")
									for _, pf := range c.part.Fields {
										if pf == "root."+f.Name {
											keep = true
										}
									}
									if keep {
										kept = append(kept, f)
									}
								}
								rs.Fields = kept
								sub.Spans = append(sub.Spans, rs)
								encs = append(encs, h.Enc[rootIdx])
							}
							subIdent := make([]int, len(sub.Spans))
							for k := range subIdent {
								subIdent[k] = k
							}
							sc := probeCfg(single)
							e1, _, q1, _ := g.decide(sc, sub, c09Uniform("sub-reference", len(sub.Spans), c09Enc{Path: c09BatchMsgp}, true, 1), subIdent)
							e2, _, q2, _ := g.decide(sc, sub, c09Variant{Name: "sub-hybrid", Shuffle: v.Shuffle, Enc: encs, FlagFields: h.FlagFields}, subIdent)
							if q1 == "" && q2 == "" {
								if same, _ := c09Same(e1.Out, e2.Out); !same {
									hit = true
								}
							}
						}
						if hit {
							sensitive = append(sensitive, c)
						}
					}
					if len(sensitive) > 0 {
						cands = sensitive
					}
				}
				if len(cands) > 1 {
					// which single candidates reproduce the disagreement?
					var narrowed []cand
					for _, c := range cands {
						if reproduces([]cand{c}) {
							narrowed = append(narrowed, c)
						}
					}
					if len(narrowed) == 0 {
						// it needs several at once (e.g. a trace-scope condition satisfied by an
						// integer on one span and by a float on another): a candidate is named
						// when leaving it out makes the disagreement disappear
						for k := range cands {
							rest := append(append([]cand(nil), cands[:k]...), cands[k+1:]...)
							if !reproduces(rest) {
								narrowed = append(narrowed, cands[k])
							}
						}
					}
					if len(narrowed) == 0 {
						// presence conditions cannot depend on a value's type
						for _, c := range cands {
							if c.part.Mechanism != "rules/presence" {
								narrowed = append(narrowed, c)
							}
						}
					}
					if len(narrowed) > 0 {
						cands = narrowed
					}
				}
				if len(cands) == 0 {
					set["C09/"+p.Parts[0].Mechanism+"/same-go-types"] = true
				}
				for _, c := range cands {
					set["C09/"+c.part.Mechanism+"/"+c.cls] = true
				}
			}
			if len(set) > 0 {
				break // whole-rule probes only when no single condition / key field shows it
			}
		}
		if len(set) == 0 {
			kind := "rules"
			if smp.Dyn != nil {
				kind = "key"
			}
			set["C09/"+kind+"/combination/encoding"] = true
		}
		var out []string
		for s := range set {
			out = append(out, s)
		}
		sort.Strings(out)
		return out
	}
	nameOrder := func(v c09Variant, ord []int) []string {
		set := map[string]bool{}
		for _, level := range [][]*c09Probe{probes, ruleProbes} {
			for _, p := range level {
				pc := probeCfg(p)
				ea, _, p1, _ := g.decide(pc, tr, v, ident)
				eb, _, p2, _ := g.decide(pc, tr, v, ord)
				if p1 != "" || p2 != "" {
					continue
				}
				if same, _ := c09Same(ea.Out, eb.Out); !same {
					for _, part := range p.Parts {
						set["C09/"+part.Mechanism+"/span-order"] = true
					}
				}
			}
			if len(set) > 0 {
				break
			}
		}
		if len(set) == 0 {
			kind := "rules"
			if smp.Dyn != nil {
				kind = "key"
			}
			set["C09/"+kind+"/combination/span-order"] = true
		}
		var out []string
		for s := range set {
			out = append(out, s)
		}
		sort.Strings(out)
		return out
	}

	evals := 0
	for vi, v := range append([]c09Variant{ref}, variants...) {
		vEval, vSpans := refEval, refSpans
		if vi > 0 {
			var problem string
			var inc bool
			vEval, vSpans, problem, inc = g.decide(cfg, tr, v, ident)
			if problem != "" {
				if inc {
					run.Inconclusive(problem)
					return
				}
				run.Violation("C09/harness/variant-not-ingested", problem, map[string]any{"trace": tr, "variant": v.Name, "encodings": vEval.Encs})
				continue
			}
			evals++
			if same, what := c09Same(refEval.Out, vEval.Out); !same {
				for _, sig := range nameEncoding(v, vSpans) {
					run.Violation(sig, fmt.Sprintf("%s differs between two encodings of the same trace: reference %+v, %s %+v", what, refEval.Out, v.Name, vEval.Out),
						map[string]any{"trace": tr, "sampler": smp, "rules_yaml": smp.rulesYAML(), "reference": refEval, "variant": vEval})
				}
			}
		}
		for oi, ord := range orders[1:] {
			if v.Enc[0].Peer && oi == 0 {
				continue // one order fewer through the (slower) real transmission
			}
			oEval, _, problem, inc := g.decide(cfg, tr, v, ord)
			if problem != "" {
				if inc {
					run.Inconclusive(problem)
					return
				}
				continue
			}
			evals++
			if same, what := c09Same(vEval.Out, oEval.Out); !same {
				for _, sig := range nameOrder(v, ord) {
					run.Violation(sig, fmt.Sprintf("%s differs between two arrival orders of the same spans (%s): order %v %+v, order %v %+v", what, v.Name, ident, vEval.Out, ord, oEval.Out),
						map[string]any{"trace": tr, "sampler": smp, "rules_yaml": smp.rulesYAML(), "a": vEval, "b": oEval})
				}
			}
		}
	}
	run.Count("evaluations_compared", int64(evals))
	run.Count("variants", int64(len(variants)+1))
}

// ---------------------------------------------------------------------------------
// the grid: every comparison mechanism x numeric value x wire type, systematically
// ---------------------------------------------------------------------------------

type c09GridCase struct {
	Name    string
	Sampler c09Sampler
	Val     c09Val
}

func c09Text(v c09Val) string {
	if v.K == c09Int {
		return strconv.FormatInt(v.I, 10)
	}
	return strconv.FormatFloat(v.F, 'f', -1, 64)
}

func c09Grid() []c09GridCase {
	vals := []c09Val{c09I(5), c09I(65536), c09I(1000000), c09I(1 << 31), c09I(1 << 53),
		c09F(0.5), c09F(1e6), c09F(2500000.5), c09F(1.0 / (1 << 20)), c09F(16777216),
		c09Big(1<<53 + 1), c09Big(1<<53 + 3), c09Big(math.MaxInt64)}
	var out []c09GridCase
	rule := func(c c09Cond) c09Sampler {
		return c09Sampler{Rules: []c09Rule{{Name: "hit", Conds: []c09Cond{c}, SampleRate: 1}}}
	}
	for _, v := range vals {
		add := func(name string, s c09Sampler) {
			out = append(out, c09GridCase{Name: name + "/" + v.String(), Sampler: s, Val: v})
		}
		for _, dt := range []string{"", "int", "float", "string"} {
			if dt == "int" && v.K == c09Float && v.F != math.Trunc(v.F) {
				continue
			}
			add("eq-"+dt, rule(c09Cond{Fields: []string{"f0"}, Op: "=", Datatype: dt, Values: []c09Val{v}}))
			add("gte-"+dt, rule(c09Cond{Fields: []string{"root.f0"}, Op: ">=", Datatype: dt, Values: []c09Val{v}}))
			add("in-"+dt, rule(c09Cond{Fields: []string{"f0"}, Op: "in", Datatype: dt, Values: []c09Val{v}}))
			add("not-in-"+dt, rule(c09Cond{Fields: []string{"f0"}, Op: "not-in", Datatype: dt, Values: []c09Val{v}}))
		}
		text := c09Text(v)
		add("starts-with", rule(c09Cond{Fields: []string{"f0"}, Op: "starts-with", Values: []c09Val{c09S(text[:(len(text)+1)/2])}}))
		add("contains", rule(c09Cond{Fields: []string{"f0"}, Op: "contains", Values: []c09Val{c09S(text)}}))
		// the last mantissa digits: %v of a float32 drops them
		digits := strings.NewReplacer(".", "", "-", "").Replace(strings.SplitN(strconv.FormatFloat(func() float64 {
			if v.K == c09Int {
				return float64(v.I)
			}
			return v.F
		}(), 'e', -1, 64), "e", 2)[0])
		if len(digits) > 4 {
			digits = digits[len(digits)-4:]
		}
		add("contains-digits", rule(c09Cond{Fields: []string{"f0"}, Op: "contains", Values: []c09Val{c09S(digits)}}))
		add("does-not-contain", rule(c09Cond{Fields: []string{"f0"}, Op: "does-not-contain", Values: []c09Val{c09S("e+")}}))
		add("matches", rule(c09Cond{Fields: []string{"f0"}, Op: "matches", Values: []c09Val{c09S(`^[0-9]+(\.[0-9]+)?$`)}}))
		add("bool", rule(c09Cond{Fields: []string{"f0"}, Op: "=", Datatype: "bool", Values: []c09Val{c09B(false)}}))
		add("key-span-field", c09Sampler{Dyn: &c09Dyn{Kind: "DynamicSampler", Rate: 1, FieldList: []string{"f0"}}})
		add("key-root-field", c09Sampler{Dyn: &c09Dyn{Kind: "EMADynamicSampler", Rate: 1, FieldList: []string{"root.f0"}}})
		add("key-downstream", c09Sampler{Rules: []c09Rule{{Name: "all", Down: &c09Dyn{Kind: "TotalThroughputSampler", Rate: 1, FieldList: []string{"f0", "root.f0"}}}}})
	}
	// untyped comparisons of an INTEGER field value with a FRACTIONAL rule value next to it
	// (duration_ms >= 99.5 with duration_ms = 99): integer- and float-encoded fields must agree
	for _, fc := range []struct {
		v     int64
		delta float64
	}{{5, 0.5}, {1000000, 0.5}, {-7, -0.5}, {99, 0.5}} {
		for _, op := range []string{">=", "<", "=", "!=", ">", "<="} {
			v := c09I(fc.v)
			out = append(out, c09GridCase{Name: "fractional-threshold" + op + "/" + v.String(), Val: v,
				Sampler: rule(c09Cond{Fields: []string{"f0"}, Op: op, Values: []c09Val{c09F(float64(fc.v) + fc.delta)}})})
		}
	}
	return out
}

// ---------------------------------------------------------------------------------
// the test
// ---------------------------------------------------------------------------------

func TestVerif_C09(t *testing.T) {
	run := verifkit.Start(t, "C09", "route")
	defer run.Finish()
	run.Rule("random cases = one logical trace (1..5 spans, 1..9 thorough; fields drawn from a per-case pool of boundary integers within ±2^53, " +
		"floats incl. float32-exact / large / tiny ones, numeric-looking strings, bools, null) + one generated sampler configuration " +
		"(rules with untyped / int / float / string / bool comparisons, string operators, in / not-in, presence, span and trace scope, " +
		"downstream samplers; Dynamic, EMADynamic, TotalThroughput, EMAThroughput, WindowedThroughput with field lists incl. root. fields; " +
		"deterministic). Grid cases = every comparison mechanism x 13 numeric values (3 of them integers beyond 2^53 written as JSON digits, carried as the nearest float64 elsewhere) on a two-span trace. Variants: /1/batch msgpack (unsigned ints, " +
		"float32, wide ints), /1/batch JSON, /1/events JSON and msgpack, via a peer (real DirectTransmission body replayed into the peer listener), " +
		"OTLP/HTTP proto+JSON and gRPC for OTLP-origin cases, and per-span mixtures; 3 span orders each. Non-trivial = the reference outcome " +
		"depends on field values (a rule matched or a non-empty key); distinct = (sampler mechanism set, reference reason class).")
	run.Assume("b3Decide reproduces what collect.(*CollectorWorker) does with a trace (AddSpan in arrival order, RootSpan, DetermineSamplerKey, MemoizeFields, GetSampleRate); a fresh SamplerFactory per evaluation gives identical initial sampler state")
	run.Assume("for OTLP-origin cases the logical field set is what husky produced (read back from the captured span); the other variants are generated from it")
	run.Assume("probe samplers (one condition / one key field) and one-span-at-a-time hybrids are used only to NAME a disagreement the full configuration has already shown")

	b := e3New(t, E3Options{GRPC: true})
	defer b.Close()
	g := &c09Rig{t: t, run: run, b: b, cap: &b3Capture{}, dir: t.TempDir()}
	b.Collector.SetInner(g.cap)
	g.hop = b3StartPeerHop(t, b)
	defer g.hop.Close()
	g.main = b3MainConfig("", []string{"trace.trace_id", "traceId"}, []string{"trace.parent_id", "parentId"})

	grid := c09Grid()
	run.Cases("mechanism-grid", len(grid), func(ci int, rng *verifkit.Rand) {
		gc := grid[ci]
		tr := &c09Trace{TraceID: "grid" + rng.Hex(12)}
		tr.Spans = []c09Span{
			{ID: "root-" + rng.Hex(4), Root: true, Fields: []c09Field{{"f0", gc.Val}, {"f1", c09S("x")}}},
			{ID: "child-" + rng.Hex(4), Fields: []c09Field{{"f0", gc.Val}}},
		}
		variants := c09Variants(rng.Fork("variants"), tr, false)
		g.runCase(tr, gc.Sampler, variants, [][]int{{0, 1}, {1, 0}}, ci == 0)
	})

	// wide traces: 120..300 spans, at most 5 distinct values per key field (far below the
	// 100-distinct-value cap), one rare value on a single span that arrives first / in the
	// middle / last / somewhere: the key must not depend on where it arrives
	run.Cases("wide-trace-span-order", run.N(4, 60), func(ci int, rng *verifkit.Rand) {
		n := rng.Range(120, 300)
		tr := &c09Trace{TraceID: "wide" + rng.Hex(12)}
		common := []c09Val{c09I(200), c09I(404), c09S("GET"), c09F(0.5)}[:rng.Range(1, 4)]
		rare := verifkit.Pick(rng, c09I(500), c09S("rare"), c09F(1.5))
		rareAt, rootAt := rng.Intn(n), rng.Intn(n)
		for i := 0; i < n; i++ {
			sp := c09Span{ID: fmt.Sprintf("w%03d-%s", i, rng.Hex(3)), Root: i == rootAt}
			v := common[rng.Intn(len(common))]
			if i == rareAt {
				v = rare
			}
			sp.Fields = append(sp.Fields, c09Field{"f0", v})
			if rng.Chance(0.5) {
				sp.Fields = append(sp.Fields, c09Field{"f1", verifkit.Pick(rng, c09S("a"), c09S("b"))})
			}
			tr.Spans = append(tr.Spans, sp)
		}
		d := c09GenDyn(rng, false)
		d.FieldList = verifkit.Pick(rng, []string{"f0"}, []string{"f0", "f1"}, []string{"f1", "f0", "root.f0"})
		smp := c09Sampler{Dyn: d}
		if rng.Chance(0.3) {
			smp = c09Sampler{Rules: []c09Rule{{Name: "all", Down: d}}}
		}
		place := func(pos int) []int { // every other span in index order, the rare one at pos
			ord := make([]int, 0, n)
			for i := 0; i < n; i++ {
				if i != rareAt {
					ord = append(ord, i)
				}
			}
			ord = append(ord, 0)
			copy(ord[pos+1:], ord[pos:])
			ord[pos] = rareAt
			return ord
		}
		orders := [][]int{place(0), place(n / 2), place(n - 1), rng.Perm(n)}
		var variants []c09Variant
		if rng.Bool() {
			variants = append(variants, c09Uniform("batch-json", n, c09Enc{Path: c09BatchJSON}, true, rng.Uint64()))
		}
		run.Count("wide_traces", 1)
		g.runCase(tr, smp, variants, orders, false)
	})

	run.Cases("trace-x-sampler", run.N(100, 2600), func(ci int, rng *verifkit.Rand) {
		otlp := rng.Chance(0.25)
		tr, pool := c09GenTrace(rng.Fork("trace"), run.Thorough(), otlp)
		n := len(tr.Spans)
		ident := make([]int, n)
		for i := range ident {
			ident[i] = i
		}
		smp := c09GenSampler(rng.Fork("sampler"), pool)
		if otlp {
			// husky decides the field set; read it back and regenerate the logical trace from it
			spans, problem, inc := g.ingest(tr, c09Uniform("otlp-http-proto", n, c09Enc{Path: c09OTLPProto}, true, 1))
			if problem != "" {
				if inc {
					run.Inconclusive(problem)
				} else {
					t.Fatalf("C09 harness: OTLP source ingestion failed: %s", problem)
				}
				return
			}
			if why, ok := c09FromOTLP(tr, spans); !ok {
				run.Count("otlp_cases_skipped", 1)
				t.Logf("C09: OTLP case skipped: %s", why)
				return
			}
			run.Count("otlp_origin_cases", 1)
		}
		orders := [][]int{ident}
		if n > 1 {
			rev := make([]int, n)
			for i := range rev {
				rev[i] = n - 1 - i
			}
			orders = append(orders, rev, rng.Perm(n))
		}
		g.runCase(tr, smp, c09Variants(rng.Fork("variants"), tr, run.Thorough()), orders, ci < 3)
	})
}
