//go:build verif

package route

// C14: each trace is sampled by the sampler configured for its destination.
//
// Per case a rules file is generated in which every target (environment names, dataset
// names, DatasetPrefix.dataset names, __default__) is a RulesBasedSampler whose first
// rule has a unique name and conditions on fields unique to that sampler (a span field,
// optionally a root. field) and, half of the time, a downstream DynamicSampler keyed on
// two more unique fields (a span field and a root. field); a second, condition-less rule
// "fallback_<i>" makes the reason name the sampler even when its field was not readable.
// The files are loaded by the REAL config loader; the bench's REAL routers use that
// config. A small trace carrying the fields of the expected sampler (and of decoys) is
// sent with a generated API key / dataset / scripted environment through one ingestion
// path; the captured spans are decided the way the collector worker does (b3Decide:
// Config.DetermineSamplerKey + SamplerFactory). The oracle is the documented selection:
//
//   classic key (32 hex digits; 64-char classic ingest key hc<letter>ic_<58 [0-9a-z]>)
//       -> target = dataset, or DatasetPrefix.dataset when DatasetPrefix is set
//   any other key -> target = the key's environment name
//   sampler = Samplers[target], else Samplers[__default__]
//
// and: the first rule of THAT sampler must have matched (its fields were readable) and
// the key of its downstream sampler must carry the key fields' values; on the /1/batch
// paths the fields memoized at ingestion must be the selected sampler's fields.

import (
	"encoding/hex"
	"fmt"
	"strings"
	"testing"
	"time"

	"github.com/honeycombio/refinery/config"
	"github.com/honeycombio/refinery/internal/verifkit"
	"github.com/honeycombio/refinery/types"
)

// ---- documented key shapes ----

type c14KeyClass struct {
	Name    string
	Classic bool // the documentation's answer
	Open    bool // the documentation does not settle it (letter case): either answer is allowed
}

const c14Alnum = "0123456789abcdefghijklmnopqrstuvwxyz"

func c14Rand(rng *verifkit.Rand, alphabet string, n int) string {
	b := make([]byte, n)
	for i := range b {
		b[i] = alphabet[rng.Intn(len(alphabet))]
	}
	return string(b)
}

// c14GenKey draws an API key and says what the documentation makes of it.
func c14GenKey(rng *verifkit.Rand) (string, c14KeyClass) {
	letter := string(c14Alnum[10+rng.Intn(26)])
	switch rng.Intn(16) {
	case 0, 1, 2:
		return rng.Hex(32), c14KeyClass{Name: "classic-config-key", Classic: true}
	case 3, 4:
		return "hc" + letter + "ic_" + c14Rand(rng, c14Alnum, 58), c14KeyClass{Name: "classic-ingest-key", Classic: true}
	case 5, 6:
		return c14Rand(rng, c14Alnum+"ABCDEFGHIJKLMNOPQRSTUVWXYZ", rng.Range(20, 23)), c14KeyClass{Name: "env-config-key"}
	case 7, 8:
		return "hc" + letter + "ik_" + c14Rand(rng, c14Alnum, 58), c14KeyClass{Name: "env-ingest-key"}
	case 9:
		return rng.Hex(verifkit.Pick(rng, 31, 33, 30, 34, 16, 64)), c14KeyClass{Name: "near-miss-hex-length"}
	case 10:
		k := []byte(rng.Hex(32))
		k[rng.Intn(32)] = "ghxyz_-"[rng.Intn(7)]
		return string(k), c14KeyClass{Name: "near-miss-32-chars-not-hex"}
	case 11:
		k := []byte(rng.Hex(32))
		for i := range k {
			if k[i] >= 'a' && k[i] <= 'f' {
				k[i] -= 32
			}
		}
		if string(k) == strings.ToLower(string(k)) {
			k[0] = 'A'
		}
		return string(k), c14KeyClass{Name: "32-hex-uppercase", Open: true}
	case 12:
		return "hc" + letter + "ic_" + c14Rand(rng, c14Alnum, verifkit.Pick(rng, 57, 59, 26)), c14KeyClass{Name: "near-miss-ingest-length"}
	case 13:
		// 64 characters, but not the hc<letter>ic_ prefix
		pre := verifkit.Pick(rng, "hc"+letter+"ix_", "hd"+letter+"ic_", "hc1ic_", "hc"+letter+"ic-", "xx"+letter+"ic_")
		return pre + c14Rand(rng, c14Alnum, 58), c14KeyClass{Name: "near-miss-ingest-prefix"}
	case 14:
		k := []byte("hc" + letter + "ic_" + c14Rand(rng, c14Alnum, 58))
		k[6+rng.Intn(58)] = "-_.!"[rng.Intn(4)]
		return string(k), c14KeyClass{Name: "near-miss-ingest-body"}
	default:
		k := []byte("hc" + letter + "ic_" + c14Rand(rng, "abcdefghijklmnopqrstuvwxyz", 58))
		k[6+rng.Intn(58)] -= 32
		return string(k), c14KeyClass{Name: "ingest-key-uppercase", Open: true}
	}
}

// ---- generated rules ----

type c14Sampler struct {
	Target string // name in Samplers
	Idx    int
	Tag    string // unique token
	Root   bool   // first rule also needs root.<g> to exist
	Down   bool   // downstream DynamicSampler keyed on k and root.r
	// a sampler may also read a field that is a configured trace-ID / parent-ID field name
	// (rules_complete.yaml does: "trace.parent_id not-exists"):
	IDCond string // field of an extra FIRST rule idrule_<i>
	IDForm string // "exists": trace scope, <IDCond> exists; "not-exists-span": span scope, f = v AND <IDCond> not-exists
	IDKey  string // extra FieldList entry of the downstream sampler (possibly root.-prefixed)
}

func (s c14Sampler) f() string { return "f_" + s.Tag }
func (s c14Sampler) g() string { return "g_" + s.Tag }
func (s c14Sampler) k() string { return "k_" + s.Tag }
func (s c14Sampler) r() string { return "r_" + s.Tag }
func (s c14Sampler) v() string { return "v-" + s.Tag }

// fields the sampler reads (root. prefix stripped), as config.GetKeyFields reports them
func (s c14Sampler) reads() []string {
	out := []string{s.f()}
	if s.Root {
		out = append(out, s.g())
	}
	if s.Down {
		out = append(out, s.k(), s.r())
	}
	return out
}

func c14RulesYAML(samplers []c14Sampler) string {
	var sb strings.Builder
	sb.WriteString("RulesVersion: 2\nSamplers:\n")
	for _, s := range samplers {
		sb.WriteString("  " + b3YAMLStr(s.Target) + ":\n    RulesBasedSampler:\n      Rules:\n")
		switch s.IDForm {
		case "exists":
			sb.WriteString(fmt.Sprintf("        - Name: \"idrule_%d\"\n          SampleRate: 1\n          Conditions:\n", s.Idx))
			sb.WriteString("            - Field: " + b3YAMLStr(s.IDCond) + "\n              Operator: exists\n")
		case "not-exists-span":
			sb.WriteString(fmt.Sprintf("        - Name: \"idrule_%d\"\n          SampleRate: 1\n          Scope: span\n          Conditions:\n", s.Idx))
			sb.WriteString("            - Field: " + b3YAMLStr(s.f()) + "\n              Operator: \"=\"\n              Value: " + b3YAMLStr(s.v()) + "\n              Datatype: string\n")
			sb.WriteString("            - Field: " + b3YAMLStr(s.IDCond) + "\n              Operator: not-exists\n")
		}
		sb.WriteString(fmt.Sprintf("        - Name: \"rule_%d\"\n", s.Idx))
		if s.Down {
			fl := []string{s.k(), "root." + s.r()}
			if s.IDKey != "" {
				fl = append(fl, s.IDKey)
			}
			sb.WriteString("          Sampler:\n            DynamicSampler:\n              SampleRate: 1\n")
			sb.WriteString("              FieldList: " + b3YAMLList(fl) + "\n")
		} else {
			sb.WriteString("          SampleRate: 1\n")
		}
		sb.WriteString("          Conditions:\n")
		sb.WriteString("            - Field: " + b3YAMLStr(s.f()) + "\n              Operator: \"=\"\n              Value: " + b3YAMLStr(s.v()) + "\n              Datatype: string\n")
		if s.Root {
			sb.WriteString("            - Field: " + b3YAMLStr("root."+s.g()) + "\n              Operator: exists\n")
		}
		sb.WriteString(fmt.Sprintf("        - Name: \"fallback_%d\"\n          SampleRate: 1\n", s.Idx))
	}
	return sb.String()
}

var (
	c14EnvNames     = []string{"prod", "staging", "shared-name", "dev.eu", "Prod", "env with space", "ünïcode", "classic.shared-name", "pfx.ds1"}
	c14DatasetNames = []string{"ds1", "shared-name", "prod", "my.dotted.ds", "data set", "dätaset", "a/b", "DS1", "ds1.sub"}
	c14Prefixes     = []string{"", "", "", "classic", "pfx", "P9", "prod"}
)

type c14Path int

const (
	c14BatchMsgp c14Path = iota
	c14BatchJSON
	c14EventJSON
	c14EventMsgp
	c14PeerBatch
	c14OTLP
	c14OTLPGRPC
)

func (p c14Path) String() string {
	return [...]string{"batch-msgpack", "batch-json", "event-json", "event-msgpack", "via-peer-batch", "otlp-http", "otlp-grpc"}[p]
}

func (p c14Path) memoizesSelectedFields() bool {
	return p == c14BatchMsgp || p == c14BatchJSON || p == c14PeerBatch
}

type c14Witness struct {
	SendKey    string         `json:"send_key,omitempty"`
	SendMode   string         `json:"send_key_mode,omitempty"`
	Service    string         `json:"otlp_service_name,omitempty"`
	DSHeader   bool           `json:"otlp_dataset_header,omitempty"`
	Step       string         `json:"step,omitempty"`
	Prefix     string         `json:"dataset_prefix"`
	Targets    []string       `json:"sampler_targets"`
	APIKey     string         `json:"api_key"`
	KeyClass   string         `json:"key_class"`
	Dataset    string         `json:"dataset"`
	Env        string         `json:"environment_of_key"`
	Path       string         `json:"ingestion_path"`
	Expected   []string       `json:"expected_target(s)"`
	ExpSampler []string       `json:"expected_sampler(s)"`
	Outcome    b3Outcome      `json:"outcome"`
	RanSampler string         `json:"sampler_that_ran"`
	Memoized   map[string]any `json:"memoized_at_ingestion,omitempty"`
	Rules      string         `json:"rules_yaml"`
	Spans      []string       `json:"spans"`
}

func TestVerif_C14(t *testing.T) {
	run := verifkit.Start(t, "C14", "route")
	defer run.Finish()
	run.Rule("case = generated rules file (2..6 targets drawn from overlapping environment / dataset / prefix.dataset names + __default__, each a rules sampler " +
		"with a uniquely named rule on unique fields, optional root. condition and downstream dynamic sampler) + DatasetPrefix (unset or one of 4) + API key of one of " +
		"11 shape classes (classic config / classic ingest / environment config / environment ingest keys and near misses) + dataset + scripted environment + " +
		"ingestion path (/1/batch msgpack+JSON, /1/events JSON+msgpack, via a peer's real DirectTransmission, OTLP/HTTP) + 1..3 spans carrying the expected sampler's " +
		"fields and decoys. Non-trivial = a decision was made; distinct = (key class, how the expected target resolves, ingestion path).")
	run.Assume("key shapes are taken from rules.md (classic key = 32-character hexadecimal; new-style otherwise) and the release notes' classic ingest keys (hc<letter>ic_ + 58 lowercase alphanumerics); for keys that differ from those shapes only in letter case either classification is accepted")
	run.Assume("b3Decide reproduces the selection of collect.(*CollectorWorker).makeDecision (Config.DetermineSamplerKey on the trace's key/environment/dataset, SamplerFactory.GetSamplerImplementationForKey)")
	run.Assume("Payload.GetMemoizedFields right after ingestion shows what ingestion extracted (only asserted on the /1/batch paths, where nothing else is memoized)")

	b := e3New(t, E3Options{GRPC: true})
	defer b.Close()
	cap := &b3Capture{}
	b.Collector.SetInner(cap)
	hop := b3StartPeerHop(t, b)
	defer hop.Close()
	dir := t.TempDir()

	run.Cases("destination", run.N(300, 8000), func(ci int, rng *verifkit.Rand) {
		prefix1 := verifkit.Pick(rng, c14Prefixes...)
		apiKey, class0 := c14GenKey(rng)
		dataset := verifkit.Pick(rng, c14DatasetNames...)
		env := verifkit.Pick(rng, c14EnvNames...)
		path := verifkit.Pick(rng, c14BatchMsgp, c14BatchMsgp, c14BatchJSON, c14EventJSON, c14EventMsgp, c14PeerBatch, c14OTLP, c14OTLP, c14OTLPGRPC)
		isOTLP := path == c14OTLP || path == c14OTLPGRPC

		var cfg config.Config
		// one phase = (re)configure, send the trace, decide, compare. step "" = freshly
		// loaded configuration; "/after-reload" = the files were rewritten and the SAME
		// fileConfig object (the one the routers hold) was told to Reload.
		phase := func(prefix, step string) {
			viol := func(sig, what string, witness any) { run.Violation(sig+step, what, witness) }
			// key replacement (AccessKeys.SendKey / SendKeyMode): in 30 % of the phases the key the
			// client sends is replaced, so the key the events CARRY — the one the selection is
			// documented for — is the SendKey, of any shape class
			class := class0
			accessYAML, sendKey, sendMode := "", "", ""
			if rng.Chance(0.3) {
				// the loader only accepts well-formed Honeycomb keys as SendKey
				var sc c14KeyClass
				letter := string(c14Alnum[10+rng.Intn(26)])
				switch rng.Intn(4) {
				case 0:
					sendKey, sc = rng.Hex(32), c14KeyClass{Name: "classic-config-key", Classic: true}
				case 1:
					sendKey, sc = "hc"+letter+"ic_"+c14Rand(rng, c14Alnum, 58), c14KeyClass{Name: "classic-ingest-key", Classic: true}
				case 2:
					sendKey, sc = c14Rand(rng, c14Alnum, 22), c14KeyClass{Name: "env-config-key"}
				default:
					sendKey, sc = "hc"+letter+"ik_"+c14Rand(rng, c14Alnum, 58), c14KeyClass{Name: "env-ingest-key"}
				}
				sendMode = verifkit.Pick(rng, "all", "nonblank", "unlisted", "listedonly")
				listed := "some-other-key-" + rng.Hex(8)
				if sendMode == "listedonly" {
					listed = apiKey
				}
				accessYAML = "AccessKeys:\n  ReceiveKeys: " + b3YAMLList([]string{listed}) + "\n  SendKey: " + b3YAMLStr(sendKey) + "\n  SendKeyMode: " + sendMode + "\n"
				class = sc
				class.Name = "replaced-by-" + sc.Name
			}
			// ID field configuration: default names or custom ones; in 40 % of the phases the
			// samplers also READ one of the configured ID fields
			traceNames, parentNames := []string{"trace.trace_id", "traceId"}, []string{"trace.parent_id", "parentId"}
			if rng.Chance(0.3) {
				traceNames, parentNames = []string{"tid", "trace.trace_id"}, []string{"pid", "trace.parent_id"}
			}
			useID := rng.Chance(0.4)
			traceField, parentField := traceNames[0], parentNames[0]
			if isOTLP {
				traceField, parentField = "trace.trace_id", "trace.parent_id"
			}
			// targets: the three names this request could resolve to are each present with p=1/2,
			// plus unrelated ones, plus __default__
			prefixed := dataset
			if prefix != "" {
				prefixed = prefix + "." + dataset
			}
			cands := []string{env, dataset, prefixed}
			for i := 0; i < 3; i++ {
				cands = append(cands, verifkit.Pick(rng, c14EnvNames...), verifkit.Pick(rng, c14DatasetNames...))
			}
			seen := map[string]bool{"__default__": true}
			targets := []string{"__default__"}
			for i, c := range cands {
				p := 0.3
				if i < 3 {
					p = 0.55
				}
				if !seen[c] && rng.Chance(p) && len(targets) < 7 {
					seen[c] = true
					targets = append(targets, c)
				}
			}
			verifkit.Shuffle(rng, targets)
			var samplers []c14Sampler
			byTarget := map[string]c14Sampler{}
			for i, tg := range targets {
				s := c14Sampler{Target: tg, Idx: i, Tag: fmt.Sprintf("%d%s", i, rng.Hex(4)), Root: rng.Chance(0.4), Down: rng.Chance(0.5)}
				if useID {
					idf := verifkit.Pick(rng, traceNames[0], parentNames[0], parentNames[0])
					if isOTLP { // husky names
						idf = verifkit.Pick(rng, "trace.trace_id", "trace.parent_id", "trace.parent_id")
					}
					switch {
					case s.Down && rng.Bool():
						s.IDKey = idf
						if rng.Bool() && (idf == traceNames[0] || idf == "trace.trace_id") {
							s.IDKey = "root." + idf
						}
					case rng.Bool():
						s.IDCond, s.IDForm = idf, "exists"
					default:
						s.IDCond, s.IDForm = idf, "not-exists-span"
					}
				}
				samplers = append(samplers, s)
				byTarget[tg] = s
			}
			rules := c14RulesYAML(samplers)
			mainYAML := b3MainConfig(prefix, traceNames, parentNames) + accessYAML
			if step == "" {
				var err error
				cfg, err = b3LoadConfig(dir, mainYAML, rules)
				if cfg == nil {
					t.Fatalf("C14 harness: generated configuration rejected: %v\n%s", err, rules)
				}
				b3UseConfig(b, cfg)
			} else {
				if err := b3WriteConfig(dir, mainYAML, rules); err != nil {
					t.Fatalf("C14 harness: %v", err)
				}
				if err := cfg.Reload(); err != nil {
					t.Fatalf("C14 harness: Reload of a valid generated configuration failed: %v\n%s\n%s", err, mainYAML, rules)
				}
				if got := cfg.GetDatasetPrefix(); got != prefix {
					// whether a reload applies a change is C27's subject; without it there is no new configuration to check against
					run.Count("reload_did_not_apply_prefix", 1)
					return
				}
				run.Count("reload_steps", 1)
			}
			b.Env.Set(func(key string) (string, string, error) { return env, "", nil })

			// the documented selection
			var expTargets []string
			if class.Classic || class.Open {
				expTargets = append(expTargets, prefixed)
			}
			if !class.Classic || class.Open {
				expTargets = append(expTargets, env)
			}
			var expSamplers []c14Sampler
			for _, tg := range expTargets {
				s, ok := byTarget[tg]
				if !ok {
					s = byTarget["__default__"]
				}
				expSamplers = append(expSamplers, s)
			}
			resolves := "default"
			if _, ok := byTarget[expTargets[0]]; ok {
				switch {
				case !class.Classic:
					resolves = "environment"
				case prefix != "":
					resolves = "prefixed-dataset"
				default:
					resolves = "dataset"
				}
			}

			// the trace: the expected sampler(s)' fields always, decoy samplers' fields sometimes
			service := "svc-" + verifkit.Pick(rng, c14DatasetNames...)
			dsHeader := class0.Classic || class0.Open || rng.Chance(0.6) // a classic key must come with the header
			nspans := rng.Range(1, 3)
			if useID && nspans < 2 {
				nspans = 2 // so that some span has a parent ID
			}
			rootAt := rng.Intn(nspans)
			traceID := "t" + rng.Hex(16)
			parentID := "par-" + rng.Hex(6)
			// the values the ID fields hold (husky renders the OTLP byte IDs as hex)
			traceVal, parentVal := traceID, parentID
			if isOTLP {
				traceVal, parentVal = hex.EncodeToString([]byte(traceID[1:17])), "0909090909090909"
			}
			carried := map[int]bool{}
			for _, s := range expSamplers {
				carried[s.Idx] = true
			}
			for _, s := range samplers {
				if rng.Chance(0.5) {
					carried[s.Idx] = true
				}
			}
			spanFields := make([][]E3KV, nspans)
			var spanDesc []string
			for i := 0; i < nspans; i++ {
				kvs := []E3KV{KV("verif.id", VStr(fmt.Sprintf("s%d", i))), KV("noise", VInt(int64(rng.Intn(100))))}
				if !isOTLP {
					kvs = append(kvs, KV(traceField, VStr(traceID)))
					if i != rootAt {
						kvs = append(kvs, KV(parentField, VStr(parentID)))
					}
				}
				for _, s := range samplers {
					if !carried[s.Idx] {
						continue
					}
					// the condition field and the key field live on the LAST span (not
					// necessarily the root); root. fields on the root
					if i == nspans-1 {
						kvs = append(kvs, KV(s.f(), VStr(s.v())), KV(s.k(), VStr("kv-"+s.Tag)))
					}
					if i == rootAt {
						kvs = append(kvs, KV(s.g(), VBool(true)), KV(s.r(), VStr("rv-"+s.Tag)))
					}
				}
				verifkit.Shuffle(rng, kvs)
				spanFields[i] = kvs
				var names []string
				for _, kv := range kvs {
					names = append(names, kv.Key)
				}
				spanDesc = append(spanDesc, strings.Join(names, ","))
			}

			w := c14Witness{SendKey: sendKey, SendMode: sendMode, Step: step, Prefix: prefix, Targets: targets, APIKey: apiKey, KeyClass: class.Name, Dataset: dataset, Env: env, Path: path.String(),
				Expected: expTargets, Rules: rules, Spans: spanDesc}
			for _, s := range expSamplers {
				w.ExpSampler = append(w.ExpSampler, s.Target)
			}

			// ---- ingestion ----
			cap.Take()
			hop.Take()
			b.Log.Reset()
			sendBatch := func(enc E3Encoding) string {
				var items []E3BatchItem
				for i := range spanFields {
					d := VMap(spanFields[i]...)
					items = append(items, E3BatchItem{Data: &d})
				}
				req, err := e3BatchReq(E3Incoming, enc, dataset, apiKey, items)
				if err != nil {
					return err.Error()
				}
				resp := b.Serve(req)
				if resp.Status != 200 || strings.Contains(resp.Body, `"error"`) || resp.Panicked != "" {
					return fmt.Sprintf("batch: status %d body %q panic %q", resp.Status, resp.Body, resp.Panicked)
				}
				return ""
			}
			problem := ""
			switch path {
			case c14BatchMsgp:
				problem = sendBatch(E3Msgpack)
			case c14BatchJSON:
				problem = sendBatch(E3JSON)
			case c14EventJSON, c14EventMsgp:
				enc := E3JSON
				if path == c14EventMsgp {
					enc = E3Msgpack
				}
				for i := range spanFields {
					req, err := e3EventReq(E3Incoming, enc, dataset, apiKey, VMap(spanFields[i]...), -1, "")
					if err != nil {
						problem = err.Error()
						break
					}
					if resp := b.Serve(req); resp.Status != 200 || resp.Panicked != "" {
						problem = fmt.Sprintf("event: status %d body %q panic %q", resp.Status, resp.Body, resp.Panicked)
						break
					}
				}
			case c14PeerBatch:
				b.Sharder.SetOwner(func(string) string { return hop.URL() })
				problem = sendBatch(E3Msgpack)
				ok := problem != "" || hop.Await(nspans, 20*time.Second)
				b.Sharder.SetOwner(nil)
				if !ok {
					run.Inconclusive("peer hop: forwarded events did not arrive within 20s")
					return
				}
				if problem == "" {
					for _, r := range hop.Take() {
						if resp := hop.Replay(b, r); resp.Status != 200 || strings.Contains(resp.Body, `"error"`) || resp.Panicked != "" {
							problem = fmt.Sprintf("peer replay: status %d body %q", resp.Status, resp.Body)
						}
					}
				}
			case c14OTLP, c14OTLPGRPC:
				var sps []E3Span
				tid := []byte(traceID[1:17])
				for i := range spanFields {
					s := E3Span{TraceID: tid, SpanID: []byte{byte(i + 1), 2, 3, 4, 5, 6, 7, 8}, Name: "op", StartNs: 1_700_000_000_000_000_000, EndNs: 1_700_000_001_000_000_000}
					if i != rootAt {
						s.ParentID = []byte{9, 9, 9, 9, 9, 9, 9, 9}
					}
					s.Attrs = spanFields[i]
					sps = append(sps, s)
				}
				// husky: the dataset of a classic key is the x-honeycomb-dataset header; for
				// other keys the service name. The two differ here, and the header may be absent
				// when the key the client sends is not classic.
				w.Service, w.DSHeader = service, dsHeader
				hdr := ""
				if dsHeader {
					hdr = dataset
				}
				msg := e3OTLPTraces(service, sps)
				if path == c14OTLPGRPC {
					md := map[string]string{"x-honeycomb-team": apiKey}
					if dsHeader {
						md["x-honeycomb-dataset"] = dataset
					}
					if res := b.GRPCTraces(md, msg); !res.OK() {
						problem = fmt.Sprintf("otlp grpc: %v %s", res.Code, res.Msg)
					}
					break
				}
				req, err := e3OTLPReq("/v1/traces", verifkit.Pick(rng, "application/protobuf", "application/json"), apiKey, hdr, msg)
				if err != nil {
					problem = err.Error()
					break
				}
				if resp := b.Serve(req); resp.Status != 200 || resp.Panicked != "" {
					problem = fmt.Sprintf("otlp: status %d body %q panic %q", resp.Status, resp.Body, resp.Panicked)
				}
			}
			if problem != "" {
				// the request was not accepted: nothing is sampled, nothing to check here
				// (acceptance of odd keys / datasets belongs to C23/C24)
				run.Count("request_not_accepted", 1)
				if ci < 50 {
					t.Logf("C14 case %d not accepted: %s", ci, problem)
				}
				return
			}
			got := cap.Take()
			if len(got) != nspans {
				viol("C14/harness/spans-not-captured", fmt.Sprintf("%d of %d spans reached the collector", len(got), nspans), w)
				return
			}
			spans := make([]*types.Span, len(got))
			for i, c := range got {
				spans[i] = c.Span
			}
			if sendKey != "" && spans[0].APIKey != sendKey {
				// whether and how a key is replaced is C24's subject; without the replacement
				// this phase has no carried key to reason about
				run.Count("replacement_not_as_configured", 1)
				return
			}
			if sendKey != "" {
				run.Count("phases_with_replaced_key", 1)
			}
			if isOTLP && (class.Classic || class.Open) && !dsHeader {
				// classic carried key without a dataset header: which dataset that is, is husky's business
				run.Count("otlp_classic_carried_key_without_dataset_header", 1)
				return
			}
			if isOTLP && class.Classic && spans[0].Dataset != dataset {
				viol("C14/otlp/"+path.String()+"/"+class.Name+"/dataset-not-from-header",
					fmt.Sprintf("the events carry the classic key %q and x-honeycomb-dataset %q, but were recorded for dataset %q (service.name %q)", spans[0].APIKey, dataset, spans[0].Dataset, service), w)
			}
			allowedIdx := map[int]c14Sampler{}
			for _, s := range expSamplers {
				allowedIdx[s.Idx] = s
			}
			via := func(s c14Sampler) string {
				switch s.Target {
				case "__default__":
					return "default"
				case env:
					if s.Target == prefixed {
						return "environment-or-dataset"
					}
					return "environment"
				case prefixed:
					if prefix != "" {
						return "prefixed-dataset"
					}
					return "dataset"
				case dataset:
					return "unprefixed-dataset"
				}
				return "unrelated"
			}

			// ---- ingestion-time extraction (before anything else touches the payloads) ----
			if path.memoizesSelectedFields() {
				for i, sp := range spans {
					memo := sp.Data.GetMemoizedFields()
					owner := map[int]bool{}
					for name := range memo {
						for _, s := range samplers {
							for _, f := range s.reads() {
								if f == name {
									owner[s.Idx] = true
								}
							}
						}
					}
					for idx := range owner {
						if _, ok := allowedIdx[idx]; !ok {
							w.Memoized = memo
							viol("C14/ingestion-extraction/"+path.String()+"/"+class.Name+"/fields-of-"+via(samplers[idx])+"-sampler-extracted",
								fmt.Sprintf("span %d: ingestion extracted fields of sampler %q, the documented selection is %v", i, samplers[idx].Target, w.ExpSampler), w)
						}
					}
					if len(expSamplers) == 1 {
						s := expSamplers[0]
						present := map[string]bool{}
						id, _ := sp.Data.Get("verif.id").(string)
						var idx int
						fmt.Sscanf(id, "s%d", &idx)
						for _, kv := range spanFields[idx] {
							present[kv.Key] = true
						}
						for _, f := range s.reads() {
							if _, ok := memo[f]; present[f] && !ok {
								w.Memoized = memo
								viol("C14/ingestion-extraction/"+path.String()+"/"+class.Name+"/selected-sampler-field-not-extracted",
									fmt.Sprintf("span %s: field %s of the selected sampler %q is in the payload but was not extracted at ingestion", id, f, s.Target), w)
							}
						}
					}
				}
			}

			// ---- decision ----
			out := b3Decide(cfg, spans)
			w.Outcome = out
			if out.Panic != "" {
				viol("C14/crash/decision", out.Panic, w)
				return
			}
			run.Nontrivial(class.Name + "|" + resolves + "|" + path.String() + step)
			run.Count("decisions", 1)
			if ci < 3 && step == "" {
				run.Sample(w)
			}

			// selector = target name before the __default__ fallback
			okSel := false
			for _, tg := range expTargets {
				if out.Selector == tg {
					okSel = true
				}
			}
			if !okSel {
				viol("C14/selector/"+class.Name+"/"+resolves+"-expected",
					fmt.Sprintf("DetermineSamplerKey answered %q for key class %s, environment %q, dataset %q, prefix %q; documented target %v", out.Selector, class.Name, env, dataset, prefix, expTargets), w)
			}

			// which sampler ran
			var ranIdx = -1
			var fallback, idrule bool
			rest := out.Reason
			rest = strings.TrimPrefix(rest, "rules/trace/")
			switch {
			case strings.HasPrefix(rest, "rules/span/idrule_"):
				fmt.Sscanf(rest, "rules/span/idrule_%d", &ranIdx)
				idrule = true
			case strings.HasPrefix(rest, "idrule_"):
				fmt.Sscanf(rest, "idrule_%d", &ranIdx)
				idrule = true
			case strings.HasPrefix(rest, "rule_"):
				fmt.Sscanf(rest, "rule_%d", &ranIdx)
			case strings.HasPrefix(rest, "fallback_"):
				fmt.Sscanf(rest, "fallback_%d", &ranIdx)
				fallback = true
			}
			if ranIdx < 0 || ranIdx >= len(samplers) {
				viol("C14/selection/"+class.Name+"/unrecognised-reason", "reason "+out.Reason+" names no generated sampler", w)
				return
			}
			ran := samplers[ranIdx]
			w.RanSampler = ran.Target
			exp, ok := allowedIdx[ranIdx]
			if !ok {
				viol("C14/selection/"+class.Name+"/"+resolves+"-expected/"+via(ran)+"-sampler-ran",
					fmt.Sprintf("sampler %q decided the trace; the documented selection is %v (key class %s, environment %q, dataset %q, prefix %q)", ran.Target, w.ExpSampler, class.Name, env, dataset, prefix), w)
				return
			}
			// a sampler that reads a configured ID field: did it see what the client sent?
			if exp.IDCond != "" {
				isParent := exp.IDCond == parentField
				want := false // should idrule_<i> have matched?
				switch exp.IDForm {
				case "exists":
					want = true // the trace ID is on every span, a parent ID on every non-root span (nspans >= 2)
				case "not-exists-span":
					// f lives on the last span only: the rule matches iff that span lacks the ID field
					want = isParent && rootAt == nspans-1
				}
				if want != idrule {
					// not suffixed with the step: it has nothing to do with reloading
					run.Violation("C14/fields/"+path.String()+"/id-field-used-by-sampler-unavailable/"+exp.IDForm+"-condition",
						fmt.Sprintf("sampler %q: rule idrule_%d on ID field %s (%s) matched=%v, but the client's spans say %v (reason %s; span holding %s is root: %v)",
							exp.Target, exp.Idx, exp.IDCond, exp.IDForm, idrule, want, out.Reason, exp.f(), rootAt == nspans-1), w)
				}
				if idrule {
					return
				}
			} else if idrule {
				viol("C14/selection/"+class.Name+"/unrecognised-reason", "reason "+out.Reason+" names a rule that was not generated", w)
				return
			}
			if fallback {
				viol("C14/fields/"+path.String()+"/condition-field-unavailable",
					fmt.Sprintf("the selected sampler %q ran but its first rule did not match although the trace carries %s=%s (and root.%s): a field it reads was not available", exp.Target, exp.f(), exp.v(), exp.g()), w)
				return
			}
			if exp.Down {
				if !strings.Contains(out.Key, "kv-"+exp.Tag) {
					viol("C14/fields/"+path.String()+"/key-span-field-unavailable", fmt.Sprintf("sample key %q lacks the value of %s", out.Key, exp.k()), w)
				}
				if !strings.Contains(out.Key, "rv-"+exp.Tag) {
					viol("C14/fields/"+path.String()+"/key-root-field-unavailable", fmt.Sprintf("sample key %q lacks the value of root.%s", out.Key, exp.r()), w)
				}
				if exp.IDKey != "" {
					val := parentVal
					if strings.TrimPrefix(exp.IDKey, "root.") == traceField {
						val = traceVal
					}
					if !strings.Contains(out.Key, val) {
						run.Violation("C14/fields/"+path.String()+"/id-field-used-by-sampler-unavailable/key-field",
							fmt.Sprintf("sample key %q lacks the value %q of the ID field %s the client sent", out.Key, val, exp.IDKey), w)
					}
				}
			}
		}
		phase(prefix1, "")
		if cfg != nil && rng.Chance(0.6) {
			// reload: another DatasetPrefix (for classic keys mostly another non-empty one)
			// and freshly generated targets / rules, same key, dataset, environment and path
			prefix2 := verifkit.Pick(rng, c14Prefixes...)
			for tries := 0; tries < 8 && (prefix2 == prefix1 || (prefix1 != "" && prefix2 == "" && tries < 6)); tries++ {
				prefix2 = verifkit.Pick(rng, c14Prefixes...)
			}
			phase(prefix2, "/after-reload")
		}
	})
}
