//go:build verif

package route

// =====================================================================================
// b3kit — glue shared by C09 and C14 on top of the E3 router bench (zz_verif_e3_test.go,
// which this file does not modify):
//
//   * b3LoadConfig    real config.fileConfig from generated config + rules YAML files
//   * b3UseConfig     makes the bench's REAL routers use that config (Router.Config is the
//                     injected dependency; everything the handlers read per request —
//                     DetermineSamplerKey, GetSamplingKeyFieldsForDestName, ID field
//                     names, DatasetPrefix — then comes from the real fileConfig)
//   * b3Capture       collect.Collector that keeps the *types.Span pointers the router
//                     hands over (the E3 recorder only keeps snapshots)
//   * b3Decide        what collect.(*CollectorWorker).processSpan/makeDecision do with the
//                     spans of one trace: Trace.AddSpan in arrival order, RootSpan,
//                     Config.DetermineSamplerKey, a FRESH SamplerFactory (so identical
//                     initial dynsampler state), MemoizeFields, Sampler.GetSampleRate
//   * b3PeerHop       a real transmit.DirectTransmission (peer type) posting to a loopback
//                     server that records the request, so that exactly the bytes a peer
//                     would receive can be replayed into the bench's peer router
// =====================================================================================

import (
	"fmt"
	"io"
	"net/http"
	"net/http/httptest"
	"os"
	"path/filepath"
	"strings"
	"sync"
	"testing"
	"time"

	"github.com/honeycombio/refinery/collect"
	"github.com/honeycombio/refinery/config"
	"github.com/honeycombio/refinery/logger"
	"github.com/honeycombio/refinery/metrics"
	"github.com/honeycombio/refinery/sample"
	"github.com/honeycombio/refinery/transmit"
	"github.com/honeycombio/refinery/types"
)

// ---- adapter (the only use of unexported identifiers of the bench) ----

func b3AdapterRouters(b *E3Bench) []*Router {
	var out []*Router
	for _, r := range b.routers {
		if r != nil {
			out = append(out, r)
		}
	}
	return out
}

// b3UseConfig points the bench's routers at cfg. Call only while no request is in flight.
func b3UseConfig(b *E3Bench, cfg config.Config) {
	for _, r := range b3AdapterRouters(b) {
		r.Config = cfg
	}
}

// ---- real configuration from files ----

func b3YAMLList(xs []string) string {
	q := make([]string, len(xs))
	for i, x := range xs {
		q[i] = b3YAMLStr(x)
	}
	return "[" + strings.Join(q, ", ") + "]"
}

// b3YAMLStr renders s as a double-quoted YAML scalar (JSON escaping is valid YAML for the
// characters the generators use).
func b3YAMLStr(s string) string {
	var sb strings.Builder
	sb.WriteByte('"')
	for _, c := range s {
		switch {
		case c == '"' || c == '\\':
			sb.WriteByte('\\')
			sb.WriteRune(c)
		case c == '\n':
			sb.WriteString(`\n`)
		case c == '\t':
			sb.WriteString(`\t`)
		case c < 0x20:
			fmt.Fprintf(&sb, `\x%02x`, c)
		default:
			sb.WriteRune(c)
		}
	}
	sb.WriteByte('"')
	return sb.String()
}

func b3MainConfig(datasetPrefix string, traceNames, parentNames []string) string {
	var sb strings.Builder
	sb.WriteString("General:\n  ConfigurationVersion: 2\n")
	if datasetPrefix != "" {
		sb.WriteString("  DatasetPrefix: " + b3YAMLStr(datasetPrefix) + "\n")
	}
	sb.WriteString("Network:\n  HoneycombAPI: http://honeycomb.verif.invalid\n")
	sb.WriteString("PeerManagement:\n  Type: file\n")
	sb.WriteString("IDFields:\n  TraceNames: " + b3YAMLList(traceNames) + "\n  ParentNames: " + b3YAMLList(parentNames) + "\n")
	return sb.String()
}

// b3WriteConfig (re)writes the two files a config loaded by b3LoadConfig(dir, …) reads; a
// following Reload() of that config picks them up.
func b3WriteConfig(dir, mainYAML, rulesYAML string) error {
	if err := os.WriteFile(filepath.Join(dir, "config.yaml"), []byte(mainYAML), 0o644); err != nil {
		return err
	}
	return os.WriteFile(filepath.Join(dir, "rules.yaml"), []byte(rulesYAML), 0o644)
}

// b3LoadConfig writes the two files into dir and loads them with the real loader. A
// non-nil config with a non-nil error means "warnings only" (startup proceeds).
func b3LoadConfig(dir, mainYAML, rulesYAML string) (config.Config, error) {
	if err := b3WriteConfig(dir, mainYAML, rulesYAML); err != nil {
		return nil, err
	}
	cp, rp := filepath.Join(dir, "config.yaml"), filepath.Join(dir, "rules.yaml")
	cfg, err := config.NewConfig(&config.CmdEnv{ConfigLocations: []string{cp}, RulesLocations: []string{rp}})
	if cfg == nil {
		return nil, err
	}
	return cfg, err
}

// ---- span capture ----

type b3Captured struct {
	Span     *types.Span
	FromPeer bool
}

type b3Capture struct {
	mu    sync.Mutex
	spans []b3Captured
}

var _ collect.Collector = (*b3Capture)(nil)

func (c *b3Capture) AddSpan(sp *types.Span) error {
	c.mu.Lock()
	c.spans = append(c.spans, b3Captured{Span: sp})
	c.mu.Unlock()
	return nil
}
func (c *b3Capture) AddSpanFromPeer(sp *types.Span) error {
	c.mu.Lock()
	c.spans = append(c.spans, b3Captured{Span: sp, FromPeer: true})
	c.mu.Unlock()
	return nil
}
func (c *b3Capture) Stressed() bool                                            { return false }
func (c *b3Capture) GetStressedSampleRate(string) (uint, bool, string)         { return 1, true, "verif" }
func (c *b3Capture) ProcessSpanImmediately(*types.Span) (processed, kept bool) { return false, false }

// Take returns and clears the captured spans (arrival order).
func (c *b3Capture) Take() []b3Captured {
	c.mu.Lock()
	defer c.mu.Unlock()
	out := c.spans
	c.spans = nil
	return out
}

// ---- decision glue ----

type b3Outcome struct {
	Selector string `json:"selector"` // what Config.DetermineSamplerKey returned
	Rate     uint   `json:"rate"`
	Keep     bool   `json:"keep"`
	Reason   string `json:"reason"`
	Key      string `json:"key"`
	Panic    string `json:"panic,omitempty"`
}

// b3Decide makes the sampling decision for the spans of one trace (in the given arrival
// order) the way the collector worker does, with a fresh SamplerFactory.
func b3Decide(cfg config.Config, spans []*types.Span) (out b3Outcome) {
	defer func() {
		if p := recover(); p != nil {
			out.Panic = fmt.Sprint(p)
		}
	}()
	factory := &sample.SamplerFactory{Config: cfg, Logger: &logger.NullLogger{}, Metrics: &metrics.NullMetrics{}}
	if err := factory.Start(); err != nil {
		out.Panic = "SamplerFactory.Start: " + err.Error()
		return out
	}
	defer factory.Stop()
	first := spans[0]
	// collector_worker.go processSpan: the trace takes its destination from the first span
	trace := &types.Trace{APIHost: first.APIHost, APIKey: first.APIKey, Dataset: first.Dataset,
		Environment: first.Environment, TraceID: first.TraceID}
	for _, sp := range spans {
		trace.AddSpan(sp)
		if sp.IsRoot {
			trace.RootSpan = sp
		}
	}
	// collector_worker.go makeDecision
	out.Selector = cfg.DetermineSamplerKey(trace.APIKey, trace.Environment, trace.Dataset)
	sampler := factory.GetSamplerImplementationForKey(out.Selector)
	if sampler == nil {
		out.Panic = "no sampler implementation for " + out.Selector
		return out
	}
	allFields, nonRootFields := sampler.GetKeyFields()
	for _, sp := range trace.GetSpans() {
		if sp.IsRoot {
			sp.Data.MemoizeFields(allFields...)
		} else {
			sp.Data.MemoizeFields(nonRootFields...)
		}
	}
	out.Rate, out.Keep, out.Reason, out.Key = sampler.GetSampleRate(trace)
	return out
}

// ---- peer hop ----

type b3PeerReq struct {
	Path   string
	Header http.Header
	Body   []byte
}

type b3PeerHop struct {
	srv *httptest.Server
	tx  *transmit.DirectTransmission
	mu  sync.Mutex
	got []b3PeerReq
	ch  chan struct{}
}

// b3StartPeerHop makes the bench's peer transmission a real DirectTransmission. Events
// the router forwards to the shard address hop.URL() arrive at hop as HTTP requests.
func b3StartPeerHop(t testing.TB, b *E3Bench) *b3PeerHop {
	h := &b3PeerHop{ch: make(chan struct{}, 1<<16)}
	h.srv = httptest.NewServer(http.HandlerFunc(func(rw http.ResponseWriter, r *http.Request) {
		body, _ := io.ReadAll(r.Body)
		h.mu.Lock()
		h.got = append(h.got, b3PeerReq{Path: r.URL.EscapedPath(), Header: r.Header.Clone(), Body: body})
		h.mu.Unlock()
		h.ch <- struct{}{}
		rw.Header().Set("Content-Type", "application/json")
		rw.WriteHeader(200)
		rw.Write([]byte(`[{"status":202}]`))
	}))
	h.tx = transmit.NewDirectTransmission(types.TransmitTypePeer, &http.Transport{MaxIdleConnsPerHost: 16},
		1 /* every event is dispatched at once */, time.Hour, 30*time.Second, true, nil)
	h.tx.Config = b.Cfg
	h.tx.Logger = &logger.NullLogger{}
	h.tx.Metrics = b.Metrics
	h.tx.Version = "verif"
	if err := h.tx.Start(); err != nil {
		t.Fatalf("b3 peer hop: %v", err)
	}
	b.PeerTx.SetInner(h.tx)
	return h
}

func (h *b3PeerHop) URL() string { return h.srv.URL }

// Await waits for n requests (false = timeout; callers report Inconclusive).
func (h *b3PeerHop) Await(n int, bound time.Duration) bool {
	timer := time.NewTimer(bound)
	defer timer.Stop()
	for i := 0; i < n; i++ {
		select {
		case <-h.ch:
		case <-timer.C:
			return false
		}
	}
	return true
}

func (h *b3PeerHop) Take() []b3PeerReq {
	h.mu.Lock()
	defer h.mu.Unlock()
	out := h.got
	h.got = nil
	return out
}

// Replay delivers a recorded request to the bench's peer router, byte for byte.
func (h *b3PeerHop) Replay(b *E3Bench, r b3PeerReq) *E3Resp {
	hdr := http.Header{}
	for k, vs := range r.Header {
		switch k {
		case "Content-Length", "Accept-Encoding":
			continue
		}
		hdr[k] = vs
	}
	return b.Serve(&E3Req{Listener: E3Peer, Path: r.Path, Header: hdr, Body: r.Body})
}

func (h *b3PeerHop) Close() {
	_ = h.tx.Stop()
	h.srv.Close()
}
