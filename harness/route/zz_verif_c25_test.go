//go:build verif

package route

import (
	"fmt"
	"net/http"
	"net/http/httptest"
	"net/url"
	"sort"
	"strings"
	"sync"
	"testing"

	"github.com/honeycombio/refinery/config"
	"github.com/honeycombio/refinery/internal/verifkit"
	"github.com/honeycombio/refinery/types"
)

// C25: query endpoints require the configured token (exhaustive small table).
//
// Table = configured token {empty, set} x client token class x /query/ route (path and
// format) x listener, executed completely in every run; the PRNG only chooses the
// payload of a row (token text, trace id, dataset name, sentinel strings).
//
// Sentinels are planted in everything a query endpoint can reveal: the sampler rules
// (field names, sampler name), the config metadata (id, hash), the trace placement
// (address of the owning node) and, in addition, the configured token, the SendKey and
// the receive keys.
//
// Oracle:
//   Q1  configured token non-empty AND request header == configured token, on a route
//       with a supported format  =>  status 200 and the route's sentinel is in the body
//   Q2  otherwise (token absent / different / nothing configured)  =>  status >= 400
//   Q3  in case Q2 no sentinel occurs in the response body or headers (the configured
//       token is looked for only when the client did not send it as part of its own
//       token - the error message echoes the client's token)
//   Q4  requests with another method on a /query/ path, and GETs on /query/ paths that
//       are not registered, are not Refinery's query endpoints (they are relayed
//       upstream); only Q3 applies to them.

type c25Row struct {
	Configured bool
	Token      string // class
	Route      string // route class
	Method     string
	Listener   E3Listener
}

func (r c25Row) String() string {
	c := "token-unset"
	if r.Configured {
		c = "token-set"
	}
	return fmt.Sprintf("%s/%s/%s/%s/%s", c, r.Token, r.Route, r.Method, r.Listener)
}

var c25TokenClasses = []string{"none", "empty", "prefix", "suffix", "case-variant", "exact", "exact+space", "space+exact",
	"exact-doubled", "superstring", "two-chars-swapped", "case-flipped-in-two-places", "in-api-key-header-only", "in-authorization-header-only", "in-query-string-only"}

// route classes: name -> (data-bearing when authorised?)
var c25Routes = []struct {
	name string
	data bool
}{
	{"trace", true},
	{"trace-odd-id", true},
	{"rules-json", true},
	{"rules-yaml", true},
	{"rules-toml", true},
	{"rules-JSON-uppercase", true},
	{"rules-bad-format", false},
	{"allrules-json", true},
	{"allrules-yaml", true},
	{"allrules-toml", true},
	{"allrules-Yaml-mixedcase", true},
	{"allrules-bad-format", false},
	{"configmetadata", true},
	{"unknown-query-path", false},
	{"query-root", false},
}

var c25OtherMethods = []string{"POST", "HEAD", "PUT", "DELETE", "OPTIONS", "PATCH", "TRACE", "CONNECT", "PURGE", "get", "options", "Get"}

func c25Table() []c25Row {
	var rows []c25Row
	for _, l := range []E3Listener{E3Incoming, E3Peer} {
		for _, conf := range []bool{false, true} {
			for _, tok := range c25TokenClasses {
				for _, rt := range c25Routes {
					rows = append(rows, c25Row{Configured: conf, Token: tok, Route: rt.name, Method: "GET", Listener: l})
				}
			}
		}
	}
	// every other method token on every query path and format: not Refinery's query
	// endpoints (relayed); whatever answers them must not reveal local state without a
	// valid token either
	for _, conf := range []bool{false, true} {
		for _, m := range c25OtherMethods {
			for _, tok := range []string{"none", "empty", "exact"} {
				for _, rt := range c25Routes {
					rows = append(rows, c25Row{Configured: conf, Token: tok, Route: rt.name, Method: m, Listener: E3Incoming})
				}
			}
		}
	}
	return rows
}

func c25RouteData(name string) bool {
	for _, r := range c25Routes {
		if r.name == name {
			return r.data
		}
	}
	return false
}

// c25SwapTwo exchanges two different characters of s.
func c25SwapTwo(s string, rng *verifkit.Rand) string {
	b := []byte(s)
	for try := 0; try < 200; try++ {
		i, j := rng.Intn(len(b)), rng.Intn(len(b))
		if b[i] != b[j] {
			b[i], b[j] = b[j], b[i]
			return string(b)
		}
	}
	b[0], b[1] = b[1], b[0] // tokens start with two different letters
	return string(b)
}

// c25FlipTwo flips the case of exactly the first two letters of s.
func c25FlipTwo(s string) string {
	b := []byte(s)
	n := 0
	for i, c := range b {
		if n == 2 {
			break
		}
		switch {
		case c >= 'a' && c <= 'z':
			b[i], n = c-32, n+1
		case c >= 'A' && c <= 'Z':
			b[i], n = c+32, n+1
		}
	}
	return string(b)
}

func c25SwapCase(s string) string {
	b := []byte(s)
	for i, c := range b {
		switch {
		case c >= 'a' && c <= 'z':
			b[i] = c - 32
		case c >= 'A' && c <= 'Z':
			b[i] = c + 32
		}
	}
	return string(b)
}

func TestVerif_C25(t *testing.T) {
	run := verifkit.Start(t, "C25", "route")
	defer run.Finish()
	run.Rule("complete table: QueryAuthToken {unset,set} x client token class {none, empty, prefix, suffix, case variant, exact, exact+space, space+exact, doubled, superstring, token only in X-Honeycomb-Team / Authorization / query string} x /query/ route {trace, rules and allrules in json/yaml/toml/odd-case/unsupported format, configmetadata, unknown path, /query/} x listener {incoming, peer}; every other method token (POST, HEAD, PUT, DELETE, OPTIONS, PATCH, TRACE, CONNECT, PURGE, get, options, Get) on every one of these paths and formats with no / an empty / the exact token; a second table with a reload of the token between the middleware's reads (config wrapper: token before -> after the k-th read, k=1,2; set->empty, set->other, empty->set; client token none/empty/old/new/wrong/case variant); each row is one request against the real mux; token text, trace id, dataset and planted sentinels come from the PRNG. A row is non-trivial when the token check decides it (everything except rows for other methods and unregistered paths, which are relayed); rows are distinct by their table coordinates.")
	run.Assume("the planted sentinels (rules field names, sampler name, config metadata id/hash, owning node address, configured token, SendKey, receive keys) are the only secrets a query endpoint could reveal in this bench (MockConfig + scripted sharder)")
	run.Assume("header values reach the handler verbatim (in-process request): a trailing/leading space is part of the client's token here, although a real HTTP/1.1 parser would trim it")

	// fake upstream for the relayed (non-GET) rows: answers 404 with a fixed body
	upstream := httptest.NewServer(http.HandlerFunc(func(w http.ResponseWriter, r *http.Request) {
		w.WriteHeader(404)
		w.Write([]byte(`{"error":"not found upstream"}`))
	}))
	defer upstream.Close()

	b := e3New(t, E3Options{Configure: func(c *config.MockConfig) { c.GetHoneycombAPIVal = upstream.URL }})
	defer b.Close()
	// the routers read the configuration through a wrapper that gives the sampler rules
	// sentinel dataset / environment names (MockConfig hard-codes "dataset1")
	names := &c25NamesConfig{MockConfig: b.Cfg}
	for _, l := range []E3Listener{E3Incoming, E3Peer} {
		b.routers[l].Config = names
	}

	rows := c25Table()
	reps := run.N(2, 12)
	run.Count("table_rows", int64(len(rows)))
	run.Cases("table", len(rows)*reps, func(i int, rng *verifkit.Rand) {
		row := rows[i%len(rows)]
		// ---- plant sentinels ----
		s := func(kind string) string { return "zq" + kind + rng.Hex(10) }
		sentRuleField, sentSamplerName := s("rulefield"), s("samplername")
		sentMetaID, sentMetaHash := s("metaid"), s("metahash")
		sentPeer := "http://" + s("peerhost") + ".verif.invalid:8081"
		sentSendKey, sentRecvKey := s("sendkey"), s("recvkey")
		sentDataset, sentEnv := s("dataset"), s("environment")
		names.set(sentDataset, sentEnv)
		// the configured token: letters and digits in both cases, sometimes with punctuation
		configured := ""
		if row.Configured {
			configured = "Tk" + rng.Hex(rng.Range(4, 12)) + verifkit.Pick(rng, "", "-x", "_Y", ".z", "=", "/q", "+") + "aB"
		}
		// what the client will try (derived from a would-be token even if none is configured)
		base := configured
		if base == "" {
			base = "Tk" + rng.Hex(8) + "aB"
		}
		b.Config(func(c *config.MockConfig) {
			c.QueryAuthToken = configured
			c.GetSamplerTypeVal = &config.DynamicSamplerConfig{SampleRate: 7, FieldList: []string{sentRuleField, "other"}}
			c.GetSamplerTypeName = sentSamplerName
			c.CfgMetadata = []config.ConfigMetadata{{Type: "config", ID: sentMetaID, Hash: sentMetaHash, LoadedAt: "2024-01-01T00:00:00Z"}}
			c.GetAccessKeyConfigVal = config.AccessKeyConfig{SendKey: sentSendKey, SendKeyMode: "none", ReceiveKeys: []string{sentRecvKey}}
		})
		b.Sharder.SetOwner(func(string) string { return sentPeer })

		// ---- request ----
		req := &E3Req{Listener: row.Listener, Method: row.Method, Header: http.Header{}}
		clientToken, sendsHeader := "", true
		switch row.Token {
		case "none":
			sendsHeader = false
		case "empty":
			clientToken = ""
		case "prefix":
			clientToken = base[:rng.Range(1, len(base)-1)]
		case "suffix":
			clientToken = base[rng.Range(1, len(base)-1):]
		case "case-variant":
			clientToken = c25SwapCase(base)
		case "exact":
			clientToken = base
		case "exact+space":
			clientToken = base + verifkit.Pick(rng, " ", "\t", "  ")
		case "space+exact":
			clientToken = " " + base
		case "exact-doubled":
			clientToken = base + base
		case "superstring":
			clientToken = "x" + base + "y"
		case "two-chars-swapped": // same length, byte differences XOR to zero
			clientToken = c25SwapTwo(base, rng)
		case "case-flipped-in-two-places": // same length, two differences of 0x20: XOR zero
			clientToken = c25FlipTwo(base)
		case "in-api-key-header-only":
			sendsHeader = false
			req.Header.Set(types.APIKeyHeader, base)
		case "in-authorization-header-only":
			sendsHeader = false
			req.Header.Set("Authorization", "Bearer "+base)
		case "in-query-string-only":
			sendsHeader = false
		}
		if sendsHeader {
			// non-canonical spellings reach the handler canonicalised by net/http; in-process
			// we have to use the canonical key, as a server would
			req.Header[http.CanonicalHeaderKey(types.QueryTokenHeader)] = []string{clientToken}
		}
		traceID := rng.Hex(32)
		dataset := "ds" + rng.Hex(4)
		wantSentinel := ""
		switch row.Route {
		case "trace":
			req.Path, wantSentinel = "/query/trace/"+traceID, sentPeer
		case "trace-odd-id":
			req.Path, wantSentinel = "/query/trace/"+url.PathEscape(verifkit.Pick(rng, "a b", "<script>", "x\"y", "ü", "..%", "0")), sentPeer
		case "rules-json":
			req.Path, wantSentinel = "/query/rules/json/"+dataset, sentRuleField
		case "rules-yaml":
			req.Path, wantSentinel = "/query/rules/yaml/"+dataset, sentRuleField
		case "rules-toml":
			req.Path, wantSentinel = "/query/rules/toml/"+dataset, sentRuleField
		case "rules-JSON-uppercase":
			req.Path, wantSentinel = "/query/rules/JSON/"+dataset, sentRuleField
		case "rules-bad-format":
			req.Path = "/query/rules/" + verifkit.Pick(rng, "xml", "js", "jsonx", "text") + "/" + dataset
		case "allrules-json":
			req.Path, wantSentinel = "/query/allrules/json", sentRuleField
		case "allrules-yaml":
			req.Path, wantSentinel = "/query/allrules/yaml", sentRuleField
		case "allrules-toml":
			req.Path, wantSentinel = "/query/allrules/toml", sentRuleField
		case "allrules-Yaml-mixedcase":
			req.Path, wantSentinel = "/query/allrules/Yaml", sentRuleField
		case "allrules-bad-format":
			req.Path = "/query/allrules/" + verifkit.Pick(rng, "xml", "js", "jsonx", "text")
		case "configmetadata":
			req.Path, wantSentinel = "/query/configmetadata", sentMetaID
		case "unknown-query-path":
			req.Path = "/query/" + verifkit.Pick(rng, "peers", "config", "rules", "trace", "trace/", "allrules", "allrules/", "rules/json", "rules/yaml/", "rules/json/"+dataset+"/extra",
				"configmetadata/x", "configmetadata/", "allrules/json/extra", "trace/"+traceID+"/x", "x"+rng.Hex(5), "rules/toml", "datasets")
		case "query-root":
			req.Path = "/query/"
		}
		if row.Token == "in-query-string-only" {
			req.Path += "?" + url.QueryEscape(types.QueryTokenHeader) + "=" + url.QueryEscape(base) + "&token=" + url.QueryEscape(base)
		}
		req.Note = row.String()

		resp := b.Serve(req)
		run.Count("requests", 1)
		run.Count(fmt.Sprintf("status_%d", resp.Status), 1)

		authorised := row.Configured && sendsHeader && clientToken == configured
		wit := func() map[string]any {
			return map[string]any{"row": row.String(), "configured_token": configured, "client_token": clientToken, "token_header_sent": sendsHeader,
				"request": req.Witness(), "response": resp, "sentinels": map[string]string{"rule_field": sentRuleField, "sampler_name": sentSamplerName,
					"meta_id": sentMetaID, "meta_hash": sentMetaHash, "owner": sentPeer, "send_key": sentSendKey, "receive_key": sentRecvKey, "dataset": sentDataset, "environment": sentEnv}}
		}
		routeClass := strings.SplitN(row.Route, "-", 2)[0]
		sig := func(kind string) string { return "C25/" + routeClass + "/" + kind }
		if resp.Panicked != "" {
			run.Violation(sig("panic-escaped-handler-chain"), "a panic escaped the handler chain: "+resp.Panicked, wit())
			return
		}
		hay := resp.Body
		for k, vs := range resp.Header {
			hay += "\n" + k + ": " + strings.Join(vs, "\n")
		}
		leaks := func() []string {
			var out []string
			for name, sv := range map[string]string{"rules field name": sentRuleField, "sampler name": sentSamplerName, "config metadata id": sentMetaID,
				"config metadata hash": sentMetaHash, "owning node address": sentPeer, "SendKey": sentSendKey, "receive key": sentRecvKey,
				"configured dataset name": sentDataset, "configured environment name": sentEnv, "sampler rules content (SampleRate/FieldList)": "FieldList"} {
				if strings.Contains(hay, sv) {
					out = append(out, name)
				}
			}
			if configured != "" && !strings.Contains(clientToken, configured) && !strings.Contains(req.Path, configured) &&
				row.Token != "in-api-key-header-only" && row.Token != "in-authorization-header-only" && strings.Contains(hay, configured) {
				out = append(out, "configured QueryAuthToken")
			}
			return out
		}
		if row.Method != "GET" {
			// Q4: every other method. With a valid token nothing is asserted; without one the
			// answer (Refinery's or the relayed one) must not carry local state
			run.Count("other_method_rows", 1)
			if authorised {
				return
			}
			run.Nontrivial(row.String())
			if l := leaks(); len(l) > 0 {
				cls := "token-set"
				if !row.Configured {
					cls = "token-unset"
				}
				run.Violation(sig("reveals-without-valid-token/method-"+row.Method+"/"+cls), fmt.Sprintf("%s %s answered %d revealing %v although %s", row.Method, req.Path, resp.Status, l, c25Why(row)), wit())
			}
			return
		}
		if row.Route == "unknown-query-path" || row.Route == "query-root" {
			// Q4: not one of Refinery's query endpoints (relayed to the Honeycomb API);
			// whatever comes back must not carry local state
			if l := leaks(); len(l) > 0 {
				run.Violation(sig("relayed-request-reveals-local-state"), fmt.Sprintf("%s %s (relayed, not a query endpoint) answered %d revealing %v", row.Method, req.Path, resp.Status, l), wit())
			}
			run.Count("relayed_rows", 1)
			return
		}
		run.Nontrivial(row.String())
		if authorised {
			run.Count("authorised_requests", 1)
			if c25RouteData(row.Route) {
				if resp.Status != 200 || !strings.Contains(resp.Body, wantSentinel) {
					run.Violation(sig("exact-token-refused"), fmt.Sprintf("GET %s with the exact configured token answered %d without the expected data", req.Path, resp.Status), wit())
				} else {
					run.Count("data_responses", 1)
				}
			}
			return
		}
		// Q2 / Q3
		run.Count("unauthorised_requests", 1)
		tokClass := row.Token
		if !row.Configured {
			tokClass = "token-unset/" + row.Token
		}
		if resp.Status < 400 {
			run.Violation(sig("answered-without-valid-token/"+tokClass), fmt.Sprintf("GET %s answered %d although %s", req.Path, resp.Status, c25Why(row)), wit())
		}
		if l := leaks(); len(l) > 0 {
			run.Violation(sig("reveals-without-valid-token/"+tokClass), fmt.Sprintf("GET %s (status %d, %s) reveals %v", req.Path, resp.Status, c25Why(row), l), wit())
		}
		if i < 3 {
			run.Sample(map[string]any{"row": row.String(), "status": resp.Status, "body": resp.Body})
		}
	})

	// ---- reload between the middleware's reads of the token ----
	// The routers of a second bench read their configuration through c25FlipConfig: the
	// k-th and earlier calls of GetQueryAuthToken within one request answer the token
	// configured before a reload, later calls the token after it (k = 1, 2). Oracle: data
	// or sentinels only for a request that carried exactly a token that was configured
	// (non-empty) at some instant during the request; a request without a token or with
	// an empty one never gets any.
	fb := e3New(t, E3Options{Configure: func(c *config.MockConfig) { c.GetHoneycombAPIVal = upstream.URL }})
	defer fb.Close()
	flip := &c25FlipConfig{MockConfig: fb.Cfg}
	for _, l := range []E3Listener{E3Incoming, E3Peer} {
		fb.routers[l].Config = flip
	}
	type flipRow struct {
		Transition string // set->empty, set->other, empty->set
		K          int
		Token      string // none, empty, old, new, wrong, case-variant-old
		Route      string
		Listener   E3Listener
	}
	var frows []flipRow
	for _, l := range []E3Listener{E3Incoming, E3Peer} {
		for _, tr := range []string{"set->empty", "set->other", "empty->set"} {
			for _, k := range []int{1, 2} {
				for _, tok := range []string{"none", "empty", "old", "new", "wrong", "case-variant-old"} {
					for _, rt := range c25Routes {
						if rt.data {
							frows = append(frows, flipRow{tr, k, tok, rt.name, l})
						}
					}
				}
			}
		}
	}
	run.Count("reload_table_rows", int64(len(frows)))
	run.Cases("reload-between-reads", len(frows)*run.N(1, 6), func(i int, rng *verifkit.Rand) {
		row := frows[i%len(frows)]
		name := fmt.Sprintf("reload/%s/k=%d/%s/%s/%s", row.Transition, row.K, row.Token, row.Route, row.Listener)
		sent := map[string]string{}
		for _, kind := range []string{"rulefield", "samplername", "metaid", "metahash", "peerhost"} {
			sent[kind] = "zq" + kind + rng.Hex(10)
		}
		peer := "http://" + sent["peerhost"] + ".verif.invalid:8081"
		tokT, tokU := "Tk"+rng.Hex(8)+"aB", "Uk"+rng.Hex(8)+"cD"
		before, after := tokT, ""
		switch row.Transition {
		case "set->other":
			after = tokU
		case "empty->set":
			before, after = "", tokU
		}
		fb.Config(func(c *config.MockConfig) {
			c.GetSamplerTypeVal = &config.DynamicSamplerConfig{SampleRate: 7, FieldList: []string{sent["rulefield"], "other"}}
			c.GetSamplerTypeName = sent["samplername"]
			c.CfgMetadata = []config.ConfigMetadata{{Type: "config", ID: sent["metaid"], Hash: sent["metahash"], LoadedAt: "2024-01-01T00:00:00Z"}}
		})
		fb.Sharder.SetOwner(func(string) string { return peer })
		req := &E3Req{Listener: row.Listener, Method: "GET", Header: http.Header{}, Note: name}
		sends, client := true, ""
		switch row.Token {
		case "none":
			sends = false
		case "empty":
		case "old":
			client = tokT
		case "new":
			client = tokU
		case "wrong":
			client = "Wk" + rng.Hex(8)
		case "case-variant-old":
			client = c25SwapCase(tokT)
		}
		if sends {
			req.Header[http.CanonicalHeaderKey(types.QueryTokenHeader)] = []string{client}
		}
		switch strings.SplitN(row.Route, "-", 2)[0] {
		case "trace":
			req.Path = "/query/trace/" + rng.Hex(32)
		case "rules":
			req.Path = "/query/rules/" + verifkit.Pick(rng, "json", "yaml", "toml") + "/ds" + rng.Hex(4)
		case "allrules":
			req.Path = "/query/allrules/" + verifkit.Pick(rng, "json", "yaml", "toml")
		default:
			req.Path = "/query/configmetadata"
		}
		flip.arm(before, after, row.K)
		resp := fb.Serve(req)
		reads := flip.disarm()
		run.Count("reload_requests", 1)
		if reads > row.K {
			run.Count("reload_requests_that_read_the_token_after_the_reload", 1)
		}
		// tokens configured (non-empty) at some instant of the request
		valid := sends && client != "" && (client == before || (client == after && reads > row.K))
		hay := resp.Body
		for k, vs := range resp.Header {
			hay += "\n" + k + ": " + strings.Join(vs, "\n")
		}
		var leaked []string
		for kind, sv := range sent {
			if strings.Contains(hay, sv) {
				leaked = append(leaked, kind)
			}
		}
		for _, tk := range []string{before, after} {
			if tk != "" && tk != client && strings.Contains(hay, tk) {
				leaked = append(leaked, "a configured QueryAuthToken")
			}
		}
		sort.Strings(leaked)
		run.Nontrivial(name)
		if valid {
			return // data allowed (not required: either side of the reload may win)
		}
		routeClass := strings.SplitN(row.Route, "-", 2)[0]
		wit := map[string]any{"row": name, "token_before_reload": before, "token_after_reload": after, "reload_after_read_number": row.K,
			"token_reads_in_request": reads, "client_token": client, "token_header_sent": sends, "request": req.Witness(), "response": resp, "sentinels": sent}
		if resp.Status < 400 {
			run.Violation("C25/"+routeClass+"/reload-between-token-reads/answered-without-valid-token/"+row.Token,
				fmt.Sprintf("GET %s answered %d to a %s token although the configured token went %q -> %q during the request", req.Path, resp.Status, row.Token, before, after), wit)
		}
		if len(leaked) > 0 {
			run.Violation("C25/"+routeClass+"/reload-between-token-reads/reveals-without-valid-token/"+row.Token,
				fmt.Sprintf("GET %s (status %d, %s token, configured token %q -> %q during the request) reveals %v", req.Path, resp.Status, row.Token, before, after, leaked), wit)
		}
	})
}

// c25NamesConfig gives the mock's sampler rules configurable dataset/environment names.
type c25NamesConfig struct {
	*config.MockConfig
	mu    sync.Mutex
	names []string
}

func (f *c25NamesConfig) set(names ...string) {
	f.mu.Lock()
	f.names = names
	f.mu.Unlock()
}

func (f *c25NamesConfig) GetAllSamplerRules() *config.V2SamplerConfig {
	v := f.MockConfig.GetAllSamplerRules()
	if v == nil {
		return nil
	}
	f.mu.Lock()
	defer f.mu.Unlock()
	out := &config.V2SamplerConfig{RulesVersion: v.RulesVersion, Samplers: map[string]*config.V2SamplerChoice{}}
	for _, choice := range v.Samplers {
		for _, n := range f.names {
			out.Samplers[n] = choice
		}
	}
	return out
}

// c25FlipConfig is the Config the routers of the reload pass read: a MockConfig whose
// QueryAuthToken changes after the k-th read within one request (a reload landing
// between two reads of the middleware).
type c25FlipConfig struct {
	*config.MockConfig
	mu            sync.Mutex
	armed         bool
	before, after string
	k, reads      int
}

func (f *c25FlipConfig) arm(before, after string, k int) {
	f.mu.Lock()
	f.armed, f.before, f.after, f.k, f.reads = true, before, after, k, 0
	f.mu.Unlock()
}

func (f *c25FlipConfig) disarm() int {
	f.mu.Lock()
	defer f.mu.Unlock()
	f.armed = false
	return f.reads
}

func (f *c25FlipConfig) GetQueryAuthToken() string {
	f.mu.Lock()
	defer f.mu.Unlock()
	if !f.armed {
		return f.MockConfig.GetQueryAuthToken()
	}
	f.reads++
	if f.reads <= f.k {
		return f.before
	}
	return f.after
}

func c25Why(r c25Row) string {
	if !r.Configured {
		return "no QueryAuthToken is configured (client token class " + r.Token + ")"
	}
	return "the client token class is " + r.Token
}
