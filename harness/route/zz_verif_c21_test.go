//go:build verif

package route

import (
	"fmt"
	"sort"
	"strings"
	"testing"

	"github.com/honeycombio/refinery/config"
	"github.com/honeycombio/refinery/internal/verifkit"
)

// C21: trace identity and root status follow the ID-field configuration.
//
// Oracle = the property statement, literally:
//   in a trace  <=> meta.trace_id or a configured trace-ID field holds a non-empty string
//   trace ID    =   meta.trace_id if it holds a non-empty string, else the value of the
//                   first configured trace-ID field (CONFIGURED order) holding one
//   root        <=> in a trace && no configured parent-ID field holds a non-empty string
//                   && meta.signal_type != "log"
// Observation = Span.TraceID / Span.IsRoot of what the (recording) collector is handed,
// or "handed to the upstream transmission" for "not in a trace".

type c21Model struct {
	InTrace bool   `json:"in_trace"`
	TraceID string `json:"trace_id"`
	IsRoot  bool   `json:"is_root"`
	// input classification (for signatures)
	IDFields   int    `json:"id_fields_with_nonempty_string"` // distinct configured trace-ID fields holding a non-empty string
	MetaState  string `json:"meta_trace_id"`                  // absent, nonempty, empty, nonstring
	ParentHeld bool   `json:"parent_id_held"`
	IsLog      bool   `json:"is_log"`
	Annotation string `json:"annotation_type,omitempty"` // meta.annotation_type when it is span_event/link: NOT an input of the root rule
}

func c21IsNonEmptyStr(v E3Val) bool { return v.Kind == KStr && v.Str != "" }

// c21ModelOf applies the property statement to an ordered field list.
func c21ModelOf(fields []E3KV, traceNames, parentNames []string) c21Model {
	get := func(name string) (E3Val, bool) {
		for _, kv := range fields {
			if kv.Key == name {
				return kv.Val, true
			}
		}
		return E3Val{}, false
	}
	m := c21Model{MetaState: "absent"}
	if v, ok := get("meta.trace_id"); ok {
		switch {
		case c21IsNonEmptyStr(v):
			m.MetaState = "nonempty"
			m.InTrace, m.TraceID = true, v.Str
		case v.Kind == KStr:
			m.MetaState = "empty"
		default:
			m.MetaState = "nonstring"
		}
	}
	for _, n := range traceNames {
		if v, ok := get(n); ok && c21IsNonEmptyStr(v) {
			m.IDFields++
			if !m.InTrace {
				m.InTrace, m.TraceID = true, v.Str
			}
		}
	}
	for _, n := range parentNames {
		if v, ok := get(n); ok && c21IsNonEmptyStr(v) {
			m.ParentHeld = true
		}
	}
	if v, ok := get("meta.signal_type"); ok && v.Kind == KStr && v.Str == "log" {
		m.IsLog = true
	}
	if v, ok := get("meta.annotation_type"); ok && v.Kind == KStr && (v.Str == "span_event" || v.Str == "link") {
		m.Annotation = v.Str
	}
	m.IsRoot = m.InTrace && !m.ParentHeld && !m.IsLog
	return m
}

func (m c21Model) idClass() string {
	switch {
	case m.MetaState == "nonempty":
		return "meta-trace-id-set"
	case m.IDFields >= 2:
		return "several-trace-id-fields"
	case m.IDFields == 1:
		return "single-trace-id-field"
	default:
		return "no-trace-id"
	}
}

func (m c21Model) rootClass() string {
	switch {
	case m.IsLog:
		return "log-record"
	case m.ParentHeld:
		return "parent-id-held"
	case m.Annotation != "":
		return "no-parent-id-annotation-" + m.Annotation
	default:
		return "no-parent-id"
	}
}

// c21Site names the extraction routine an encoding goes through (from reading
// route.go/payload.go; only used to name signatures, never to decide anything).
func c21Site(enc string) string {
	switch enc {
	case "event-json", "event-msgpack", "otlp-logs-http", "otlp-logs-grpc":
		return "map-extract" // types.Payload.ExtractMetadata over a Go map
	default:
		return "msgpack-extract" // types.Payload.extractCriticalFieldsFromBytes
	}
}

var (
	// The meta.-prefixed names are NOT names Refinery reserves for its own metadata
	// (types.Meta*): an operator may configure any field name, and both extraction
	// paths special-case the "meta." prefix.
	c21TracePool  = []string{"trace.trace_id", "traceId", "trace_id", "tid", "app.trace", "meta.trace_ref", "meta.w3c.trace"}
	c21ParentPool = []string{"trace.parent_id", "parentId", "parent_id", "pid", "meta.parent_span_id", "meta.refinery_parent"}
)

func c21Contains(xs []string, x string) bool {
	for _, y := range xs {
		if y == x {
			return true
		}
	}
	return false
}

// c21Sampler picks the sampler definition of the destination: none of interest
// (deterministic), a dynamic sampler whose FieldList, or a rules sampler whose conditions,
// name configured ID fields, unconfigured ID-ish fields and filler fields.
func c21Sampler(rng *verifkit.Rand, traceNames, parentNames []string) (kind string, fields []string, cfg any) {
	k := rng.Intn(10)
	if k < 3 {
		return "deterministic", nil, &config.DeterministicSamplerConfig{SampleRate: 1}
	}
	pool := append(append(append([]string{}, traceNames...), parentNames...), "f0", "f1", "verif.id")
	pool = append(pool, c21TracePool[rng.Intn(len(c21TracePool))], c21ParentPool[rng.Intn(len(c21ParentPool))])
	verifkit.Shuffle(rng, pool)
	seen := map[string]bool{}
	for _, f := range pool[:rng.Range(1, 5)] {
		if !seen[f] {
			seen[f] = true
			fields = append(fields, f)
		}
	}
	if k < 7 {
		return "dynamic", fields, &config.DynamicSamplerConfig{SampleRate: 1, FieldList: fields}
	}
	rules := &config.RulesBasedSamplerConfig{}
	for _, f := range fields {
		rules.Rules = append(rules.Rules, &config.RulesBasedSamplerRule{Name: "r-" + f, SampleRate: 1,
			Conditions: []*config.RulesBasedSamplerCondition{{Field: f, Operator: "exists"}}})
	}
	return "rules", fields, rules
}

func c21Subset(rng *verifkit.Rand, pool []string, lo, hi int) []string {
	p := append([]string(nil), pool...)
	verifkit.Shuffle(rng, p)
	return p[:rng.Range(lo, hi)]
}

// c21IDValue picks the value an ID-ish field holds. Every non-empty string is unique
// within the event so that the winning field is identifiable.
func c21IDValue(rng *verifkit.Rand, name string, msgpack bool, uniq *int) E3Val {
	*uniq++
	k := rng.Intn(100)
	switch {
	case k < 58:
		return VStr(fmt.Sprintf("%s#%d-%s", name, *uniq, rng.Hex(6)))
	case k < 70:
		return VStr("")
	case k < 76:
		return VInt(int64(rng.Intn(1000)))
	case k < 80:
		return VF64(float64(rng.Intn(1000)) + 0.5)
	case k < 84:
		return VBool(rng.Bool())
	case k < 90:
		return VNil()
	case k < 93:
		return VArr(VStr("x" + rng.Hex(3)))
	case k < 96:
		return VMap(KV("id", VStr("y"+rng.Hex(3))))
	default:
		// msgpack bin values are deliberately not generated for ID fields: whether a
		// bin "holds a string" is open (see notes/C21.md: /1/events msgpack decodes bin
		// loosely into a string, /1/batch msgpack does not).
		return VStr(fmt.Sprintf("%s#%d-%s", name, *uniq, rng.Hex(6)))
	}
}

// c21Event generates the ordered payload of one event.
func c21Event(rng *verifkit.Rand, id string, traceNames, parentNames []string, msgpack bool) []E3KV {
	uniq := 0
	var kvs []E3KV
	conf := map[string]bool{}
	for _, n := range traceNames {
		conf[n] = true
	}
	for _, n := range parentNames {
		conf[n] = true
	}
	for _, pool := range [][]string{c21TracePool, c21ParentPool} {
		for _, n := range pool {
			p := 0.2
			if conf[n] {
				p = 0.6
			}
			if rng.Chance(p) {
				kvs = append(kvs, KV(n, c21IDValue(rng, n, msgpack, &uniq)))
			}
		}
	}
	if rng.Chance(0.3) {
		var v E3Val
		switch k := rng.Intn(100); {
		case k < 55:
			v = VStr("meta#" + rng.Hex(6))
		case k < 75:
			v = VStr("")
		case k < 85:
			v = VInt(int64(rng.Intn(100)))
		case k < 95:
			v = VNil()
		default:
			v = VBool(true)
		}
		kvs = append(kvs, KV("meta.trace_id", v))
	}
	if rng.Chance(0.3) {
		var v E3Val
		switch k := rng.Intn(100); {
		case k < 50:
			v = VStr("log")
		case k < 75:
			v = VStr("trace")
		case k < 85:
			v = VStr("")
		default:
			v = VInt(1)
		}
		kvs = append(kvs, KV("meta.signal_type", v))
	}
	for i, n := 0, rng.Intn(4); i < n; i++ {
		kvs = append(kvs, KV(fmt.Sprintf("f%d", i), verifkit.Pick(rng, VStr("v"+rng.Hex(3)), VInt(int64(rng.Intn(50))), VBool(true), VF64(1.25))))
	}
	if rng.Chance(0.3) {
		// span events and links are still roots when they have a trace ID and no parent ID
		kvs = append(kvs, KV("meta.annotation_type", verifkit.Pick(rng, VStr("span_event"), VStr("link"), VStr("span_event"), VStr("link"), VStr("span"), VStr(""), VInt(2))))
	}
	kvs = append(kvs, KV("verif.id", VStr(id)))
	if msgpack {
		// non-minimal but legal msgpack string headers (str8/16/32) for keys and values of
		// the fields that decide identity; the model never looks at the width
		for i := range kvs {
			if kvs[i].Key == "verif.id" || strings.HasPrefix(kvs[i].Key, "f") && len(kvs[i].Key) == 2 {
				continue
			}
			if rng.Chance(0.3) {
				kvs[i].KeyWidth = verifkit.Pick(rng, 8, 16, 32)
			}
			if kvs[i].Val.Kind == KStr && rng.Chance(0.4) {
				kvs[i].Val.Width = verifkit.Pick(rng, 8, 16, 32)
			}
		}
	}
	verifkit.Shuffle(rng, kvs)
	return kvs
}

type c21Observed struct {
	Seen    bool   `json:"seen"`
	InTrace bool   `json:"in_trace"`
	TraceID string `json:"trace_id"`
	IsRoot  bool   `json:"is_root"`
	Where   string `json:"where"`
	// meta.refinery.root of the payload handed over with the span (absent = false)
	RootField bool `json:"payload_meta_refinery_root"`
}

func c21Observe(obs []E3Obs) (c21Observed, string) {
	if len(obs) != 1 {
		return c21Observed{}, fmt.Sprintf("%d observations", len(obs))
	}
	o := obs[0]
	switch o.Where {
	case E3AtAddSpan, E3AtAddSpanFromPeer:
		rf, _ := o.Ev.Fields["meta.refinery.root"].(bool)
		return c21Observed{Seen: true, InTrace: true, TraceID: o.Ev.TraceID, IsRoot: o.Ev.IsRoot, Where: o.Where, RootField: rf}, ""
	case E3AtUpstreamEvent:
		return c21Observed{Seen: true, Where: o.Where}, ""
	}
	return c21Observed{}, "observed at " + o.Where
}

// c21Judge compares one observation with the model and records violations.
func c21Judge(run *verifkit.Run, enc string, m c21Model, got c21Observed, rep int, wit func() map[string]any) (bad bool) {
	site := c21Site(enc)
	w := func(what string) map[string]any {
		x := wit()
		x["model"], x["observed"], x["repetition"], x["encoding"] = m, got, rep, enc
		_ = what
		return x
	}
	if got.InTrace && got.IsRoot != got.RootField {
		// the two views of root status Refinery itself hands on must agree
		run.Violation("C21/"+site+"/root/"+m.rootClass()+"/span-flag-differs-from-meta.refinery.root",
			fmt.Sprintf("%s: Span.IsRoot=%v but the payload's meta.refinery.root=%v", enc, got.IsRoot, got.RootField), w(""))
		bad = true
	}
	switch {
	case m.InTrace && !got.InTrace:
		class := m.idClass()
		if m.MetaState == "empty" {
			// a different way of losing the trace: an empty-string meta.trace_id next to a held ID field
			class = "empty-meta-trace-id"
		}
		run.Violation("C21/"+site+"/"+class+"/not-in-a-trace",
			fmt.Sprintf("%s: event holds trace ID %q (%s) but was treated as not part of a trace", enc, m.TraceID, class), w(""))
		return true
	case !m.InTrace && got.InTrace:
		run.Violation("C21/"+site+"/"+m.idClass()+"/spurious-trace",
			fmt.Sprintf("%s: event holds no trace ID but was handed to the collector with trace ID %q", enc, got.TraceID), w(""))
		return true
	case m.InTrace && got.TraceID != m.TraceID:
		run.Violation("C21/"+site+"/"+m.idClass()+"/wrong-trace-id",
			fmt.Sprintf("%s: trace ID %q, want %q (first non-empty configured field / meta.trace_id)", enc, got.TraceID, m.TraceID), w(""))
		return true
	case m.InTrace && got.IsRoot != m.IsRoot:
		run.Violation("C21/"+site+"/root/"+m.rootClass()+"/wrong-root-flag",
			fmt.Sprintf("%s: IsRoot=%v, want %v (%s)", enc, got.IsRoot, m.IsRoot, m.rootClass()), w(""))
		return true
	}
	return bad
}

func TestVerif_C21(t *testing.T) {
	run := verifkit.Start(t, "C21", "route")
	defer run.Finish()
	run.Rule("per case: PRNG-chosen TraceNames/ParentNames lists (1-4 / 0-3 names from small pools that include meta.-prefixed names which are not Refinery's own metadata names, random order) and an event whose payload carries a random subset of configured and unconfigured ID-ish fields, meta.trace_id, meta.signal_type, meta.annotation_type (span_event/link/other) and filler fields in random payload order, on msgpack with non-minimal str8/16/32 headers on keys and string values of those fields, with values typed {non-empty string, empty string, int, float, bool, nil, array, map}; while the destination's sampler is deterministic, dynamic (FieldList) or rules-based (conditions) over PRNG-chosen fields that include configured ID fields; sent 8x identically through each of /1/events JSON+msgpack and /1/batch JSON+msgpack on the incoming or peer listener (plus OTLP traces/logs over HTTP and gRPC with attributes named like configured ID fields); non-trivial = event holds >=2 distinct non-empty configured trace-ID strings, or meta.trace_id together with an ID field, or a parent ID, or is a log; distinct = (encoding, id class, root class, relative payload order of the held ID fields vs configured order)")
	run.Assume("the recording collector/transmission snapshots are taken synchronously inside the handler; Span.TraceID/IsRoot handed to Collector.AddSpan* is the router's final answer")
	run.Assume("for OTLP the event's field set is read back from the payload handed to the collector (husky decides it), the statement is then applied to that field set")

	b := e3New(t, E3Options{GRPC: true})
	defer b.Close()

	const reps = 8
	encs := []string{"event-json", "event-msgpack", "batch-json", "batch-msgpack"}
	run.Cases("libhoney", run.N(600, 100000), func(i int, rng *verifkit.Rand) {
		nTrace := 1
		if rng.Chance(0.75) {
			nTrace = rng.Range(2, 4)
		}
		traceNames := c21Subset(rng, c21TracePool, nTrace, nTrace)
		parentNames := c21Subset(rng, c21ParentPool, 0, 3)
		// The destination's sampler may name ID fields among its key / condition fields
		// (ingestion memoizes those "sampling key fields" in the same pass that detects IDs).
		samplerKind, keyFields, samplerCfg := c21Sampler(rng.Fork("sampler"), traceNames, parentNames)
		b.Config(func(c *config.MockConfig) {
			c.TraceIdFieldNames, c.ParentIdFieldNames = traceNames, parentNames
			c.GetSamplerTypeVal = samplerCfg
		})
		enc := encs[i%len(encs)]
		isMsgpack := strings.HasSuffix(enc, "msgpack")
		lst := E3Incoming
		if rng.Chance(0.3) {
			lst = E3Peer
		}
		nEv := 1
		if strings.HasPrefix(enc, "batch") {
			nEv = rng.Range(1, 3)
		}
		type ev struct {
			id    string
			kvs   []E3KV
			model c21Model
		}
		var evs []ev
		for k := 0; k < nEv; k++ {
			id := fmt.Sprintf("c21-%d-%d", i, k)
			kvs := c21Event(rng, id, traceNames, parentNames, isMsgpack)
			evs = append(evs, ev{id, kvs, c21ModelOf(kvs, traceNames, parentNames)})
		}
		var req *E3Req
		var err error
		wireEnc := E3JSON
		if isMsgpack {
			wireEnc = E3Msgpack
		}
		if strings.HasPrefix(enc, "event") {
			req, err = e3EventReq(lst, wireEnc, "c21", E3KeyLegacy, VMap(evs[0].kvs...), -1, "")
		} else {
			var items []E3BatchItem
			for _, e := range evs {
				items = append(items, E3BatchItem{Data: e3P(VMap(e.kvs...))})
			}
			req, err = e3BatchReq(lst, wireEnc, "c21", E3KeyLegacy, items)
		}
		if err != nil {
			t.Fatalf("harness: cannot encode case %d: %v", i, err)
		}
		switch rng.Intn(4) {
		case 0:
			req.Gzip()
		case 1:
			req.Zstd()
		}
		wrong := make([]int, len(evs))
		seenIDs := make([]map[string]bool, len(evs))
		for k := range seenIDs {
			seenIDs[k] = map[string]bool{}
		}
		for rep := 0; rep < reps; rep++ {
			b.Log.Reset()
			resp := b.Serve(req)
			byID := b.Log.ByID()
			run.Count("requests", 1)
			for k, e := range evs {
				got, problem := c21Observe(byID[e.id])
				if problem != "" {
					run.Inconclusive(fmt.Sprintf("case %d: event not observable (%s, status %d): identity cannot be judged", i, problem, resp.Status))
					run.Count("unobservable_events", 1)
					continue
				}
				run.Count("events_judged", 1)
				seenIDs[k][got.TraceID] = true
				e := e
				if c21Judge(run, enc, e.model, got, rep, func() map[string]any {
					return map[string]any{"trace_names": traceNames, "parent_names": parentNames, "sampler": samplerKind, "sampler_key_fields": keyFields, "payload_in_order": e.kvs,
						"listener": lst.String(), "request": req.Witness(), "response": resp}
				}) {
					wrong[k]++
				}
			}
		}
		for k, e := range evs {
			if wrong[k] > 0 {
				run.Count("events_with_wrong_identity", 1)
				run.Count("wrong_repetitions", int64(wrong[k]))
			}
			if len(seenIDs[k]) > 1 {
				run.Count("events_with_varying_identity_across_identical_requests", 1)
			}
			m := e.model
			if m.IDFields >= 2 || (m.MetaState != "absent" && m.IDFields >= 1) || m.ParentHeld || m.IsLog || m.Annotation != "" {
				// relative order of held configured fields in the payload vs configured order
				var held []string
				for _, kv := range e.kvs {
					for ci, n := range traceNames {
						if kv.Key == n && c21IsNonEmptyStr(kv.Val) {
							held = append(held, fmt.Sprint(ci))
						}
					}
					if kv.Key == "meta.trace_id" {
						held = append(held, "m")
					}
				}
				// does the sampler read a field that also decides identity / root status here?
				keyed := ""
				for _, kv := range e.kvs {
					if c21IsNonEmptyStr(kv.Val) && c21Contains(keyFields, kv.Key) && (c21Contains(traceNames, kv.Key) || c21Contains(parentNames, kv.Key)) {
						keyed = "id-field-is-sampler-key"
						run.Count("events_whose_held_id_field_is_a_sampler_key", 1)
						break
					}
				}
				run.Nontrivial(strings.Join([]string{enc, m.idClass(), m.rootClass(), strings.Join(held, ""), keyed}, "|"))
			}
		}
		if i < 3 {
			run.Sample(map[string]any{"encoding": enc, "trace_names": traceNames, "parent_names": parentNames, "payload_in_order": evs[0].kvs, "model": evs[0].model})
		}
	})

	// OTLP: the field set is husky's; attributes named like configured ID fields are
	// what makes the case interesting.
	otlpEncs := []string{"otlp-traces-http-proto", "otlp-traces-http-json", "otlp-traces-grpc", "otlp-logs-http", "otlp-logs-grpc"}
	run.Cases("otlp", run.N(150, 20000), func(i int, rng *verifkit.Rand) {
		nTrace := rng.Range(1, 4)
		traceNames := c21Subset(rng, c21TracePool, nTrace, nTrace)
		parentNames := c21Subset(rng, c21ParentPool, 0, 3)
		b.Config(func(c *config.MockConfig) { c.TraceIdFieldNames, c.ParentIdFieldNames = traceNames, parentNames })
		enc := otlpEncs[i%len(otlpEncs)]
		id := fmt.Sprintf("c21o-%d", i)
		var attrs []E3KV
		uniq := 0
		for _, pool := range [][]string{c21TracePool, c21ParentPool} {
			for _, n := range pool {
				if n == "trace.trace_id" || n == "trace.parent_id" {
					continue // husky's own output names
				}
				if rng.Chance(0.4) {
					uniq++
					attrs = append(attrs, KV(n, verifkit.Pick(rng, VStr(fmt.Sprintf("%s#%d", n, uniq)), VStr(fmt.Sprintf("%s#%d", n, uniq)), VStr(""), VInt(7))))
				}
			}
		}
		attrs = append(attrs, KV("verif.id", VStr(id)))
		verifkit.Shuffle(rng, attrs)
		var tid, sid, pid []byte
		if rng.Chance(0.85) {
			tid = []byte(rng.Hex(16))
		}
		sid = []byte(rng.Hex(8))
		if rng.Chance(0.5) {
			pid = []byte(rng.Hex(8))
		}
		md := map[string]string{"x-honeycomb-team": E3KeyLegacy, "x-honeycomb-dataset": "c21"}
		b.Log.Reset()
		ok, status := true, ""
		switch enc {
		case "otlp-traces-http-proto", "otlp-traces-http-json":
			ct := "application/protobuf"
			if enc == "otlp-traces-http-json" {
				ct = "application/json"
			}
			if tid == nil {
				tid = []byte(rng.Hex(16)) // OTLP spans always have a trace id
			}
			req, err := e3OTLPReq("/v1/traces", ct, E3KeyLegacy, "c21", e3OTLPTraces("svc", []E3Span{{TraceID: tid, SpanID: sid, ParentID: pid, Name: "s", StartNs: 1600000000000000000, EndNs: 1600000001000000000, Attrs: attrs}}))
			if err != nil {
				t.Fatal(err)
			}
			r := b.Serve(req)
			ok, status = !r.IsError(), fmt.Sprint(r.Status)
		case "otlp-traces-grpc":
			if tid == nil {
				tid = []byte(rng.Hex(16))
			}
			r := b.GRPCTraces(md, e3OTLPTraces("svc", []E3Span{{TraceID: tid, SpanID: sid, ParentID: pid, Name: "s", StartNs: 1600000000000000000, EndNs: 1600000001000000000, Attrs: attrs}}))
			ok, status = r.OK(), r.Code.String()
		case "otlp-logs-http":
			req, err := e3OTLPReq("/v1/logs", "application/protobuf", E3KeyLegacy, "c21", e3OTLPLogs("svc", []E3LogRec{{TraceID: tid, SpanID: sid, TimeNs: 1600000000000000000, Body: "b", Attrs: attrs}}))
			if err != nil {
				t.Fatal(err)
			}
			r := b.Serve(req)
			ok, status = !r.IsError(), fmt.Sprint(r.Status)
		case "otlp-logs-grpc":
			r := b.GRPCLogs(md, e3OTLPLogs("svc", []E3LogRec{{TraceID: tid, SpanID: sid, TimeNs: 1600000000000000000, Body: "b", Attrs: attrs}}))
			ok, status = r.OK(), r.Code.String()
		}
		run.Count("requests", 1)
		obs := b.Log.ByID()[id]
		got, problem := c21Observe(obs)
		if !ok || problem != "" {
			run.Inconclusive(fmt.Sprintf("otlp case %d (%s): event not observable (%s, status %s)", i, enc, problem, status))
			return
		}
		// field set as handed over (sorted for a stable witness; order is irrelevant to the model)
		var kvs []E3KV
		wire, err := obs[0].Ev.Wire()
		if err != nil {
			run.Inconclusive("otlp: payload at collector does not decode: " + err.Error())
			return
		}
		for _, kv := range wire.Map {
			if kv.Key == "meta.trace_id" || kv.Key == "meta.refinery.root" {
				continue // Refinery's own answer, not an input
			}
			kvs = append(kvs, kv)
		}
		sort.Slice(kvs, func(a, c int) bool { return kvs[a].Key < kvs[c].Key })
		m := c21ModelOf(kvs, traceNames, parentNames)
		run.Count("events_judged", 1)
		c21Judge(run, enc, m, got, 0, func() map[string]any {
			return map[string]any{"trace_names": traceNames, "parent_names": parentNames, "attributes_sent": attrs, "fields_at_collector": kvs,
				"otlp_trace_id_hex": fmt.Sprintf("%x", tid), "otlp_parent_span_id_hex": fmt.Sprintf("%x", pid)}
		})
		if m.IDFields >= 2 || m.ParentHeld || m.IsLog {
			run.Nontrivial(strings.Join([]string{enc, m.idClass(), m.rootClass(), fmt.Sprint(m.IDFields)}, "|"))
		}
	})
}
