//go:build verif

package route

import (
	"encoding/hex"
	"encoding/json"
	"errors"
	"fmt"
	"os"
	"sort"
	"strings"
	"testing"
	"time"

	"github.com/honeycombio/refinery/config"
	"github.com/honeycombio/refinery/internal/verifkit"
	"github.com/honeycombio/refinery/types"
)

// C24: ingest authorization and key replacement are uniform across protocols
// (exhaustive decision table).
//
// Table = SendKeyMode (6) x AcceptOnlyListedKeys (2) x SendKey {unset,set} x configured
// lists {ReceiveKeys+ReceiveKeyIDs, ReceiveKeys only, ReceiveKeyIDs only, neither} x
// client key class {blank, =SendKey, listed, listed by key ID, unlisted} (classes that
// need a list / a SendKey exist only where it is configured) x endpoint {/1/events,
// /1/batch on the incoming and on the peer listener, /v1/traces, /v1/logs, gRPC
// TraceService/Export, gRPC LogsService/Export}. Every row is executed in every run; the
// PRNG chooses the payload of a row only (key texts and key formats, header spelling,
// body encoding, which event kinds).
//
// The access-key logic under test is the REAL config.AccessKeyConfig (IsAccepted /
// GetReplaceKey) reached through MockConfig.GetAccessKeyConfig; the oracle below is an
// independent transcription of config.md ("Access Key Configuration") and the property
// statement, it never calls that code.
//
// Oracle (c24Model):
//   authorised  <=>  !AcceptOnlyListedKeys || key == SendKey (SendKey set) ||
//                    key in ReceiveKeys || keyID(key) in ReceiveKeyIDs
//   outgoing key (only when authorised), config.md SendKeyMode:
//     SendKey unset       -> the client's key
//     none                -> the client's key
//     all                 -> SendKey
//     nonblank            -> SendKey if the client's key is non-blank, else blank
//     listedonly          -> SendKey if the client's key is listed, else the client's key
//     unlisted            -> the client's key if listed, else SendKey (config.md says "all
//                            events except listed ones", the code comments say "nonblank
//                            keys only": for a blank key both SendKey and blank are allowed)
//     missingonly         -> SendKey if the client's key is blank, else the client's key
//     ("listed" for the two list modes: config.md names ReceiveKeys only; a key listed
//      by key ID may be treated either way, but the same way on every endpoint)
//   blank outgoing key    -> nothing may leave (the request has to be refused)
//
// Observations: status / gRPC code, and the APIKey of every event handed to the
// upstream transmission, the peer transmission or the collector (= everything that will
// leave this process), plus, in the "wire" cases, the X-Honeycomb-Team header a real
// DirectTransmission puts on the request to a fake Honeycomb.

type c24Row struct {
	Mode     string
	AOLK     bool
	SendKey  bool
	Lists    string // both, keys, ids, none
	Class    string // blank, sendkey, listed, listed-by-id, unlisted
	Endpoint string
}

func (r c24Row) String() string {
	return fmt.Sprintf("%s/aolk=%v/sendkey=%v/lists=%s/%s/%s", r.Mode, r.AOLK, r.SendKey, r.Lists, r.Class, r.Endpoint)
}

// cell is the row without the endpoint (the configuration x key class decision cell).
func (r c24Row) cell() string {
	return fmt.Sprintf("%s/aolk=%v/sendkey=%v/lists=%s/%s", r.Mode, r.AOLK, r.SendKey, r.Lists, r.Class)
}

var (
	c24Modes     = []string{"none", "all", "nonblank", "listedonly", "unlisted", "missingonly"}
	c24Endpoints = []string{"event", "batch", "event-peer-listener", "batch-peer-listener", "otlp-traces-http", "otlp-logs-http", "otlp-traces-grpc", "otlp-logs-grpc"}
)

func c24Table(endpoints []string) []c24Row {
	var rows []c24Row
	for _, mode := range c24Modes {
		for _, aolk := range []bool{false, true} {
			for _, sk := range []bool{false, true} {
				for _, lists := range []string{"both", "keys", "ids", "none"} {
					for _, class := range []string{"blank", "sendkey", "listed", "listed-by-id", "unlisted"} {
						if class == "sendkey" && !sk {
							continue
						}
						if class == "listed" && lists != "both" && lists != "keys" {
							continue
						}
						if class == "listed-by-id" && lists != "both" && lists != "ids" {
							continue
						}
						for _, ep := range endpoints {
							rows = append(rows, c24Row{Mode: mode, AOLK: aolk, SendKey: sk, Lists: lists, Class: class, Endpoint: ep})
						}
					}
				}
			}
		}
	}
	return rows
}

// c24Expect is what the documentation prescribes for a cell.
type c24Expect struct {
	Authorised bool     `json:"authorised"`
	Out        []string `json:"allowed_outgoing_keys"` // non-blank keys events may carry; empty => nothing may leave
	MayRefuse  bool     `json:"may_refuse"`            // refusing is (also) a documented answer
	MustRefuse bool     `json:"must_refuse"`           // refusing is the only documented answer
	Ambiguous  string   `json:"ambiguous,omitempty"`   // name of the open documentation question
}

func c24Model(row c24Row, key, sendKey string) c24Expect {
	listedByKey := row.Class == "listed"
	listedByID := row.Class == "listed-by-id"
	isSendKey := row.SendKey && row.Class == "sendkey"
	authorised := !row.AOLK || isSendKey || listedByKey || listedByID
	if !authorised {
		return c24Expect{MustRefuse: true, MayRefuse: true}
	}
	e := c24Expect{Authorised: true}
	blank := key == ""
	out := func(ks ...string) {
		for _, k := range ks {
			if k == "" {
				e.MayRefuse = true
			} else {
				e.Out = append(e.Out, k)
			}
		}
	}
	if !row.SendKey {
		out(key)
	} else {
		switch row.Mode {
		case "none":
			out(key)
		case "all":
			out(sendKey)
		case "nonblank":
			if blank {
				out("")
			} else {
				out(sendKey)
			}
		case "listedonly":
			switch {
			case listedByKey:
				out(sendKey)
			case listedByID:
				out(sendKey, key)
				e.Ambiguous = "listedonly/key-listed-by-id"
			default:
				out(key)
			}
		case "unlisted":
			switch {
			case listedByKey:
				out(key)
			case listedByID:
				out(key, sendKey)
				e.Ambiguous = "unlisted/key-listed-by-id"
			case blank:
				out(sendKey, "")
				e.Ambiguous = "unlisted/blank-key"
			default:
				out(sendKey)
			}
		case "missingonly":
			if blank {
				out(sendKey)
			} else {
				out(key)
			}
		}
	}
	if len(e.Out) == 0 {
		e.MustRefuse = true
	}
	return e
}

// ---- key material ----

const c24Alnum = "abcdefghijklmnopqrstuvwxyz0123456789"

func c24Chars(rng *verifkit.Rand, n int) string {
	b := make([]byte, n)
	for i := range b {
		b[i] = c24Alnum[rng.Intn(len(c24Alnum))]
	}
	return string(b)
}

// c24Key makes a key of one of the formats Refinery distinguishes. needID: a format
// for which Refinery asks Honeycomb for the key ID (not a classic key).
func c24Key(rng *verifkit.Rand, needID bool) (key, format string) {
	formats := []string{"classic-32hex", "classic-ingest-64", "ingest-64", "configuration-22", "arbitrary"}
	if needID {
		formats = formats[2:]
	}
	format = verifkit.Pick(rng, formats...)
	switch format {
	case "classic-32hex":
		key = rng.Hex(32)
	case "classic-ingest-64":
		key = "hc" + string(rune('a'+rng.Intn(26))) + "ic_" + c24Chars(rng, 58)
	case "ingest-64":
		key = "hcxik_" + c24Chars(rng, 58)
	case "configuration-22":
		key = c24Chars(rng, 22)
	default:
		key = "secret-" + rng.Hex(rng.Range(12, 24)) // long enough never to collide with another key of this run (the outage pass keeps the environment cache for an hour)
	}
	return key, format
}

type c24Ev struct {
	ID   string `json:"id"`
	Kind string `json:"kind"` // event (no trace id), span-mine, span-peer
	tid  string
}

type c24Case struct {
	Row       c24Row                 `json:"-"`
	RowName   string                 `json:"row"`
	Cfg       config.AccessKeyConfig `json:"access_keys"`
	ClientKey string                 `json:"client_key"`
	KeyFormat string                 `json:"client_key_format"`
	KeyIDs    map[string]string      `json:"key_ids"`
	Header    string                 `json:"key_header"`
	Expect    c24Expect              `json:"documented"`
	Events    []c24Ev                `json:"events"`
	// Phase qualifies the signature: "" for the plain table, "after-auth-lookup-outage"
	// for the request that follows a scripted /1/auth outage
	Phase  string         `json:"phase,omitempty"`
	Outage map[string]any `json:"auth_outage,omitempty"`
}

const c24PeerAddr = "http://peer-c24.verif.invalid:8081"

// c24Prepare configures the bench for the row and returns the concrete case.
func c24Prepare(b *E3Bench, row c24Row, rng *verifkit.Rand, variant int) *c24Case {
	return c24PrepareKeys(b, row, rng, variant, false)
}

// c24PrepareKeys: lookupKeys makes every key one Refinery asks /1/auth about (no
// classic formats).
func c24PrepareKeys(b *E3Bench, row c24Row, rng *verifkit.Rand, variant int, lookupKeys bool) *c24Case {
	c := &c24Case{Row: row, RowName: row.String(), KeyIDs: map[string]string{}}
	sendKey, _ := c24Key(rng, lookupKeys)
	listedKey, listedFmt := c24Key(rng, lookupKeys)
	otherListed, _ := c24Key(rng, false)
	byIDKey, byIDFmt := c24Key(rng, true)
	unlistedKey, unlistedFmt := c24Key(rng, lookupKeys)
	idListed, idOther := "kid"+rng.Hex(6), "kid"+rng.Hex(6)
	c.KeyIDs[byIDKey] = idListed
	cfg := config.AccessKeyConfig{SendKeyMode: row.Mode, AcceptOnlyListedKeys: row.AOLK}
	if row.SendKey {
		cfg.SendKey = sendKey
	}
	if row.Lists == "both" || row.Lists == "keys" {
		cfg.ReceiveKeys = []string{otherListed, listedKey}
		if rng.Bool() {
			cfg.ReceiveKeys = []string{listedKey, otherListed}
		}
	}
	if row.Lists == "both" || row.Lists == "ids" {
		cfg.ReceiveKeyIDs = []string{idOther, idListed}
		if rng.Bool() {
			cfg.ReceiveKeyIDs = []string{idListed}
		}
	}
	switch row.Class {
	case "blank":
		c.ClientKey, c.KeyFormat = "", "blank"
	case "sendkey":
		c.ClientKey, c.KeyFormat = sendKey, "sendkey"
	case "listed":
		c.ClientKey, c.KeyFormat = listedKey, listedFmt
	case "listed-by-id":
		c.ClientKey, c.KeyFormat = byIDKey, byIDFmt
	case "unlisted":
		c.ClientKey, c.KeyFormat = unlistedKey, unlistedFmt
	}
	c.Cfg = cfg
	c.Expect = c24Model(row, c.ClientKey, sendKey)
	ids := c.KeyIDs
	b.Config(func(m *config.MockConfig) { m.GetAccessKeyConfigVal = cfg })
	b.Env.Set(func(key string) (string, string, error) {
		id, ok := ids[key]
		if !ok {
			id = "kid-unlisted-" + key[:min(4, len(key))]
		}
		return "env-" + key[:min(4, len(key))], id, nil
	})
	b.Sharder.SetOwner(func(id string) string {
		if strings.HasPrefix(id, "ee") { // trace ids of peer-owned spans start with ee
			return c24PeerAddr
		}
		return ""
	})
	c.Events = c24MakeEvents(row, rng, variant)
	return c
}

// c24MakeEvents: which kinds an endpoint can carry, with fresh ids.
func c24MakeEvents(row c24Row, rng *verifkit.Rand, variant int) []c24Ev {
	kinds := []string{"event", "span-mine", "span-peer"}
	switch {
	case strings.HasPrefix(row.Endpoint, "otlp-traces"):
		kinds = []string{"span-mine", "span-peer"}
	case strings.HasPrefix(row.Endpoint, "event"):
		kinds = []string{kinds[variant%3]}
	}
	var evs []c24Ev
	for k, kind := range kinds {
		e := c24Ev{ID: fmt.Sprintf("c24-%s-%d", rng.Hex(6), k), Kind: kind}
		switch kind {
		case "span-mine":
			e.tid = "aa" + rng.Hex(30)
		case "span-peer":
			e.tid = "ee" + rng.Hex(30)
		}
		evs = append(evs, e)
	}
	return evs
}

type c24Outcome struct {
	HTTP     *E3Resp       `json:"http,omitempty"`
	GRPC     *E3GRPCResult `json:"grpc,omitempty"`
	Accepted bool          `json:"accepted"`
	Status   string        `json:"status"`
}

func c24Hex(s string) []byte {
	out, err := hex.DecodeString(s)
	if err != nil {
		panic("harness: bad hex " + s)
	}
	return out
}

// c24Send builds and sends the request of the case.
func c24Send(t *testing.T, b *E3Bench, c *c24Case, rng *verifkit.Rand) (c24Outcome, map[string]any) {
	row := c.Row
	lst := E3Incoming
	if strings.HasSuffix(row.Endpoint, "-peer-listener") {
		lst = E3Peer
	}
	enc := verifkit.Pick(rng, E3JSON, E3Msgpack)
	data := func(e c24Ev) E3Val {
		kvs := []E3KV{KV("verif.id", VStr(e.ID)), KV("n", VInt(int64(rng.Intn(1000))))}
		if e.tid != "" {
			kvs = append(kvs, KV("trace.trace_id", VStr(e.tid)))
		}
		return VMap(kvs...)
	}
	var out c24Outcome
	var req *E3Req
	var err error
	md := map[string]string{"x-honeycomb-dataset": "c24"}
	if c.ClientKey != "" {
		md["x-honeycomb-team"] = c.ClientKey
	}
	c.Header = types.APIKeyHeader
	switch {
	case strings.HasPrefix(row.Endpoint, "event"):
		req, err = e3EventReq(lst, enc, "c24", c.ClientKey, data(c.Events[0]), 1, "")
	case strings.HasPrefix(row.Endpoint, "batch"):
		var items []E3BatchItem
		for _, e := range c.Events {
			items = append(items, E3BatchItem{Data: e3P(data(e))})
		}
		req, err = e3BatchReq(lst, enc, "c24", c.ClientKey, items)
	case strings.HasPrefix(row.Endpoint, "otlp-traces"):
		var spans []E3Span
		for _, e := range c.Events {
			spans = append(spans, E3Span{TraceID: c24Hex(e.tid), SpanID: c24Hex(rng.Hex(16)), Name: "s", StartNs: 1600000000000000000, EndNs: 1600000000500000000,
				Attrs: []E3KV{KV("verif.id", VStr(e.ID))}})
		}
		msg := e3OTLPTraces("svc", spans)
		if row.Endpoint == "otlp-traces-grpc" {
			r := b.GRPCTraces(md, msg)
			out.GRPC = &r
		} else {
			req, err = e3OTLPReq(verifkit.Pick(rng, "/v1/traces", "/v1/traces/"), verifkit.Pick(rng, "application/protobuf", "application/x-protobuf", "application/json"), c.ClientKey, "c24", msg)
		}
	case strings.HasPrefix(row.Endpoint, "otlp-logs"):
		var recs []E3LogRec
		for _, e := range c.Events {
			r := E3LogRec{TimeNs: 1600000000000000000, Body: "b", Attrs: []E3KV{KV("verif.id", VStr(e.ID))}}
			if e.tid != "" {
				r.TraceID, r.SpanID = c24Hex(e.tid), c24Hex(rng.Hex(16))
			}
			recs = append(recs, r)
		}
		msg := e3OTLPLogs("svc", recs)
		if row.Endpoint == "otlp-logs-grpc" {
			r := b.GRPCLogs(md, msg)
			out.GRPC = &r
		} else {
			req, err = e3OTLPReq(verifkit.Pick(rng, "/v1/logs", "/v1/logs/"), verifkit.Pick(rng, "application/protobuf", "application/x-protobuf", "application/json"), c.ClientKey, "c24", msg)
		}
	}
	if err != nil {
		t.Fatalf("harness: build %s: %v", row, err)
	}
	var reqWit map[string]any
	if req != nil {
		// libhoney endpoints also take the short header name
		if c.ClientKey != "" && !strings.HasPrefix(row.Endpoint, "otlp") && rng.Chance(0.3) {
			req.Header.Del(types.APIKeyHeader)
			req.Header.Set(types.APIKeyHeaderShort, c.ClientKey)
			c.Header = types.APIKeyHeaderShort
		}
		if !strings.HasPrefix(row.Endpoint, "otlp") {
			switch rng.Intn(6) {
			case 0:
				req.Gzip()
			case 1:
				req.Zstd()
			}
		}
		req.Note = row.String()
		out.HTTP = b.Serve(req)
		reqWit = req.Witness()
		out.Accepted = !out.HTTP.IsError()
		out.Status = fmt.Sprintf("HTTP %d", out.HTTP.Status)
	} else {
		reqWit = map[string]any{"grpc_metadata": md, "note": row.String()}
		out.Accepted = out.GRPC.OK()
		out.Status = "gRPC " + out.GRPC.Code.String()
	}
	return out, reqWit
}

func c24In(xs []string, x string) bool {
	for _, y := range xs {
		if x == y {
			return true
		}
	}
	return false
}

func TestVerif_C24(t *testing.T) {
	run := verifkit.Start(t, "C24", "route")
	defer run.Finish()
	run.Rule("complete table SendKeyMode(6) x AcceptOnlyListedKeys(2) x SendKey{unset,set} x lists{ReceiveKeys+ReceiveKeyIDs, keys only, ids only, none} x client key class{blank, =SendKey, listed, listed by key ID, unlisted} x endpoint{/1/events, /1/batch on incoming and peer listener, /v1/traces, /v1/logs, gRPC traces, gRPC logs}; every row is one request with one to three events (no trace id -> upstream, own trace -> collector, peer's trace -> peer transmission) against the real routers with the real config.AccessKeyConfig; key texts/formats (classic, classic ingest, ingest, configuration, arbitrary), header spelling, encoding and compression come from the PRNG. A row is non-trivial when the documented answer is a refusal or a replaced key; rows are distinct by their table coordinates. A second pass sends a sub-table through a real DirectTransmission and compares the X-Honeycomb-Team header at a fake Honeycomb.")
	run.Assume("events handed to the upstream transmission, the peer transmission or the collector keep the APIKey they carry at hand-over (what the real collector and transmission do with it is C01/C02/C26)")
	run.Assume("the scripted /1/auth answer (environment, key id) is what Honeycomb would say for the key; lookups never fail in this check")
	run.Assume("config.md leaves open (a) whether a key listed only by key ID counts as 'listed' for SendKeyMode listedonly/unlisted and (b) whether unlisted replaces a blank key: both answers are accepted, but the same answer is required on every endpoint")

	b := e3New(t, E3Options{GRPC: true})
	defer b.Close()

	rows := c24Table(c24Endpoints)
	reps := run.N(3, 12)
	run.Count("table_rows", int64(len(rows)))
	// answer chosen for an open documentation question, per question: first endpoint's observed choice
	type choice struct{ answer, endpoint string }
	ambiguous := map[string]choice{}
	uniform := func(q, answer, endpoint string) string {
		prev, ok := ambiguous[q]
		if !ok {
			ambiguous[q] = choice{answer, endpoint}
			return ""
		}
		if prev.answer != answer {
			return fmt.Sprintf("%s answered %q here but %q on %s", q, answer, prev.answer, prev.endpoint)
		}
		return ""
	}

	run.Cases("table", len(rows)*reps, func(i int, rng *verifkit.Rand) {
		row := rows[i%len(rows)]
		variant := i/len(rows) + int(run.Seed()%3)
		c := c24Prepare(b, row, rng, variant)
		b.Log.Reset()
		out, reqWit := c24Send(t, b, c, rng)
		all := b.Log.Snapshot()
		var effects []E3Obs
		for _, o := range all {
			if o.Where != E3AtEnvLookup {
				effects = append(effects, o)
			}
		}
		if os.Getenv("VERIF_C24_TRACE") != "" {
			var keys []string
			for _, o := range effects {
				keys = append(keys, o.Where+"="+o.Ev.APIKey)
			}
			t.Logf("ROW %-80s client=%q -> %-22s leaving=%v documented=%+v", row, c.ClientKey, out.Status, keys, c.Expect)
		}
		run.Count("requests", 1)
		run.Count("events_observed_leaving", int64(len(effects)))
		if out.Accepted {
			run.Count("requests_accepted", 1)
		} else {
			run.Count("requests_refused", 1)
		}
		c24Judge(run, c, out, reqWit, all, effects, func(q, answer string) string { return uniform(q, answer, row.Endpoint) })
		if i < 2 {
			run.Sample(map[string]any{"case": c, "outcome": out.Status, "events_leaving": len(effects)})
		}
	})

	// ---- wire pass: the key as a header on the request to Honeycomb ----
	wb := e3New(t, E3Options{GRPC: true, Wire: true, NoPeerRouter: true})
	defer wb.Close()
	var wrows []c24Row
	for _, r := range c24Table([]string{"event", "batch", "otlp-logs-http", "otlp-logs-grpc"}) {
		if r.Lists == "both" {
			wrows = append(wrows, r)
		}
	}
	run.Count("wire_table_rows", int64(len(wrows)))
	run.Cases("wire", len(wrows), func(i int, rng *verifkit.Rand) {
		row := wrows[i]
		c := c24Prepare(wb, row, rng, 0) // variant 0: the event without trace id
		// only events without a trace id go straight to the upstream transmission
		var evs []c24Ev
		for _, e := range c.Events {
			if e.Kind == "event" {
				evs = append(evs, e)
			}
		}
		c.Events = evs
		wb.Wire.Take()
		wb.Log.Reset()
		out, reqWit := c24Send(t, wb, c, rng)
		if !out.Accepted || c.Expect.MustRefuse {
			return // the table pass judges refusals; nothing to wait for here
		}
		// the events of THIS request that were handed to the upstream transmission
		need := map[string]bool{}
		for _, o := range wb.Log.Effects() {
			if o.Where == E3AtUpstreamEvent {
				need[o.Ev.ID] = true
			}
		}
		if len(need) == 0 {
			return
		}
		got := map[string]E3WireEvent{}
		for len(got) < len(need) {
			if !wb.Wire.Await(1, 20*time.Second) {
				run.Inconclusive("wire: fake Honeycomb did not receive the events handed to the upstream transmission within the bound")
				return
			}
			for _, we := range wb.Wire.Take() {
				if need[we.ID] { // events of earlier requests are not this row's business
					got[we.ID] = we
				}
			}
		}
		for _, we := range got {
			keys := we.Header.Values(types.APIKeyHeader)
			run.Count("wire_events", 1)
			if len(keys) != 1 || !c24In(c.Expect.Out, keys[0]) {
				kind := "wrong-key-on-the-wire/mode-" + row.Mode + "/" + row.Class
				if len(keys) == 0 || keys[0] == "" {
					kind = "blank-key-on-the-wire"
				}
				run.Violation("C24/"+row.Endpoint+"/"+kind, fmt.Sprintf("request to Honeycomb carried X-Honeycomb-Team %q, documented %q", keys, c.Expect.Out),
					map[string]any{"case": c, "request": reqWit, "outcome": out, "wire_event": we})
			}
		}
		run.Nontrivial("wire/" + row.String())
	})

	// ---- outage pass: /1/auth fails, then recovers, within the environment-cache TTL ----
	// Sub-table: configurations with ReceiveKeyIDs (every request looks the key up) x every
	// non-blank key class x endpoint; all keys in formats that need a lookup. While the
	// scripted /1/auth fails (timeout / 5xx / 401) one or two requests are sent: their
	// answer is left open (the key ID is unknowable), except that nothing may leave with a
	// blank key. Then /1/auth recovers and the same client sends again: this request is
	// judged by the full table oracle. The cache TTL is an hour, i.e. the whole pass
	// happens "within the TTL" whatever the wall clock does.
	ob := e3New(t, E3Options{GRPC: true, EnvCacheTTL: time.Hour})
	defer ob.Close()
	var orows []c24Row
	for _, r := range c24Table(c24Endpoints) {
		if (r.Lists == "both" || r.Lists == "ids") && r.Class != "blank" {
			orows = append(orows, r)
		}
	}
	run.Count("outage_table_rows", int64(len(orows)))
	oreps := run.N(1, 4)
	run.Cases("auth-outage", len(orows)*oreps, func(i int, rng *verifkit.Rand) {
		row := orows[i%len(orows)]
		variant := i/len(orows) + int(run.Seed()%3)
		c := c24PrepareKeys(ob, row, rng, variant, true)
		c.Phase = "after-auth-lookup-outage"
		fault := verifkit.Pick(rng,
			"failed sending AuthInfo request to Honeycomb API. context deadline exceeded (Client.Timeout exceeded while awaiting headers)",
			"failed sending AuthInfo request to Honeycomb API. dial tcp: connection refused",
			"received 503 response for AuthInfo request from Honeycomb API",
			"received 500 response for AuthInfo request from Honeycomb API",
			"received 401 response for AuthInfo request from Honeycomb API - check your API key")
		nOutage := rng.Range(1, 2)
		c.Outage = map[string]any{"auth_answer_during_outage": fault, "requests_during_outage": nOutage}
		ids, down := c.KeyIDs, true
		ob.Env.Set(func(key string) (string, string, error) {
			if down {
				return "", "", errors.New(fault)
			}
			id, ok := ids[key]
			if !ok {
				id = "kid-unlisted-" + key[:min(4, len(key))]
			}
			return "env-" + key[:min(4, len(key))], id, nil
		})
		var during []string
		for k := 0; k < nOutage; k++ {
			c.Events = c24MakeEvents(row, rng, variant+k)
			ob.Log.Reset()
			out, reqWit := c24Send(t, ob, c, rng)
			during = append(during, out.Status)
			run.Count("requests_during_outage", 1)
			if out.Accepted {
				run.Count("requests_during_outage_accepted", 1)
			}
			for _, o := range ob.Log.Effects() {
				if o.Ev.APIKey == "" {
					run.Violation("C24/"+row.Endpoint+"/during-auth-lookup-outage/blank-key-left-refinery",
						fmt.Sprintf("%s (%s) handed an event on with a blank API key while /1/auth was failing", row.Endpoint, out.Status),
						map[string]any{"case": c, "request": reqWit, "outcome": out, "observations": ob.Log.Snapshot()})
					break
				}
			}
		}
		c.Outage["answers_during_outage"] = during
		down = false // /1/auth is back
		c.Events = c24MakeEvents(row, rng, variant)
		ob.Log.Reset()
		out, reqWit := c24Send(t, ob, c, rng)
		all := ob.Log.Snapshot()
		var effects []E3Obs
		for _, o := range all {
			if o.Where != E3AtEnvLookup {
				effects = append(effects, o)
			}
		}
		run.Count("requests_after_recovery", 1)
		if os.Getenv("VERIF_C24_TRACE") != "" {
			t.Logf("OUTAGE %-80s during=%v after=%s leaving=%d", row, during, out.Status, len(effects))
		}
		c24Judge(run, c, out, reqWit, all, effects, func(q, answer string) string { return uniform(q, answer, row.Endpoint) })
	})
	var qs []string
	for q, ch := range ambiguous {
		qs = append(qs, q+" -> "+ch.answer)
	}
	sort.Strings(qs)
	if b, err := json.Marshal(qs); err == nil {
		t.Logf("C24 open documentation questions answered by the code: %s", b)
	}
}

// c24Judge applies the oracle to one executed row.
func c24Judge(run *verifkit.Run, c *c24Case, out c24Outcome, reqWit map[string]any, all, effects []E3Obs, uniform func(question, answer string) string) {
	row, exp := c.Row, c.Expect
	sig := func(kind string) string {
		if c.Phase != "" {
			return "C24/" + row.Endpoint + "/" + c.Phase + "/" + kind
		}
		return "C24/" + row.Endpoint + "/" + kind
	}
	wit := func() map[string]any {
		return map[string]any{"case": c, "request": reqWit, "outcome": out, "observations": all}
	}
	if out.HTTP != nil && out.HTTP.Panicked != "" {
		run.Violation(sig("panic-escaped-handler-chain"), "a panic escaped the handler chain: "+out.HTTP.Panicked, wit())
		return
	}
	if exp.MustRefuse || len(exp.Out) != 1 || exp.Out[0] != c.ClientKey || c.Phase != "" {
		run.Nontrivial(c.Phase + row.String())
	}
	// 1. no event ever leaves with a blank key
	blankLeft := 0
	for _, o := range effects {
		if o.Ev.APIKey == "" {
			blankLeft++
		}
	}
	if blankLeft > 0 {
		run.Violation(sig("blank-key-left-refinery"), fmt.Sprintf("%s (%s): %d event(s) handed on with a blank API key (first at %s)", row.Endpoint, out.Status, blankLeft, effects[0].Where), wit())
	}
	// 2. acceptance
	switch {
	case !exp.Authorised && out.Accepted:
		run.Violation(sig("unauthorized-key-accepted/"+row.Class), fmt.Sprintf("%s accepted (%s) a %s key although AcceptOnlyListedKeys is on and the key is neither listed nor the SendKey (mode %s)", row.Endpoint, out.Status, row.Class, row.Mode), wit())
	case exp.Authorised && !exp.MayRefuse && !out.Accepted:
		run.Violation(sig("authorized-key-rejected/"+row.Class), fmt.Sprintf("%s refused (%s) a %s key that the configuration authorises (AcceptOnlyListedKeys=%v, mode %s)", row.Endpoint, out.Status, row.Class, row.AOLK, row.Mode), wit())
	}
	// 3. a refused request forwards nothing
	if !out.Accepted && len(effects) > 0 {
		run.Violation(sig("refused-request-forwarded-data"), fmt.Sprintf("%s answered %s but %d event(s) were handed on", row.Endpoint, out.Status, len(effects)), wit())
	}
	// 4. the key on everything that leaves
	if !exp.Authorised {
		return // whatever left was reported above (unauthorized-key-accepted / refused-request-forwarded-data)
	}
	seen := map[string]bool{}
	answers := map[string]bool{}
	for _, o := range effects {
		seen[o.Ev.ID] = true
		if o.Ev.APIKey == "" {
			continue // reported above
		}
		if !c24In(exp.Out, o.Ev.APIKey) {
			run.Violation(sig("wrong-key-sent/mode-"+row.Mode+"/"+row.Class), fmt.Sprintf("%s: event handed to %s with key %q; documented for mode %s and a %s key: %q", row.Endpoint, o.Where, o.Ev.APIKey, row.Mode, row.Class, exp.Out), wit())
			continue
		}
		switch o.Ev.APIKey {
		case c.Cfg.SendKey:
			answers["SendKey"] = true
		case c.ClientKey:
			answers["client key"] = true
		}
	}
	if out.Accepted && !exp.MustRefuse {
		missing := 0
		for _, e := range c.Events {
			if !seen[e.ID] {
				missing++
			}
		}
		if missing > 0 {
			run.Violation(sig("accepted-but-not-forwarded"), fmt.Sprintf("%s answered %s but %d of %d event(s) were handed nowhere", row.Endpoint, out.Status, missing, len(c.Events)), wit())
		}
	}
	if exp.MustRefuse && out.Accepted && len(effects) == 0 {
		run.Count("blank_outgoing_key_answered_with_success_but_nothing_forwarded", 1)
	}
	// 5. open documentation questions: same answer everywhere
	if exp.Ambiguous != "" {
		answer := ""
		switch {
		case !out.Accepted && len(effects) == 0:
			answer = "refused"
		case len(answers) == 1:
			for a := range answers {
				answer = a
			}
		case len(answers) > 1:
			answer = "mixed"
		}
		if answer == "mixed" {
			run.Violation(sig("events-of-one-request-sent-with-different-keys"), fmt.Sprintf("%s: events of one request left with different keys", row.Endpoint), wit())
		} else if answer != "" {
			if diff := uniform(exp.Ambiguous, answer); diff != "" {
				run.Violation(sig("not-uniform/"+exp.Ambiguous), diff, wit())
			}
		}
	}
}
