//go:build verif

package route

import (
	"context"
	"encoding/hex"
	"encoding/json"
	"errors"
	"fmt"
	"io"
	"os"
	"strings"
	"testing"

	collectorlogs "go.opentelemetry.io/proto/otlp/collector/logs/v1"
	collectortrace "go.opentelemetry.io/proto/otlp/collector/trace/v1"

	"github.com/honeycombio/refinery/internal/verifkit"
	"github.com/honeycombio/refinery/types"
)

// C23: responses reflect what happened to the data (fault enumeration).
//
// The table = endpoints x faults x variants (c23Table); every row is executed with
// PRNG-chosen payloads. Faults are injected only where a real client or upstream can
// cause them: invalid URL escapes and short bodies travel over a real loopback
// connection, environment-lookup failures come from the scripted /1/auth answer,
// truncated/ill-typed bodies are just bytes, queue-full is the collector refusing with
// collect.ErrWouldBlock.
//
// Oracle (outcome based, nothing is inferred from the fault that was injected):
//   R1  whole-request error status (HTTP >= 400 / gRPC code != OK)  =>  no event of the
//       request reached the collector (accepted) or a transmission
//   R2  success status on a request whose body was well-formed  =>  every event in it was
//       at least tried (observed accepted, or observed refused by the collector)
//   R3  success status on /1/batch  =>  the body is a JSON array; #202 == #events
//       accepted, #429 == #events the collector refused; and for well-formed bodies,
//       index by index: accepted <=> 202, refused <=> 429, empty-data event <=> 400
//   R4  exactly one status is written per request (in-process recorder only)

type c23Ev struct {
	ID    string `json:"id"`
	Kind  string `json:"kind"` // span-mine, span-peer, event, empty
	Block bool   `json:"collector_refuses"`
	tid   []byte
}

type c23Row struct {
	Endpoint  string // event, batch, otlp-traces, otlp-logs
	Enc       string // json, msgpack, proto
	Transport string // inproc, tcp, grpc
	Listener  E3Listener
	Faults    []string // in pipeline order; Faults[0] names the signature class
	Variant   string
}

func (r c23Row) String() string {
	return fmt.Sprintf("%s/%s/%s/%s/%s/%s", r.Endpoint, r.Enc, r.Transport, r.Listener, strings.Join(r.Faults, "+"), r.Variant)
}

func (r c23Row) has(f string) bool {
	for _, x := range r.Faults {
		if x == f {
			return true
		}
	}
	return false
}

const c23PeerAddr = "http://peer-c23.verif.invalid:8081"

func c23Table() []c23Row {
	var rows []c23Row
	type ep struct {
		endpoint, enc, transport string
		lst                      E3Listener
	}
	var libhoney, otlpHTTP, grpcEPs, all []ep
	for _, l := range []E3Listener{E3Incoming, E3Peer} {
		for _, e := range []string{"event", "batch"} {
			for _, c := range []string{"json", "msgpack"} {
				libhoney = append(libhoney, ep{e, c, "inproc", l})
			}
		}
	}
	for _, e := range []string{"otlp-traces", "otlp-logs"} {
		for _, c := range []string{"proto", "json"} {
			otlpHTTP = append(otlpHTTP, ep{e, c, "inproc", E3Incoming})
		}
		grpcEPs = append(grpcEPs, ep{e, "proto", "grpc", E3Incoming})
	}
	all = append(append(append(all, libhoney...), otlpHTTP...), grpcEPs...)
	add := func(e ep, faults []string, variant string) {
		rows = append(rows, c23Row{Endpoint: e.endpoint, Enc: e.enc, Transport: e.transport, Listener: e.lst, Faults: faults, Variant: variant})
	}
	for _, e := range all {
		add(e, []string{"none"}, "")
		add(e, []string{"env-lookup-error"}, "auth-unreachable")
		add(e, []string{"env-lookup-error"}, "auth-401")
		add(e, []string{"env-lookup-error", "queue-full"}, "all")
		for _, p := range []string{"all", "first", "last", "alternate"} {
			if e.endpoint == "event" && p != "all" {
				continue
			}
			add(e, []string{"queue-full"}, p)
		}
	}
	for _, e := range libhoney {
		if e.lst == E3Incoming && e.enc == "json" {
			for _, p := range []string{"%zz", "%", "a%2", "%G1x"} {
				x := e
				x.transport = "tcp"
				add(x, []string{"bad-dataset-escape"}, p)
			}
		}
		for _, v := range []string{"tcp-half-body", "tcp-declares-more", "reader-fails-half", "reader-fails-at-0", "gzip-truncated", "zstd-truncated", "gzip-garbage", "zstd-garbage"} {
			x := e
			if strings.HasPrefix(v, "tcp") {
				x.transport = "tcp"
			}
			add(x, []string{"body-read-error"}, v)
		}
		for _, v := range []string{"truncate-1", "truncate-half", "truncate-last", "empty", "garbage", "trailing-garbage"} {
			add(e, []string{"malformed-body"}, v)
			if v == "truncate-half" {
				add(e, []string{"env-lookup-error", "malformed-body"}, v)
			}
		}
	}
	for _, e := range otlpHTTP {
		for _, v := range []string{"tcp-half-body", "reader-fails-half", "gzip-truncated", "gzip-garbage"} {
			x := e
			if strings.HasPrefix(v, "tcp") {
				x.transport = "tcp"
			}
			add(x, []string{"body-read-error"}, v)
		}
		for _, v := range []string{"truncate-1", "truncate-half", "truncate-last", "empty", "garbage"} {
			add(e, []string{"malformed-body"}, v)
		}
		add(e, []string{"env-lookup-error", "malformed-body"}, "truncate-half")
		add(e, []string{"ill-typed-body"}, "content-type-text-plain")
	}
	for _, e := range grpcEPs {
		for _, v := range []string{"truncate-half", "garbage", "truncate-last"} {
			add(e, []string{"malformed-body"}, v)
		}
	}
	for _, l := range []E3Listener{E3Incoming, E3Peer} {
		for _, v := range []string{"array", "number", "string", "null", "empty-object"} {
			add(ep{"event", "json", "inproc", l}, []string{"ill-typed-body"}, v)
		}
		for _, v := range []string{"array", "string", "nil", "empty-map"} {
			add(ep{"event", "msgpack", "inproc", l}, []string{"ill-typed-body"}, v)
		}
		for _, v := range []string{"object", "element-number", "data-string", "time-number", "samplerate-string", "data-missing", "nested-array"} {
			add(ep{"batch", "json", "inproc", l}, []string{"ill-typed-body"}, v)
		}
		for _, v := range []string{"map", "element-number", "data-string", "time-string", "time-int", "samplerate-string", "data-missing"} {
			add(ep{"batch", "msgpack", "inproc", l}, []string{"ill-typed-body"}, v)
		}
		for _, c := range []string{"json", "msgpack"} {
			for _, v := range []string{"all-empty", "first-empty", "middle-empty"} {
				add(ep{"batch", c, "inproc", l}, []string{"invalid-events"}, v)
				add(ep{"batch", c, "inproc", l}, []string{"invalid-events", "queue-full"}, v)
			}
		}
	}
	// the client goes away: the request context is cancelled after k of n events were handed over
	for _, e := range append(append([]ep{}, libhoney...), otlpHTTP...) {
		for _, v := range []string{"before-first", "after-1", "after-half", "after-all-but-one"} {
			if e.endpoint == "event" && v != "before-first" && v != "after-1" {
				continue
			}
			add(e, []string{"client-gone"}, v)
		}
	}
	// a JSON batch whose NON-first event carries a time string that is not a timestamp
	// (the time is parsed per event inside the processing loop, after earlier events
	// were handed over); the event itself stays a valid event with an unknown time
	for _, l := range []E3Listener{E3Incoming, E3Peer} {
		for _, v := range []string{"0", "7", "12345", "153558938", "-5", "0x10", "soon", " ", "1e3"} {
			add(ep{"batch", "json", "inproc", l}, []string{"odd-time-string"}, v)
		}
	}
	// large batches (executed for the first repetitions only, see c23RunRow)
	for _, c := range []string{"msgpack", "json"} {
		for _, v := range []string{"1025", "1500", "3000"} {
			add(ep{"batch", c, "inproc", E3Incoming}, []string{"large-batch"}, v)
		}
	}
	for _, v := range []string{"resourceSpans-number", "scopeSpans-string"} {
		add(ep{"otlp-traces", "json", "inproc", E3Incoming}, []string{"ill-typed-body"}, v)
	}
	return rows
}

var c23TableCached []c23Row

type c23Outcome struct {
	HTTP    *E3Resp       `json:"http,omitempty"`
	GRPC    *E3GRPCResult `json:"grpc,omitempty"`
	IsError bool          `json:"is_error"`
}

func TestVerif_C23(t *testing.T) {
	run := verifkit.Start(t, "C23", "route")
	defer run.Finish()
	table := c23Table()
	c23TableCached = table
	run.Rule(fmt.Sprintf("fault enumeration: a fixed table of %d rows = endpoint {/1/events, /1/batch (JSON, msgpack; incoming and peer listener), /v1/traces, /v1/logs (protobuf, JSON), gRPC TraceService/Export, LogsService/Export} x fault {none, bad dataset escape, environment lookup error, body read error, malformed body, ill-typed body, queue full, invalid events, client gone (request context cancelled after k of n events were handed over), odd time string on a non-first JSON batch event, large batches of 1025/1500/3000 events (first repetitions only), and the combinations env+queue-full, env+malformed, invalid+queue-full} x variant (cut points, which events are refused/empty, compression); every row is executed K times (quick 2, thorough 300) with PRNG-chosen payloads of 1-5 events mixing own spans, peer-owned spans and trace-less events; non-trivial = a row with an injected fault; distinct = table row", len(table)))
	run.Assume("side effects are exactly: Collector.AddSpan/AddSpanFromPeer returning nil, UpstreamTransmission/PeerTransmission.Enqueue*; a span the collector refuses with ErrWouldBlock is 'refused because the queue was full'")
	run.Assume("bad dataset escapes and short bodies are delivered over a loopback TCP connection to an http.Server serving the router's own mux; failing in-process body readers return io.ErrUnexpectedEOF, which is what net/http hands a handler whose client closed early")

	b := e3New(t, E3Options{GRPC: true})
	defer b.Close()
	k := run.N(2, 300)
	run.Cases("table", len(table)*k, func(i int, rng *verifkit.Rand) {
		c23RunRow(t, run, b, table[i%len(table)], rng, i)
	})
	run.Count("table_rows", int64(len(table)))
}

func c23RunRow(t *testing.T, run *verifkit.Run, b *E3Bench, row c23Row, rng *verifkit.Rand, caseNo int) {
	// ---- events ----
	n := 1
	if row.Endpoint != "event" {
		n = rng.Range(1, 5)
	}
	if row.has("odd-time-string") {
		n = rng.Range(2, 5)
	}
	if row.has("large-batch") {
		// 1-2 cases per size in the quick tier, 20 in thorough: the row is skipped afterwards
		rep, maxRep := caseNo/len(c23TableCached), 1
		if run.Thorough() {
			maxRep = 20
		}
		if rep >= maxRep {
			run.Count("large_batch_repetitions_skipped", 1)
			return
		}
		fmt.Sscan(row.Variant, &n)
		run.Count("large_batch_events", int64(n))
	}
	if row.has("invalid-events") && n < 3 {
		n = 3
	}
	if row.has("client-gone") && row.Endpoint != "event" {
		n = rng.Range(2, 5)
	}
	var evs []c23Ev
	peerOwned := map[string]bool{}
	for k := 0; k < n; k++ {
		e := c23Ev{ID: fmt.Sprintf("c23-%d-%d", caseNo, k), Kind: verifkit.Pick(rng, "span-mine", "span-mine", "span-peer", "event")}
		if row.Endpoint == "otlp-traces" && e.Kind == "event" {
			e.Kind = "span-mine" // an OTLP span always has a trace id
		}
		if e.Kind != "event" {
			e.tid = []byte(rng.Hex(16))
			if e.Kind == "span-peer" {
				peerOwned[c23TraceIDString(row, e)] = true
			}
		}
		evs = append(evs, e)
	}
	if row.has("invalid-events") {
		switch row.Variant {
		case "all-empty":
			for k := range evs {
				evs[k].Kind = "empty"
			}
		case "first-empty":
			evs[0].Kind = "empty"
		case "middle-empty":
			evs[1].Kind = "empty"
		}
	}
	if row.has("queue-full") {
		pat := row.Variant
		if len(row.Faults) > 1 {
			pat = verifkit.Pick(rng, "all", "first", "last", "alternate")
		}
		for k := range evs {
			evs[k].Block = pat == "all" || (pat == "first" && k == 0) || (pat == "last" && k == len(evs)-1) || (pat == "alternate" && k%2 == 0)
		}
	}
	blocked := map[string]bool{}
	for _, e := range evs {
		if e.Block {
			blocked[e.ID] = true
		}
	}
	// ---- collaborators ----
	b.Sharder.SetOwner(func(id string) string {
		if peerOwned[id] {
			return c23PeerAddr
		}
		return ""
	})
	b.Collector.SetWouldBlock(func(sp *types.Span) bool {
		id, _ := sp.Data.Get("verif.id").(string)
		return blocked[id]
	})
	key := E3KeyLegacy
	if row.has("env-lookup-error") || rng.Chance(0.3) {
		key = verifkit.Pick(rng, E3KeyEnv, E3KeyEnv2)
	}
	if row.has("env-lookup-error") {
		msg := "failed sending AuthInfo request to Honeycomb API. dial tcp: connection refused"
		if row.Variant == "auth-401" {
			msg = "received 401 response for AuthInfo request from Honeycomb API - check your API key"
		}
		b.Env.Set(func(string) (string, string, error) { return "", "", errors.New(msg) })
	} else {
		b.Env.Set(nil)
	}

	// ---- request ----
	wellFormed := !(row.has("malformed-body") || row.has("ill-typed-body") || row.has("body-read-error") || row.has("bad-dataset-escape"))
	var req *E3Req
	var grpcT *collectortrace.ExportTraceServiceRequest
	var grpcL *collectorlogs.ExportLogsServiceRequest
	var err error
	dataOf := func(e c23Ev) E3Val {
		if e.Kind == "empty" {
			return VMap()
		}
		kvs := []E3KV{KV("verif.id", VStr(e.ID)), KV("x", VInt(int64(rng.Intn(100))))}
		if e.tid != nil {
			kvs = append(kvs, KV("trace.trace_id", VStr(string(e.tid))))
		}
		verifkit.Shuffle(rng, kvs)
		return VMap(kvs...)
	}
	wireEnc := E3JSON
	if row.Enc == "msgpack" {
		wireEnc = E3Msgpack
	}
	switch row.Endpoint {
	case "event":
		req, err = e3EventReq(row.Listener, wireEnc, "c23", key, dataOf(evs[0]), 2, "1600000000")
	case "batch":
		var items []E3BatchItem
		for _, e := range evs {
			it := E3BatchItem{Rate: e3P(VInt(2)), Data: e3P(dataOf(e))}
			if wireEnc == E3JSON {
				it.Time = e3P(VStr("2020-09-13T12:26:40Z"))
			} else {
				it.Time = e3P(VTs32(1600000000))
			}
			items = append(items, it)
		}
		if row.has("ill-typed-body") {
			items, evs = c23IllTypedBatch(row, items, evs)
		}
		if row.has("odd-time-string") {
			items[rng.Range(1, len(items)-1)].Time = e3P(VStr(row.Variant))
		}
		req, err = e3BatchReq(row.Listener, wireEnc, "c23", key, items)
	case "otlp-traces":
		var spans []E3Span
		for _, e := range evs {
			spans = append(spans, E3Span{TraceID: c23TIDBytes(e), SpanID: []byte(rng.Hex(8)), Name: "s", StartNs: 1600000000000000000, EndNs: 1600000000500000000, Attrs: []E3KV{KV("verif.id", VStr(e.ID))}})
		}
		grpcT = e3OTLPTraces("svc", spans)
		req, err = e3OTLPReq("/v1/traces", c23CT(row), key, "c23", grpcT)
	case "otlp-logs":
		var recs []E3LogRec
		for _, e := range evs {
			recs = append(recs, E3LogRec{TraceID: c23TIDBytes(e), SpanID: []byte(rng.Hex(8)), TimeNs: 1600000000000000000, Body: "b", Attrs: []E3KV{KV("verif.id", VStr(e.ID))}})
		}
		grpcL = e3OTLPLogs("svc", recs)
		req, err = e3OTLPReq("/v1/logs", c23CT(row), key, "c23", grpcL)
	}
	if err != nil {
		t.Fatalf("harness: build %s: %v", row, err)
	}
	if row.has("ill-typed-body") {
		c23IllTyped(row, req)
	}
	if row.has("ill-typed-body") && row.Endpoint == "event" {
		evs = nil
	}
	if row.has("malformed-body") {
		req.Body = c23Malform(row.Variant, req.Body, rng)
	}
	rawPath := req.Path
	if row.has("bad-dataset-escape") {
		rawPath = req.Path[:strings.LastIndex(req.Path, "/")+1] + row.Variant
	}
	declared := -1
	if row.has("body-read-error") {
		switch row.Variant {
		case "tcp-half-body":
			declared = len(req.Body)
			req.Body = req.Body[:len(req.Body)/2]
		case "tcp-declares-more":
			declared = len(req.Body) + 1 + rng.Intn(50)
		case "reader-fails-half":
			req.BodyReader = &e3FailingReader{p: req.Body, n: len(req.Body) / 2, err: io.ErrUnexpectedEOF}
		case "reader-fails-at-0":
			req.BodyReader = &e3FailingReader{p: req.Body, n: 0, err: io.ErrUnexpectedEOF}
		case "gzip-truncated":
			req.Gzip()
			req.Body = req.Body[:len(req.Body)-rng.Range(1, 9)]
		case "zstd-truncated":
			req.Zstd()
			req.Body = req.Body[:len(req.Body)-rng.Range(1, 4)]
		case "gzip-garbage":
			req.Body = append([]byte{0x1f, 0x8b, 0x08, 0x00}, []byte(rng.Hex(20))...)
			req.Set("Content-Encoding", "gzip")
		case "zstd-garbage":
			req.Body = append([]byte{0x28, 0xb5, 0x2f, 0xfd}, []byte(rng.Hex(20))...)
			req.Set("Content-Encoding", "zstd")
		}
	} else if wellFormed && row.Transport == "inproc" && row.Endpoint != "otlp-traces" && row.Endpoint != "otlp-logs" {
		switch rng.Intn(5) {
		case 0:
			req.Gzip()
		case 1:
			req.Zstd()
		}
	}
	req.Note = row.String()

	// ---- execute ----
	b.Log.Reset()
	if row.has("client-gone") {
		// A client that times out or drops the connection mid-request = its request
		// context is cancelled. The bench's collaborators are injected dependencies, so
		// cancelling from inside the k-th hand-over is a deterministic way to place that
		// moment between two events.
		ctx, cancel := context.WithCancel(context.Background())
		defer cancel()
		req.Ctx = ctx
		k := 0
		switch row.Variant {
		case "after-1":
			k = 1
		case "after-half":
			k = (n + 1) / 2
		case "after-all-but-one":
			k = n - 1
		}
		if k < 1 && row.Variant != "before-first" {
			k = 1
		}
		if k == 0 {
			cancel()
		} else {
			handed := 0
			b.Log.SetHook(func(o E3Obs) {
				if o.Where == E3AtEnvLookup {
					return
				}
				if handed++; handed == k {
					cancel()
				}
			})
			defer b.Log.SetHook(nil)
		}
		req.Note = fmt.Sprintf("%s; context cancelled after %d of %d events", req.Note, k, n)
	}
	var out c23Outcome
	md := map[string]string{"x-honeycomb-team": key, "x-honeycomb-dataset": "c23"}
	switch row.Transport {
	case "inproc":
		out.HTTP = b.Serve(req)
	case "tcp":
		out.HTTP = b.ServeTCP(row.Listener, e3RawHTTP(req, rawPath, declared))
		if out.HTTP.TransportErr != "" {
			run.Inconclusive(fmt.Sprintf("row %s: no HTTP response over TCP: %s", row, out.HTTP.TransportErr))
			return
		}
	case "grpc":
		var r E3GRPCResult
		switch {
		case row.has("malformed-body"):
			method := E3GRPCTraceExport
			if row.Endpoint == "otlp-logs" {
				method = E3GRPCLogsExport
			}
			r = b.GRPCRaw(method, md, req.Body)
		case row.Endpoint == "otlp-traces":
			r = b.GRPCTraces(md, grpcT)
		default:
			r = b.GRPCLogs(md, grpcL)
		}
		out.GRPC = &r
	}
	if out.HTTP != nil {
		out.IsError = out.HTTP.IsError()
	} else {
		out.IsError = !out.GRPC.OK()
	}
	run.Count("requests", 1)
	if out.IsError {
		run.Count("error_responses", 1)
	}

	// ---- oracle ----
	all := b.Log.Snapshot()
	var effects, refusals []E3Obs
	for _, o := range all {
		switch {
		case o.Where == E3AtEnvLookup:
		case o.Result == "ErrWouldBlock":
			refusals = append(refusals, o)
		default:
			effects = append(effects, o)
		}
	}
	run.Count("side_effects_observed", int64(len(effects)))
	run.Count("collector_refusals_observed", int64(len(refusals)))
	if os.Getenv("VERIF_C23_TRACE") != "" {
		body := ""
		if out.HTTP != nil {
			body = out.HTTP.Body
		}
		t.Logf("ROW %-70s -> %-22s effects=%d refusals=%d events=%d body=%.80q", row, c23Status(out), len(effects), len(refusals), len(evs), body)
	}
	sig := func(v string) string { return "C23/" + row.Endpoint + "/" + row.Faults[0] + "/" + v }
	wit := func() map[string]any {
		wEvs, wObs := evs, all
		if len(wEvs) > 40 { // large batches: keep the replay file readable
			wEvs = wEvs[:40]
		}
		if len(wObs) > 40 {
			wObs = wObs[:40]
		}
		return map[string]any{"row": row.String(), "faults": row.Faults, "variant": row.Variant, "transport": row.Transport, "encoding": row.Enc,
			"listener": row.Listener.String(), "events": wEvs, "events_total": len(evs), "request": req.Witness(), "outcome": out, "observations": wObs, "observations_total": len(all)}
	}
	if out.HTTP != nil && out.HTTP.Panicked != "" {
		run.Violation(sig("panic-escaped-handler-chain"), "a panic escaped the router's handler chain: "+out.HTTP.Panicked, wit())
	}
	// R4
	if out.HTTP != nil && row.Transport == "inproc" {
		if len(out.HTTP.WriteHeaderCalls) > 1 {
			run.Violation(sig("status-written-more-than-once"), fmt.Sprintf("WriteHeader called %d times: %v", len(out.HTTP.WriteHeaderCalls), out.HTTP.WriteHeaderCalls), wit())
		} else if out.HTTP.HeaderAfterWrite {
			run.Violation(sig("status-written-after-body"), fmt.Sprintf("WriteHeader(%v) after body bytes had been written", out.HTTP.WriteHeaderCalls), wit())
		}
	}
	// R1
	if out.IsError && len(effects) > 0 {
		run.Violation(sig("error-status-with-side-effects"),
			fmt.Sprintf("%s answered %s but %d event(s) were forwarded/buffered (first at %s)", row.Endpoint, c23Status(out), len(effects), effects[0].Where), wit())
	}
	seen := map[string]string{}
	for _, o := range effects {
		seen[o.Ev.ID] = "accepted"
	}
	for _, o := range refusals {
		if seen[o.Ev.ID] == "" {
			seen[o.Ev.ID] = "refused"
		}
	}
	// R2
	if !out.IsError && wellFormed && row.Endpoint != "batch" {
		missing := 0
		for _, e := range evs {
			if seen[e.ID] == "" {
				missing++
			}
		}
		if missing > 0 {
			run.Violation(sig("success-although-events-discarded"),
				fmt.Sprintf("%s answered %s but %d of %d event(s) were neither handed to a route nor refused by the collector", row.Endpoint, c23Status(out), missing, len(evs)), wit())
		}
	}
	// R3
	if !out.IsError && row.Endpoint == "batch" && out.HTTP != nil {
		var statuses []BatchResponse
		if err := json.Unmarshal([]byte(out.HTTP.Body), &statuses); err != nil {
			run.Violation(sig("success-body-not-a-status-array"), fmt.Sprintf("200 response body is not a JSON array of statuses: %q", out.HTTP.Body), wit())
		} else {
			cnt := map[int]int{}
			for _, s := range statuses {
				cnt[s.Status]++
			}
			if cnt[202] != len(effects) {
				run.Violation(sig("per-event-status/202-count-differs-from-accepted"), fmt.Sprintf("%d x 202 but %d event(s) accepted", cnt[202], len(effects)), wit())
			}
			if cnt[429] != len(refusals) {
				run.Violation(sig("per-event-status/429-count-differs-from-refused"), fmt.Sprintf("%d x 429 but %d event(s) refused by the collector", cnt[429], len(refusals)), wit())
			}
			for s := range cnt {
				if s != 202 && s != 429 && s != 400 {
					run.Violation(sig("per-event-status/unexpected-status"), fmt.Sprintf("per-event status %d", s), wit())
				}
			}
			if wellFormed {
				if len(statuses) != len(evs) {
					run.Violation(sig("per-event-status/wrong-length"), fmt.Sprintf("%d statuses for %d events", len(statuses), len(evs)), wit())
				} else {
					for k, e := range evs {
						want := 202
						switch {
						case e.Kind == "empty":
							want = 400
						case seen[e.ID] == "refused":
							want = 429
						case seen[e.ID] == "":
							want = 400 // not accepted, not refused: must not be reported as either
						}
						if statuses[k].Status != want {
							run.Violation(sig(fmt.Sprintf("per-event-status/%s-event-got-%d", c23Fate(e, seen), statuses[k].Status)),
								fmt.Sprintf("event %d (%s, %s) got per-event status %d, want %d", k, e.Kind, c23Fate(e, seen), statuses[k].Status, want), wit())
						}
					}
				}
			}
		}
	}
	if row.Faults[0] != "none" {
		run.Nontrivial(row.String())
	}
	if caseNo < 2 {
		run.Sample(map[string]any{"row": row.String(), "outcome": out, "events": evs})
	}
}

func c23Fate(e c23Ev, seen map[string]string) string {
	switch {
	case e.Kind == "empty":
		return "empty"
	case seen[e.ID] == "":
		return "unprocessed"
	}
	return seen[e.ID]
}

func c23Status(o c23Outcome) string {
	if o.HTTP != nil {
		return fmt.Sprintf("HTTP %d", o.HTTP.Status)
	}
	return "gRPC " + o.GRPC.Code.String()
}

func c23CT(row c23Row) string {
	if row.Enc == "json" {
		return "application/json"
	}
	return "application/protobuf"
}

func c23TIDBytes(e c23Ev) []byte { return e.tid }

// c23TraceIDString is the trace ID Refinery will see for the event.
func c23TraceIDString(row c23Row, e c23Ev) string {
	if strings.HasPrefix(row.Endpoint, "otlp") {
		return hex.EncodeToString(e.tid)
	}
	return string(e.tid)
}

func c23Malform(variant string, body []byte, rng *verifkit.Rand) []byte {
	switch variant {
	case "truncate-1":
		return body[:1]
	case "truncate-half":
		return body[:len(body)/2]
	case "truncate-last":
		return body[:len(body)-1]
	case "empty":
		return nil
	case "garbage":
		return []byte("\xc1\xff\x00garbage" + rng.Hex(10))
	case "trailing-garbage":
		return append(append([]byte(nil), body...), []byte("\xc1}]garbage")...)
	}
	return body
}

// c23IllTyped replaces the body of a non-batch request by a well-formed but ill-typed one.
func c23IllTyped(row c23Row, req *E3Req) {
	switch row.Endpoint + "/" + row.Enc + "/" + row.Variant {
	case "event/json/array":
		req.Body = []byte(`[{"a":1}]`)
	case "event/json/number":
		req.Body = []byte(`5`)
	case "event/json/string":
		req.Body = []byte(`"hello"`)
	case "event/json/null":
		req.Body = []byte(`null`)
	case "event/json/empty-object":
		req.Body = []byte(`{}`)
	case "event/msgpack/array":
		req.Body = e3AppendMsgpack(nil, VArr(VMap(KV("a", VInt(1)))))
	case "event/msgpack/string":
		req.Body = e3AppendMsgpack(nil, VStr("hello"))
	case "event/msgpack/nil":
		req.Body = e3AppendMsgpack(nil, VNil())
	case "event/msgpack/empty-map":
		req.Body = e3AppendMsgpack(nil, VMap())
	case "batch/json/object":
		req.Body = []byte(`{"time":"2020-09-13T12:26:40Z","data":{"a":1}}`)
	case "batch/msgpack/map":
		req.Body = e3AppendMsgpack(nil, VMap(KV("data", VMap(KV("a", VInt(1))))))
	case "otlp-traces/json/resourceSpans-number":
		req.Body = []byte(`{"resourceSpans":5}`)
	case "otlp-traces/json/scopeSpans-string":
		req.Body = []byte(`{"resourceSpans":[{"scopeSpans":"x"}]}`)
	}
	if row.Variant == "content-type-text-plain" {
		req.Set("Content-Type", "text/plain")
	}
}

// c23IllTypedBatch rewrites batch items; it returns the events that remain
// identifiable (the body is then no longer "well-formed", only R1/R3-counts/R4 apply).
func c23IllTypedBatch(row c23Row, items []E3BatchItem, evs []c23Ev) ([]E3BatchItem, []c23Ev) {
	k := len(items) / 2
	switch row.Variant {
	case "object", "map":
		// the caller replaces the whole body (c23IllTyped)
	case "element-number":
		items[k] = E3BatchItem{Raw: e3P(VInt(5))}
	case "data-string":
		items[k].Data = e3P(VStr("not a map"))
	case "time-number", "time-int":
		items[k].Time = e3P(VInt(1600000000))
	case "time-string":
		items[k].Time = e3P(VStr("2020-09-13T12:26:40Z"))
	case "samplerate-string":
		items[k].Rate = e3P(VStr("2"))
	case "data-missing":
		items[k].Data = nil
	case "nested-array":
		items[k].Data = e3P(VArr(VMap(KV("a", VInt(1)))))
	}
	return items, evs
}
