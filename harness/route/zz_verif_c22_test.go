//go:build verif

package route

import (
	"fmt"
	"math"
	"strings"
	"sync"
	"testing"
	"time"

	"github.com/honeycombio/refinery/internal/verifkit"
	"github.com/honeycombio/refinery/types"
)

// C22: event timestamps are preserved exactly.
//
// Oracle: an integer-arithmetic reference parser (c22RefParse) for the instant the
// client supplied: RFC3339 / RFC3339Nano text, 10/13/16/19-digit Unix epochs (first ten
// digits seconds, the rest a decimal fraction of a second), msgpack timestamp 32/64/96.
// Observation: Event.Timestamp of what the router hands to the collector / upstream
// transmission, and — for events that go upstream — the msgpack timestamp a real
// transmit.DirectTransmission puts on the wire to a fake Honeycomb.

// c22DaysFromCivil: days since 1970-01-01 of a proleptic Gregorian date (integer only).
func c22DaysFromCivil(y, m, d int64) int64 {
	if m <= 2 {
		y--
	}
	era := y / 400
	if y < 0 {
		era = (y - 399) / 400
	}
	yoe := y - era*400
	mp := (m + 9) % 12
	doy := (153*mp+2)/5 + d - 1
	doe := yoe*365 + yoe/4 - yoe/100 + doy
	return era*146097 + doe - 719468
}

func c22Digits(s string) (int64, bool) {
	if s == "" {
		return 0, false
	}
	var v int64
	for _, c := range s {
		if c < '0' || c > '9' {
			return 0, false
		}
		v = v*10 + int64(c-'0')
	}
	return v, true
}

// c22RefParse: the instant a client-supplied time string denotes, as (sec, nsec).
func c22RefParse(s string) (sec, nsec int64, ok bool) {
	if _, allDigits := c22Digits(s[:min(len(s), 10)]); allDigits && !strings.ContainsAny(s, "-:TZ+.") {
		if len(s) != 10 && len(s) != 13 && len(s) != 16 && len(s) != 19 {
			return 0, 0, false
		}
		sec, _ = c22Digits(s[:10])
		frac := s[10:]
		if frac != "" {
			f, ok := c22Digits(frac)
			if !ok {
				return 0, 0, false
			}
			for i := len(frac); i < 9; i++ {
				f *= 10
			}
			nsec = f
		}
		return sec, nsec, true
	}
	// YYYY-MM-DDTHH:MM:SS[.fffffffff](Z|±HH:MM)
	if len(s) < 20 || s[4] != '-' || s[7] != '-' || s[10] != 'T' || s[13] != ':' || s[16] != ':' {
		return 0, 0, false
	}
	num := func(a, b int) int64 { v, k := c22Digits(s[a:b]); ok = ok && k; return v }
	ok = true
	y, mo, d, h, mi, se := num(0, 4), num(5, 7), num(8, 10), num(11, 13), num(14, 16), num(17, 19)
	rest := s[19:]
	if strings.HasPrefix(rest, ".") {
		i := 1
		for i < len(rest) && rest[i] >= '0' && rest[i] <= '9' {
			i++
		}
		frac := rest[1:i]
		if len(frac) == 0 || len(frac) > 9 {
			return 0, 0, false
		}
		f, _ := c22Digits(frac)
		for k := len(frac); k < 9; k++ {
			f *= 10
		}
		nsec = f
		rest = rest[i:]
	}
	var off int64
	switch {
	case rest == "Z":
	case len(rest) == 6 && (rest[0] == '+' || rest[0] == '-') && rest[3] == ':':
		oh, k1 := c22Digits(rest[1:3])
		om, k2 := c22Digits(rest[4:6])
		ok = ok && k1 && k2
		off = oh*3600 + om*60
		if rest[0] == '-' {
			off = -off
		}
	default:
		return 0, 0, false
	}
	if !ok {
		return 0, 0, false
	}
	sec = c22DaysFromCivil(y, mo, d)*86400 + h*3600 + mi*60 + se - off
	return sec, nsec, true
}

var c22SecBoundaries = []int64{
	1_000_000_000, 1_000_000_001, 9_999_999_999, 9_999_999_998,
	1<<31 - 1, 1 << 31, 1<<32 - 1, 1 << 32, 1<<33 - 1, 1 << 33,
	9_223_372_036, 9_223_372_037, // around MaxInt64 nanoseconds
	1_535_589_382, 4_102_444_800,
}

func c22Sec(rng *verifkit.Rand, max int64) int64 {
	for {
		var s int64
		switch k := rng.Intn(10); {
		case k < 2:
			s = c22SecBoundaries[rng.Intn(len(c22SecBoundaries))]
		case k < 6:
			s = 1_500_000_000 + int64(rng.Intn(400_000_000))
		default:
			s = 1_000_000_000 + int64(rng.Uint64()%uint64(9_000_000_000))
		}
		if s <= max {
			return s
		}
	}
}

// c22Frac picks a fraction with `digits` decimal digits and returns it in nanoseconds.
func c22Frac(rng *verifkit.Rand, digits int) int64 {
	if digits == 0 {
		return 0
	}
	pow := int64(1)
	for i := 0; i < digits; i++ {
		pow *= 10
	}
	var f int64
	switch rng.Intn(8) {
	case 0:
		f = 0
	case 1:
		f = 1
	case 2:
		f = pow - 1
	case 3:
		f = pow / 2
	default:
		f = int64(rng.Uint64() % uint64(pow))
	}
	for i := digits; i < 9; i++ {
		f *= 10
	}
	return f
}

type c22Stamp struct {
	Format string `json:"format"` // rfc3339, rfc3339nano-<d>, epoch10/13/16/19, ts32/64/96
	Text   string `json:"text,omitempty"`
	Sec    int64  `json:"sec"`
	Nsec   int64  `json:"nsec"`
	val    E3Val
}

var c22Offsets = []int{0, 0, 0, 330, -480, 840, -720, 1, -1, 345}

// c22Text generates a textual stamp (header or batch JSON time).
func c22Text(t *testing.T, rng *verifkit.Rand) c22Stamp {
	var st c22Stamp
	switch k := rng.Intn(10); {
	case k < 2:
		st.Format = "rfc3339"
		st.Sec = c22Sec(rng, math.MaxInt64)
	case k < 4:
		d := rng.Range(1, 9)
		st.Format = fmt.Sprintf("rfc3339nano-%d", d)
		st.Sec, st.Nsec = c22Sec(rng, math.MaxInt64), c22Frac(rng, d)
	case k < 5:
		st.Format, st.Sec = "epoch10", c22Sec(rng, math.MaxInt64)
	case k < 7:
		st.Format, st.Sec, st.Nsec = "epoch13", c22Sec(rng, math.MaxInt64), c22Frac(rng, 3)
	case k < 9:
		st.Format, st.Sec, st.Nsec = "epoch16", c22Sec(rng, math.MaxInt64), c22Frac(rng, 6)
	default:
		st.Format, st.Sec, st.Nsec = "epoch19", c22Sec(rng, math.MaxInt64), c22Frac(rng, 9)
	}
	switch {
	case strings.HasPrefix(st.Format, "rfc3339"):
		off := c22Offsets[rng.Intn(len(c22Offsets))]
		if rng.Chance(0.15) {
			off = rng.Range(-14*60, 14*60)
		}
		layout := "2006-01-02T15:04:05"
		if d := strings.TrimPrefix(st.Format, "rfc3339nano-"); d != st.Format {
			var n int
			fmt.Sscan(d, &n)
			layout += "." + strings.Repeat("0", n)
		}
		if off == 0 && rng.Bool() {
			layout += "-07:00" // +00:00 spelled out
		} else {
			layout += "Z07:00"
		}
		st.Text = time.Unix(st.Sec, st.Nsec).In(time.FixedZone("", off*60)).Format(layout)
	case st.Format == "epoch10":
		st.Text = fmt.Sprintf("%010d", st.Sec)
	case st.Format == "epoch13":
		st.Text = fmt.Sprintf("%010d%03d", st.Sec, st.Nsec/1_000_000)
	case st.Format == "epoch16":
		st.Text = fmt.Sprintf("%010d%06d", st.Sec, st.Nsec/1_000)
	case st.Format == "epoch19":
		st.Text = fmt.Sprintf("%010d%09d", st.Sec, st.Nsec)
	}
	// harness self-check: the reference parser must read back what was generated
	rs, rn, ok := c22RefParse(st.Text)
	if !ok || rs != st.Sec || rn != st.Nsec {
		t.Fatalf("harness: reference parser reads %q as (%d,%d,%v), generated (%d,%d)", st.Text, rs, rn, ok, st.Sec, st.Nsec)
	}
	st.val = VStr(st.Text)
	return st
}

// c22Ext generates a msgpack timestamp.
func c22Ext(rng *verifkit.Rand) c22Stamp {
	switch rng.Intn(3) {
	case 0:
		s := c22Sec(rng, 1<<32-1)
		return c22Stamp{Format: "ts32", Sec: s, val: VTs32(s)}
	case 1:
		s, n := c22Sec(rng, 1<<34-1), c22Frac(rng, 9)
		return c22Stamp{Format: "ts64", Sec: s, Nsec: n, val: VTs64(s, n)}
	default:
		s, n := c22Sec(rng, math.MaxInt64), c22Frac(rng, 9)
		return c22Stamp{Format: "ts96", Sec: s, Nsec: n, val: VTs96(s, n)}
	}
}

func c22Judge(run *verifkit.Run, carrier string, st c22Stamp, got time.Time, wit map[string]any) bool {
	fracEpoch := st.Format == "epoch13" || st.Format == "epoch16" || st.Format == "epoch19"
	if fracEpoch {
		run.Count("epoch_events_with_fraction_digits", 1)
	}
	if got.Unix() == st.Sec && int64(got.Nanosecond()) == st.Nsec {
		return true
	}
	if fracEpoch {
		run.Count("epoch_events_with_fraction_digits_inexact", 1)
	}
	want := time.Unix(st.Sec, st.Nsec).UTC()
	diff := got.Sub(want)
	wit["supplied"], wit["carrier"] = st, carrier
	wit["want"], wit["got"] = want.Format(time.RFC3339Nano), got.UTC().Format(time.RFC3339Nano)
	wit["got_unix"], wit["got_nsec"], wit["diff_ns_saturating"] = got.Unix(), got.Nanosecond(), int64(diff)
	sig := "C22/" + carrier + "/" + strings.SplitN(st.Format, "-", 2)[0] + "/wrong-instant"
	if strings.HasPrefix(st.Format, "epoch") && st.Format != "epoch10" {
		switch {
		case st.Format == "epoch19" && (st.Sec > 9_223_372_036 || (st.Sec == 9_223_372_036 && st.Nsec > 854_775_807)):
			sig = "C22/epoch-time/19-digits-above-int64/misparsed"
		case diff > -2*time.Microsecond && diff < 2*time.Microsecond:
			sig = "C22/epoch-time/fractional-digits/float-rounding"
		}
	}
	run.Violation(sig, fmt.Sprintf("%s %s %q: forwarded %s, supplied %s", carrier, st.Format, st.Text, wit["got"], wit["want"]), wit)
	return false
}

func TestVerif_C22(t *testing.T) {
	run := verifkit.Start(t, "C22", "route")
	defer run.Finish()
	run.Rule("per case one request carrying 1-5 events whose instants are drawn from 2001-09-09..2286-11-20 (10-digit epoch seconds; boundaries 10^9, 10^10-1, 2^31, 2^32, 2^33, MaxInt64 ns, plus uniform and recent values) with fractions of 0/3/6/9 (epoch) or 1-9 (RFC3339Nano) digits biased to 0, 1, max, half; rendered as RFC3339 / RFC3339Nano with zone offsets, 10/13/16/19-digit epochs in X-Honeycomb-Event-Time (/1/events JSON+msgpack) or a /1/batch JSON `time` string, or msgpack timestamp 32/64/96 in a /1/batch msgpack `time` (40% of the batch requests also carry an unrelated X-Honeycomb-Event-Time header, which must not replace per-event times); events without trace ID additionally travel through a real DirectTransmission to a fake Honeycomb whose body is decoded independently; then a concurrent phase: per case 6-16 goroutines each post 2-4 JSON batches (1-8 events, padded to different lengths, RFC3339 and digit-epoch time strings, some gzip/zstd) to the same router at the same moment, each event judged against its own instant and a mismatch replayed alone; non-trivial = instant with a sub-second part or on a boundary, or a concurrent round; distinct = (carrier, format, boundary/fraction class)")
	run.Assume("Event.Timestamp handed to Collector.AddSpan / Transmission.EnqueueEvent is what Refinery forwards; the wire leg is checked for upstream events only")
	run.Assume("RFC3339 inputs use upper-case T/Z, no leap seconds, at most 9 fractional digits")

	b := e3New(t, E3Options{Wire: true, NoPeerRouter: true})
	defer b.Close()

	carriers := []string{"header-event-json", "header-event-msgpack", "batch-json-time", "batch-msgpack-time"}
	run.Cases("stamps", run.N(2500, 300000), func(i int, rng *verifkit.Rand) {
		carrier := carriers[i%len(carriers)]
		n := 1
		if strings.HasPrefix(carrier, "batch") {
			n = rng.Range(1, 5)
		}
		type ev struct {
			id       string
			st       c22Stamp
			upstream bool
		}
		var evs []ev
		var items []E3BatchItem
		var req *E3Req
		var err error
		for k := 0; k < n; k++ {
			e := ev{id: fmt.Sprintf("c22-%d-%d", i, k), upstream: rng.Bool()}
			if carrier == "batch-msgpack-time" {
				e.st = c22Ext(rng)
			} else {
				e.st = c22Text(t, rng)
			}
			data := []E3KV{KV("verif.id", VStr(e.id)), KV("n", VInt(int64(k)))}
			if !e.upstream {
				data = append(data, KV("trace.trace_id", VStr("t-"+e.id)))
			}
			verifkit.Shuffle(rng, data)
			evs = append(evs, e)
			switch carrier {
			case "header-event-json":
				req, err = e3EventReq(E3Incoming, E3JSON, "c22", E3KeyLegacy, VMap(data...), 1, e.st.Text)
			case "header-event-msgpack":
				req, err = e3EventReq(E3Incoming, E3Msgpack, "c22", E3KeyLegacy, VMap(data...), 1, e.st.Text)
			default:
				it := E3BatchItem{Time: e3P(e.st.val), Rate: e3P(VInt(1)), Data: e3P(VMap(data...))}
				if rng.Chance(0.3) {
					it.Order = []string{"data", "samplerate", "time"}
				}
				items = append(items, it)
			}
		}
		switch carrier {
		case "batch-json-time":
			req, err = e3BatchReq(E3Incoming, E3JSON, "c22", E3KeyLegacy, items)
		case "batch-msgpack-time":
			req, err = e3BatchReq(E3Incoming, E3Msgpack, "c22", E3KeyLegacy, items)
		}
		if err != nil {
			t.Fatalf("harness: encode: %v", err)
		}
		if strings.HasPrefix(carrier, "batch") && rng.Chance(0.4) {
			// a client or proxy that stamps X-Honeycomb-Event-Time on every request: the
			// header is only meaningful for /1/events; each batch event carries its own
			// time, which is what must be forwarded
			req.Set(types.TimestampHeader, c22Text(t, rng.Fork("hdr")).Text)
			run.Count("batch_requests_with_event_time_header", 1)
		}
		b.Log.Reset()
		resp := b.Serve(req)
		byID := b.Log.ByID()
		nUp := 0
		for _, e := range evs {
			if e.upstream {
				nUp++
			}
		}
		wireByID := map[string]E3WireEvent{}
		if nUp > 0 {
			if !b.Wire.Await(nUp, 20*time.Second) {
				run.Inconclusive(fmt.Sprintf("case %d: fake Honeycomb did not receive %d events within the bound", i, nUp))
			}
			for _, we := range b.Wire.Take() {
				wireByID[we.ID] = we
			}
		}
		for _, e := range evs {
			obs := byID[e.id]
			if len(obs) != 1 {
				run.Inconclusive(fmt.Sprintf("case %d: event %s observed %d times (status %d body %q): timestamp cannot be judged", i, e.id, len(obs), resp.Status, resp.Body))
				continue
			}
			run.Count("events_judged", 1)
			wit := map[string]any{"request": req.Witness(), "response": resp, "observed_at": obs[0].Where}
			c22Judge(run, carrier, e.st, obs[0].Ev.Timestamp, wit)
			if e.upstream {
				we, ok := wireByID[e.id]
				switch {
				case !ok:
					run.Count("wire_events_missing", 1)
				case we.Time.Kind != KTime:
					run.Violation("C22/wire-encoding/time-not-a-msgpack-timestamp", fmt.Sprintf("batch sent upstream carries time=%s", we.Time), map[string]any{"wire_event": we, "supplied": e.st})
				default:
					run.Count("wire_events_judged", 1)
					ts := obs[0].Ev.Timestamp
					if we.Time.Sec != ts.Unix() || we.Time.Nsec != int64(ts.Nanosecond()) {
						run.Violation("C22/wire-encoding/ts"+fmt.Sprint(we.Time.Width)+"/differs-from-event-timestamp",
							fmt.Sprintf("transmission was handed %s but put (%d s, %d ns) on the wire", ts.UTC().Format(time.RFC3339Nano), we.Time.Sec, we.Time.Nsec),
							map[string]any{"wire_event": we, "supplied": e.st, "event_timestamp_unix": ts.Unix(), "event_timestamp_nsec": ts.Nanosecond()})
					}
				}
			}
			boundary := "mid"
			for _, bs := range c22SecBoundaries {
				if e.st.Sec == bs {
					boundary = fmt.Sprint(bs)
				}
			}
			fracClass := "frac"
			switch {
			case e.st.Nsec == 0:
				fracClass = "zero"
			case e.st.Nsec%1_000_000 == 0:
				fracClass = "ms"
			case e.st.Nsec%1_000 == 0:
				fracClass = "us"
			}
			if e.st.Nsec != 0 || boundary != "mid" {
				run.Nontrivial(strings.Join([]string{carrier, e.st.Format, boundary, fracClass, fmt.Sprint(e.upstream)}, "|"))
			}
		}
		if i < 4 {
			run.Sample(map[string]any{"carrier": carrier, "stamps": func() []c22Stamp {
				var s []c22Stamp
				for _, e := range evs {
					s = append(s, e.st)
				}
				return s
			}()})
		}
	})

	c22Concurrent(t, run, b)
}

// c22Concurrent: overlapping JSON /1/batch requests on the same router. Every event is
// still compared with ITS OWN supplied instant (unique ids), so the verdict is logical:
// anything a request leaves behind in state shared between requests (pooled parsers,
// pooled body buffers) and another request reads back shows up as a wrong instant. A
// mismatching event is replayed alone; only if the lone replay is exact is the
// violation attributed to concurrency.
func c22Concurrent(t *testing.T, run *verifkit.Run, b *E3Bench) {
	type cev struct {
		id string
		st c22Stamp
	}
	type creq struct {
		req *E3Req
		evs []cev
	}
	run.Cases("concurrent", run.N(120, 4000), func(i int, rng *verifkit.Rand) {
		workers := rng.Range(6, 16)
		perWorker := rng.Range(2, 4)
		plan := make([][]creq, workers)
		all := map[string]cev{}
		reqOf := map[string]*E3Req{}
		for w := 0; w < workers; w++ {
			for q := 0; q < perWorker; q++ {
				var items []E3BatchItem
				var cr creq
				for k, n := 0, rng.Range(1, 8); k < n; k++ {
					e := cev{id: fmt.Sprintf("c22c-%d-%d-%d-%d", i, w, q, k), st: c22Text(t, rng)}
					data := []E3KV{KV("verif.id", VStr(e.id)), KV("trace.trace_id", VStr("t-"+e.id)),
						KV("pad", VStr(strings.Repeat(verifkit.Pick(rng, "x", "9", "-", "Z"), rng.Intn(300))))}
					verifkit.Shuffle(rng, data)
					it := E3BatchItem{Time: e3P(e.st.val), Rate: e3P(VInt(1)), Data: e3P(VMap(data...))}
					if rng.Chance(0.4) {
						it.Order = []string{"data", "time", "samplerate"}
					}
					items = append(items, it)
					cr.evs = append(cr.evs, e)
					all[e.id] = e
				}
				req, err := e3BatchReq(E3Incoming, E3JSON, "c22", E3KeyLegacy, items)
				if err != nil {
					t.Fatalf("harness: encode: %v", err)
				}
				switch rng.Intn(6) {
				case 0:
					req.Gzip()
				case 1:
					req.Zstd()
				}
				cr.req = req
				for _, e := range cr.evs {
					reqOf[e.id] = req
				}
				plan[w] = append(plan[w], cr)
			}
		}
		b.Log.Reset()
		start := make(chan struct{})
		var wg sync.WaitGroup
		for w := 0; w < workers; w++ {
			wg.Add(1)
			go func(rs []creq) {
				defer wg.Done()
				<-start
				for _, r := range rs {
					b.Serve(r.req)
				}
			}(plan[w])
		}
		close(start)
		wg.Wait()
		run.Count("concurrent_requests", int64(workers*perWorker))
		byID := b.Log.ByID()
		for id, e := range all {
			obs := byID[id]
			if len(obs) != 1 {
				run.Inconclusive(fmt.Sprintf("concurrent case %d: event %s observed %d times: timestamp cannot be judged", i, id, len(obs)))
				continue
			}
			run.Count("concurrent_events_judged", 1)
			got := obs[0].Ev.Timestamp
			if got.Unix() == e.st.Sec && int64(got.Nanosecond()) == e.st.Nsec {
				continue
			}
			// replay the event's request alone
			b.Log.Reset()
			b.Serve(reqOf[id])
			alone := b.Log.ByID()[id]
			wit := map[string]any{"request": reqOf[id].Witness(), "workers": workers, "requests_per_worker": perWorker, "observed_at": obs[0].Where}
			if len(alone) == 1 && (alone[0].Ev.Timestamp.Unix() != e.st.Sec || int64(alone[0].Ev.Timestamp.Nanosecond()) != e.st.Nsec) {
				c22Judge(run, "batch-json-time", e.st, got, wit) // wrong even without concurrency
				continue
			}
			want := time.Unix(e.st.Sec, e.st.Nsec).UTC()
			wit["supplied"], wit["want"], wit["got"] = e.st, want.Format(time.RFC3339Nano), got.UTC().Format(time.RFC3339Nano)
			wit["exact_when_replayed_alone"] = len(alone) == 1
			run.Violation("C22/batch-json-time/concurrent-requests/wrong-instant",
				fmt.Sprintf("with %d overlapping JSON batch requests event time %q was forwarded as %s (supplied %s); the same request alone is exact",
					workers, e.st.Text, wit["got"], wit["want"]), wit)
		}
		run.Nontrivial(fmt.Sprintf("concurrent|%d|%d", workers, perWorker))
	})
}
