//go:build verif

package route

import (
	"encoding/json"
	"fmt"
	"net/http"
	"net/http/httptest"
	"runtime"
	"sync/atomic"
	"testing"
	"time"

	"github.com/honeycombio/refinery/internal/health"
	"github.com/honeycombio/refinery/internal/verifkit"
	"github.com/honeycombio/refinery/logger"
	"github.com/honeycombio/refinery/metrics"
	"github.com/jonboulle/clockwork"
)

// C30 (second unit): the /alive and /ready handlers answer what the Health object
// says. A real health.Health on a FakeClock is driven through short histories; after
// every step both handlers are invoked and their status code and JSON body are
// compared with IsAlive()/IsReady() read at the same quiescent point. The bounds
// themselves are checked in-package by the unit in internal/health.

// ---- adapter ----------------------------------------------------------------

func c30router(h health.Reporter) *Router {
	return &Router{
		Health:    h,
		Metrics:   &metrics.NullMetrics{},
		iopLogger: iopLogger{Logger: &logger.NullLogger{}, incomingOrPeer: "incoming"},
	}
}

func c30alive(r *Router, w http.ResponseWriter, req *http.Request) { r.alive(w, req) }
func c30ready(r *Router, w http.ResponseWriter, req *http.Request) { r.ready(w, req) }

// ---- fake clock that lets the driver wait for the ticker goroutine ------------

type c30rclock struct {
	*clockwork.FakeClock
	tk atomic.Pointer[c30rticker]
}

type c30rticker struct {
	clockwork.Ticker
	period  time.Duration
	next    time.Time
	entries atomic.Int64
}

func (c *c30rclock) NewTicker(d time.Duration) clockwork.Ticker {
	t := &c30rticker{Ticker: c.FakeClock.NewTicker(d), period: d, next: c.FakeClock.Now().Add(d)}
	c.tk.Store(t)
	return t
}

func (t *c30rticker) Chan() <-chan time.Time {
	t.entries.Add(1)
	return t.Ticker.Chan()
}

func c30rwait(cond func() bool) bool {
	deadline := time.Now().Add(20 * time.Second)
	for i := 0; !cond(); i++ {
		if i < 200 {
			runtime.Gosched()
			continue
		}
		time.Sleep(10 * time.Microsecond)
		if i%1000 == 0 && time.Now().After(deadline) {
			return false
		}
	}
	return true
}

func (c *c30rclock) advance(d time.Duration) bool {
	t := c.tk.Load()
	end := c.FakeClock.Now().Add(d)
	want := int64(-1)
	if !t.next.After(end) {
		want = t.entries.Load() + 1
		t.next = t.next.Add(t.period)
	}
	c.FakeClock.Advance(d)
	return want < 0 || c30rwait(func() bool { return t.entries.Load() >= want })
}

func TestVerif_C30_route(t *testing.T) {
	run := verifkit.Start(t, "C30", "route")
	defer run.Finish()
	run.Rule("short PRNG histories (Register/Unregister/Ready/advance <= one tick) on a real health.Health behind the real Router.alive and Router.ready handlers; non-trivial = the history produced both answers of both endpoints; distinct = sequence of (alive, ready) answers")
	run.Assume("the handlers are invoked directly (no mux, no middleware)")
	run.Cases("handlers", run.N(200, 20000), func(i int, rng *verifkit.Rand) {
		clock := &c30rclock{FakeClock: clockwork.NewFakeClock()}
		h := &health.Health{Clock: clock}
		if err := h.Start(); err != nil {
			run.Inconclusive("Health.Start: " + err.Error())
			return
		}
		defer h.Stop()
		if !c30rwait(func() bool { t := clock.tk.Load(); return t != nil && t.entries.Load() >= 1 }) {
			run.Inconclusive("health ticker goroutine did not start")
			return
		}
		r := c30router(h)
		names := []string{"a", "b"}
		var hist []string
		seen := map[string]bool{}
		answers := ""
		steps := rng.Range(6, 30)
		for s := 0; s < steps; s++ {
			n := names[rng.Intn(len(names))]
			switch rng.Intn(6) {
			case 0:
				to := verifkit.Pick(rng, 500*time.Millisecond, time.Second, 2*time.Second)
				h.Register(n, to)
				hist = append(hist, fmt.Sprintf("Register(%s,%v)", n, to))
			case 1:
				if rng.Chance(0.3) {
					h.Unregister(n)
					hist = append(hist, "Unregister("+n+")")
				}
			case 2, 3:
				f := rng.Chance(0.8)
				h.Ready(n, f)
				hist = append(hist, fmt.Sprintf("Ready(%s,%v)", n, f))
			default:
				for k := rng.Range(1, 4); k > 0; k-- {
					if !clock.advance(health.TickerTime) {
						run.Inconclusive("health ticker goroutine did not come back to its select")
						return
					}
				}
				hist = append(hist, "advance")
			}
			for _, ep := range []string{"alive", "ready"} {
				var want bool
				rec := httptest.NewRecorder()
				req := httptest.NewRequest("GET", "/"+ep, nil)
				if ep == "alive" {
					want = h.IsAlive()
					c30alive(r, rec, req)
				} else {
					want = h.IsReady()
					c30ready(r, rec, req)
				}
				var body map[string]any
				_ = json.Unmarshal(rec.Body.Bytes(), &body)
				wantCode, wantWord := http.StatusOK, "yes"
				if !want {
					wantCode, wantWord = http.StatusServiceUnavailable, "no"
				}
				seen[fmt.Sprint(ep, want)] = true
				if want {
					answers += "1"
				} else {
					answers += "0"
				}
				run.Count("handler_calls", 1)
				if rec.Code != wantCode || body[ep] != wantWord {
					run.Violation("C30/route/"+ep+"-response-differs-from-health",
						fmt.Sprintf("/%s answered %d %s while Health says %v", ep, rec.Code, rec.Body.String(), want),
						map[string]any{"history": hist})
				}
			}
		}
		if len(seen) == 4 {
			run.Nontrivial(answers)
		}
		if i < 1 {
			run.Sample(map[string]any{"unit": "route", "history": hist, "answers_alive_ready": answers})
		}
	})
}
