//go:build verif

package route

import (
	"bufio"
	"bytes"
	"context"
	"crypto/sha256"
	"encoding/base64"
	"fmt"
	"io"
	"net"
	"net/http"
	"net/http/httptest"
	"net/url"
	"sort"
	"strings"
	"sync"
	"sync/atomic"
	"syscall"
	"testing"
	"time"

	"github.com/honeycombio/refinery/config"
	"github.com/honeycombio/refinery/internal/verifkit"
)

// C37: unhandled paths are proxied to Honeycomb faithfully.
//
// Generated requests (method, request-target, header lines with odd casing and repeated
// names, body with Content-Length or chunked) travel as raw bytes over a real loopback
// connection to an http.Server serving the REAL mux of the incoming or the peer router;
// Config.HoneycombAPI points at a scripted fake Honeycomb (httptest server) that records
// exactly what it received and answers with the generated response (status, header lines
// with repeated names, binary body, optionally flushed in pieces).
//
// Oracle:
//   P1  the fake Honeycomb saw exactly one request (no retry, no followed redirect, and
//       no request that was answered locally); exception: a path that is not in
//       canonical form (//, /./, /../) may instead be answered by the mux's own 3xx
//       redirect to the cleaned path without contacting Honeycomb
//   P2  same method; same request-target (path and query byte for byte, modulo
//       percent-encoding of bytes that may not appear raw in a URI); same body bytes
//   P3  every header the client sent arrives with the same list of values, in order;
//       nothing else arrives except X-Forwarded-For and what the HTTP transport manages
//       (Host, Content-Length, Transfer-Encoding, Connection, and User-Agent /
//       Accept-Encoding defaults when the client sent none)
//   P4  X-Forwarded-For at Honeycomb = the hops the client sent, in order, followed by
//       the client's address
//   P5  the client sees the upstream status and body bytes
//   P6  every header Honeycomb sent arrives at the client with the same list of values,
//       in order; nothing else arrives except the headers Refinery documents/sets on
//       every response (Access-Control-Allow-Origin; Content-Type only when Honeycomb sent
//       none) and what the HTTP server manages (Date, Content-Length, Transfer-Encoding,
//       Connection)

type c37H struct {
	Name  string `json:"name"`
	Value string `json:"value"`
}

type c37Script struct {
	Status        int    `json:"status"`
	Headers       []c37H `json:"headers"`
	Body          []byte `json:"-"`
	BodyB64       string `json:"body_base64"`
	Pieces        int    `json:"flushed_pieces"` // >1: body written in pieces with Flush (chunked)
	NoContentType bool   `json:"no_content_type"`
}

type c37Seen struct {
	Method     string      `json:"method"`
	RequestURI string      `json:"request_uri"`
	Host       string      `json:"host"`
	Header     http.Header `json:"header"`
	BodyB64    string      `json:"body_base64"`
	body       []byte
}

// c37Upstream is the scripted fake Honeycomb.
type c37Upstream struct {
	srv    *httptest.Server
	mu     sync.Mutex
	script *c37Script
	seen   []c37Seen
}

func c37NewUpstream() *c37Upstream {
	u := &c37Upstream{}
	u.srv = httptest.NewServer(http.HandlerFunc(u.serve))
	return u
}

func (u *c37Upstream) arm(s *c37Script) {
	u.mu.Lock()
	u.script, u.seen = s, nil
	u.mu.Unlock()
}

func (u *c37Upstream) taken() []c37Seen {
	u.mu.Lock()
	defer u.mu.Unlock()
	return append([]c37Seen(nil), u.seen...)
}

func (u *c37Upstream) serve(w http.ResponseWriter, r *http.Request) {
	body, err := io.ReadAll(r.Body)
	if err != nil {
		return // only requests that were READ completely count as seen
	}
	u.mu.Lock()
	u.seen = append(u.seen, c37Seen{Method: r.Method, RequestURI: r.RequestURI, Host: r.Host, Header: r.Header.Clone(),
		BodyB64: c37Trim(body), body: body})
	n, s := len(u.seen), u.script
	u.mu.Unlock()
	if n > 1 || s == nil {
		// a second request of the same case: a followed redirect or a retry
		w.Header().Set("Content-Type", "text/plain")
		w.WriteHeader(200)
		io.WriteString(w, "c37-second-request-answer")
		return
	}
	h := w.Header()
	for _, kv := range s.Headers {
		h[kv.Name] = append(h[kv.Name], kv.Value) // names written as given, values as a list
	}
	if s.NoContentType {
		h["Content-Type"] = nil // suppress sniffing
	}
	w.WriteHeader(s.Status)
	if r.Method == "HEAD" || len(s.Body) == 0 {
		return
	}
	if s.Pieces <= 1 {
		w.Write(s.Body)
		return
	}
	step := (len(s.Body) + s.Pieces - 1) / s.Pieces
	for off := 0; off < len(s.Body); off += step {
		end := min(off+step, len(s.Body))
		w.Write(s.Body[off:end])
		if f, ok := w.(http.Flusher); ok {
			f.Flush()
		}
	}
}

type c37Req struct {
	Listener  string `json:"listener"`
	Method    string `json:"method"`
	Target    string `json:"request_target"`
	PathClass string `json:"path_class"`
	Headers   []c37H `json:"header_lines"` // as written on the wire, in order
	Body      []byte `json:"-"`
	BodyB64   string `json:"body_base64"`
	Chunked   bool   `json:"chunked"`
}

func (r *c37Req) raw() []byte {
	var b bytes.Buffer
	fmt.Fprintf(&b, "%s %s HTTP/1.1\r\nHost: refinery.verif.invalid\r\n", r.Method, r.Target)
	for _, h := range r.Headers {
		fmt.Fprintf(&b, "%s: %s\r\n", h.Name, h.Value)
	}
	switch {
	case r.Chunked:
		b.WriteString("Transfer-Encoding: chunked\r\n\r\n")
		body := r.Body
		for len(body) > 0 {
			n := min(len(body), 1+len(body)/3)
			fmt.Fprintf(&b, "%x\r\n", n)
			b.Write(body[:n])
			b.WriteString("\r\n")
			body = body[n:]
		}
		b.WriteString("0\r\n\r\n")
	case len(r.Body) > 0 || r.Method == "POST" || r.Method == "PUT" || r.Method == "PATCH":
		fmt.Fprintf(&b, "Content-Length: %d\r\n\r\n", len(r.Body))
		b.Write(r.Body)
	default:
		b.WriteString("\r\n")
	}
	return b.Bytes()
}

type c37Got struct {
	Status     int         `json:"status"`
	Header     http.Header `json:"header"`
	BodyB64    string      `json:"body_base64"`
	ClientAddr string      `json:"client_addr"`
	body       []byte
}

// c37Do sends raw over a fresh connection (kept open until the whole response has been
// read: a half-closed connection would cancel the request context in net/http).
func c37Do(addr string, raw []byte, method string) (*c37Got, error) {
	conn, err := net.DialTimeout("tcp", addr, 5*time.Second)
	if err != nil {
		return nil, err
	}
	defer conn.Close()
	conn.SetDeadline(time.Now().Add(40 * time.Second))
	if _, err := conn.Write(raw); err != nil {
		return nil, err
	}
	resp, err := http.ReadResponse(bufio.NewReader(conn), &http.Request{Method: method})
	if err != nil {
		return nil, err
	}
	defer resp.Body.Close()
	body, err := io.ReadAll(resp.Body)
	if err != nil {
		return nil, fmt.Errorf("reading response body: %w", err)
	}
	return &c37Got{Status: resp.StatusCode, Header: resp.Header, BodyB64: c37Trim(body), body: body,
		ClientAddr: conn.LocalAddr().String()}, nil
}

// ---- generators ----

func c37OddCase(rng *verifkit.Rand, s string) string {
	switch rng.Intn(4) {
	case 0:
		return strings.ToLower(s)
	case 1:
		return strings.ToUpper(s)
	case 2:
		b := []byte(s)
		for i := range b {
			if rng.Bool() {
				b[i] = []byte(strings.ToUpper(string(b[i])))[0]
			} else {
				b[i] = []byte(strings.ToLower(string(b[i])))[0]
			}
		}
		return string(b)
	}
	return s
}

const c37ValueChars = "abcdefghijklmnopqrstuvwxyzABCDEFGHIJKLMNOPQRSTUVWXYZ0123456789-._~!$&'()*+;=:@/?#[]<>{}|^`\"\\%"

// c37Value makes a header value: visible ASCII, inner spaces and commas allowed, no
// leading/trailing whitespace (a parser would trim it).
func c37Value(rng *verifkit.Rand) string {
	switch rng.Intn(8) {
	case 0:
		return ""
	case 1:
		return "a, b" // one value that contains a comma
	case 2:
		return "\"quoted, with comma\"; q=0.5"
	}
	n := rng.Range(1, 24)
	b := make([]byte, n)
	for i := range b {
		switch {
		case i > 0 && i < n-1 && rng.Chance(0.08):
			b[i] = ' '
		case i > 0 && i < n-1 && rng.Chance(0.06):
			b[i] = ','
		default:
			b[i] = c37ValueChars[rng.Intn(len(c37ValueChars))]
		}
	}
	return string(b)
}

func c37Random(rng *verifkit.Rand, n int) []byte {
	b := make([]byte, n)
	for i := 0; i < n; i += 8 {
		v := rng.Uint64()
		for k := 0; k < 8 && i+k < n; k++ {
			b[i+k] = byte(v >> (8 * k))
		}
	}
	return b
}

// c37Trim renders body bytes for a witness: short ones in full, long ones as length,
// SHA-256 and a prefix.
func c37Trim(body []byte) string {
	if len(body) <= 4096 {
		return base64.StdEncoding.EncodeToString(body)
	}
	return fmt.Sprintf("(%d bytes, sha256 %x) %s…", len(body), sha256.Sum256(body), base64.StdEncoding.EncodeToString(body[:192]))
}

func c37Body(rng *verifkit.Rand, thorough bool) []byte {
	switch rng.Intn(7) {
	case 0:
		return nil
	case 1:
		return []byte(`{"message":"deploy ` + rng.Hex(6) + `","type":"deploy"}`)
	case 2: // every byte value
		b := make([]byte, 256)
		for i := range b {
			b[i] = byte(i)
		}
		return b
	case 3: // looks like gzip, is not
		return append([]byte{0x1f, 0x8b, 0x08, 0x00}, []byte(rng.Hex(40))...)
	case 4:
		n := rng.Range(20_000, 200_000)
		if thorough && rng.Chance(0.2) {
			n = rng.Range(1_000_000, 3_000_000)
		}
		b := make([]byte, n)
		for i := 0; i < n; i += 8 {
			v := rng.Uint64()
			for k := 0; k < 8 && i+k < n; k++ {
				b[i+k] = byte(v >> (8 * k))
			}
		}
		return b
	}
	n := rng.Range(1, 300)
	b := make([]byte, n)
	for i := range b {
		b[i] = byte(rng.Intn(256))
	}
	return b
}

// c37OwnRoute reports whether Refinery answers method+path itself (LnS route table).
func c37OwnRoute(method, decodedPath string) bool {
	switch decodedPath {
	case "/alive", "/ready", "/panic", "/version":
		return true
	}
	if strings.HasPrefix(decodedPath, "/query/") || decodedPath == "/query" {
		return true // GET is Refinery's; keep the generator away from the prefix altogether
	}
	if method == "POST" {
		switch decodedPath {
		case "/v1/traces", "/v1/traces/", "/v1/logs", "/v1/logs/":
			return true
		}
		for _, p := range []string{"/1/events/", "/1/batch/"} {
			if rest, ok := strings.CutPrefix(decodedPath, p); ok && rest != "" && !strings.Contains(rest, "/") {
				return true
			}
		}
	}
	return false
}

func c37Segment(rng *verifkit.Rand, class string) string {
	plain := verifkit.Pick(rng, "markers", "auth", "team_slug", "datasets", "columns", "boards", "triggers", "slos", "query_results", "kinesis_events", "my-dataset", "prod.api", "x"+rng.Hex(4))
	switch class {
	case "escaped":
		return plain + verifkit.Pick(rng, "%20", "%2F", "%2f", "%25", "%3F", "%23", "%C3%A9", "%c3%a9", "%7E", "%2B", "%3a", "%00") + rng.Hex(2)
	case "punct":
		return plain + verifkit.Pick(rng, "~", "!", "$", "&", "'", "(", ")", "*", "+", ",", ";", "=", ":", "@", "-", ".", "_") + rng.Hex(2)
	}
	return plain
}

// c37Target generates the request-target; it returns the target, its class and the
// target Honeycomb is expected to see.
func c37Target(rng *verifkit.Rand, method string) (target, class, want string) {
	for {
		class = verifkit.Pick(rng, "api", "api", "api", "escaped", "escaped", "punct", "lookalike", "root", "trailing-slash", "unclean", "absolute-form")
		var path string
		switch class {
		case "root":
			path = "/"
		case "lookalike": // next to Refinery's own routes
			path = verifkit.Pick(rng, "/1/events", "/1/events/", "/1/events/ds/extra", "/1/batch", "/1/batchx/ds", "/1/eventsx/ds", "/v1/metrics", "/v1/traces/x", "/v1/logsx",
				"/alive/", "/aliveness", "/ready/x", "/versions", "/v1", "/1", "/1/", "/queryx", "/1/events/ds", "/1/batch/ds", "/v1/traces", "/v1/logs")
		case "unclean":
			path = verifkit.Pick(rng, "//1/markers/ds", "/1//markers/ds", "/1/markers/./ds", "/1/markers/../auth", "/1/markers/ds/.", "/1/markers/ds//", "/./1/auth")
		default:
			n := rng.Range(1, 4)
			path = "/" + verifkit.Pick(rng, "1", "1", "2", "v1", "api")
			for k := 0; k < n; k++ {
				sc := "api"
				if class == "escaped" || class == "punct" {
					sc = verifkit.Pick(rng, class, "api")
					if k == n-1 {
						sc = class
					}
				}
				path += "/" + c37Segment(rng, sc)
			}
			if class == "trailing-slash" {
				path += "/"
			}
		}
		dec, err := url.PathUnescape(path)
		if err != nil || c37OwnRoute(method, dec) {
			continue
		}
		query := ""
		switch rng.Intn(6) {
		case 0:
			query = "?"
		case 1:
			query = "?a=1&b=two&a=3"
		case 2:
			query = "?q=%20x%2By&empty=&novalue&sp=a+b"
		case 3:
			query = "?weird=" + verifkit.Pick(rng, "%", "%zz", "a;b", "\"q\"", "a=b=c", "%26%3D", "<x>", "{y}|^`") + "&z=" + rng.Hex(3)
		}
		want = path + query
		target = want
		if class == "absolute-form" {
			target = "http://refinery.verif.invalid" + want
		}
		return target, class, want
	}
}

var c37ReqHeaderNames = []string{"X-Honeycomb-Team", "X-Honeycomb-Dataset", "Authorization", "Accept", "Accept-Language", "Cookie", "Cache-Control", "If-None-Match",
	"Via", "Content-Type", "Content-Encoding", "X-Request-Id", "X-Custom-Thing", "X_Under_Score", "X.Dot.Name", "Forwarded", "Pragma", "Range", "Origin", "Referer"}

var c37RespHeaderNames = []string{"Set-Cookie", "Vary", "Link", "Www-Authenticate", "Cache-Control", "Etag", "Location", "Retry-After", "Content-Disposition",
	"X-Honeycomb-Trace", "Ratelimit", "Ratelimit-Policy", "x-odd-CASE-header", "X_Under_Score", "Access-Control-Allow-Origin", "Access-Control-Expose-Headers", "Access-Control-Allow-Methods", "Access-Control-Allow-Headers", "Access-Control-Max-Age", "Content-Language", "Warning"}

// transport-managed / hop-by-hop names the oracle does not compare
var c37ReqManaged = map[string]bool{"Host": true, "Content-Length": true, "Transfer-Encoding": true, "Connection": true, "X-Forwarded-For": true}
var c37RespManaged = map[string]bool{"Date": true, "Content-Length": true, "Transfer-Encoding": true, "Connection": true}

func c37Lists(hs []c37H) http.Header {
	out := http.Header{}
	for _, h := range hs {
		k := http.CanonicalHeaderKey(h.Name)
		out[k] = append(out[k], h.Value)
	}
	return out
}

func c37EqualLists(a, b []string) bool {
	if len(a) != len(b) {
		return false
	}
	for i := range a {
		if a[i] != b[i] {
			return false
		}
	}
	return true
}

// c37IsJoin: got is want's values joined into one value with a comma (optionally
// followed by a space).
func c37IsJoin(want, got []string) bool {
	return len(want) > 1 && len(got) == 1 && (got[0] == strings.Join(want, ",") || got[0] == strings.Join(want, ", "))
}

// c37NormTarget percent-encodes bytes that may not appear raw in a URI (RFC 3986) so
// that `"` and %22 compare equal, but %2F and / do not.
func c37NormTarget(s string) string {
	const allowed = "abcdefghijklmnopqrstuvwxyzABCDEFGHIJKLMNOPQRSTUVWXYZ0123456789-._~:/?#[]@!$&'()*+,;=%"
	var b strings.Builder
	for i := 0; i < len(s); i++ {
		if strings.IndexByte(allowed, s[i]) >= 0 {
			b.WriteByte(s[i])
		} else {
			fmt.Fprintf(&b, "%%%02X", s[i])
		}
	}
	return b.String()
}

func c37SplitHops(vals []string) []string {
	var out []string
	for _, v := range vals {
		for _, p := range strings.Split(v, ",") {
			if p = strings.TrimSpace(p); p != "" {
				out = append(out, p)
			}
		}
	}
	return out
}

// c37Lane is where an exchange runs: which fake Honeycomb, which front servers, and how
// the signature is qualified.
type c37Lane struct {
	up       *c37Upstream
	fronts   map[string]*httptest.Server
	listener string // "" = PRNG's choice
	phase    string // "" for the plain pass
	withBody bool   // POST/PUT/PATCH with a non-empty body
	bodySize int    // >0: POST/PUT/PATCH with a random body of exactly this size
}

func (l *c37Lane) sig(s string) string {
	if l.phase == "" {
		return s
	}
	return "C37/" + l.phase + "/" + strings.TrimPrefix(s, "C37/")
}

// c37StaleDialer is a DialContext for the proxy's transport whose connections can be
// made stale: the next Write of a stale connection fails with nothing written.
type c37StaleDialer struct {
	mu    sync.Mutex
	conns map[*c37Conn]bool
	hits  atomic.Int64
}

type c37Conn struct {
	net.Conn
	d        *c37StaleDialer
	stale    atomic.Bool
	lastUsed atomic.Int64 // hits counter of writes+reads, to see the connection go quiet
}

func (d *c37StaleDialer) dial(ctx context.Context, network, addr string) (net.Conn, error) {
	var nd net.Dialer
	c, err := nd.DialContext(ctx, network, addr)
	if err != nil {
		return nil, err
	}
	w := &c37Conn{Conn: c, d: d}
	d.mu.Lock()
	if d.conns == nil {
		d.conns = map[*c37Conn]bool{}
	}
	d.conns[w] = true
	d.mu.Unlock()
	return w, nil
}

func (c *c37Conn) Write(p []byte) (int, error) {
	if c.stale.Load() {
		c.d.hits.Add(1)
		return 0, syscall.EPIPE
	}
	c.lastUsed.Add(1)
	return c.Conn.Write(p)
}

func (c *c37Conn) Read(p []byte) (int, error) {
	n, err := c.Conn.Read(p)
	c.lastUsed.Add(1)
	return n, err
}

func (c *c37Conn) Close() error {
	c.d.mu.Lock()
	delete(c.d.conns, c)
	c.d.mu.Unlock()
	return c.Conn.Close()
}

func (d *c37StaleDialer) open() int {
	d.mu.Lock()
	defer d.mu.Unlock()
	return len(d.conns)
}

// quiet: no connection moved a byte between two looks.
func (d *c37StaleDialer) quiet() bool {
	snap := func() int64 {
		d.mu.Lock()
		defer d.mu.Unlock()
		var t int64
		for c := range d.conns {
			t += c.lastUsed.Load()
		}
		return t
	}
	a := snap()
	time.Sleep(200 * time.Microsecond)
	return snap() == a
}

func (d *c37StaleDialer) heal() {
	d.mu.Lock()
	defer d.mu.Unlock()
	for c := range d.conns {
		c.stale.Store(false)
	}
}

func (d *c37StaleDialer) markStale() int {
	d.mu.Lock()
	defer d.mu.Unlock()
	for c := range d.conns {
		c.stale.Store(true)
	}
	return len(d.conns)
}

func TestVerif_C37(t *testing.T) {
	run := verifkit.Start(t, "C37", "route")
	defer run.Finish()
	run.Rule("each case = one generated request (method incl. HEAD/OPTIONS/custom tokens; request-target from Honeycomb-API-like paths, percent-escapes in both hex cases, sub-delims, paths next to Refinery's own routes, trailing slashes, non-canonical paths, absolute-form; query strings incl. bare '?', repeated keys, invalid escapes; 0-8 header lines with odd casing, repeated names, empty values, values containing commas; earlier X-Forwarded-For hops in one or several lines; body empty/JSON/all byte values/large random, Content-Length or chunked) sent as raw bytes over loopback to the real mux of the incoming or peer router, and one generated upstream response (status from 26 codes incl. 204/304/3xx with Location/4xx/5xx; 0-7 header lines with repeated Set-Cookie/Vary/Link/WWW-Authenticate, odd casing; body empty/binary/large, optionally flushed in pieces; with or without Content-Type). A case is non-trivial when the fake Honeycomb received it; cases are distinct by (method class, path class, query?, repeated request header?, XFF lines, body class, status class, repeated response header?, flushed?).")
	run.Assume("the bench's proxy client uses a plain http.Transport like cmd/refinery's upstreamTransport (no DisableCompression): when the client sends no Accept-Encoding the transport adds its own and would transparently decode a gzip answer, so Content-Encoding: gzip answers are generated only for requests that carry Accept-Encoding")
	run.Assume("Config.HoneycombAPI has no trailing slash or path prefix")
	run.Assume("header names compare case-insensitively; values are generated without leading/trailing whitespace; hop-by-hop request headers (Connection, TE, Upgrade, Expect, Trailer) are not generated")

	up := c37NewUpstream()
	defer up.srv.Close()
	b := e3New(t, E3Options{Configure: func(c *config.MockConfig) { c.GetHoneycombAPIVal = up.srv.URL }})
	defer b.Close()
	fronts := map[string]*httptest.Server{
		"incoming": httptest.NewServer(e3AdapterHandler(b.routers[E3Incoming])),
		"peer":     httptest.NewServer(e3AdapterHandler(b.routers[E3Peer])),
	}
	defer func() {
		for _, f := range fronts {
			f.Close()
		}
	}()

	statuses := []int{200, 200, 200, 201, 202, 204, 206, 299, 301, 302, 303, 307, 308, 304, 400, 401, 403, 404, 409, 418, 422, 429, 451, 500, 502, 503, 504, 599}

	exchange := func(i int, rng *verifkit.Rand, ln *c37Lane) {
		viol := func(sig, what string, w any) { run.Violation(ln.sig(sig), what, w) }
		// ---- request ----
		req := &c37Req{Listener: verifkit.Pick(rng, "incoming", "incoming", "peer")}
		req.Method = verifkit.Pick(rng, "GET", "GET", "POST", "POST", "PUT", "PATCH", "DELETE", "HEAD", "OPTIONS", "PURGE", "M-SEARCH", "REPORT", "get", "Post")
		if ln.listener != "" {
			req.Listener = ln.listener
		}
		if ln.withBody || ln.bodySize > 0 {
			req.Method = verifkit.Pick(rng, "POST", "POST", "PUT", "PATCH")
		}
		var wantTarget string
		req.Target, req.PathClass, wantTarget = c37Target(rng, req.Method)
		// a non-canonical path is answered by the mux's redirect before the body is read; with
		// a multi-megabyte body the server then resets the connection under the writing client
		for ln.bodySize > 0 && req.PathClass == "unclean" {
			req.Target, req.PathClass, wantTarget = c37Target(rng, req.Method)
		}
		nh := rng.Range(0, 8)
		var names []string
		for k := 0; k < nh; k++ {
			name := verifkit.Pick(rng, c37ReqHeaderNames...)
			if len(names) > 0 && rng.Chance(0.35) {
				name = verifkit.Pick(rng, names...) // repeat a name: multi-valued header
			}
			names = append(names, name)
			req.Headers = append(req.Headers, c37H{Name: c37OddCase(rng, name), Value: c37Value(rng)})
		}
		sentUA, sentAE := false, false
		if rng.Chance(0.5) {
			req.Headers = append(req.Headers, c37H{Name: c37OddCase(rng, "User-Agent"), Value: "libhoney-go/" + rng.Hex(3)})
			sentUA = true
		}
		if rng.Chance(0.4) {
			req.Headers = append(req.Headers, c37H{Name: c37OddCase(rng, "Accept-Encoding"), Value: verifkit.Pick(rng, "gzip", "identity", "gzip, deflate, br", "zstd")})
			sentAE = true
			if rng.Chance(0.2) {
				req.Headers = append(req.Headers, c37H{Name: "accept-encoding", Value: "deflate"})
			}
		}
		// CORS request headers (a browser's preflight is OPTIONS + Access-Control-Request-*;
		// they are ordinary end-to-end headers for a relay), on any method
		cors := false
		if req.Method == "OPTIONS" && rng.Chance(0.7) || rng.Chance(0.12) {
			cors = true
			req.Headers = append(req.Headers, c37H{Name: c37OddCase(rng, "Origin"), Value: "https://ui." + rng.Hex(4) + ".example"})
			if rng.Chance(0.85) {
				req.Headers = append(req.Headers, c37H{Name: c37OddCase(rng, "Access-Control-Request-Method"), Value: verifkit.Pick(rng, "POST", "GET", "PUT", "DELETE", "PATCH")})
			}
			if rng.Chance(0.7) {
				req.Headers = append(req.Headers, c37H{Name: c37OddCase(rng, "Access-Control-Request-Headers"), Value: verifkit.Pick(rng, "x-honeycomb-team", "X-Honeycomb-Team, Content-Type", "authorization,x-honeycomb-dataset")})
			}
		}
		// earlier hops
		var hops []string
		xffLines := rng.Intn(4) % 3 // 0,1,2,0
		for k := 0; k < xffLines; k++ {
			v := fmt.Sprintf("10.%d.%d.%d", rng.Intn(256), rng.Intn(256), rng.Intn(256))
			if rng.Chance(0.4) {
				v += fmt.Sprintf(", 192.168.%d.%d", rng.Intn(256), rng.Intn(256))
			}
			req.Headers = append(req.Headers, c37H{Name: c37OddCase(rng, "X-Forwarded-For"), Value: v})
			hops = append(hops, c37SplitHops([]string{v})...)
		}
		verifkit.Shuffle(rng, req.Headers)
		// hops keep their relative order after the shuffle
		hops = nil
		for _, h := range req.Headers {
			if http.CanonicalHeaderKey(h.Name) == "X-Forwarded-For" {
				hops = append(hops, c37SplitHops([]string{h.Value})...)
			}
		}
		bodyClass := "none"
		if req.Method != "GET" && req.Method != "HEAD" && req.Method != "get" || rng.Chance(0.1) {
			req.Body = c37Body(rng, run.Thorough())
			// stale-connection lane: non-empty, and small enough that request line, headers
			// and body fit into the transport's 4 kB write buffer - only then does the
			// failing write happen outside the body copy and net/http classify it as
			// "nothing written" (see notes/C37.md)
			for ln.withBody && (len(req.Body) == 0 || len(req.Body) > 2000) {
				req.Body = c37Body(rng, false)
				if len(req.Body) > 2000 {
					req.Body = req.Body[:rng.Range(301, 2000)]
				}
			}
			req.Chunked = len(req.Body) > 0 && rng.Chance(0.25)
			if ln.withBody {
				req.Chunked = rng.Chance(0.4)
			}
			if ln.bodySize > 0 {
				req.Body = c37Random(rng, ln.bodySize)
				req.Chunked = rng.Chance(0.3)
			}
			switch {
			case len(req.Body) == 0:
				bodyClass = "empty"
			case len(req.Body) > 10_000:
				bodyClass = "large"
			default:
				bodyClass = "small"
			}
		}
		req.BodyB64 = c37Trim(req.Body)

		// ---- scripted upstream response ----
		sc := &c37Script{Status: verifkit.Pick(rng, statuses...)}
		rh := rng.Range(0, 7)
		var rnames []string
		for k := 0; k < rh; k++ {
			name := verifkit.Pick(rng, c37RespHeaderNames...)
			if len(rnames) > 0 && rng.Chance(0.4) {
				name = verifkit.Pick(rng, rnames...)
			}
			if name == "Location" {
				continue // generated below, deliberately
			}
			rnames = append(rnames, name)
			v := c37Value(rng)
			if name == "Set-Cookie" {
				v = fmt.Sprintf("c%s=%s; Path=/; Expires=Wed, 21 Oct 2026 07:28:00 GMT; HttpOnly", rng.Hex(3), rng.Hex(8))
			}
			sc.Headers = append(sc.Headers, c37H{Name: name, Value: v})
		}
		redirect := false
		if sc.Status >= 301 && sc.Status <= 308 && sc.Status != 304 && rng.Chance(0.8) {
			loc := verifkit.Pick(rng, ln.up.srv.URL+"/c37-redirect-target?from="+rng.Hex(4), "/c37-redirect-target", "c37-relative-target")
			sc.Headers = append(sc.Headers, c37H{Name: "Location", Value: loc})
			redirect = true
		}
		switch {
		case sc.Status == 204 || sc.Status == 304:
		default:
			sc.Body = c37Body(rng, run.Thorough())
		}
		if sentAE && len(sc.Body) > 0 && rng.Chance(0.3) {
			sc.Headers = append(sc.Headers, c37H{Name: "Content-Encoding", Value: "gzip"})
		}
		// Content-Type always under its canonical key (net/http's server would add a
		// sniffed one next to a differently spelled key) and never on a 304 (net/http
		// strips entity headers there)
		ct := rng.Intn(4)
		if sc.Status == 304 {
			ct = 0
		}
		switch ct {
		case 0:
			sc.NoContentType = true
		case 1:
			sc.Headers = append(sc.Headers, c37H{Name: "Content-Type", Value: "application/octet-stream"})
		case 2:
			sc.Headers = append(sc.Headers, c37H{Name: "Content-Type", Value: "text/plain; charset=utf-8"})
		default:
			sc.Headers = append(sc.Headers, c37H{Name: "Content-Type", Value: "application/json"})
		}
		if len(sc.Body) > 0 && rng.Chance(0.3) {
			sc.Pieces = rng.Range(2, 5)
		}
		sc.BodyB64 = c37Trim(sc.Body)
		ln.up.arm(sc)

		// ---- execute ----
		frontURL, _ := url.Parse(ln.fronts[req.Listener].URL)
		got, err := c37Do(frontURL.Host, req.raw(), req.Method)
		seen := ln.up.taken()
		run.Count("requests", 1)
		wit := func() map[string]any {
			return map[string]any{"request": req, "upstream_script": sc, "upstream_saw": seen, "client_got": got, "honeycomb_api": ln.up.srv.URL, "transport_error": fmt.Sprint(err)}
		}
		if err != nil {
			viol("C37/response/no-valid-http-response/"+req.PathClass, "the client got no parsable HTTP response: "+err.Error(), wit())
			return
		}
		run.Count(fmt.Sprintf("client_status_%dxx", got.Status/100), 1)

		// ---- P1 ----
		if len(seen) == 0 {
			if req.PathClass == "unclean" && got.Status >= 300 && got.Status < 400 && got.Header.Get("Location") != "" {
				run.Count("noncanonical_path_answered_by_mux_redirect", 1)
				return
			}
			cls := req.PathClass
			if cors && req.Method == "OPTIONS" {
				cls = "cors-preflight"
			}
			viol("C37/request/not-relayed/"+cls, fmt.Sprintf("%s %s was answered %d without reaching the Honeycomb API", req.Method, req.Target, got.Status), wit())
			return
		}
		multiReq := false
		for _, vs := range c37Lists(req.Headers) {
			if len(vs) > 1 {
				multiReq = true
			}
		}
		multiResp := false
		for _, vs := range c37Lists(sc.Headers) {
			if len(vs) > 1 {
				multiResp = true
			}
		}
		run.Nontrivial(ln.phase + fmt.Sprintf("%s/%s/q=%v/multi=%v/xff=%d/%s/%dxx/multi=%v/pieces=%v", strings.ToUpper(req.Method), req.PathClass, strings.Contains(req.Target, "?"), multiReq, xffLines, bodyClass, sc.Status/100, multiResp, sc.Pieces > 1))
		if len(seen) > 1 {
			if redirect {
				viol("C37/response/upstream-redirect-followed-instead-of-relayed", fmt.Sprintf("Honeycomb answered %d with Location %q; Refinery followed it (%d upstream requests) and the client got %d", sc.Status, c37Lists(sc.Headers).Get("Location"), len(seen), got.Status), wit())
			} else {
				viol("C37/request/relayed-more-than-once", fmt.Sprintf("%d upstream requests for one client request", len(seen)), wit())
			}
			return
		}
		s := seen[0]
		// ---- P2 ----
		if s.Method != req.Method {
			viol("C37/request/method-changed", fmt.Sprintf("client sent %q, Honeycomb saw %q", req.Method, s.Method), wit())
		}
		if c37NormTarget(s.RequestURI) != c37NormTarget(wantTarget) {
			kind := "path-changed"
			if p1, _, _ := strings.Cut(c37NormTarget(s.RequestURI), "?"); p1 == strings.SplitN(c37NormTarget(wantTarget), "?", 2)[0] {
				kind = "query-changed"
			}
			viol("C37/request/"+kind+"/"+req.PathClass, fmt.Sprintf("client asked for %q, Honeycomb saw %q", req.Target, s.RequestURI), wit())
		}
		if !bytes.Equal(s.body, req.Body) {
			kind := "C37/request/body-changed"
			if len(req.Body) > 4_000_000 {
				kind += "/multi-megabyte-body"
			}
			viol(kind, fmt.Sprintf("client sent %d body bytes (sha256 %x), Honeycomb saw %d (sha256 %x)", len(req.Body), sha256.Sum256(req.Body), len(s.body), sha256.Sum256(s.body)), wit())
		}
		// ---- P3 ----
		wantH := c37Lists(req.Headers)
		for name, want := range wantH {
			if c37ReqManaged[name] {
				continue
			}
			gotVals := s.Header[name]
			switch {
			case c37EqualLists(want, gotVals):
			case len(gotVals) == 0:
				viol("C37/request/header-dropped", fmt.Sprintf("request header %s %q did not reach Honeycomb", name, want), wit())
			case c37IsJoin(want, gotVals):
				viol("C37/request/multi-valued-header-joined", fmt.Sprintf("request header %s sent as %d values %q reached Honeycomb as the single value %q", name, len(want), want, gotVals[0]), wit())
			default:
				viol("C37/request/header-value-changed", fmt.Sprintf("request header %s sent as %q reached Honeycomb as %q", name, want, gotVals), wit())
			}
		}
		for name, vals := range s.Header {
			if _, sent := wantH[name]; sent || c37ReqManaged[name] {
				continue
			}
			if name == "User-Agent" && !sentUA || name == "Accept-Encoding" && !sentAE {
				continue // transport defaults
			}
			viol("C37/request/header-added", fmt.Sprintf("Honeycomb saw request header %s %q that the client did not send", name, vals), wit())
		}
		// ---- P4 ----
		gotHops := c37SplitHops(s.Header["X-Forwarded-For"])
		clientIP, _, _ := net.SplitHostPort(got.ClientAddr)
		switch {
		case len(gotHops) == 0:
			viol("C37/request/x-forwarded-for/missing", "no X-Forwarded-For at Honeycomb", wit())
		case gotHops[len(gotHops)-1] != got.ClientAddr && gotHops[len(gotHops)-1] != clientIP:
			viol("C37/request/x-forwarded-for/client-address-not-last", fmt.Sprintf("X-Forwarded-For %q does not end with the client address %s", s.Header["X-Forwarded-For"], got.ClientAddr), wit())
		case !c37EqualLists(gotHops[:len(gotHops)-1], hops):
			kind := "earlier-hops-changed"
			if xffLines > 1 {
				kind = "earlier-hops-changed/several-header-lines"
			}
			viol("C37/request/x-forwarded-for/"+kind, fmt.Sprintf("client sent hops %q, Honeycomb saw %q", hops, s.Header["X-Forwarded-For"]), wit())
		}
		// ---- P5 ----
		if got.Status != sc.Status {
			viol("C37/response/status-changed", fmt.Sprintf("Honeycomb answered %d, the client got %d", sc.Status, got.Status), wit())
		}
		wantBody := sc.Body
		if req.Method == "HEAD" {
			wantBody = nil
		}
		if !bytes.Equal(got.body, wantBody) {
			viol("C37/response/body-changed", fmt.Sprintf("Honeycomb answered %d body bytes, the client got %d (or different ones)", len(wantBody), len(got.body)), wit())
		}
		// ---- P6 ----
		wantR := c37Lists(sc.Headers)
		for name, want := range wantR {
			if c37RespManaged[name] {
				continue
			}
			gotVals := got.Header[name]
			switch {
			case c37EqualLists(want, gotVals):
			case len(gotVals) == 0:
				viol("C37/response/header-dropped", fmt.Sprintf("response header %s %q did not reach the client", name, want), wit())
			case c37IsJoin(want, gotVals):
				viol("C37/response/multi-valued-header-joined", fmt.Sprintf("response header %s sent by Honeycomb as %d values %q reached the client as the single value %q", name, len(want), want, gotVals[0]), wit())
			default:
				viol("C37/response/header-value-changed", fmt.Sprintf("response header %s sent by Honeycomb as %q reached the client as %q", name, want, gotVals), wit())
			}
		}
		var extra []string
		for name := range got.Header {
			if _, sent := wantR[name]; sent || c37RespManaged[name] {
				continue
			}
			if name == "Access-Control-Allow-Origin" {
				continue // set by Refinery on every response (documented CORS behaviour)
			}
			if name == "Content-Type" && len(wantR["Content-Type"]) == 0 {
				run.Count("content_type_supplied_by_refinery_for_untyped_upstream_answer", 1)
				continue
			}
			extra = append(extra, name)
		}
		sort.Strings(extra)
		if len(extra) > 0 {
			viol("C37/response/header-added", fmt.Sprintf("the client got response header(s) %q that Honeycomb did not send", extra), wit())
		}
		if i < 2 {
			run.Sample(map[string]any{"request": req, "upstream_script": sc, "upstream_saw": s, "client_status": got.Status})
		}
	}
	mainLane := &c37Lane{up: up, fronts: fronts}
	run.Cases("proxy", run.N(1500, 20000), func(i int, rng *verifkit.Rand) { exchange(i, rng, mainLane) })

	// ---- multi-megabyte request bodies around Refinery's own 5 MB event-body limit
	// (HTTPMessageSizeMax), which does not apply to relayed requests ----
	run.Cases("large-body", run.N(3, 24), func(i int, rng *verifkit.Rand) {
		sizes := []int{HTTPMessageSizeMax + 1, HTTPMessageSizeMax, 6_000_000 + rng.Intn(500_000), HTTPMessageSizeMax - 1, 2*HTTPMessageSizeMax + 17, HTTPMessageSizeMax + 1 + rng.Intn(4096)}
		size := sizes[(i+int(run.Seed()))%len(sizes)]
		if i == 0 {
			size = HTTPMessageSizeMax + 1 // always present
		}
		run.Count("multi_megabyte_bodies", 1)
		exchange(i+2, rng, &c37Lane{up: up, fronts: fronts, bodySize: size})
	})

	// ---- stale upstream connection: the pooled keep-alive connection to Honeycomb dies
	// between two proxied requests and the next request on it has a body ----
	// A second bench whose proxy transports dial through c37StaleDialer. A sequence = 1-2
	// ordinary exchanges over one router (they leave an idle connection in the pool), then
	// every open upstream connection is made stale (its next Write fails with 0 bytes
	// written, EPIPE - what a connection torn down by the peer looks like when nothing of
	// the request got out), then a POST/PUT/PATCH with a non-empty body, fixed length or
	// chunked. net/http guarantees the replay on a fresh connection for exactly this
	// failure (nothing written on a reused connection) when the request can be rewound, so
	// the oracle is unchanged: one request read completely by Honeycomb, same
	// method/target/body/headers, Honeycomb's status/headers/body at the client.
	sup := c37NewUpstream()
	defer sup.srv.Close()
	sb := e3New(t, E3Options{Configure: func(c *config.MockConfig) { c.GetHoneycombAPIVal = sup.srv.URL }})
	defer sb.Close()
	dialer := &c37StaleDialer{}
	for _, l := range []E3Listener{E3Incoming, E3Peer} {
		sb.routers[l].HTTPTransport.DialContext = dialer.dial
	}
	sfronts := map[string]*httptest.Server{
		"incoming": httptest.NewServer(e3AdapterHandler(sb.routers[E3Incoming])),
		"peer":     httptest.NewServer(e3AdapterHandler(sb.routers[E3Peer])),
	}
	defer func() {
		for _, f := range sfronts {
			f.Close()
		}
	}()
	run.Cases("stale-upstream-connection", run.N(200, 2000), func(i int, rng *verifkit.Rand) {
		listener := verifkit.Pick(rng, "incoming", "incoming", "peer")
		dialer.heal() // connections the previous sequence made stale but never used are healthy again
		warm := &c37Lane{up: sup, fronts: sfronts, listener: listener, phase: "before-stale-upstream-connection"}
		for k, n := 0, rng.Range(1, 2); k < n; k++ {
			exchange(i+2, rng, warm)
		}
		// let the transport park the connection (it does so right after handing the last
		// body byte to the proxy); a connection that is not parked yet is simply not
		// reused and the case is counted as a miss, never as a violation
		for k := 0; k < 50 && dialer.open() > 0 && !dialer.quiet(); k++ {
			time.Sleep(time.Millisecond)
		}
		marked := dialer.markStale()
		before := dialer.hits.Load()
		exchange(i+2, rng, &c37Lane{up: sup, fronts: sfronts, listener: listener, phase: "on-stale-upstream-connection", withBody: true})
		run.Count("stale_sequences", 1)
		run.Count("upstream_connections_made_stale", int64(marked))
		if dialer.hits.Load() > before {
			run.Count("body_requests_that_hit_a_stale_connection", 1)
		}
	})
}
