//go:build verif

package route

import (
	"fmt"
	"math"
	"net/url"
	"strings"
	"testing"
	"time"

	"github.com/honeycombio/refinery/internal/verifkit"
	"github.com/honeycombio/refinery/types"
)

// C19: every received well-formed event takes exactly one route.
//
// Oracle (per event, identified by a unique verif.id field), over the bench's ordered
// observation log:
//   probe (meta.refinery.probe == true)        -> no observation anywhere
//   no trace ID                                -> exactly 1x upstream.EnqueueEvent, nothing else
//   trace ID, not stressed (or collector declined the stress path):
//       owned by this node                     -> exactly 1x collector.AddSpan (incoming
//                                                 listener) / AddSpanFromPeer (peer listener)
//       owned by peer P                        -> exactly 1x peer.EnqueueEvent addressed to P,
//                                                 not marked as probe, with API key, dataset,
//                                                 sample rate, timestamp and fields unchanged
//   trace ID, stressed, collector processed it -> exactly 1x collector.ProcessSpanImmediately;
//       additionally allowed (not required): one peer.EnqueueEvent MARKED AS PROBE to the
//       owning peer when the span was kept and another node owns the trace
// Any other observation carrying the event's id, and any observation carrying an id that
// was not in the request, is a violation.

type c19Event struct {
	ID       string `json:"id"`
	Kind     string `json:"kind"` // event, span, probe
	TraceID  string `json:"trace_id,omitempty"`
	Owner    string `json:"owner,omitempty"` // "" = this node
	Rate     int64  `json:"rate"`            // -1 absent
	TimeKind string `json:"time_kind"`       // absent, rfc3339nano, epoch10, ts64, ts96
	Sec      int64  `json:"sec"`
	Nsec     int64  `json:"nsec"`
	Data     []E3KV `json:"data"`
	// scripted stress decision for the trace
	Processed bool `json:"stress_processed"`
	Kept      bool `json:"stress_kept"`
}

func c19Scalar(rng *verifkit.Rand, msgpack bool) E3Val {
	switch k := rng.Intn(20); {
	case k < 5:
		return VStr(verifkit.Pick(rng, "", "x", "héllo wörld", "a\"b\\c\n", strings.Repeat("z", 40), "v"+rng.Hex(5)))
	case k < 9:
		v := verifkit.Pick(rng, int64(0), int64(1), int64(-1), int64(127), int64(128), int64(-33), int64(65536), int64(1)<<31, int64(-1)<<31, int64(1)<<53+1, math.MaxInt64, math.MinInt64, int64(rng.Intn(100000)))
		if !msgpack && (v > 1<<53 || v < -(1<<53)) {
			v = int64(rng.Intn(1000)) // JSON: stay inside the exactly representable range
		}
		w := 0
		if msgpack && rng.Bool() {
			w = 64
		}
		return VIntW(v, w)
	case k < 11:
		if msgpack {
			return VUintW(verifkit.Pick(rng, uint64(0), uint64(255), uint64(1)<<32, uint64(1)<<63, math.MaxUint64), 64)
		}
		return VInt(int64(rng.Intn(5000)))
	case k < 14:
		return VF64(verifkit.Pick(rng, 0.1, -2.5, 1e300, 5.0, 1.0/3.0, float64(rng.Intn(1000))/8))
	case k < 15:
		if msgpack {
			return VF32(verifkit.Pick(rng, float32(0.1), float32(1.5), float32(-3)))
		}
		return VF64(0.25)
	case k < 17:
		return VBool(rng.Bool())
	default:
		return VNil()
	}
}

func c19Val(rng *verifkit.Rand, msgpack bool, depth int) E3Val {
	if depth < 2 && rng.Chance(0.15) {
		if rng.Bool() {
			var xs []E3Val
			for i, n := 0, rng.Intn(4); i < n; i++ {
				xs = append(xs, c19Val(rng, msgpack, depth+1))
			}
			return VArr(xs...)
		}
		var kvs []E3KV
		for i, n := 0, rng.Intn(4); i < n; i++ {
			kvs = append(kvs, KV(fmt.Sprintf("k%d", i), c19Val(rng, msgpack, depth+1)))
		}
		return VMap(kvs...)
	}
	return c19Scalar(rng, msgpack)
}

var c19Datasets = []string{"ds", "my ds", "a/b", "ü-data", "x%y", "q?r#s", "c++ services", "a+b", "+", "+ +", "%2B", "a%2Bb", "a%20b", "100%25", "%",
	"日本語 データ", "...", "a..b", ".hidden", "..", ".", "k:v@host", "a&b=c;d,e", "$!*'()", "~user_name-1.2", " lead", "trail ", "semi;colon", "co,mma", "eq=&amp"}

const c19DatasetAlphabet = "ab+ %.:@&=;,$!*'()/?#~-_2B0"

// c19Dataset returns the LOGICAL dataset name the client means.
func c19Dataset(rng *verifkit.Rand) string {
	if rng.Chance(0.6) {
		return c19Datasets[rng.Intn(len(c19Datasets))]
	}
	n := rng.Range(1, 8)
	var sb strings.Builder
	for i := 0; i < n; i++ {
		if rng.Chance(0.1) {
			sb.WriteString("ü")
			continue
		}
		sb.WriteByte(c19DatasetAlphabet[rng.Intn(len(c19DatasetAlphabet))])
	}
	return sb.String()
}

// c19Spell percent-encodes a logical name as one path segment the way different correct
// clients do: url.PathEscape; RFC 3986 pchar with sub-delims, ':' and '@' left literal;
// or every non-alphanumeric byte encoded. All three denote the same segment.
func c19Spell(name, spelling string) string {
	if spelling == "pathescape" {
		return url.PathEscape(name)
	}
	var sb strings.Builder
	for i := 0; i < len(name); i++ {
		c := name[i]
		alnum := (c >= 'a' && c <= 'z') || (c >= 'A' && c <= 'Z') || (c >= '0' && c <= '9')
		literal := alnum
		if spelling == "literal-subdelims" {
			literal = alnum || strings.IndexByte("-._~!$&'()*+,;=:@", c) >= 0
		}
		if literal {
			sb.WriteByte(c)
		} else {
			fmt.Fprintf(&sb, "%%%02X", c)
		}
	}
	return sb.String()
}

var c19Peers = []string{"", "http://peer-a.verif.invalid:8081", "https://10.2.3.4:9000"}

func TestVerif_C19(t *testing.T) {
	run := verifkit.Start(t, "C19", "route")
	defer run.Finish()
	run.Rule("per case one request (/1/events or /1/batch of 1-6 events; JSON or msgpack; none/gzip/zstd; incoming or peer listener; legacy or environment key; logical dataset names with + %2B %20 %25 spaces unicode dots and every sub-delim, spelled in the URL by url.PathEscape, with literal sub-delims, or fully percent-encoded) whose events are PRNG-chosen among plain events, spans (trace ID in a configured field or meta.trace_id) and probes, with generated field maps (strings, ints/uints of several widths, floats, bools, nil, nested arrays/maps), sample rates {absent,0,1,2,10,1000,2^31-1} and exactly representable timestamps; ownership of each trace ID scripted among this node and two peers; stress state scripted per case with a per-trace (processed, kept) decision; non-trivial = request holding >=2 different expected routes or a stressed span or a peer-owned span; distinct = (listener, encoding, stressed, multiset of expected routes)")
	run.Assume("collaborators record synchronously inside the handler; a snapshot is what the collaborator was handed at that moment")
	run.Assume("fields-unchanged uses the value equivalence of DESIGN C20 (int width / float width may change, JSON numbers arrive as floats); binary/ext/timestamp VALUES inside data are not generated (C20 owns them)")

	b := e3New(t, E3Options{})
	defer b.Close()

	run.Cases("routes", run.N(1500, 300000), func(i int, rng *verifkit.Rand) {
		lst := E3Incoming
		if rng.Chance(0.4) {
			lst = E3Peer
		}
		enc := E3JSON
		if rng.Bool() {
			enc = E3Msgpack
		}
		batch := rng.Chance(0.6)
		n := 1
		if batch {
			n = rng.Range(1, 6)
		}
		stressed := rng.Chance(0.3)
		key := verifkit.Pick(rng, E3KeyLegacy, E3KeyEnv, E3KeyEnv2)
		dataset := c19Dataset(rng)
		// trace pool for this case: few ids so that several events share a trace
		type tr struct {
			id, owner       string
			processed, kept bool
		}
		var traces []tr
		for k, m := 0, rng.Range(1, 3); k < m; k++ {
			traces = append(traces, tr{id: fmt.Sprintf("T%d-%d-%s", i, k, rng.Hex(4)), owner: c19Peers[rng.Intn(len(c19Peers))], processed: rng.Chance(0.9), kept: rng.Bool()})
		}
		byTrace := map[string]tr{}
		for _, x := range traces {
			byTrace[x.id] = x
		}
		b.Sharder.SetOwner(func(id string) string { return byTrace[id].owner })
		b.Collector.SetStressed(stressed)
		b.Collector.SetImmediate(func(sp *types.Span) (bool, bool) { x := byTrace[sp.TraceID]; return x.processed, x.kept })

		var evs []c19Event
		var items []E3BatchItem
		for k := 0; k < n; k++ {
			e := c19Event{ID: fmt.Sprintf("c19-%d-%d", i, k), Rate: verifkit.Pick(rng, int64(-1), int64(0), int64(1), int64(2), int64(10), int64(1000), int64(1)<<31-1)}
			switch r := rng.Intn(10); {
			case r < 3:
				e.Kind = "event"
			case r < 9:
				e.Kind = "span"
			default:
				e.Kind = "probe"
			}
			for f, m := 0, rng.Intn(6); f < m; f++ {
				e.Data = append(e.Data, KV(fmt.Sprintf("field%d", f), c19Val(rng, enc == E3Msgpack, 0)))
			}
			e.Data = append(e.Data, KV("verif.id", VStr(e.ID)))
			if e.Kind == "span" || (e.Kind == "probe" && rng.Bool()) {
				x := traces[rng.Intn(len(traces))]
				e.TraceID, e.Owner, e.Processed, e.Kept = x.id, x.owner, x.processed, x.kept
				idField := verifkit.Pick(rng, "trace.trace_id", "traceId", "meta.trace_id")
				e.Data = append(e.Data, KV(idField, VStr(x.id)))
				// the OTHER configured trace-ID field present but empty (either rank): an empty
				// string is not an ID, the event is still a span of trace x
				if idField != "meta.trace_id" && rng.Chance(0.35) {
					other := "traceId"
					if idField == "traceId" {
						other = "trace.trace_id"
					}
					e.Data = append(e.Data, KV(other, VStr("")))
					run.Count("spans_with_an_empty_string_trace_id_field_at_another_rank", 1)
				}
				switch rng.Intn(4) {
				case 0, 1:
					e.Data = append(e.Data, KV(verifkit.Pick(rng, "trace.parent_id", "parentId"), VStr("p"+rng.Hex(4))))
				case 2:
					e.Data = append(e.Data, KV(verifkit.Pick(rng, "trace.parent_id", "parentId"), VStr("")))
				}
			} else if e.Kind == "event" && rng.Chance(0.25) {
				// empty-string ID fields do not put an event into a trace
				for _, f := range []string{"trace.trace_id", "traceId"} {
					if rng.Bool() {
						e.Data = append(e.Data, KV(f, VStr("")))
					}
				}
			}
			if e.Kind == "probe" {
				e.Data = append(e.Data, KV("meta.refinery.probe", VBool(true)))
			} else if rng.Chance(0.1) {
				e.Data = append(e.Data, KV("meta.refinery.probe", VBool(false)))
			}
			verifkit.Shuffle(rng, e.Data)
			// time
			e.Sec, e.Nsec = 1_500_000_000+int64(rng.Intn(300_000_000)), int64(rng.Intn(1_000_000_000))
			var tval *E3Val
			hdrTime := ""
			switch {
			case rng.Chance(0.2):
				e.TimeKind = "absent"
			case batch && enc == E3Msgpack:
				if rng.Bool() {
					e.TimeKind, tval = "ts64", e3P(VTs64(e.Sec, e.Nsec))
				} else {
					e.TimeKind, tval = "ts96", e3P(VTs96(e.Sec, e.Nsec))
				}
			case rng.Bool():
				e.TimeKind = "rfc3339nano"
				hdrTime = time.Unix(e.Sec, e.Nsec).UTC().Format(time.RFC3339Nano)
				tval = e3P(VStr(hdrTime))
			default:
				e.TimeKind, e.Nsec = "epoch10", 0
				hdrTime = fmt.Sprintf("%010d", e.Sec)
				tval = e3P(VStr(hdrTime))
			}
			evs = append(evs, e)
			if batch {
				it := E3BatchItem{Time: tval, Data: e3P(VMap(e.Data...))}
				if e.Rate >= 0 {
					it.Rate = e3P(VInt(e.Rate))
				}
				items = append(items, it)
			} else {
				req, err := e3EventReq(lst, enc, dataset, key, VMap(e.Data...), e.Rate, hdrTime)
				if err != nil {
					t.Fatalf("harness: %v", err)
				}
				c19Run(run, b, rng, req, lst, enc, stressed, key, dataset, evs, i)
				return
			}
		}
		req, err := e3BatchReq(lst, enc, dataset, key, items)
		if err != nil {
			t.Fatalf("harness: %v", err)
		}
		c19Run(run, b, rng, req, lst, enc, stressed, key, dataset, evs, i)
	})
}

func c19Run(run *verifkit.Run, b *E3Bench, rng *verifkit.Rand, req *E3Req, lst E3Listener, enc E3Encoding, stressed bool, key, dataset string, evs []c19Event, caseNo int) {
	switch rng.Intn(4) {
	case 0:
		req.Gzip()
	case 1:
		req.Zstd()
	}
	if rng.Bool() {
		req.Set("User-Agent", "libhoney-verif/1.0")
	}
	// how the client spells the dataset in the URL (the logical name is what it means)
	spelling := verifkit.Pick(rng, "pathescape", "pathescape", "literal-subdelims", "encode-all")
	req.Path = req.Path[:strings.LastIndex(req.Path, "/")+1] + c19Spell(dataset, spelling)
	b.Log.Reset()
	resp := b.Serve(req)
	run.Count("requests", 1)
	if resp.TransportErr != "" || ((resp.Status/100 == 3 || resp.Status == 404 || resp.Status == 405) && len(b.Log.Effects()) == 0) {
		// net/http or the mux refused / redirected the URL before any handler ran
		// (dot segments, empty segment): nothing to judge
		run.Count("requests_rejected_before_handler", 1)
		return
	}
	run.Count("dataset_spelling_"+spelling, 1)
	byID := b.Log.ByID()
	// the dataset must be the logical name at EVERY hand-over
	for _, o := range b.Log.Effects() {
		if o.Ev.Dataset != dataset {
			where := strings.SplitN(o.Where, ".", 2)[0]
			if o.Where == E3AtPeerEvent {
				where = "peer-forward"
			}
			run.Violation("C19/"+where+"/dataset-changed", fmt.Sprintf("dataset %q (sent as %q) handed over at %s as %q", dataset, req.Path, o.Where, o.Ev.Dataset),
				map[string]any{"dataset": dataset, "spelling": spelling, "observation": o, "request": req.Witness(), "response": resp})
		}
	}
	state := "normal"
	if stressed {
		state = "stressed"
	}
	known := map[string]bool{}
	var routes []string
	for _, e := range evs {
		known[e.ID] = true
		e := e
		obs := byID[e.ID]
		wit := func() map[string]any {
			return map[string]any{"event": e, "listener": lst.String(), "encoding": enc.String(), "stressed": stressed,
				"api_key": key, "dataset": dataset, "observations": obs, "request": req.Witness(), "response": resp}
		}
		run.Count("events", 1)
		// expected route
		want, kind := "", e.Kind
		switch {
		case e.Kind == "probe":
			want = "discard"
		case e.TraceID == "":
			want = E3AtUpstreamEvent
		case stressed && e.Processed:
			want, kind = E3AtImmediate, "span"
		case e.Owner != "":
			want, kind = E3AtPeerEvent, "span-peer-owned"
		default:
			want, kind = E3AtAddSpan, "span-mine"
			if lst == E3Peer {
				want = E3AtAddSpanFromPeer
			}
		}
		if kind == "span" {
			if e.Owner != "" {
				kind = "span-peer-owned"
			} else {
				kind = "span-mine"
			}
		}
		routes = append(routes, kind+">"+want)
		sigBase := "C19/" + lst.String() + "/" + kind + "/" + state + "/"
		handled := 0
		for _, o := range obs {
			switch {
			case o.Where == want && !(want == E3AtPeerEvent && o.Ev.Probe):
				handled++
			case o.Where == E3AtImmediate && stressed && e.TraceID != "" && !e.Processed && e.Kind != "probe":
				// the collector was offered the span on the stress path and declined: not a route
			case o.Where == E3AtPeerEvent && o.Ev.Probe && want == E3AtImmediate && e.Kept && e.Owner != "":
				// probe emitted to the owner of a trace this node kept under stress: allowed
				run.Count("stress_probes_emitted", 1)
				if o.Ev.APIHost != e.Owner {
					run.Violation(sigBase+"stress-probe-to-wrong-node", fmt.Sprintf("probe for trace owned by %s sent to %s", e.Owner, o.Ev.APIHost), wit())
				}
			default:
				run.Violation(sigBase+"also-seen-at-"+o.Where, fmt.Sprintf("event expected on route %s was (also) observed at %s", want, o.Where), wit())
			}
		}
		switch {
		case want == "discard":
			// any observation was already reported above
		case handled == 0:
			run.Violation(sigBase+"not-handled", fmt.Sprintf("event expected on route %s was not observed there (response status %d)", want, resp.Status), wit())
		case handled > 1:
			run.Violation(sigBase+"handled-more-than-once", fmt.Sprintf("event observed %d times at %s", handled, want), wit())
		}
		// forwarded attributes
		if want == E3AtPeerEvent && handled >= 1 {
			for _, o := range obs {
				if o.Where != E3AtPeerEvent || o.Ev.Probe {
					continue
				}
				run.Count("peer_forwards_checked", 1)
				ev := o.Ev
				if ev.APIHost != e.Owner {
					run.Violation("C19/peer-forward/wrong-destination", fmt.Sprintf("span of trace owned by %s addressed to %s", e.Owner, ev.APIHost), wit())
				}
				if ev.APIKey != key {
					run.Violation("C19/peer-forward/api-key-changed", fmt.Sprintf("API key %q forwarded as %q", key, ev.APIKey), wit())
				}
				if !(int64(ev.SampleRate) == e.Rate || (e.Rate <= 0 && ev.SampleRate <= 1)) {
					run.Violation("C19/peer-forward/sample-rate-changed", fmt.Sprintf("sample rate %d forwarded as %d", e.Rate, ev.SampleRate), wit())
				}
				if e.TimeKind != "absent" && (ev.Timestamp.Unix() != e.Sec || int64(ev.Timestamp.Nanosecond()) != e.Nsec) {
					run.Violation("C19/peer-forward/timestamp-changed", fmt.Sprintf("timestamp (%d,%d) [%s] forwarded as %s", e.Sec, e.Nsec, e.TimeKind, ev.Timestamp.UTC().Format(time.RFC3339Nano)), wit())
				}
				wire, err := ev.Wire()
				if err != nil || ev.MsgpErr != "" {
					run.Violation("C19/peer-forward/payload-not-encodable", fmt.Sprintf("payload handed to the peer transmission does not encode/decode: %v %s", err, ev.MsgpErr), wit())
					continue
				}
				for _, kv := range e.Data {
					out, ok := wire.Get(kv.Key)
					if !ok {
						run.Violation("C19/peer-forward/field-lost", fmt.Sprintf("field %q missing from the forwarded payload", kv.Key), wit())
						continue
					}
					if !e3Equiv(kv.Val, out, enc == E3JSON) {
						run.Violation("C19/peer-forward/field-changed/"+kv.Val.Kind.String(), fmt.Sprintf("field %q sent as %s forwarded as %s (%s)", kv.Key, kv.Val, out, out.Kind), wit())
					}
				}
				sent := map[string]bool{}
				for _, kv := range e.Data {
					sent[kv.Key] = true
				}
				for _, kv := range wire.Map {
					if !sent[kv.Key] && !strings.HasPrefix(kv.Key, "meta.") {
						run.Violation("C19/peer-forward/field-added", fmt.Sprintf("forwarded payload has extra non-meta field %q", kv.Key), wit())
					}
				}
			}
		}
	}
	for id, obs := range byID {
		if !known[id] {
			run.Violation("C19/"+lst.String()+"/phantom-event", fmt.Sprintf("observation of an event (id %q) that was not in the request", id),
				map[string]any{"observations": obs, "request": req.Witness(), "response": resp})
		}
	}
	// evidence
	uniq := map[string]int{}
	for _, r := range routes {
		uniq[r]++
	}
	if len(uniq) >= 2 || stressed || strings.Contains(strings.Join(routes, ","), "peer-owned") {
		keys := make([]string, 0, len(uniq))
		for k, c := range uniq {
			keys = append(keys, fmt.Sprintf("%s*%d", k, c))
		}
		c19SortStrings(keys)
		run.Nontrivial(strings.Join([]string{lst.String(), enc.String(), state, strings.Join(keys, ",")}, "|"))
	}
	if caseNo < 3 {
		run.Sample(map[string]any{"listener": lst.String(), "encoding": enc.String(), "stressed": stressed, "events": evs, "routes": routes})
	}
}

func c19SortStrings(xs []string) {
	for i := 1; i < len(xs); i++ {
		for j := i; j > 0 && xs[j] < xs[j-1]; j-- {
			xs[j], xs[j-1] = xs[j-1], xs[j]
		}
	}
}
