//go:build verif

package route

import (
	"fmt"
	"math/bits"
	"sort"
	"strings"
	"sync/atomic"
	"testing"
	"time"

	"github.com/jonboulle/clockwork"
	"go.opentelemetry.io/otel/trace/noop"

	"github.com/honeycombio/refinery/collect"
	"github.com/honeycombio/refinery/config"
	"github.com/honeycombio/refinery/internal/peer"
	"github.com/honeycombio/refinery/internal/verifkit"
	"github.com/honeycombio/refinery/logger"
	"github.com/honeycombio/refinery/metrics"
	"github.com/honeycombio/refinery/sample"
	"github.com/honeycombio/refinery/sharder"
	"github.com/honeycombio/refinery/types"
)

// C04, unit "route": the client-supplied sample rate that enters the composition is the one the client
// supplied FOR THAT EVENT. Engine E3 (real Router handlers, in-process). /1/batch bodies (JSON and msgpack) mix
// events with a samplerate key {0,1,2,10,2^31-1,random} and events without one, in PRNG order; /1/events
// requests carry the X-Honeycomb-Samplerate header present / absent / 0 / garbage.
//   boundary  at hand-over (recording collector for spans, upstream transmission for non-trace events) the
//             event's SampleRate equals the supplied rate when that is > 0, and is 0 or 1 when it is absent, zero
//             or not a number (docs: absent ≡ 1) — never another event's value;
//   end to end  the recording collector delegates to a REAL InMemCollector (deterministic sampler, rate 3, real
//             clock with 1-2 ms timers) whose upstream is the bench's recording transmission: every span of a
//             kept trace must be forwarded with SampleRate = max(client,1)·3, final_sample_rate equal to it and
//             original_sample_rate = the client rate (or 1/absent when the client sent none).

type c04rHealth struct{}

func (c04rHealth) Register(string, time.Duration) {}
func (c04rHealth) Unregister(string)              {}
func (c04rHealth) Ready(string, bool)             {}

// c04rStress is the scripted StressReliever of the real collector behind the router (an injected dependency).
type c04rStress struct {
	on   atomic.Bool
	rate atomic.Uint64
}

func (s *c04rStress) Start() error      { return nil }
func (s *c04rStress) UpdateFromConfig() {}
func (s *c04rStress) Recalc() uint      { return 0 }
func (s *c04rStress) Stressed() bool    { return s.on.Load() }
func (s *c04rStress) GetSampleRate(string) (uint, bool, string) {
	return uint(s.rate.Load()), true, "verif-stress"
}

var c04rDatasetRates = map[string]int{"ds3": 3, "ds10": 10, "ds1000": 1000}

func c04rInt(v any) (int64, bool) {
	switch x := v.(type) {
	case int64:
		return x, true
	case int:
		return int64(x), true
	case uint64:
		return int64(x), true
	case uint:
		return int64(x), true
	}
	return 0, false
}

type c04rItem struct {
	ID      string `json:"id"`
	Trace   string `json:"trace,omitempty"` // "" = not part of a trace
	Kept    bool   `json:"sampler_keeps,omitempty"`
	Rate    int64  `json:"rate"` // -1 absent
	Garbage string `json:"garbage,omitempty"`
}

func TestVerif_C04Route(t *testing.T) {
	run := verifkit.Start(t, "C04", "route")
	defer run.Finish()
	run.Rule("seeded requests through the real router handlers: /1/batch bodies in JSON and msgpack with 2-9 events, each with its own samplerate key from {0,1,2,10,2^31-1,random} or none (JSON also a non-numeric one), all mixed in one body in PRNG order, events with and without a trace id; /1/events requests with the sample-rate header present, absent, 0 or garbage; traces decided by a real collector behind the router (deterministic sampler rate 3/10/1000 by dataset, trace ids chosen kept or dropped; in 15 % of the requests by stress relief at rate 100, 2^32, 2^32+7 or 2^40); everything handed upstream goes through a real DirectTransmission to a fake Honeycomb whose request bodies are decoded independently; non-trivial = one body holds an event without a rate AFTER an event with a rate > 1 and a later event with another rate; distinct = (endpoint, encoding, sequence of rate classes)")
	run.Assume("the rate the client supplied for an event is what the harness wrote into that event's samplerate key / the request's header; absent, zero and non-numeric rates may be handed over as 0 or 1")
	run.Assume("the real collector behind the router runs on the real clock (SendDelay 1 ms, SendTicker 2 ms); waiting for its output is bounded (5 s) and an expired bound is inconclusive")

	tc := config.TracesConfig{SendTicker: config.Duration(2 * time.Millisecond), SendDelay: config.Duration(time.Millisecond), TraceTimeout: config.Duration(50 * time.Millisecond), MaxExpiredTraces: 3000}
	b := e3New(t, E3Options{Configure: func(c *config.MockConfig) {
		c.GetTracesConfigVal = tc
		c.GetCollectionConfigVal = config.CollectionConfig{WorkerCount: 2, IncomingQueueSize: 10000, PeerQueueSize: 10000, ShutdownDelay: config.Duration(time.Millisecond), HealthCheckTimeout: config.Duration(time.Hour)}
		c.SampleCache = config.SampleCacheConfig{KeptSize: 100000, DroppedSize: 100000, SizeCheckInterval: config.Duration(time.Hour)}
		c.Samplers = map[string]*config.V2SamplerChoice{"__default__": {DeterministicSampler: &config.DeterministicSamplerConfig{SampleRate: 3}}}
		for ds, r := range c04rDatasetRates { // legacy keys: the sampler key is the dataset
			c.Samplers[ds] = &config.V2SamplerChoice{DeterministicSampler: &config.DeterministicSamplerConfig{SampleRate: r}}
		}
		c.GetSamplerTypeVal = &config.DeterministicSamplerConfig{SampleRate: 3}
	}, Wire: true})
	defer b.Close()
	stress := &c04rStress{}
	cm := &metrics.MockMetrics{} // the collector's own counters: used to know when it has decided everything it was handed
	cm.Start()
	decided := func() (applied, cacheHits float64) {
		k, _ := cm.Get("trace_send_kept")
		d, _ := cm.Get("trace_send_dropped")
		h, _ := cm.Get("trace_sent_cache_hit")
		return k + d, h
	}
	sf := &sample.SamplerFactory{Config: b.Cfg, Metrics: &metrics.NullMetrics{}, Logger: &logger.NullLogger{}}
	if err := sf.Start(); err != nil {
		t.Fatalf("sampler factory: %v", err)
	}
	coll := &collect.InMemCollector{Config: b.Cfg, Clock: clockwork.NewRealClock(), Logger: &logger.NullLogger{}, Tracer: noop.NewTracerProvider().Tracer("verif"),
		Health: c04rHealth{}, Transmission: b.Upstream, PeerTransmission: b.PeerTx, Metrics: cm, StressRelief: stress,
		SamplerFactory: sf, Peers: peer.NewMockPeers([]string{"self"}, "self"), Sharder: &sharder.MockSharder{Self: &sharder.TestShard{Addr: "self"}}}
	if err := coll.Start(); err != nil {
		t.Fatalf("collector: %v", err)
	}
	defer func() { _ = coll.Stop(); sf.Stop() }()
	b.Collector.SetInner(coll)
	refs := map[int]*sample.DeterministicSampler{}
	for _, r := range []int{3, 10, 1000} {
		refs[r] = &sample.DeterministicSampler{Config: &config.DeterministicSamplerConfig{SampleRate: r}, Logger: &logger.NullLogger{}, Metrics: &metrics.NullMetrics{}}
		_ = refs[r].Start()
	}
	keeps := func(rate int, id string) bool { _, k, _, _ := refs[rate].GetSampleRate(&types.Trace{TraceID: id}); return k }

	nextID := 0
	genRate := func(rng *verifkit.Rand) int64 {
		switch rng.Intn(9) {
		case 0, 1, 2:
			return -1
		case 3:
			return 0
		case 4:
			return 1
		case 5:
			return 2
		case 6:
			return 10
		case 7:
			return 1<<31 - 1
		}
		return verifkit.Pick(rng, int64(rng.Range(3, 100000)), 65536, 1<<20, 1<<31-2, int64(rng.Int63()%(1<<31-3))+2)
	}
	cls := func(it c04rItem) string {
		switch {
		case it.Garbage != "":
			return "g"
		case it.Rate < 0:
			return "-"
		case it.Rate <= 1:
			return fmt.Sprint(it.Rate)
		}
		return "N"
	}

	run.Cases("requests", run.N(400, 20000), func(ci int, rng *verifkit.Rand) {
		b.Log.Reset()
		enc := verifkit.Pick(rng, E3JSON, E3Msgpack, E3Msgpack)
		encName := map[E3Encoding]string{E3JSON: "json", E3Msgpack: "msgpack"}[enc]
		key := verifkit.Pick(rng, E3KeyEnv, E3KeyLegacy, E3KeyLegacy)
		dataset, traceRate := "ds3", uint64(3)
		if key == E3KeyLegacy {
			dataset = verifkit.Pick(rng, "ds3", "ds10", "ds10", "ds1000")
			traceRate = uint64(c04rDatasetRates[dataset])
		}
		detRate := int(traceRate)
		stressed := rng.Chance(0.15)
		if stressed { // every span of this request is decided by stress relief (ProcessSpanImmediately)
			traceRate = verifkit.Pick(rng, uint64(100), 1<<32, 1<<32+7, 1<<40)
			stress.rate.Store(traceRate)
		}
		for len(b.Wire.ch) > 0 { // tokens of events nobody waited for (earlier inconclusive case)
			<-b.Wire.ch
		}
		b.Wire.Take()
		batch := rng.Chance(0.75)
		n := 1
		if batch {
			n = rng.Range(2, 9)
		}
		items := make([]c04rItem, n)
		var reqs []*E3Req
		var bitems []E3BatchItem
		for i := range items {
			nextID++
			it := c04rItem{ID: fmt.Sprintf("c04r-%d-%d", ci, nextID), Rate: genRate(rng)}
			if rng.Chance(0.7) {
				for {
					it.Trace = rng.Hex(32)
					if it.Kept = keeps(detRate, it.Trace); it.Kept == rng.Chance(0.7) || (detRate == 1000 && it.Kept) {
						break
					}
				}
			}
			kv := []E3KV{KV("verif.id", VStr(it.ID)), KV("n", VInt(int64(i)))}
			if it.Trace != "" {
				kv = append(kv, KV("trace.trace_id", VStr(it.Trace)), KV("trace.span_id", VStr("sp-"+it.ID)))
			}
			data := VMap(kv...)
			if batch {
				bi := E3BatchItem{Data: &data, Order: verifkit.Pick(rng, []string{"time", "samplerate", "data"}, []string{"data", "samplerate"}, []string{"samplerate", "data"})}
				switch {
				case enc == E3JSON && rng.Chance(0.08):
					it.Garbage, it.Rate = verifkit.Pick(rng, "10", "abc", ""), -1
					bi.Rate = e3P(VStr(it.Garbage))
					if it.Garbage == "" {
						it.Garbage = "(empty string)"
					}
				case it.Rate >= 0:
					bi.Rate = e3P(VInt(it.Rate))
				}
				bitems = append(bitems, bi)
			} else {
				req, err := e3EventReq(E3Incoming, enc, dataset, key, data, it.Rate, "")
				if err != nil {
					t.Fatalf("build: %v", err)
				}
				if it.Rate < 0 && rng.Chance(0.4) {
					it.Garbage = verifkit.Pick(rng, "abc", "1.5", "", "1e3", "0x10")
					req.Set(types.SampleRateHeader, it.Garbage)
					if it.Garbage == "" {
						it.Garbage = "(empty header)"
					}
				}
				reqs = append(reqs, req)
			}
			items[i] = it
		}
		if batch {
			req, err := e3BatchReq(E3Incoming, enc, dataset, key, bitems)
			if err != nil {
				t.Fatalf("build: %v", err)
			}
			reqs = append(reqs, req)
		}
		var statuses []int
		stress.on.Store(stressed)
		applied0, hits0 := decided()
		for _, r := range reqs {
			statuses = append(statuses, b.Serve(r).Status)
		}
		stress.on.Store(false)
		// wait for the real collector to forward the kept traces (bounded)
		wantUp := 0
		for _, it := range items {
			if it.Trace != "" && (it.Kept || stressed) {
				wantUp++
			}
		}
		upstreamSpans := func() int {
			c := 0
			for _, o := range b.Log.Effects() {
				if o.Where == E3AtUpstreamSpan {
					c++
				}
			}
			return c
		}
		handed := 0
		for _, o := range b.Log.Effects() {
			if (o.Where == E3AtAddSpan && o.Result == "ok") || o.Where == E3AtImmediate {
				handed++
			}
		}
		complete := true
		if handed > 0 && !stressed {
			// every span handed to the collector is its own trace: it is either decided (kept/dropped counters) or
			// answered from the decision cache (cache hit: only possible through a false positive of the dropped-trace
			// filter, since the ids are fresh). Wait for that, then for the kept spans to reach the transmission.
			deadline := time.Now().Add(5 * time.Second)
			for time.Now().Before(deadline) {
				a, h := decided()
				if (a-applied0)+(h-hits0) >= float64(handed) && upstreamSpans() >= wantUp-int(h-hits0) {
					break
				}
				time.Sleep(200 * time.Microsecond)
			}
			_, h := decided()
			switch missing := wantUp - upstreamSpans(); {
			case missing <= 0:
			case float64(missing) <= h-hits0:
				run.Count("kept_spans_swallowed_by_dropped_filter_false_positive", int64(missing))
			default:
				complete = false
			}
		}
		endpoint := "event"
		if batch {
			endpoint = "batch"
		}
		wit := func(it c04rItem, obs []E3Obs) map[string]any {
			return map[string]any{"endpoint": endpoint, "encoding": encName, "events_in_order": items, "this_event": it, "observations": obs, "statuses": statuses, "request": reqs[len(reqs)-1].Witness()}
		}
		byID := b.Log.ByID()
		seq := make([]string, len(items))
		for i, it := range items {
			seq[i] = cls(it)
			obs := byID[it.ID]
			allowed := []uint{uint(max(it.Rate, 0))}
			input := "rate-present"
			if it.Rate <= 0 {
				allowed = []uint{0, 1}
				input = "rate-absent-or-zero"
				if it.Garbage != "" {
					input = "rate-not-a-number"
				}
			}
			for _, o := range obs {
				switch o.Where {
				case E3AtAddSpan, E3AtAddSpanFromPeer, E3AtUpstreamEvent, E3AtPeerEvent, E3AtPeerSpan, E3AtImmediate:
					run.Count("boundary_checks_"+endpoint+"_"+encName, 1)
					ok := false
					for _, a := range allowed {
						ok = ok || o.Ev.SampleRate == a
					}
					if !ok {
						run.Violation("C04/route/"+endpoint+"-"+encName+"/client-rate-not-the-events-own/"+input,
							fmt.Sprintf("event %s (%d of %d in the body) was sent with sample rate %v (%s) and handed to %s with SampleRate %d", it.ID, i+1, len(items), it.Rate, input, o.Where, o.Ev.SampleRate), wit(it, obs))
					}
				case E3AtUpstreamSpan:
					// forwarded by the real collector: composition end to end
					run.Count("end_to_end_checks", 1)
					hi, lo := bits.Mul64(uint64(max(it.Rate, 1)), traceRate)
					if hi != 0 || lo >= 1<<63 {
						run.Count("end_to_end_not_judged_product_above_2^63", 1)
						continue
					}
					want := uint(lo)
					fin, _ := c04rInt(o.Ev.Fields[types.MetaRefineryFinalSampleRate])
					orig, hasOrig := c04rInt(o.Ev.Fields[types.MetaRefineryOriginalSampleRate])
					switch {
					case !it.Kept && !stressed:
						// a dropped trace forwarded: C01's subject, not judged here
					case o.Ev.SampleRate != want:
						run.Violation("C04/route/end-to-end/"+endpoint+"-"+encName+"/sample-rate-not-client-times-trace-rate/"+input,
							fmt.Sprintf("event %s sent with rate %v, trace kept at %d (stress relief: %v): forwarded with SampleRate %d, expected %d", it.ID, it.Rate, traceRate, stressed, o.Ev.SampleRate, want), wit(it, obs))
					case uint(fin) != want:
						run.Violation("C04/route/end-to-end/"+endpoint+"-"+encName+"/final-sample-rate-field-differs", fmt.Sprintf("event %s: SampleRate %d, %s=%v", it.ID, o.Ev.SampleRate, types.MetaRefineryFinalSampleRate, o.Ev.Fields[types.MetaRefineryFinalSampleRate]), wit(it, obs))
					case it.Rate > 0 && (!hasOrig || orig != it.Rate), it.Rate <= 0 && hasOrig && orig != 1:
						run.Violation("C04/route/end-to-end/"+endpoint+"-"+encName+"/original-sample-rate-not-the-client-rate/"+input,
							fmt.Sprintf("event %s sent with rate %v: %s=%v", it.ID, it.Rate, types.MetaRefineryOriginalSampleRate, o.Ev.Fields[types.MetaRefineryOriginalSampleRate]), wit(it, obs))
					}
				}
			}
			if len(obs) == 0 {
				run.Count("events_not_observed", 1)
			}
		}
		// the wire: what the real DirectTransmission POSTed for every event handed upstream, decoded independently
		upstream := map[string]E3Obs{}
		for _, o := range b.Log.Effects() {
			if o.Where == E3AtUpstreamSpan || o.Where == E3AtUpstreamEvent {
				upstream[o.Ev.ID] = o
			}
		}
		if complete && len(upstream) > 0 {
			if !b.Wire.Await(len(upstream), 5*time.Second) {
				run.Inconclusive(fmt.Sprintf("case %d: fewer than %d events reached the fake Honeycomb within 5 s", ci, len(upstream)))
				return
			}
			for _, we := range b.Wire.Take() {
				o, ok := upstream[we.ID]
				if !ok || we.Problem != "" {
					run.Count("wire_events_unmatched", 1)
					continue
				}
				if o.Ev.SampleRate >= 1<<63 {
					run.Count("wire_not_judged_rate_above_2^63", 1) // the batch format carries an int64
					continue
				}
				run.Count("wire_checks", 1)
				var wireRate uint64
				numeric := true
				switch we.Rate.Kind {
				case KInt:
					wireRate = uint64(we.Rate.Int)
				case KUint:
					wireRate = we.Rate.Uint
				default:
					numeric = false
				}
				cls := "rate-below-2^32"
				if o.Ev.SampleRate >= 1<<32 {
					cls = "rate-at-or-above-2^32"
					run.Count("wire_checks_rate_at_or_above_2^32", 1)
				}
				w := map[string]any{"endpoint": endpoint, "encoding": encName, "handed_to_transmission": o, "on_the_wire": we, "events_in_order": items, "trace_rate": traceRate, "stress_relief": stressed}
				if !numeric || wireRate != uint64(o.Ev.SampleRate) || (we.Rate.Kind == KInt && we.Rate.Int < 0) {
					run.Violation("C04/route/wire/samplerate-in-request-body-differs-from-forwarded-rate/"+cls,
						fmt.Sprintf("event %s was handed to the upstream transmission with SampleRate %d; the POSTed batch carries samplerate %+v", we.ID, o.Ev.SampleRate, we.Rate), w)
					continue
				}
				if o.Where == E3AtUpstreamSpan {
					fv, ok := we.Data.Get(types.MetaRefineryFinalSampleRate)
					var f uint64
					switch fv.Kind {
					case KInt:
						f = uint64(fv.Int)
					case KUint:
						f = fv.Uint
					}
					if !ok || f != wireRate {
						run.Violation("C04/route/wire/final-sample-rate-in-body-differs-from-samplerate/"+cls,
							fmt.Sprintf("event %s: samplerate %d on the wire, %s=%+v in its data", we.ID, wireRate, types.MetaRefineryFinalSampleRate, fv), w)
					}
				}
			}
		}
		if !complete {
			run.Inconclusive(fmt.Sprintf("case %d: the collector behind the router forwarded %d of %d kept spans within 5 s", ci, upstreamSpans(), wantUp))
		}
		s := strings.Join(seq, "")
		if i := strings.Index(s, "N"); batch && i >= 0 {
			if j := strings.IndexAny(s[i:], "-0g"); j >= 0 && strings.Contains(s[i+j:], "N") {
				run.Nontrivial(endpoint + " " + encName + " " + s)
			}
		}
		if !batch {
			run.Count("single_event_requests", 1)
		}
		if ci < 2 {
			sort.Ints(statuses)
			run.Sample(map[string]any{"endpoint": endpoint, "encoding": encName, "events": items, "statuses": statuses})
		}
	})
}
