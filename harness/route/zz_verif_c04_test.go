//go:build verif

package route

import (
	"fmt"
	"sort"
	"strings"
	"testing"
	"time"

	"github.com/jonboulle/clockwork"
	"go.opentelemetry.io/otel/trace/noop"

	"github.com/honeycombio/refinery/collect"
	"github.com/honeycombio/refinery/config"
	"github.com/honeycombio/refinery/internal/peer"
	"github.com/honeycombio/refinery/internal/verifkit"
	"github.com/honeycombio/refinery/logger"
	"github.com/honeycombio/refinery/metrics"
	"github.com/honeycombio/refinery/sample"
	"github.com/honeycombio/refinery/sharder"
	"github.com/honeycombio/refinery/types"
)

// C04, unit "route": the client-supplied sample rate that enters the composition is the one the client
// supplied FOR THAT EVENT. Engine E3 (real Router handlers, in-process). /1/batch bodies (JSON and msgpack) mix
// events with a samplerate key {0,1,2,10,2^31-1,random} and events without one, in PRNG order; /1/events
// requests carry the X-Honeycomb-Samplerate header present / absent / 0 / garbage.
//   boundary  at hand-over (recording collector for spans, upstream transmission for non-trace events) the
//             event's SampleRate equals the supplied rate when that is > 0, and is 0 or 1 when it is absent, zero
//             or not a number (docs: absent ≡ 1) — never another event's value;
//   end to end  the recording collector delegates to a REAL InMemCollector (deterministic sampler, rate 3, real
//             clock with 1-2 ms timers) whose upstream is the bench's recording transmission: every span of a
//             kept trace must be forwarded with SampleRate = max(client,1)·3, final_sample_rate equal to it and
//             original_sample_rate = the client rate (or 1/absent when the client sent none).

type c04rHealth struct{}

func (c04rHealth) Register(string, time.Duration) {}
func (c04rHealth) Unregister(string)              {}
func (c04rHealth) Ready(string, bool)             {}

const c04rTraceRate = 3

func c04rInt(v any) (int64, bool) {
	switch x := v.(type) {
	case int64:
		return x, true
	case int:
		return int64(x), true
	case uint64:
		return int64(x), true
	case uint:
		return int64(x), true
	}
	return 0, false
}

type c04rItem struct {
	ID      string `json:"id"`
	Trace   string `json:"trace,omitempty"` // "" = not part of a trace
	Kept    bool   `json:"sampler_keeps,omitempty"`
	Rate    int64  `json:"rate"` // -1 absent
	Garbage string `json:"garbage,omitempty"`
}

func TestVerif_C04Route(t *testing.T) {
	run := verifkit.Start(t, "C04", "route")
	defer run.Finish()
	run.Rule("seeded requests through the real router handlers: /1/batch bodies in JSON and msgpack with 2-9 events, each with its own samplerate key from {0,1,2,10,2^31-1,random} or none (JSON also a non-numeric one), all mixed in one body in PRNG order, events with and without a trace id; /1/events requests with the sample-rate header present, absent, 0 or garbage; traces decided by a real collector behind the router (deterministic sampler rate 3, trace ids chosen kept or dropped); non-trivial = one body holds an event without a rate AFTER an event with a rate > 1 and a later event with another rate; distinct = (endpoint, encoding, sequence of rate classes)")
	run.Assume("the rate the client supplied for an event is what the harness wrote into that event's samplerate key / the request's header; absent, zero and non-numeric rates may be handed over as 0 or 1")
	run.Assume("the real collector behind the router runs on the real clock (SendDelay 1 ms, SendTicker 2 ms); waiting for its output is bounded (5 s) and an expired bound is inconclusive")

	tc := config.TracesConfig{SendTicker: config.Duration(2 * time.Millisecond), SendDelay: config.Duration(time.Millisecond), TraceTimeout: config.Duration(50 * time.Millisecond), MaxExpiredTraces: 3000}
	b := e3New(t, E3Options{Configure: func(c *config.MockConfig) {
		c.GetTracesConfigVal = tc
		c.GetCollectionConfigVal = config.CollectionConfig{WorkerCount: 2, IncomingQueueSize: 10000, PeerQueueSize: 10000, ShutdownDelay: config.Duration(time.Millisecond), HealthCheckTimeout: config.Duration(time.Hour)}
		c.SampleCache = config.SampleCacheConfig{KeptSize: 100000, DroppedSize: 100000, SizeCheckInterval: config.Duration(time.Hour)}
		c.Samplers = map[string]*config.V2SamplerChoice{"__default__": {DeterministicSampler: &config.DeterministicSamplerConfig{SampleRate: c04rTraceRate}}}
		c.GetSamplerTypeVal = &config.DeterministicSamplerConfig{SampleRate: c04rTraceRate}
	}})
	defer b.Close()
	sf := &sample.SamplerFactory{Config: b.Cfg, Metrics: &metrics.NullMetrics{}, Logger: &logger.NullLogger{}}
	if err := sf.Start(); err != nil {
		t.Fatalf("sampler factory: %v", err)
	}
	coll := &collect.InMemCollector{Config: b.Cfg, Clock: clockwork.NewRealClock(), Logger: &logger.NullLogger{}, Tracer: noop.NewTracerProvider().Tracer("verif"),
		Health: c04rHealth{}, Transmission: b.Upstream, PeerTransmission: b.PeerTx, Metrics: &metrics.NullMetrics{}, StressRelief: &collect.MockStressReliever{},
		SamplerFactory: sf, Peers: peer.NewMockPeers([]string{"self"}, "self"), Sharder: &sharder.MockSharder{Self: &sharder.TestShard{Addr: "self"}}}
	if err := coll.Start(); err != nil {
		t.Fatalf("collector: %v", err)
	}
	defer func() { _ = coll.Stop(); sf.Stop() }()
	b.Collector.SetInner(coll)
	ref := &sample.DeterministicSampler{Config: &config.DeterministicSamplerConfig{SampleRate: c04rTraceRate}, Logger: &logger.NullLogger{}, Metrics: &metrics.NullMetrics{}}
	_ = ref.Start()
	keeps := func(id string) bool { _, k, _, _ := ref.GetSampleRate(&types.Trace{TraceID: id}); return k }

	nextID := 0
	genRate := func(rng *verifkit.Rand) int64 {
		switch rng.Intn(9) {
		case 0, 1, 2:
			return -1
		case 3:
			return 0
		case 4:
			return 1
		case 5:
			return 2
		case 6:
			return 10
		case 7:
			return 1<<31 - 1
		}
		return int64(rng.Range(3, 100000))
	}
	cls := func(it c04rItem) string {
		switch {
		case it.Garbage != "":
			return "g"
		case it.Rate < 0:
			return "-"
		case it.Rate <= 1:
			return fmt.Sprint(it.Rate)
		}
		return "N"
	}

	run.Cases("requests", run.N(400, 20000), func(ci int, rng *verifkit.Rand) {
		b.Log.Reset()
		enc := verifkit.Pick(rng, E3JSON, E3Msgpack, E3Msgpack)
		encName := map[E3Encoding]string{E3JSON: "json", E3Msgpack: "msgpack"}[enc]
		key := verifkit.Pick(rng, E3KeyEnv, E3KeyLegacy)
		batch := rng.Chance(0.75)
		n := 1
		if batch {
			n = rng.Range(2, 9)
		}
		items := make([]c04rItem, n)
		var reqs []*E3Req
		var bitems []E3BatchItem
		for i := range items {
			nextID++
			it := c04rItem{ID: fmt.Sprintf("c04r-%d-%d", ci, nextID), Rate: genRate(rng)}
			if rng.Chance(0.7) {
				for {
					it.Trace = rng.Hex(32)
					if it.Kept = keeps(it.Trace); it.Kept == rng.Chance(0.7) {
						break
					}
				}
			}
			kv := []E3KV{KV("verif.id", VStr(it.ID)), KV("n", VInt(int64(i)))}
			if it.Trace != "" {
				kv = append(kv, KV("trace.trace_id", VStr(it.Trace)), KV("trace.span_id", VStr("sp-"+it.ID)))
			}
			data := VMap(kv...)
			if batch {
				bi := E3BatchItem{Data: &data, Order: verifkit.Pick(rng, []string{"time", "samplerate", "data"}, []string{"data", "samplerate"}, []string{"samplerate", "data"})}
				switch {
				case enc == E3JSON && rng.Chance(0.08):
					it.Garbage, it.Rate = verifkit.Pick(rng, "10", "abc", ""), -1
					bi.Rate = e3P(VStr(it.Garbage))
					if it.Garbage == "" {
						it.Garbage = "(empty string)"
					}
				case it.Rate >= 0:
					bi.Rate = e3P(VInt(it.Rate))
				}
				bitems = append(bitems, bi)
			} else {
				req, err := e3EventReq(E3Incoming, enc, "ds", key, data, it.Rate, "")
				if err != nil {
					t.Fatalf("build: %v", err)
				}
				if it.Rate < 0 && rng.Chance(0.4) {
					it.Garbage = verifkit.Pick(rng, "abc", "1.5", "", "1e3", "0x10")
					req.Set(types.SampleRateHeader, it.Garbage)
					if it.Garbage == "" {
						it.Garbage = "(empty header)"
					}
				}
				reqs = append(reqs, req)
			}
			items[i] = it
		}
		if batch {
			req, err := e3BatchReq(E3Incoming, enc, "ds", key, bitems)
			if err != nil {
				t.Fatalf("build: %v", err)
			}
			reqs = append(reqs, req)
		}
		var statuses []int
		for _, r := range reqs {
			statuses = append(statuses, b.Serve(r).Status)
		}
		// wait for the real collector to forward the kept traces (bounded)
		wantUp := 0
		for _, it := range items {
			if it.Trace != "" && it.Kept {
				wantUp++
			}
		}
		upstreamSpans := func() int {
			c := 0
			for _, o := range b.Log.Effects() {
				if o.Where == E3AtUpstreamSpan {
					c++
				}
			}
			return c
		}
		handed := 0
		for _, o := range b.Log.Effects() {
			if o.Where == E3AtAddSpan && o.Result == "ok" {
				handed++
			}
		}
		complete := true
		if handed > 0 {
			deadline := time.Now().Add(5 * time.Second)
			for upstreamSpans() < wantUp && time.Now().Before(deadline) {
				time.Sleep(200 * time.Microsecond)
			}
			complete = upstreamSpans() >= wantUp
		}

		endpoint := "event"
		if batch {
			endpoint = "batch"
		}
		wit := func(it c04rItem, obs []E3Obs) map[string]any {
			return map[string]any{"endpoint": endpoint, "encoding": encName, "events_in_order": items, "this_event": it, "observations": obs, "statuses": statuses, "request": reqs[len(reqs)-1].Witness()}
		}
		byID := b.Log.ByID()
		seq := make([]string, len(items))
		for i, it := range items {
			seq[i] = cls(it)
			obs := byID[it.ID]
			allowed := []uint{uint(max(it.Rate, 0))}
			input := "rate-present"
			if it.Rate <= 0 {
				allowed = []uint{0, 1}
				input = "rate-absent-or-zero"
				if it.Garbage != "" {
					input = "rate-not-a-number"
				}
			}
			for _, o := range obs {
				switch o.Where {
				case E3AtAddSpan, E3AtAddSpanFromPeer, E3AtUpstreamEvent, E3AtPeerEvent, E3AtPeerSpan, E3AtImmediate:
					run.Count("boundary_checks_"+endpoint+"_"+encName, 1)
					ok := false
					for _, a := range allowed {
						ok = ok || o.Ev.SampleRate == a
					}
					if !ok {
						run.Violation("C04/route/"+endpoint+"-"+encName+"/client-rate-not-the-events-own/"+input,
							fmt.Sprintf("event %s (%d of %d in the body) was sent with sample rate %v (%s) and handed to %s with SampleRate %d", it.ID, i+1, len(items), it.Rate, input, o.Where, o.Ev.SampleRate), wit(it, obs))
					}
				case E3AtUpstreamSpan:
					// forwarded by the real collector: composition end to end
					run.Count("end_to_end_checks", 1)
					c := uint(max(it.Rate, 1))
					want := c * c04rTraceRate
					fin, _ := c04rInt(o.Ev.Fields[types.MetaRefineryFinalSampleRate])
					orig, hasOrig := c04rInt(o.Ev.Fields[types.MetaRefineryOriginalSampleRate])
					switch {
					case !it.Kept:
						// a dropped trace forwarded: C01's subject, not judged here
					case o.Ev.SampleRate != want:
						run.Violation("C04/route/end-to-end/"+endpoint+"-"+encName+"/sample-rate-not-client-times-trace-rate/"+input,
							fmt.Sprintf("event %s sent with rate %v, trace kept at %d: forwarded with SampleRate %d, expected %d", it.ID, it.Rate, c04rTraceRate, o.Ev.SampleRate, want), wit(it, obs))
					case uint(fin) != want:
						run.Violation("C04/route/end-to-end/"+endpoint+"-"+encName+"/final-sample-rate-field-differs", fmt.Sprintf("event %s: SampleRate %d, %s=%v", it.ID, o.Ev.SampleRate, types.MetaRefineryFinalSampleRate, o.Ev.Fields[types.MetaRefineryFinalSampleRate]), wit(it, obs))
					case it.Rate > 0 && (!hasOrig || orig != it.Rate), it.Rate <= 0 && hasOrig && orig != 1:
						run.Violation("C04/route/end-to-end/"+endpoint+"-"+encName+"/original-sample-rate-not-the-client-rate/"+input,
							fmt.Sprintf("event %s sent with rate %v: %s=%v", it.ID, it.Rate, types.MetaRefineryOriginalSampleRate, o.Ev.Fields[types.MetaRefineryOriginalSampleRate]), wit(it, obs))
					}
				}
			}
			if len(obs) == 0 {
				run.Count("events_not_observed", 1)
			}
		}
		if !complete {
			run.Inconclusive(fmt.Sprintf("case %d: the collector behind the router forwarded %d of %d kept spans within 5 s", ci, upstreamSpans(), wantUp))
		}
		s := strings.Join(seq, "")
		if i := strings.Index(s, "N"); batch && i >= 0 {
			if j := strings.IndexAny(s[i:], "-0g"); j >= 0 && strings.Contains(s[i+j:], "N") {
				run.Nontrivial(endpoint + " " + encName + " " + s)
			}
		}
		if !batch {
			run.Count("single_event_requests", 1)
		}
		if ci < 2 {
			sort.Ints(statuses)
			run.Sample(map[string]any{"endpoint": endpoint, "encoding": encName, "events": items, "statuses": statuses})
		}
	})
}
