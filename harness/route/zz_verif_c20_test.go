//go:build verif

package route

// C20, unit "route": forwarded events carry exactly the client's fields.
//
// Event in -> event at the boundary where the router hands it on: the upstream
// transmission (events outside a trace), the peer transmission (spans of traces another
// node owns) and the collector (spans of traces this node owns; what is forwarded later
// starts from this payload). At each hand-over the bench snapshots
// types.Payload.MarshalMsg — the bytes a DirectTransmission puts on the wire — and this
// check decodes them with the bench's independent msgpack decoder and compares them with
// the map the client sent:
//
//   * every client field is there exactly once, under the same name, with an equivalent
//     value (e3Equiv: same kind; integers equal as integers whatever the width or
//     signedness family; floats equal as float64; an integer never becomes a float or
//     vice versa; JSON numbers arrive as floats);
//   * every other field is one of Refinery's own metadata names (frozen list below);
//   * client fields that use one of those reserved names are exempt.

import (
	"fmt"
	"math"
	"sort"
	"strconv"
	"strings"
	"sync"
	"testing"

	"github.com/honeycombio/refinery/collect"
	"github.com/honeycombio/refinery/config"
	"github.com/honeycombio/refinery/internal/verifkit"
	"github.com/honeycombio/refinery/transmit"
	"github.com/honeycombio/refinery/types"
)

// c20Reserved: the meta.* names in Refinery's documentation plus its declared metadata
// names (types.Meta*, dry-run names). Frozen here on purpose.
var c20Reserved = map[string]bool{
	"meta.signal_type": true, "meta.trace_id": true, "meta.annotation_type": true, "meta.refinery.probe": true,
	"meta.refinery.root": true, "meta.refinery.incoming_user_agent": true, "meta.refinery.local_hostname": true,
	"meta.stressed": true, "meta.refinery.reason": true, "meta.refinery.send_reason": true, "meta.span_event_count": true,
	"meta.span_link_count": true, "meta.span_count": true, "meta.event_count": true, "meta.refinery.original_sample_rate": true,
	"meta.refinery.final_sample_rate": true, "meta.refinery.sample_key": true, "meta.refinery.dryrun.kept": true,
	"meta.refinery.dryrun.sample_rate": true, "meta.dryrun.sample_rate": true, "meta.refinery.dynsampler_key": true,
}

type c20Enc int

const (
	c20EventJSON c20Enc = iota
	c20EventMsgp
	c20BatchJSON
	c20BatchMsgp
)

func (e c20Enc) String() string {
	return [...]string{"event-json", "event-msgpack", "batch-json", "batch-msgpack"}[e]
}
func (e c20Enc) json() bool { return e == c20EventJSON || e == c20BatchJSON }

// ---- generators ----

var c20Ints = []int64{0, 1, -1, 31, 32, -32, -33, 127, 128, -128, -129, 255, 256, 32767, 32768, -32768, -32769, 65535, 65536,
	1<<31 - 1, 1 << 31, -(1 << 31), -(1 << 31) - 1, 1<<32 - 1, 1 << 32, 1<<53 - 1, 1 << 53, 1<<53 + 1, math.MaxInt64, math.MinInt64, 200, 404}

var c20Floats = []float64{0, 0.5, -0.5, 1.5, 5, 200, 0.1, 3.141592653589793, 1e6, 1.000001e6, 1e21, 1e-7, 7.52573035551612e-08, 1e300, 5e-324,
	math.MaxFloat64, 16777216, 16777217, 1 << 53, 123456.789, -2.5e10,
	// mantissa/exponent pairs fastjson's own float conversion rounds wrongly in exponent notation
	8.052275599395e+11, 940.509, 788.604915019345, 1.234567e6, 2.5000005e6}

var c20Strs = []string{"", "a", "hello world", "ünïcödé ✓", "with \"quotes\" and \\ backslash", "line\nbreak\ttab", "0123456789012345678901234567890123456789",
	"5", "true", "null", "{\"json\":1}"}

func c20GenVal(rng *verifkit.Rand, depth int, json bool) E3Val {
	k := rng.Intn(100)
	switch {
	case k < 6:
		return VNil()
	case k < 14:
		return VBool(rng.Bool())
	case k < 32:
		v := c20Ints[rng.Intn(len(c20Ints))]
		if json || rng.Chance(0.6) {
			return VInt(v)
		}
		w := verifkit.Pick(rng, 8, 16, 32, 64)
		for w < 64 && (v >= 1<<uint(w-1) || v < -(1<<uint(w-1))) {
			w *= 2
		}
		return VIntW(v, w)
	case k < 42:
		u := verifkit.Pick(rng, uint64(0), 1, 127, 128, 255, 256, 65535, 65536, 1<<32-1, 1<<32, 1<<53, 1<<63-1, 1<<63, 1<<63+1025, math.MaxUint64)
		if json {
			return E3Val{Kind: KUint, Uint: u}
		}
		w := 0
		if rng.Chance(0.4) {
			w = verifkit.Pick(rng, 8, 16, 32, 64)
			for w < 64 && u >= 1<<uint(w) {
				w *= 2
			}
		}
		return VUintW(u, w)
	case k < 56:
		f := c20Floats[rng.Intn(len(c20Floats))]
		if !json {
			switch rng.Intn(12) {
			case 0:
				f = math.NaN()
			case 1:
				f = math.Inf(1)
			case 2:
				f = math.Copysign(0, -1)
			}
			if rng.Chance(0.35) && (float64(float32(f)) == f || math.IsNaN(f)) {
				return VF32(float32(f))
			}
		}
		return VF64(f)
	case k < 72:
		s := c20Strs[rng.Intn(len(c20Strs))]
		if rng.Chance(0.08) {
			s = strings.Repeat("x", verifkit.Pick(rng, 31, 32, 255, 256, 300))
		}
		if !json && rng.Chance(0.2) {
			w := verifkit.Pick(rng, 8, 16, 32)
			if len(s) < 1<<uint(w) {
				return VStrW(s, w)
			}
		}
		return VStr(s)
	case k < 78 && !json:
		b := make([]byte, rng.Range(0, 6))
		for i := range b {
			b[i] = byte(rng.Intn(256))
		}
		return VBin(b)
	case k < 84 && !json:
		switch rng.Intn(3) {
		case 0:
			return VTs32(int64(rng.Intn(1 << 31)))
		case 1:
			return VTs64(int64(1_700_000_000+rng.Intn(1000)), int64(rng.Intn(1_000_000_000)))
		default:
			return VTs96(verifkit.Pick(rng, int64(-1), 1_700_000_000, 1<<35), int64(rng.Intn(1_000_000_000)))
		}
	case k < 92 && depth > 0:
		var xs []E3Val
		for i, n := 0, rng.Range(0, 3); i < n; i++ {
			xs = append(xs, c20GenVal(rng, depth-1, json))
		}
		return E3Val{Kind: KArr, Arr: xs}
	case depth > 0:
		var kvs []E3KV
		for i, n := 0, rng.Range(0, 3); i < n; i++ {
			kvs = append(kvs, KV(fmt.Sprintf("n%d%s", i, verifkit.Pick(rng, "", ".x", " y", "é")), c20GenVal(rng, depth-1, json)))
		}
		return E3Val{Kind: KMap, Map: kvs}
	}
	return VStr("leaf")
}

type c20Key struct {
	Name  string
	Class string
	Bin   bool
}

var c20PlainKeys = []string{"k0", "k1", "k2", "http.status", "ünï.këy", "with space", "a.very.long.key.name.beyond.thirty.one.bytes.x", "UPPER", "k,comma", "k•dot"}
var c20IDKeys = []string{"trace.trace_id", "trace.parent_id", "traceId", "parentId", "trace.span_id"}
var c20MetaKeys = []string{"meta.custom", "meta.refinery.custom", "meta.", "meta", "meta.span_count.extra", "metadata.x", "meta.Signal_Type"}
var c20ReservedKeys = []string{"meta.signal_type", "meta.annotation_type", "meta.span_count", "meta.refinery.reason", "meta.refinery.root", "meta.refinery.local_hostname"}

func c20KindName(v E3Val) string { return v.Kind.String() }

// ---- comparison ----

type c20Diff struct {
	Key   string `json:"key"`
	Class string `json:"key_class"`
	What  string `json:"what"`
	Kind  string `json:"client_value_kind"`
	Leaf  string `json:"change,omitempty"`
	In    *E3Val `json:"client_value,omitempty"`
	Out   *E3Val `json:"forwarded_value,omitempty"`
}

// c20Leaf descends into arrays and maps to the first place where the forwarded value
// stops being equivalent and names the change there ("bin-to-str", "time-to-ext5",
// "f64-value", "nested-key-lost", "array-length").
func c20Leaf(in, out E3Val, viaJSON bool) string {
	if in.Kind == KArr && out.Kind == KArr {
		if len(in.Arr) != len(out.Arr) {
			return "array-length"
		}
		for i := range in.Arr {
			if !e3Equiv(in.Arr[i], out.Arr[i], viaJSON) {
				return c20Leaf(in.Arr[i], out.Arr[i], viaJSON)
			}
		}
		return "array"
	}
	if in.Kind == KMap && out.Kind == KMap {
		for _, kv := range in.Map {
			n, idx := 0, -1
			for j, okv := range out.Map {
				if okv.Key == kv.Key {
					n++
					idx = j
				}
			}
			switch {
			case n == 0:
				return "nested-key-lost"
			case n > 1:
				return "nested-key-duplicated"
			case !e3Equiv(kv.Val, out.Map[idx].Val, viaJSON):
				return c20Leaf(kv.Val, out.Map[idx].Val, viaJSON)
			}
		}
		if len(out.Map) != len(in.Map) {
			return "nested-key-added"
		}
		return "map"
	}
	kind := func(v E3Val) string {
		if v.Kind == KExt {
			return fmt.Sprintf("ext%d", v.Ext)
		}
		if v.Kind == KInt || v.Kind == KUint {
			return "integer"
		}
		return v.Kind.String()
	}
	if kind(in) == kind(out) || (viaJSON && (kind(in) == "integer" || in.Kind == KF64) && out.Kind == KF64) {
		return kind(in) + "-value"
	}
	return kind(in) + "-to-" + kind(out)
}

// c20HasInteger: does the value hold an integer-typed number at any depth?
func c20HasInteger(v E3Val) bool {
	switch v.Kind {
	case KInt, KUint:
		return true
	case KArr:
		for _, x := range v.Arr {
			if c20HasInteger(x) {
				return true
			}
		}
	case KMap:
		for _, kv := range v.Map {
			if c20HasInteger(kv.Val) {
				return true
			}
		}
	}
	return false
}

func c20Compare(in, out E3Val, classes map[string]string, viaJSON bool) []c20Diff {
	var diffs []c20Diff
	count := map[string]int{}
	first := map[string]int{}
	for i, kv := range out.Map {
		if count[kv.Key] == 0 {
			first[kv.Key] = i
		}
		count[kv.Key]++
	}
	inKeys := map[string]bool{}
	for i := range in.Map {
		kv := in.Map[i]
		inKeys[kv.Key] = true
		if c20Reserved[kv.Key] {
			continue
		}
		cls := classes[kv.Key]
		iv := kv.Val
		switch count[kv.Key] {
		case 0:
			diffs = append(diffs, c20Diff{Key: kv.Key, Class: cls, What: "lost", Kind: c20KindName(iv), In: &iv})
			continue
		case 1:
		default:
			diffs = append(diffs, c20Diff{Key: kv.Key, Class: cls, What: "duplicated", Kind: c20KindName(iv), In: &iv})
			continue
		}
		ov := out.Map[first[kv.Key]].Val
		if viaJSON && e3Equiv(iv, ov, viaJSON) && c20HasInteger(ov) {
			// "JSON numbers becoming floats": JSON has one number type; an integer on the way
			// out is a kind change (and makes the value depend on which JSON path it took)
			diffs = append(diffs, c20Diff{Key: kv.Key, Class: cls, What: "altered", Kind: c20KindName(iv), In: &iv, Out: &ov, Leaf: "json-number-to-integer"})
			continue
		}
		if !e3Equiv(iv, ov, viaJSON) {
			diffs = append(diffs, c20Diff{Key: kv.Key, Class: cls, What: "altered", Kind: c20KindName(iv), In: &iv, Out: &ov, Leaf: c20Leaf(iv, ov, viaJSON)})
		}
	}
	for i := range out.Map {
		kv := out.Map[i]
		if !inKeys[kv.Key] && !c20Reserved[kv.Key] {
			ov := kv.Val
			diffs = append(diffs, c20Diff{Key: kv.Key, Class: "not-sent-by-client", What: "added", Kind: c20KindName(ov), Out: &ov})
		}
	}
	return diffs
}

// ---- JSON rendering with number spellings ----

// c20JSONNumber spells a float64 in one of the ways JSON allows; every spelling denotes
// exactly f (strconv's shortest round-trip digits).
func c20JSONNumber(b []byte, f float64, rng *verifkit.Rand) []byte {
	style := rng.Intn(10)
	if style < 4 {
		return strconv.AppendFloat(b, f, 'g', -1, 64)
	}
	e := strconv.FormatFloat(f, 'e', -1, 64) // d.ddde±dd
	i := strings.IndexByte(e, 'e')
	mant, sign, digits := e[:i], e[i+1:i+2], strings.TrimLeft(e[i+2:], "0")
	if digits == "" {
		digits = "0"
	}
	switch style {
	case 4:
		return append(b, e...)
	case 5: // upper-case E, sign only when negative
		if sign == "+" {
			sign = ""
		}
		return append(b, mant+"E"+sign+digits...)
	case 6: // E+ / E-
		return append(b, mant+"E"+sign+digits...)
	case 7: // leading zeros in the exponent
		return append(b, mant+"E"+sign+"00"+digits...)
	case 8: // lower-case, leading zeros, explicit sign
		return append(b, mant+"e"+sign+"0"+digits...)
	default: // plain decimal where that stays short
		p := strconv.FormatFloat(f, 'f', -1, 64)
		if len(p) > 40 {
			p = mant + "E" + sign + digits
		}
		return append(b, p...)
	}
}

// c20AppendJSON is e3AppendJSON (same tree, same key order) with PRNG-chosen spellings of
// floating-point numbers.
func c20AppendJSON(b []byte, v E3Val, rng *verifkit.Rand) ([]byte, error) {
	switch v.Kind {
	case KF32, KF64:
		if math.IsNaN(v.F) || math.IsInf(v.F, 0) {
			return b, errE3NotJSON
		}
		return c20JSONNumber(b, v.F, rng), nil
	case KArr:
		b = append(b, '[')
		for i, x := range v.Arr {
			if i > 0 {
				b = append(b, ',')
			}
			var err error
			if b, err = c20AppendJSON(b, x, rng); err != nil {
				return b, err
			}
		}
		return append(b, ']'), nil
	case KMap:
		b = append(b, '{')
		for i, kv := range v.Map {
			if i > 0 {
				b = append(b, ',')
			}
			k, _ := e3AppendJSON(nil, VStr(kv.Key))
			b = append(append(b, k...), ':')
			var err error
			if b, err = c20AppendJSON(b, kv.Val, rng); err != nil {
				return b, err
			}
		}
		return append(b, '}'), nil
	}
	return e3AppendJSON(b, v)
}

// ---- marshalling into caller-provided buffers ----

// c20BufRec sits behind the bench's recording transmissions and collector. At hand-over it
// marshals the payload the way a DirectTransmission does — appending to a buffer it already
// owns (transmit/direct_transmit.go: pooled batch buffer) — with PRNG-chosen prefix lengths
// and spare capacities around the payload size, and keeps what was appended.
type c20BufResult struct {
	ID      string
	Site    string
	Prefix  int
	Spare   int
	Size    int
	Problem string
	Out     E3Val
}

type c20BufRec struct {
	mu   sync.Mutex
	rng  *verifkit.Rand
	site string
	res  *[]c20BufResult
}

var (
	_ transmit.Transmission = (*c20BufRec)(nil)
	_ collect.Collector     = (*c20BufRec)(nil)
)

func (r *c20BufRec) marshal(ev *types.Event) {
	r.mu.Lock()
	defer r.mu.Unlock()
	if r.rng == nil {
		return
	}
	id, _ := ev.Data.Get("verif.id").(string)
	ref, err := ev.Data.MarshalMsg(nil)
	if err != nil {
		return // reported from the bench's own snapshot
	}
	L := len(ref)
	spares := []int{0, L, L - 1, L - 1 - r.rng.Intn(min(L, 2500)), L - r.rng.Range(900, 1400), r.rng.Intn(2*L + 1)}
	for _, spare := range spares {
		if spare < 0 {
			continue
		}
		n := r.rng.Intn(65)
		buf := make([]byte, n, n+spare)
		for i := range buf {
			buf[i] = 0xA5
		}
		res := c20BufResult{ID: id, Site: r.site, Prefix: n, Spare: spare, Size: L}
		out, err := ev.Data.MarshalMsg(buf)
		switch {
		case err != nil:
			res.Problem = "error: " + err.Error()
		case len(out) < n:
			res.Problem = "result shorter than the buffer it was appended to"
		default:
			for i := 0; i < n; i++ {
				if out[i] != 0xA5 || buf[i] != 0xA5 {
					res.Problem = "bytes before the append position were overwritten"
				}
			}
			if res.Problem == "" {
				v, rest, derr := e3DecodeMsgpack(out[n:])
				switch {
				case derr != nil:
					res.Problem = "appended bytes do not decode: " + derr.Error()
				case len(rest) != 0:
					res.Problem = fmt.Sprintf("appended bytes decode to a %s with %d entries followed by %d stray bytes", v.Kind, len(v.Map), len(rest))
				case v.Kind != KMap:
					res.Problem = "appended value is a " + v.Kind.String()
				default:
					res.Out = v
				}
			}
		}
		*r.res = append(*r.res, res)
	}
}

func (r *c20BufRec) EnqueueEvent(ev *types.Event)                      { r.marshal(ev) }
func (r *c20BufRec) EnqueueSpan(sp *types.Span)                        { r.marshal(sp.Event) }
func (r *c20BufRec) AddSpan(sp *types.Span) error                      { r.marshal(sp.Event); return nil }
func (r *c20BufRec) AddSpanFromPeer(sp *types.Span) error              { r.marshal(sp.Event); return nil }
func (r *c20BufRec) Stressed() bool                                    { return false }
func (r *c20BufRec) GetStressedSampleRate(string) (uint, bool, string) { return 1, true, "verif" }
func (r *c20BufRec) ProcessSpanImmediately(*types.Span) (bool, bool)   { return false, false }

func TestVerif_C20(t *testing.T) {
	run := verifkit.Start(t, "C20", "route")
	defer run.Finish()
	run.Rule("case = 1..3 events, each a generated map of 1..12 unique keys (plain, unicode, long, empty, sampling-key fields incl. root.-prefixed configuration, " +
		"trace/parent ID field names, non-reserved meta.* names, reserved meta names, binary keys) with values of every kind (nil, bool, integers at width " +
		"boundaries in signed and unsigned families up to 2^64-1, float32/float64 incl. NaN/Inf/-0, strings in every length class, bin, msgpack timestamps in " +
		"the three formats, arrays and maps nested up to depth 3), sent through /1/events or /1/batch in JSON or msgpack, routed upstream (no trace), to a " +
		"peer (trace owned elsewhere) or to the collector (own trace). Non-trivial = an event was handed on and compared; distinct = (encoding, hand-over " +
		"site, set of key classes, set of value kinds).")
	run.Assume("E3Event.Msgp = types.Payload.MarshalMsg(nil) at hand-over is what a DirectTransmission serialises for that event (transmit/direct_transmit.go batchedEvent.MarshalMsg appends Data.MarshalMsg)")
	run.Assume("the reserved-name list is frozen from the documentation and types.Meta*; application-defined msgpack extension types are not generated")

	b := e3New(t, E3Options{NoPeerRouter: true})
	defer b.Close()
	const peerAddr = "http://peer.verif.invalid:8081"
	var bufResults []c20BufResult
	recUp := &c20BufRec{site: "upstream", res: &bufResults}
	recPeer := &c20BufRec{site: "peer", res: &bufResults}
	recColl := &c20BufRec{site: "collector", res: &bufResults}
	b.Upstream.SetInner(recUp)
	b.PeerTx.SetInner(recPeer)
	b.Collector.SetInner(recColl)

	run.Cases("fields", run.N(3500, 150000), func(ci int, rng *verifkit.Rand) {
		enc := verifkit.Pick(rng, c20EventJSON, c20EventMsgp, c20BatchJSON, c20BatchMsgp)
		route := verifkit.Pick(rng, "upstream", "peer", "collector")
		nev := 1
		if enc == c20BatchJSON || enc == c20BatchMsgp {
			nev = rng.Range(1, 3)
		}
		// sampling key fields configured for this case
		var keyFields []string
		for _, k := range c20PlainKeys[:5] {
			if rng.Chance(0.35) {
				if rng.Chance(0.3) {
					k = "root." + k
				}
				keyFields = append(keyFields, k)
			}
		}
		isKeyField := map[string]bool{}
		for _, k := range keyFields {
			isKeyField[strings.TrimPrefix(k, "root.")] = true
		}
		b.Config(func(c *config.MockConfig) {
			if len(keyFields) == 0 {
				c.GetSamplerTypeVal = &config.DeterministicSamplerConfig{SampleRate: 1}
			} else {
				c.GetSamplerTypeVal = &config.DynamicSamplerConfig{SampleRate: 1, FieldList: keyFields}
			}
		})
		switch route {
		case "peer":
			b.Sharder.SetOwner(func(string) string { return peerAddr })
		default:
			b.Sharder.SetOwner(nil)
		}

		type sent struct {
			data    E3Val
			classes map[string]string
		}
		events := map[string]sent{}
		var items []E3BatchItem
		var order []string
		for e := 0; e < nev; e++ {
			id := fmt.Sprintf("c%d-e%d", ci, e)
			kvs := []E3KV{KV("verif.id", VStr(id))}
			classes := map[string]string{"verif.id": "plain"}
			used := map[string]bool{"verif.id": true}
			add := func(k c20Key, v E3Val) {
				if used[k.Name] {
					return
				}
				used[k.Name] = true
				cls := k.Class
				if isKeyField[k.Name] {
					cls = "sampling-key-field"
				}
				classes[k.Name] = cls
				kvs = append(kvs, E3KV{Key: k.Name, KeyBin: k.Bin, Val: v})
			}
			if route != "upstream" {
				add(c20Key{Name: "trace.trace_id", Class: "id-field"}, VStr("t-"+rng.Hex(8)))
				if rng.Bool() {
					add(c20Key{Name: "trace.parent_id", Class: "id-field"}, VStr("p-"+rng.Hex(4)))
				}
			}
			for i, n := 0, rng.Range(1, 12); i < n; i++ {
				var k c20Key
				r := rng.Intn(100)
				switch {
				case r < 50:
					k = c20Key{Name: verifkit.Pick(rng, c20PlainKeys...), Class: "plain"}
				case r < 54:
					k = c20Key{Name: "", Class: "empty-key"}
				case r < 64:
					k = c20Key{Name: verifkit.Pick(rng, c20IDKeys...), Class: "id-field"}
				case r < 78:
					k = c20Key{Name: verifkit.Pick(rng, c20MetaKeys...), Class: "meta-prefixed"}
				case r < 86:
					k = c20Key{Name: verifkit.Pick(rng, c20ReservedKeys...), Class: "reserved"}
				case r < 93 && !enc.json():
					k = c20Key{Name: verifkit.Pick(rng, "bk0", "bk1", "k2"), Class: "binary-key", Bin: true}
				default:
					k = c20Key{Name: fmt.Sprintf("gen%d", rng.Intn(1000)), Class: "plain"}
				}
				v := c20GenVal(rng, 3, enc.json())
				if k.Class == "id-field" && route == "upstream" && v.Kind == KStr && v.Str != "" &&
					(k.Name == "trace.trace_id" || k.Name == "traceId") {
					v = VInt(7) // keep the event outside any trace
				}
				if k.Class == "reserved" {
					// values that keep the event on its route
					switch k.Name {
					case "meta.signal_type":
						v = verifkit.Pick(rng, VStr("trace"), VStr("log"), VInt(3))
					case "meta.refinery.root":
						v = VBool(rng.Bool())
					}
				}
				add(k, v)
			}
			if rng.Chance(0.03) {
				// a wide event: hundreds of small fields
				for i, n := 0, rng.Range(300, 900); i < n; i++ {
					add(c20Key{Name: fmt.Sprintf("w%03d", i), Class: "plain"}, verifkit.Pick(rng, VInt(int64(i)), VBool(true), VStr("v"), VF64(0.5)))
				}
			}
			verifkit.Shuffle(rng, kvs)
			data := VMap(kvs...)
			events[id] = sent{data: data, classes: classes}
			order = append(order, id)
			d := data
			items = append(items, E3BatchItem{Data: &d})
		}

		b.Log.Reset()
		var reqs []*E3Req
		var err error
		switch enc {
		case c20BatchJSON, c20BatchMsgp:
			e := E3JSON
			if enc == c20BatchMsgp {
				e = E3Msgpack
			}
			var req *E3Req
			req, err = e3BatchReq(E3Incoming, e, "ds", E3KeyLegacy, items)
			reqs = append(reqs, req)
		default:
			e := E3JSON
			if enc == c20EventMsgp {
				e = E3Msgpack
			}
			var req *E3Req
			req, err = e3EventReq(E3Incoming, e, "ds", E3KeyLegacy, events[order[0]].data, -1, "")
			reqs = append(reqs, req)
		}
		if err != nil {
			t.Fatalf("C20 harness: cannot render request: %v", err)
		}
		if enc.json() {
			// same tree and key order, PRNG-chosen spellings of the floating-point numbers
			jr := rng.Fork("json-spelling")
			var body []byte
			if enc == c20BatchJSON {
				var arr []E3Val
				for _, it := range items {
					arr = append(arr, VMap(KV("data", *it.Data)))
				}
				body, err = c20AppendJSON(nil, E3Val{Kind: KArr, Arr: arr}, jr)
			} else {
				body, err = c20AppendJSON(nil, events[order[0]].data, jr)
			}
			if err != nil {
				t.Fatalf("C20 harness: cannot render JSON: %v", err)
			}
			reqs[0].Body = body
		}
		if rng.Chance(0.15) {
			// a long User-Agent becomes meta.refinery.incoming_user_agent (Refinery's own addition)
			reqs[0].Set("User-Agent", "verif-agent/"+strings.Repeat("u", rng.Range(900, 3000)))
		}
		bufResults = bufResults[:0]
		br := rng.Fork("buffers")
		recUp.rng, recPeer.rng, recColl.rng = br, br, br
		for _, req := range reqs {
			resp := b.Serve(req)
			if resp.Panicked != "" {
				run.Violation("C20/route/"+enc.String()+"/panic", "the handler chain panicked: "+resp.Panicked, req.Witness())
				return
			}
			if resp.Status != 200 || strings.Contains(resp.Body, `"error"`) {
				// refused: nothing is forwarded, nothing to compare (C23 owns responses)
				run.Count("request_refused", 1)
				if run.Counter("request_refused") <= 5 {
					t.Logf("C20 case %d refused: %d %s", ci, resp.Status, resp.Body)
				}
				return
			}
		}
		obs := b.Log.Effects()
		seen := map[string]int{}
		snapDiffs := map[string]bool{} // event id | key | what | change, as seen in the bench's own (fresh-buffer) snapshot
		for _, o := range obs {
			var site string
			switch o.Where {
			case E3AtUpstreamEvent:
				site = "upstream"
			case E3AtPeerEvent:
				site = "peer"
			case E3AtAddSpan:
				site = "collector"
			default:
				continue
			}
			s, ok := events[o.Ev.ID]
			if !ok {
				run.Violation("C20/route/"+enc.String()+"/event-not-identifiable", "an event without the client's verif.id was handed on at "+o.Where, map[string]any{"fields": o.Ev.Fields})
				continue
			}
			seen[o.Ev.ID]++
			if site != route {
				run.Count("routed_elsewhere", 1)
			}
			out, derr := o.Ev.Wire()
			if o.Ev.MsgpErr != "" || derr != nil || out.Kind != KMap {
				run.Violation("C20/route/"+enc.String()+"/unserialisable", fmt.Sprintf("Payload.MarshalMsg at %s: err=%q decode=%v", o.Where, o.Ev.MsgpErr, derr),
					map[string]any{"client": s.data, "site": o.Where})
				continue
			}
			diffs := c20Compare(s.data, out, s.classes, enc.json())
			kinds, clss := map[string]bool{}, map[string]bool{}
			for _, kv := range s.data.Map {
				kinds[kv.Val.Kind.String()] = true
				clss[s.classes[kv.Key]] = true
			}
			join := func(m map[string]bool) string {
				var xs []string
				for k := range m {
					xs = append(xs, k)
				}
				sort.Strings(xs)
				return strings.Join(xs, ",")
			}
			run.Nontrivial(enc.String() + "|" + site + "|" + join(clss) + "|" + join(kinds))
			run.Count("events_compared", 1)
			run.Count("fields_compared", int64(len(s.data.Map)))
			if ci < 2 {
				run.Sample(map[string]any{"encoding": enc.String(), "site": site, "client": s.data, "forwarded": out})
			}
			for _, d := range diffs {
				snapDiffs[o.Ev.ID+"|"+d.Key+"|"+d.What+"|"+d.Leaf] = true
			}
			for _, d := range diffs {
				// altered values are named by how the field travelled (decoded and re-encoded, or
				// kept as the client's raw bytes) and by the change at the leaf; lost / duplicated /
				// added fields by the key class
				var sig string
				if d.What == "altered" {
					how := "raw-field"
					if enc == c20EventJSON || enc == c20EventMsgp || d.Class == "sampling-key-field" {
						how = "decoded-field"
					}
					sig = "C20/route/" + enc.String() + "/" + how + "/altered/" + d.Leaf
				} else {
					sig = "C20/route/" + enc.String() + "/" + d.Class + "/" + d.What
				}
				run.Violation(sig, fmt.Sprintf("field %q (%s, client value kind %s) %s in the event handed to %s", d.Key, d.Class, d.Kind, d.What, site),
					map[string]any{"diff": d, "encoding": enc.String(), "site": o.Where, "sampling_key_fields": keyFields, "client": s.data, "forwarded": out})
			}
		}
		for _, id := range order {
			if seen[id] == 0 {
				run.Count("event_not_handed_on", 1)
			}
		}
		// the same payloads appended to caller-provided buffers: same oracle; only what the
		// fresh-buffer snapshot did not already show is reported
		for _, r := range bufResults {
			s, ok := events[r.ID]
			if !ok {
				continue
			}
			run.Count("caller_buffer_marshals", 1)
			if r.Size > 1024 {
				run.Count("caller_buffer_marshals_over_1KiB", 1)
			}
			w := map[string]any{"encoding": enc.String(), "site": r.Site, "prefix_len": r.Prefix, "spare_capacity": r.Spare, "payload_size": r.Size, "client_fields": len(s.data.Map)}
			if r.Problem != "" {
				w["user_agent_len"] = len(reqs[0].Header.Get("User-Agent"))
				run.Violation("C20/route/"+enc.String()+"/caller-buffer/not-a-whole-map", fmt.Sprintf("MarshalMsg appended to a buffer with %d bytes and %d spare capacity (payload %d bytes): %s", r.Prefix, r.Spare, r.Size, r.Problem), w)
				continue
			}
			for _, d := range c20Compare(s.data, r.Out, s.classes, enc.json()) {
				if snapDiffs[r.ID+"|"+d.Key+"|"+d.What+"|"+d.Leaf] {
					continue
				}
				w["diff"] = d
				run.Violation("C20/route/"+enc.String()+"/caller-buffer/"+d.What, fmt.Sprintf("field %q %s only when MarshalMsg appends to a caller-provided buffer (%d bytes, %d spare, payload %d)", d.Key, d.What, r.Prefix, r.Spare, r.Size), w)
			}
		}
	})
}
