//go:build verif

package main

// C38 – the config converter preserves valid v1 settings (rules files).
//
// Generated v1 rules files (every v1 sampler type as default and per dataset, rules with
// conditions and downstream samplers, ClearFrequencySec / AdjustmentInterval in seconds) are read
// by the converter's loader, converted by the real ConvertRules, loaded by the real v2 loader with
// validation on; the samplers the loader hands out are compared field by field with the v1 file.

import (
	"bytes"
	"fmt"
	"reflect"
	"sort"
	"strings"
	"testing"
	"time"

	"github.com/honeycombio/refinery/config"
	"github.com/honeycombio/refinery/internal/verifkit"
)

// ---- adapter ---------------------------------------------------------------------------

func c38ConvertRulesReal(rules map[string]any) (out string, crash string) {
	defer func() {
		if r := recover(); r != nil {
			crash = fmt.Sprintf("panic: %v", r)
		}
	}()
	var buf bytes.Buffer
	ConvertRules(rules, &buf)
	return buf.String(), ""
}

// ---- flattening a loaded v2 sampler ----------------------------------------------------

func c38Flatten(prefix string, v reflect.Value, into map[string]any) {
	switch v.Kind() {
	case reflect.Ptr, reflect.Interface:
		if v.IsNil() {
			return
		}
		if v.Kind() == reflect.Interface {
			into[prefix] = v.Interface()
			return
		}
		c38Flatten(prefix, v.Elem(), into)
	case reflect.Struct:
		t := v.Type()
		for i := 0; i < t.NumField(); i++ {
			f := t.Field(i)
			tag := strings.Split(f.Tag.Get("yaml"), ",")[0]
			if !f.IsExported() || tag == "" || tag == "-" {
				continue
			}
			p := tag
			if prefix != "" {
				p = prefix + "." + tag
			}
			if f.Type.Kind() == reflect.Interface { // condition Value
				if !v.Field(i).IsNil() {
					into[p] = v.Field(i).Interface()
				}
				continue
			}
			c38Flatten(p, v.Field(i), into)
		}
	case reflect.Slice:
		if v.Type().Elem().Kind() == reflect.String {
			l := make([]string, v.Len())
			for i := range l {
				l[i] = v.Index(i).String()
			}
			into[prefix] = l
			return
		}
		into[prefix+".#"] = int64(v.Len())
		for i := 0; i < v.Len(); i++ {
			c38Flatten(fmt.Sprintf("%s[%d]", prefix, i), v.Index(i), into)
		}
	default:
		into[prefix] = c38Norm(v)
	}
}

// ---- v1 rules generation ---------------------------------------------------------------

type c38RExp struct {
	Key     string // key in the flattened v2 sampler
	V1Field string // v1 name for the signature, e.g. "ClearFrequencySec", "rule.condition.value"
	Class   string
	Want    any
	V1Value any
}

type c38RDataset struct {
	Name string // "" = the default sampler (top level of the v1 file)
	Type string
	V1   map[string]any
	Exp  []c38RExp
}

type c38RField struct {
	Name string
	V2   string
	Gen  func(rng *verifkit.Rand) []c38Value // sweep values (fixed representatives + drawn)
	Want func(v any) any
	Req  bool
	ReqV func(rng *verifkit.Rand) any // value when only needed because it is required
}

func c38FieldList(rng *verifkit.Rand) []string {
	n := rng.Range(1, 4)
	l := make([]string, n)
	for i := range l {
		l[i] = c38GenFieldName(rng)
	}
	return l
}

func c38IntVals(lo, hi int, avoid ...int64) func(rng *verifkit.Rand) []c38Value {
	return func(rng *verifkit.Rand) []c38Value {
		for {
			v := int64(rng.Range(lo, hi))
			ok := true
			for _, a := range avoid {
				if a == v {
					ok = false
				}
			}
			if ok {
				return []c38Value{{"int", v}}
			}
		}
	}
}

func c38FloatVals(vals ...float64) func(rng *verifkit.Rand) []c38Value {
	return func(rng *verifkit.Rand) []c38Value {
		return []c38Value{{"float", vals[rng.Intn(len(vals))]}}
	}
}

func c38BoolTrue(rng *verifkit.Rand) []c38Value { return []c38Value{{"true", true}} }

func c38FieldListVals(rng *verifkit.Rand) []c38Value {
	return []c38Value{
		{"plain", c38FieldList(rng)},
		{"punct", []string{"app.user id", "http.url"}},
		{"needs-quoting", []string{"404", "app.#hash", "*wild", "k: v", "true"}},
	}
}

func c38SecondsWant(v any) any { return time.Duration(v.(int64)) * time.Second }
func c38DurWant(v any) any {
	d, err := time.ParseDuration(v.(string))
	if err != nil {
		panic(err)
	}
	return d
}

var c38FieldListField = c38RField{Name: "FieldList", V2: "FieldList", Gen: c38FieldListVals, Req: true,
	ReqV: func(rng *verifkit.Rand) any { return c38FieldList(rng) }}
var c38UseTraceLengthField = c38RField{Name: "UseTraceLength", V2: "UseTraceLength", Gen: c38BoolTrue}

// every v1 sampler type with its v1 fields (rules_complete.1.x.toml; *Sec / AdjustmentInterval are
// integer seconds in v1 and durations in v2)
var c38V1Samplers = map[string][]c38RField{
	"DeterministicSampler": {
		{Name: "SampleRate", V2: "SampleRate", Gen: c38IntVals(2, 5000), Req: true, ReqV: func(rng *verifkit.Rand) any { return int64(rng.Range(2, 500)) }},
	},
	"DynamicSampler": {
		{Name: "SampleRate", V2: "SampleRate", Gen: c38IntVals(2, 5000), Req: true, ReqV: func(rng *verifkit.Rand) any { return int64(rng.Range(2, 500)) }},
		{Name: "ClearFrequencySec", V2: "ClearFrequency", Gen: c38IntVals(1, 3600, 30), Want: c38SecondsWant},
		{Name: "ClearFrequency", V2: "ClearFrequency", Gen: func(rng *verifkit.Rand) []c38Value {
			return []c38Value{{"duration", verifkit.Pick(rng, "60s", "45s", "2m", "1m30s", "90s", "500ms")}}
		}, Want: c38DurWant},
		c38FieldListField, c38UseTraceLengthField,
	},
	"EMADynamicSampler": {
		{Name: "GoalSampleRate", V2: "GoalSampleRate", Gen: c38IntVals(2, 5000), Req: true, ReqV: func(rng *verifkit.Rand) any { return int64(rng.Range(2, 500)) }},
		{Name: "AdjustmentInterval", V2: "AdjustmentInterval", Gen: c38IntVals(1, 600, 15), Want: c38SecondsWant},
		{Name: "Weight", V2: "Weight", Gen: c38FloatVals(0.25, 0.1, 0.75, 0.333)},
		{Name: "AgeOutValue", V2: "AgeOutValue", Gen: c38FloatVals(0.25, 0.1, 0.05)},
		{Name: "BurstMultiple", V2: "BurstMultiple", Gen: c38FloatVals(3, 1.5, 4.25, -1)},
		{Name: "BurstDetectionDelay", V2: "BurstDetectionDelay", Gen: c38IntVals(1, 20, 3)},
		{Name: "MaxKeys", V2: "MaxKeys", Gen: c38IntVals(10, 100000)},
		c38FieldListField, c38UseTraceLengthField,
	},
	"TotalThroughputSampler": {
		{Name: "GoalThroughputPerSec", V2: "GoalThroughputPerSec", Gen: c38IntVals(1, 5000), Req: true, ReqV: func(rng *verifkit.Rand) any { return int64(rng.Range(1, 500)) }},
		{Name: "ClearFrequencySec", V2: "ClearFrequency", Gen: c38IntVals(1, 3600, 30), Want: c38SecondsWant},
		c38FieldListField, c38UseTraceLengthField,
	},
	"RulesBasedSampler": {
		{Name: "CheckNestedFields", V2: "CheckNestedFields", Gen: c38BoolTrue},
	},
}

var c38V1SamplerTypes = []string{"DeterministicSampler", "DynamicSampler", "EMADynamicSampler", "TotalThroughputSampler", "RulesBasedSampler"}
var c38DownstreamTypes = []string{"DynamicSampler", "EMADynamicSampler", "TotalThroughputSampler"}

func c38ToAny(v any) any {
	switch x := v.(type) {
	case []string:
		l := make([]any, len(x))
		for i := range x {
			l[i] = x[i]
		}
		return l
	}
	return v
}

// c38Avoid tells the generators which (sampler, v1 field, class) elements not to put into whole
// files: those the sweep already found failing on their own in that input format.
type c38Avoid func(sigType, v1field, class string) bool

func c38NoAvoid(string, string, string) bool { return false }

// c38GenPlainSampler fills a non-rules sampler: required fields always, the field named only (if
// given) or a PRNG-chosen subset of the optional ones otherwise.
func c38GenPlainSampler(rng *verifkit.Rand, typ string, only *c38RField, onlyVal *c38Value, prefix, v1prefix, sigType string, avoid c38Avoid) (map[string]any, []c38RExp) {
	m := map[string]any{"Sampler": typ}
	var exps []c38RExp
	hasClear := false
	for _, f := range c38V1Samplers[typ] {
		f := f
		var val c38Value
		switch {
		case only != nil && f.Name == only.Name:
			val = *onlyVal
		case f.Req:
			val = c38Value{"req", f.ReqV(rng)}
		case only == nil && rng.Chance(0.6):
			if strings.HasPrefix(f.Name, "ClearFrequency") {
				if hasClear {
					continue
				}
				hasClear = true
			}
			vs := f.Gen(rng)
			val = vs[rng.Intn(len(vs))]
			if avoid(sigType, v1prefix+f.Name, val.Class) {
				continue
			}
		default:
			continue
		}
		m[f.Name] = c38ToAny(val.V)
		want := val.V
		if f.Want != nil {
			want = f.Want(val.V)
		}
		exps = append(exps, c38RExp{Key: prefix + f.V2, V1Field: v1prefix + f.Name, Class: val.Class, Want: want, V1Value: val.V})
	}
	// v1 extras that v2 dropped: must not disturb the conversion
	if typ != "DeterministicSampler" && only == nil && rng.Chance(0.4) {
		m["AddSampleRateKeyToTrace"] = true
		m["AddSampleRateKeyToTraceField"] = "meta.refinery.dynsampler_key"
	}
	return m, exps
}

type c38CondVal struct {
	Class string
	V     any // nil with class "absent": an exists / not-exists condition, which has no value
}

var c38CondClasses = []string{"string", "string-numeric", "string-keyword", "int", "float", "bool", "absent", "int>2^53"}

func c38CondValue(rng *verifkit.Rand, class string) c38CondVal {
	switch class {
	case "string":
		return c38CondVal{class, verifkit.Pick(rng, "/health-check", "users", "GET", "error: timeout #3")}
	case "string-numeric":
		return c38CondVal{class, "200"}
	case "string-keyword":
		return c38CondVal{class, "true"}
	case "int":
		return c38CondVal{class, int64(rng.Range(0, 100000))}
	case "float":
		return c38CondVal{class, verifkit.Pick(rng, 1000.789, 0.5, 2.25)}
	case "bool":
		return c38CondVal{class, rng.Bool()}
	case "int>2^53":
		return c38CondVal{class, int64(9007199254740993)}
	}
	return c38CondVal{"absent", nil}
}

// c38RulesSpec says what a generated RulesBasedSampler is about: "" = anything (whole files),
// otherwise exactly one aspect is varied and everything else is kept plain.
type c38RulesSpec struct {
	Aspect    string // CheckNestedFields | rule.drop | rule.SampleRate | rule.Scope | rule.name | rule.condition | rule.sampler
	Cond      *c38CondVal
	DownType  string
	DownField *c38RField
	DownVal   *c38Value
}

func c38GenRulesSampler(rng *verifkit.Rand, spec c38RulesSpec, avoid c38Avoid) (map[string]any, []c38RExp) {
	const sigType = "RulesBasedSampler"
	m := map[string]any{"Sampler": sigType}
	var exps []c38RExp
	add := func(key, v1 string, class string, want, v1v any) {
		exps = append(exps, c38RExp{Key: key, V1Field: v1, Class: class, Want: want, V1Value: v1v})
	}
	only := spec.Aspect
	if only == "CheckNestedFields" || (only == "" && rng.Chance(0.4)) {
		m["CheckNestedFields"] = true
		add("CheckNestedFields", "CheckNestedFields", "true", true, true)
	}
	nrules := rng.Range(1, 4)
	if only != "" {
		nrules = 2
	}
	var rules []any
	for i := 0; i < nrules; i++ {
		r := map[string]any{}
		rp := fmt.Sprintf("Rules[%d].", i)
		name := fmt.Sprintf("rule %d: %s", i, verifkit.Pick(rng, "drop healthchecks", "keep slow 500 errors", "sample-200s", "Tenant #7"))
		r["name"] = name
		add(rp+"Name", "rule.name", "string", name, name)
		decision := rng.Intn(3)
		switch only {
		case "rule.drop":
			decision = 0
		case "rule.SampleRate", "rule.Scope", "rule.condition", "rule.name", "CheckNestedFields":
			decision = 1
		case "rule.sampler":
			decision = 2
		}
		switch decision {
		case 0:
			r["drop"] = true
			add(rp+"Drop", "rule.drop", "true", true, true)
		case 1:
			sr := int64(rng.Range(2, 1000))
			r["SampleRate"] = sr
			add(rp+"SampleRate", "rule.SampleRate", "int", sr, sr)
		case 2:
			dt := c38DownstreamTypes[rng.Intn(len(c38DownstreamTypes))]
			var sm map[string]any
			var sexps []c38RExp
			if only == "rule.sampler" {
				dt = spec.DownType
				sm, sexps = c38GenPlainSampler(rng, dt, spec.DownField, spec.DownVal, rp+"Sampler."+dt+".", "rule.sampler."+dt+".", sigType, avoid)
			} else {
				sm, sexps = c38GenPlainSampler(rng, dt, nil, nil, rp+"Sampler."+dt+".", "rule.sampler."+dt+".", sigType, avoid)
			}
			if rng.Bool() {
				delete(sm, "Sampler") // the inner Sampler key is optional in v1 files
			}
			r["sampler"] = map[string]any{dt: sm}
			exps = append(exps, sexps...)
		}
		if only == "rule.Scope" || (only == "" && rng.Chance(0.3)) {
			r["Scope"] = "span"
			add(rp+"Scope", "rule.Scope", "choice", "span", "span")
		}
		ncond := rng.Range(0, 3)
		if only == "rule.condition" {
			ncond = 1
		}
		var conds []any
		for j := 0; j < ncond; j++ {
			var cv c38CondVal
			switch {
			case only == "rule.condition":
				cv = *spec.Cond
			case only != "":
				cv = c38CondValue(rng, verifkit.Pick(rng, "string", "int", "float"))
			default:
				cv = c38CondValue(rng, c38CondClasses[rng.Intn(len(c38CondClasses))])
				if avoid(sigType, "rule.condition.value", cv.Class) {
					continue
				}
			}
			cp := fmt.Sprintf("%sConditions[%d].", rp, len(conds))
			c := map[string]any{}
			field := c38GenFieldName(rng)
			c["field"] = field
			add(cp+"Field", "rule.condition.field", "string", field, field)
			op := verifkit.Pick(rng, "=", "!=", ">", ">=", "<", "<=", "starts-with", "contains", "does-not-contain")
			if cv.Class == "absent" {
				op = verifkit.Pick(rng, "exists", "not-exists")
			}
			c["operator"] = op
			add(cp+"Operator", "rule.condition.operator", "choice", op, op)
			if cv.Class != "absent" {
				c["value"] = cv.V
				add(cp+"Value", "rule.condition.value", cv.Class, cv.V, cv.V)
				if rng.Chance(0.3) && only != "rule.condition" {
					dt := "string"
					switch cv.V.(type) {
					case int64:
						dt = verifkit.Pick(rng, "int", "float", "string")
					case float64:
						dt = verifkit.Pick(rng, "float", "string")
					case bool:
						dt = "bool"
					}
					if cv.Class == "string-numeric" {
						dt = "int"
					}
					c["datatype"] = dt
					add(cp+"Datatype", "rule.condition.datatype", "choice", dt, dt)
				}
			}
			conds = append(conds, c)
		}
		if len(conds) > 0 {
			r["condition"] = conds
		}
		rules = append(rules, r)
	}
	m["rule"] = rules
	add("Rules.#", "rule", "count", int64(len(rules)), int64(len(rules)))
	return m, exps
}

// key casing: v1 (viper) was case-insensitive; the 1.x document writes sampler fields in
// PascalCase and rule / condition / name / drop / field / operator / value / datatype in lower case.
func c38Recase(v any, style int) any {
	switch x := v.(type) {
	case map[string]any:
		m := make(map[string]any, len(x))
		for k, e := range x {
			nk := k
			if _, isSamplerType := c38V1Samplers[k]; !isSamplerType { // downstream sampler tables keep their documented names
				switch style {
				case 1:
					nk = strings.ToLower(k)
				case 2:
					nk = strings.ToUpper(k[:1]) + k[1:]
				}
			}
			m[nk] = c38Recase(e, style)
		}
		return m
	case []any:
		l := make([]any, len(x))
		for i := range x {
			l[i] = c38Recase(x[i], style)
		}
		return l
	}
	return v
}

func c38BuildRulesDoc(sets []c38RDataset, style int) map[string]any {
	doc := map[string]any{}
	for _, d := range sets {
		m := c38Recase(c38DeepCopy(d.V1), style).(map[string]any)
		if d.Name == "" {
			for k, v := range m {
				doc[k] = v
			}
		} else {
			doc[d.Name] = m
		}
	}
	return doc
}

// ---- verdicts --------------------------------------------------------------------------

type c38ROutcome struct {
	V1Text     string
	Out        string
	Crash      string
	LoadErr    string
	Samplers   map[string]*config.V2SamplerChoice
	InputError string
}

type c38RBench struct {
	run    *verifkit.Run
	loader *c38V2Loader
}

func (b *c38RBench) convert(doc map[string]any, typ string) c38ROutcome {
	var o c38ROutcome
	txt, err := c38Encode(doc, typ)
	if err != nil {
		o.InputError = "encode: " + err.Error()
		return o
	}
	o.V1Text = txt
	data, err := c38Load(txt, typ)
	if err != nil {
		o.InputError = "converter loader: " + err.Error()
		return o
	}
	o.Out, o.Crash = c38ConvertRulesReal(data)
	if o.Crash != "" {
		return o
	}
	b.run.Count("rules_conversions", 1)
	cfg, fail := b.loader.load(c38MinimalV2Config, o.Out)
	if cfg == nil {
		o.LoadErr = fail
		return o
	}
	if r := cfg.GetAllSamplerRules(); r != nil {
		o.Samplers = r.Samplers
	}
	return o
}

func (o c38ROutcome) whole() (kind, detail string) {
	if o.Crash != "" {
		return "crash", o.Crash
	}
	if o.LoadErr != "" {
		return "invalid-output", o.LoadErr
	}
	return "", ""
}

func c38AsFloat(v any) (float64, bool) {
	switch x := v.(type) {
	case int:
		return float64(x), true
	case int64:
		return float64(x), true
	case uint64:
		return float64(x), true
	case float64:
		return x, true
	}
	return 0, false
}

func c38NumEq(want, got any) (bool, bool) {
	wf, wok := c38AsFloat(want)
	gf, gok := c38AsFloat(got)
	if !wok || !gok {
		return false, false
	}
	if wi, ok := want.(int64); ok && (wi > 1<<53 || wi < -(1<<53)) {
		gi, ok := got.(int)
		return ok && int64(gi) == wi, true
	}
	return wf == gf, true
}

func c38IsZero(v any) bool {
	if v == nil {
		return true
	}
	rv := reflect.ValueOf(v)
	if rv.Kind() == reflect.Slice || rv.Kind() == reflect.Map {
		return rv.Len() == 0
	}
	return rv.IsZero()
}

type c38RFail struct {
	Exp    c38RExp
	Kind   string
	Detail string
}

// judge compares one dataset of a loaded outcome with its expectations.
func (b *c38RBench) judge(d c38RDataset, o c38ROutcome) []c38RFail {
	key := d.Name
	if key == "" {
		key = "__default__"
	}
	choice := o.Samplers[key]
	if choice == nil {
		return []c38RFail{{Exp: c38RExp{V1Field: "Sampler"}, Kind: "lost", Detail: fmt.Sprintf("v1 sampler for %q (%s) is not in the v2 rules", key, d.Type)}}
	}
	got, typ := choice.Sampler()
	if typ != d.Type {
		return []c38RFail{{Exp: c38RExp{V1Field: "Sampler"}, Kind: "changed", Detail: fmt.Sprintf("v1 sampler for %q is %s, v2 has %s", key, d.Type, typ)}}
	}
	flat := map[string]any{}
	c38Flatten("", reflect.ValueOf(got), flat)
	var fails []c38RFail
	for _, e := range d.Exp {
		g, present := flat[e.Key]
		same := false
		switch w := e.Want.(type) {
		case []string:
			gs, _ := g.([]string)
			same = c38Equal(w, gs)
		case string, bool, time.Duration:
			same = reflect.DeepEqual(e.Want, g)
		default:
			if eq, numeric := c38NumEq(e.Want, g); numeric {
				same = eq
			} else {
				same = reflect.DeepEqual(e.Want, g)
			}
		}
		if same {
			b.run.Count("rule_fields_preserved", 1)
			continue
		}
		kind := "changed"
		if !present || c38IsZero(g) {
			kind = "lost"
		}
		fails = append(fails, c38RFail{Exp: e, Kind: kind,
			Detail: fmt.Sprintf("%s %s %s=%#v means %#v, v2 %s is %#v (%T)", key, d.Type, e.V1Field, e.V1Value, e.Want, e.Key, g, g)})
	}
	return fails
}

func c38RSig(samplerType, v1field, kind, class, suffix string) string {
	sig := "C38/rules/" + samplerType + "/" + v1field + "/" + kind
	switch class {
	case "", "int", "float", "true", "req", "choice", "string", "plain", "duration", "count", "bool":
	default:
		sig += "/" + class
	}
	return sig + suffix
}

// c38Focused is one dataset whose generated content varies exactly one v1 element.
type c38Focused struct {
	D     c38RDataset
	Field string // v1 element a whole-file failure is attributed to
	Class string
}

// ---- the check -------------------------------------------------------------------------

const c38RulesRuleText = "RULES sweep: each v1 sampler type with its required fields plus one optional element (every field, every value class; every rule aspect, condition value class and downstream sampler field) as the only dataset, in TOML/YAML/JSON; " +
	"files: a default sampler of any v1 type plus 0..4 datasets with PRNG-chosen elements, rules with conditions and downstream samplers, three key casings, one PRNG-chosen format. " +
	"Non-trivial = at least one non-default v1 field; distinct = distinct (sampler,element,class,format) resp. sampler-type sequences"

func c38RulesPart(t *testing.T, run *verifkit.Run) {
	run.Assume("v1 sampler types and fields are those of /repo/rules_complete.1.x.toml plus ClearFrequencySec (the v1 name the converter itself translates) and the v1 condition operators exists/not-exists (which take no value); v1 keys are case-insensitive")
	run.Assume("effective value = the sampler structs config.NewConfig hands out (GetAllSamplerRules) for the converter's output combined with a minimal v2 config")
	run.Assume("numbers in rule condition values are compared numerically (int 500 and float 500.0 are the same condition value); strings and bools must keep their type")

	bench := &c38RBench{run: run, loader: &c38V2Loader{dir: t.TempDir()}}
	defaultDet := c38RDataset{Name: "", Type: "DeterministicSampler", V1: map[string]any{"Sampler": "DeterministicSampler", "SampleRate": int64(7)},
		Exp: []c38RExp{{Key: "SampleRate", V1Field: "SampleRate", Class: "req", Want: int64(7), V1Value: int64(7)}}}

	// knownBad[sigType|v1field|class|fmt]: elements that fail on their own
	knownBad := map[string]bool{}

	// reportFocused converts {Deterministic default, focused dataset} in all three formats and files
	// violations with format-qualified signatures. Returns format -> failed.
	reportFocused := func(fc c38Focused, style int, formats []string) map[string]bool {
		type gk struct{ typ, field, kind, class string }
		groups := map[gk][]string{}
		first := map[gk]string{}
		firstFmt := map[gk]string{}
		outs := map[string]c38ROutcome{}
		failed := map[string]bool{}
		sets := []c38RDataset{defaultDet, fc.D}
		nfmt := 0
		for _, f := range formats {
			o := bench.convert(c38BuildRulesDoc(sets, style), f)
			if o.InputError != "" {
				run.Inconclusive("generated v1 rules not usable: " + o.InputError)
				continue
			}
			nfmt++
			outs[f] = o
			note := func(k gk, detail string) {
				failed[f] = true
				knownBad[k.typ+"|"+k.field+"|"+k.class+"|"+f] = true
				if _, ok := first[k]; !ok {
					first[k], firstFmt[k] = detail, f
				}
				for _, g := range groups[k] {
					if g == f {
						return
					}
				}
				groups[k] = append(groups[k], f)
			}
			if kind, detail := o.whole(); kind != "" {
				note(gk{fc.D.Type, fc.Field, kind, fc.Class}, detail)
				continue
			}
			for _, d := range sets {
				for _, fl := range bench.judge(d, o) {
					note(gk{d.Type, fl.Exp.V1Field, fl.Kind, fl.Exp.Class}, fl.Detail)
				}
			}
		}
		keys := make([]gk, 0, len(groups))
		for k := range groups {
			keys = append(keys, k)
		}
		sort.Slice(keys, func(i, j int) bool { return fmt.Sprint(keys[i]) < fmt.Sprint(keys[j]) })
		for _, k := range keys {
			suffix := ""
			if len(groups[k]) != nfmt && nfmt > 1 {
				suffix = "/fmt=" + strings.Join(groups[k], "")
			}
			o := outs[firstFmt[k]]
			run.Violation(c38RSig(k.typ, k.field, k.kind, k.class, suffix), first[k], map[string]any{
				"sampler": k.typ, "v1_element": k.field, "value_class": k.class, "input_format": firstFmt[k], "failing_formats": groups[k],
				"v1_input": o.V1Text, "converter_output": c38Short(o.Out, 3000),
			})
		}
		return failed
	}

	// ---- sweep ------------------------------------------------------------------------
	type sweepItem struct {
		typ    string
		field  *c38RField // plain sampler field
		aspect string     // RulesBasedSampler aspect
		cond   string     // condition value class
		dtyp   string     // downstream sampler type and field
		dfield *c38RField
	}
	var items []sweepItem
	for _, typ := range c38V1SamplerTypes {
		if typ == "RulesBasedSampler" {
			for _, aspect := range []string{"CheckNestedFields", "rule.drop", "rule.SampleRate", "rule.Scope", "rule.name"} {
				items = append(items, sweepItem{typ: typ, aspect: aspect})
			}
			for _, c := range c38CondClasses {
				items = append(items, sweepItem{typ: typ, aspect: "rule.condition", cond: c})
			}
			for _, dt := range c38DownstreamTypes {
				for i := range c38V1Samplers[dt] {
					items = append(items, sweepItem{typ: typ, aspect: "rule.sampler", dtyp: dt, dfield: &c38V1Samplers[dt][i]})
				}
			}
			continue
		}
		for i := range c38V1Samplers[typ] {
			items = append(items, sweepItem{typ: typ, field: &c38V1Samplers[typ][i]})
		}
	}
	run.Cases("rules-sweep", len(items), func(i int, rng *verifkit.Rand) {
		it := items[i]
		for rep := 0; rep < run.N(1, 6); rep++ {
			var variants []c38Focused
			name := verifkit.Pick(rng, "dataset1", "my dataset", "MyService-Prod", "prod.api")
			switch {
			case it.field != nil:
				for _, v := range it.field.Gen(rng) {
					v := v
					m, exps := c38GenPlainSampler(rng, it.typ, it.field, &v, "", "", it.typ, c38NoAvoid)
					variants = append(variants, c38Focused{c38RDataset{Name: name, Type: it.typ, V1: m, Exp: exps}, it.field.Name, v.Class})
				}
			case it.aspect == "rule.condition":
				cv := c38CondValue(rng, it.cond)
				m, exps := c38GenRulesSampler(rng, c38RulesSpec{Aspect: it.aspect, Cond: &cv}, c38NoAvoid)
				variants = append(variants, c38Focused{c38RDataset{Name: name, Type: it.typ, V1: m, Exp: exps}, "rule.condition.value", cv.Class})
			case it.aspect == "rule.sampler":
				for _, v := range it.dfield.Gen(rng) {
					v := v
					m, exps := c38GenRulesSampler(rng, c38RulesSpec{Aspect: it.aspect, DownType: it.dtyp, DownField: it.dfield, DownVal: &v}, c38NoAvoid)
					variants = append(variants, c38Focused{c38RDataset{Name: name, Type: it.typ, V1: m, Exp: exps}, "rule.sampler." + it.dtyp + "." + it.dfield.Name, v.Class})
				}
			default:
				m, exps := c38GenRulesSampler(rng, c38RulesSpec{Aspect: it.aspect}, c38NoAvoid)
				variants = append(variants, c38Focused{c38RDataset{Name: name, Type: it.typ, V1: m, Exp: exps}, it.aspect, ""})
			}
			for _, fc := range variants {
				reportFocused(fc, rng.Intn(3), c38Formats)
				run.Count("rules_sweep_datasets", 1)
				for _, f := range c38Formats {
					run.Nontrivial(it.typ + "|" + fc.Field + "|" + fc.Class + "|" + f)
				}
				if i%9 == 0 && rep == 0 {
					run.Sample(map[string]any{"sampler": it.typ, "element": fc.Field, "v1": fc.D.V1})
				}
			}
		}
	})

	// ---- whole files ------------------------------------------------------------------
	run.Cases("rules-files", run.N(40, 3000), func(i int, rng *verifkit.Rand) {
		typ := c38Formats[rng.Intn(3)]
		avoid := func(sigType, v1field, class string) bool {
			if knownBad[sigType+"|"+v1field+"|"+class+"|"+typ] {
				run.Count("file_elements_left_out_known_bad_alone", 1)
				return true
			}
			return false
		}
		gen := func(name string) c38RDataset {
			st := c38V1SamplerTypes[rng.Intn(len(c38V1SamplerTypes))]
			if st == "RulesBasedSampler" {
				m, exps := c38GenRulesSampler(rng, c38RulesSpec{}, avoid)
				return c38RDataset{Name: name, Type: st, V1: m, Exp: exps}
			}
			m, exps := c38GenPlainSampler(rng, st, nil, nil, "", "", st, avoid)
			return c38RDataset{Name: name, Type: st, V1: m, Exp: exps}
		}
		sets := []c38RDataset{gen("")}
		names := []string{"dataset1", "my dataset", "MyService-Prod", "prod.api", "staging", "env_7"}
		verifkit.Shuffle(rng, names)
		for _, n := range names[:rng.Range(0, 4)] {
			sets = append(sets, gen(n))
		}
		style := rng.Intn(3)
		o := bench.convert(c38BuildRulesDoc(sets, style), typ)
		if o.InputError != "" {
			run.Inconclusive("generated v1 rules not usable: " + o.InputError)
			return
		}
		var types []string
		for _, d := range sets {
			types = append(types, d.Type)
		}
		run.Nontrivial("file|" + strings.Join(types, ","))
		run.Count("rules_files", 1)
		witness := map[string]any{"sampler_types_in_file": types, "input_format": typ, "v1_input": o.V1Text, "converter_output": c38Short(o.Out, 4000)}

		// isolate: every dataset alone next to a Deterministic default, in the file's format
		alone := func(d c38RDataset) bool {
			dd := d
			if dd.Name == "" {
				dd.Name = "was-default"
			}
			return reportFocused(c38Focused{dd, "_dataset", ""}, style, []string{typ})[typ]
		}
		if kind, detail := o.whole(); kind != "" {
			attributed := false
			for _, d := range sets {
				if alone(d) {
					attributed = true
				}
			}
			if !attributed {
				run.Violation("C38/rules/_file/"+kind+"/interaction", detail, witness)
			}
			return
		}
		for _, d := range sets {
			fails := bench.judge(d, o)
			if len(fails) == 0 {
				continue
			}
			if alone(d) {
				continue
			}
			fl := fails[0]
			suffix := "/interaction"
			if d.Name == "" {
				suffix = "/as-default" // the same dataset is fine as a named dataset
			}
			run.Violation(c38RSig(d.Type, fl.Exp.V1Field, fl.Kind, fl.Exp.Class, suffix), fl.Detail, witness)
		}
	})
}
