//go:build verif

package main

// C38 – the config converter preserves valid v1 settings (config files).
//
// Monitor: generated valid v1 configuration files (TOML / YAML / JSON) are read by the
// converter's own loader, converted by the real ConvertConfig, the output is loaded by the
// real v2 loader (config.NewConfig, validation on) and the effective values seen through the
// public config.Config getters are compared with what the v1 file said.
//
// The v1 side of the oracle (which v1 keys exist, what they mean in v2) is NOT taken from the
// converter's template: a mapping bug there is exactly what the property is about. It is the
// table c38Settings below, anchored in /repo/config_complete.1.x.toml (every key of the table
// must occur in that document, otherwise the run is inconclusive). The converter's template is
// parsed at run time only to report how much of its v1 knowledge the table covers.

import (
	"bytes"
	"encoding/json"
	"fmt"
	"io"
	"os"
	"path/filepath"
	"reflect"
	"regexp"
	"sort"
	"strings"
	"testing"
	"text/template"
	"time"

	"github.com/honeycombio/refinery/config"
	"github.com/honeycombio/refinery/internal/verifkit"
	"github.com/pelletier/go-toml/v2"
	"gopkg.in/yaml.v3"
)

// ---------------------------------------------------------------------------------------
// adapters: every use of converter internals is here
// ---------------------------------------------------------------------------------------

func c38Load(src, typ string) (map[string]any, error) { return load(strings.NewReader(src), typ) }

// c38ConvertConfigReal runs the real ConvertConfig. ConvertConfig calls os.Exit(1) when the
// template or the YAML encoder fails, which would kill the monitor, so the same steps are
// first executed on a copy with the converter's own building blocks (removeDeprecated,
// helpers(), the embedded template); only if that rehearsal survives is the real function run.
func c38ConvertConfigReal(data map[string]any) (out string, crash string) {
	defer func() {
		if r := recover(); r != nil {
			crash = fmt.Sprintf("panic: %v", r)
		}
	}()
	if msg := c38Rehearse(c38DeepCopy(data).(map[string]any)); msg != "" {
		return "", msg
	}
	var buf bytes.Buffer
	ConvertConfig(&configTemplateData{Input: "v1-input", Data: data}, &buf)
	return buf.String(), ""
}

var c38RehearsalTemplate *template.Template

func c38Rehearse(data map[string]any) (msg string) {
	defer func() {
		if r := recover(); r != nil {
			msg = fmt.Sprintf("panic: %v", r)
		}
	}()
	data, _ = removeDeprecated(data)
	if err := yaml.NewEncoder(io.Discard).Encode(data); err != nil {
		return "yaml encoder: " + err.Error()
	}
	if c38RehearsalTemplate == nil {
		tmpl := template.New("configV2.tmpl")
		tmpl.Funcs(helpers())
		tmpl, err := tmpl.ParseFS(filesystem, "templates/configV2.tmpl")
		if err != nil {
			return "template parse: " + err.Error()
		}
		c38RehearsalTemplate = tmpl
	}
	if err := c38RehearsalTemplate.Execute(io.Discard, &configTemplateData{Input: "v1-input", Data: data}); err != nil {
		return "template execute: " + c38Short(err.Error(), 300)
	}
	return ""
}

func c38TemplateText() string {
	b, err := filesystem.ReadFile("templates/configV2.tmpl")
	if err != nil {
		return ""
	}
	return string(b)
}

func c38ConfigMeta() *config.Metadata { return loadConfigMetadata() }

// ---------------------------------------------------------------------------------------
// small helpers
// ---------------------------------------------------------------------------------------

func c38Short(s string, n int) string {
	if len(s) > n {
		return s[:n] + "…"
	}
	return s
}

func c38DeepCopy(v any) any {
	switch x := v.(type) {
	case map[string]any:
		m := make(map[string]any, len(x))
		for k, e := range x {
			m[k] = c38DeepCopy(e)
		}
		return m
	case []any:
		s := make([]any, len(x))
		for i, e := range x {
			s[i] = c38DeepCopy(e)
		}
		return s
	default:
		return v
	}
}

// c38Encode writes a v1 document in one of the three formats the converter accepts.
func c38Encode(m map[string]any, typ string) (string, error) {
	switch typ {
	case "T":
		b, err := toml.Marshal(m)
		return string(b), err
	case "Y":
		b, err := yaml.Marshal(m)
		return string(b), err
	case "J":
		b, err := json.MarshalIndent(m, "", " ")
		return string(b), err
	}
	return "", fmt.Errorf("bad format %q", typ)
}

var c38Formats = []string{"T", "Y", "J"}

// c38ActiveLines keeps the uncommented lines of a converter output (for witnesses).
func c38ActiveLines(out string) string {
	var b strings.Builder
	for _, l := range strings.Split(out, "\n") {
		t := strings.TrimSpace(l)
		if t == "" || strings.HasPrefix(t, "#") {
			continue
		}
		b.WriteString(l)
		b.WriteByte('\n')
	}
	return c38Short(b.String(), 4000)
}

// c38V2Loader loads converter output with the real v2 loader, validation on.
type c38V2Loader struct {
	dir string
	n   int
}

const c38MinimalV2Rules = "RulesVersion: 2\nSamplers:\n  __default__:\n    DeterministicSampler:\n      SampleRate: 1\n"
const c38MinimalV2Config = "General:\n  ConfigurationVersion: 2\n"

func (l *c38V2Loader) load(cfgYAML, rulesYAML string) (cfg config.Config, failure string) {
	defer func() {
		if r := recover(); r != nil {
			cfg, failure = nil, fmt.Sprintf("v2 loader panicked: %v", r)
		}
	}()
	l.n++
	cp := filepath.Join(l.dir, "config.yaml")
	rp := filepath.Join(l.dir, "rules.yaml")
	if err := os.WriteFile(cp, []byte(cfgYAML), 0o644); err != nil {
		return nil, "harness: " + err.Error()
	}
	if err := os.WriteFile(rp, []byte(rulesYAML), 0o644); err != nil {
		return nil, "harness: " + err.Error()
	}
	c, err := config.NewConfig(&config.CmdEnv{ConfigLocations: []string{cp}, RulesLocations: []string{rp}})
	if c == nil || reflect.ValueOf(c).IsNil() {
		if err == nil {
			return nil, "v2 loader returned neither config nor error"
		}
		return nil, c38Short(strings.ReplaceAll(err.Error(), l.dir, "<tmp>"), 600)
	}
	// (cfg, err) with cfg != nil is the documented "warnings only" outcome
	return c, ""
}

// ---------------------------------------------------------------------------------------
// effective v2 values through the public getters
// ---------------------------------------------------------------------------------------

func c38Norm(v reflect.Value) any {
	switch x := v.Interface().(type) {
	case config.Duration:
		return time.Duration(x)
	case time.Duration:
		return x
	case config.Level:
		return x.String()
	case *config.DefaultTrue:
		return x.Get()
	case config.MemorySize:
		return int64(x)
	case []string:
		return append([]string{}, x...)
	case map[string]string:
		m := map[string]string{}
		for k, e := range x {
			m[k] = e
		}
		return m
	}
	switch v.Kind() {
	case reflect.Int, reflect.Int8, reflect.Int16, reflect.Int32, reflect.Int64:
		return v.Int()
	case reflect.Uint, reflect.Uint8, reflect.Uint16, reflect.Uint32, reflect.Uint64:
		return int64(v.Uint())
	case reflect.Bool:
		return v.Bool()
	case reflect.String:
		return v.String()
	case reflect.Float32, reflect.Float64:
		return v.Float()
	}
	return fmt.Sprintf("%v", v.Interface())
}

func c38AddGroup(eff map[string]any, group string, s any) {
	v := reflect.ValueOf(s)
	t := v.Type()
	for i := 0; i < t.NumField(); i++ {
		tag := strings.Split(t.Field(i).Tag.Get("yaml"), ",")[0]
		if tag == "" || tag == "-" || !t.Field(i).IsExported() {
			continue
		}
		eff[group+"."+tag] = c38Norm(v.Field(i))
	}
}

// c38Effective returns "Group.Field" -> effective value, as Refinery's components would see it.
func c38Effective(c config.Config) map[string]any {
	eff := map[string]any{}
	c38AddGroup(eff, "General", c.GetGeneralConfig())
	c38AddGroup(eff, "AccessKeys", c.GetAccessKeyConfig())
	c38AddGroup(eff, "Traces", c.GetTracesConfig())
	c38AddGroup(eff, "HoneycombLogger", c.GetHoneycombLoggerConfig())
	c38AddGroup(eff, "StdoutLogger", c.GetStdoutLoggerConfig())
	c38AddGroup(eff, "PrometheusMetrics", c.GetPrometheusMetricsConfig())
	c38AddGroup(eff, "OTelMetrics", c.GetOTelMetricsConfig())
	c38AddGroup(eff, "OTelTracing", c.GetOTelTracingConfig())
	c38AddGroup(eff, "RedisPeerManagement", c.GetRedisPeerManagement())
	c38AddGroup(eff, "Collection", c.GetCollectionConfig())
	c38AddGroup(eff, "GRPCServerParameters", c.GetGRPCConfig())
	c38AddGroup(eff, "SampleCache", c.GetSampleCacheConfig())
	c38AddGroup(eff, "StressRelief", c.GetStressReliefConfig())
	eff["Network.ListenAddr"] = c.GetListenAddr()
	eff["Network.PeerListenAddr"] = c.GetPeerListenAddr()
	eff["Network.HTTPIdleTimeout"] = c.GetHTTPIdleTimeout()
	eff["Network.HoneycombAPI"] = c.GetHoneycombAPI()
	eff["GRPCServerParameters.Enabled"] = c.GetGRPCEnabled()
	eff["GRPCServerParameters.ListenAddr"] = c.GetGRPCListenAddr()
	eff["Logger.Type"] = c.GetLoggerType()
	eff["Logger.Level"] = c.GetLoggerLevel().String()
	eff["PeerManagement.Type"] = c.GetPeerManagementType()
	eff["PeerManagement.Peers"] = append([]string{}, c.GetPeers()...)
	eff["PeerManagement.Identifier"] = c.GetRedisIdentifier()
	eff["PeerManagement.IdentifierInterfaceName"] = c.GetIdentifierInterfaceName()
	if u, ok := c.(interface{ GetUseIPV6Identifier() bool }); ok {
		eff["PeerManagement.UseIPV6Identifier"] = u.GetUseIPV6Identifier()
	}
	eff["Debugging.DebugServiceAddr"] = c.GetDebugServiceAddr()
	eff["Debugging.QueryAuthToken"] = c.GetQueryAuthToken()
	eff["Debugging.AdditionalErrorFields"] = append([]string{}, c.GetAdditionalErrorFields()...)
	eff["Debugging.DryRun"] = c.GetIsDryRun()
	eff["RefineryTelemetry.AddHostMetadataToTrace"] = c.GetAddHostMetadataToTrace()
	eff["RefineryTelemetry.AddRuleReasonToTrace"] = c.GetAddRuleReasonToTrace()
	eff["RefineryTelemetry.AddSpanCountToRoot"] = c.GetAddSpanCountToRoot()
	eff["RefineryTelemetry.AddCountsToRoot"] = c.GetAddCountsToRoot()
	eff["Specialized.EnvironmentCacheTTL"] = c.GetEnvironmentCacheTTL()
	eff["Specialized.CompressPeerCommunication"] = c.GetCompressPeerCommunication()
	am := map[string]string{}
	for k, v := range c.GetAdditionalAttributes() {
		am[k] = v
	}
	eff["Specialized.AdditionalAttributes"] = am
	eff["IDFields.TraceNames"] = append([]string{}, c.GetTraceIdFieldNames()...)
	eff["IDFields.ParentNames"] = append([]string{}, c.GetParentIdFieldNames()...)
	return eff
}

func c38Equal(a, b any) bool {
	if as, ok := a.([]string); ok {
		bs, ok := b.([]string)
		if !ok || len(as) != len(bs) {
			return false
		}
		for i := range as {
			if as[i] != bs[i] {
				return false
			}
		}
		return true
	}
	return reflect.DeepEqual(a, b)
}

// ---------------------------------------------------------------------------------------
// the v1 settings (anchor: /repo/config_complete.1.x.toml) and what they mean in v2
// ---------------------------------------------------------------------------------------

type c38Kind int

const (
	c38String c38Kind = iota
	c38Hostport
	c38URL
	c38Duration
	c38Int
	c38Percent
	c38Bool
	c38StrArr
	c38Bytes   // v1: integer number of bytes; v2: memory size
	c38Seconds // v1: integer seconds; v2: duration
	c38Choice
	c38Map
	c38APIKeyList // APIKeys: list of keys, "*" = accept everything
)

type c38Setting struct {
	V1Group string // "" = top level
	V1Name  string
	V2      string // "Group.Field" of the v2 setting that carries the same meaning; "" = gone from v2
	Kind    c38Kind
	Gen     string   // value-domain hint: apikey | fieldnames | urls | level | mode
	Choices []string // for c38Choice: the valid v1 values
	// V1Default is the documented v1 default where the 1.x document states one; a v1 value equal
	// to it is not a "non-default v1 setting" and is never asserted on.
	V1Default any
	// Expect overrides the default expectation {V2: value}.
	Expect func(v any) map[string]any
	Note   string
}

func (s c38Setting) path() string {
	if s.V1Group == "" {
		return s.V1Name
	}
	return s.V1Group + "." + s.V1Name
}

var c38Settings = []c38Setting{
	{V1Name: "ListenAddr", V2: "Network.ListenAddr", Kind: c38Hostport},
	{V1Name: "GRPCListenAddr", V2: "GRPCServerParameters.ListenAddr", Kind: c38Hostport,
		Expect: func(v any) map[string]any {
			return map[string]any{"GRPCServerParameters.ListenAddr": v, "GRPCServerParameters.Enabled": true}
		}},
	{V1Name: "PeerListenAddr", V2: "Network.PeerListenAddr", Kind: c38Hostport},
	{V1Name: "CompressPeerCommunication", V2: "Specialized.CompressPeerCommunication", Kind: c38Bool},
	{V1Name: "APIKeys", V2: "AccessKeys.ReceiveKeys", Kind: c38APIKeyList,
		Expect: func(v any) map[string]any {
			keys := v.([]string)
			star := false
			for _, k := range keys {
				if k == "*" {
					star = true
				}
			}
			if star { // v1: "*" accepts every key; in v2 that is AcceptOnlyListedKeys=false (the list is then unused)
				return map[string]any{"AccessKeys.AcceptOnlyListedKeys": false}
			}
			return map[string]any{"AccessKeys.AcceptOnlyListedKeys": true, "AccessKeys.ReceiveKeys": keys}
		}},
	{V1Name: "HoneycombAPI", V2: "Network.HoneycombAPI", Kind: c38URL},
	{V1Name: "SendDelay", V2: "Traces.SendDelay", Kind: c38Duration},
	{V1Name: "BatchTimeout", V2: "Traces.BatchTimeout", Kind: c38Duration},
	{V1Name: "TraceTimeout", V2: "Traces.TraceTimeout", Kind: c38Duration},
	{V1Name: "MaxBatchSize", V2: "Traces.MaxBatchSize", Kind: c38Int},
	{V1Name: "SendTicker", V2: "Traces.SendTicker", Kind: c38Duration},
	{V1Name: "LoggingLevel", V2: "Logger.Level", Kind: c38Choice, Choices: []string{"debug", "info", "error", "panic"},
		Note: "v1 top-level LoggingLevel is v2 Logger.Level (same level names)"},
	{V1Name: "UpstreamBufferSize", Kind: c38Int, Note: "BufferSizes was removed (v3.0.0)"},
	{V1Name: "PeerBufferSize", Kind: c38Int, Note: "BufferSizes was removed (v3.0.0)"},
	{V1Name: "DebugServiceAddr", V2: "Debugging.DebugServiceAddr", Kind: c38Hostport},
	{V1Name: "AddHostMetadataToTrace", V2: "RefineryTelemetry.AddHostMetadataToTrace", Kind: c38Bool},
	{V1Name: "EnvironmentCacheTTL", V2: "Specialized.EnvironmentCacheTTL", Kind: c38Duration},
	{V1Name: "QueryAuthToken", V2: "Debugging.QueryAuthToken", Kind: c38String},
	{V1Name: "AddRuleReasonToTrace", V2: "RefineryTelemetry.AddRuleReasonToTrace", Kind: c38Bool},
	{V1Name: "AdditionalErrorFields", V2: "Debugging.AdditionalErrorFields", Kind: c38StrArr, Gen: "fieldnames"},
	{V1Name: "AddSpanCountToRoot", V2: "RefineryTelemetry.AddSpanCountToRoot", Kind: c38Bool},
	{V1Name: "CacheOverrunStrategy", Kind: c38Choice, Choices: []string{"resize", "impact"}, Note: "removed in v2"},
	{V1Name: "TraceIdFieldNames", V2: "IDFields.TraceNames", Kind: c38StrArr, Gen: "fieldnames",
		Note: "v1 TraceIdFieldNames is v2 IDFields.TraceNames"},
	{V1Name: "ParentIdFieldNames", V2: "IDFields.ParentNames", Kind: c38StrArr, Gen: "fieldnames",
		Note: "v1 ParentIdFieldNames is v2 IDFields.ParentNames"},
	{V1Name: "Collector", Kind: c38Choice, Choices: []string{"InMemCollector"}, Note: "removed in v2"},
	{V1Name: "Logger", V2: "Logger.Type", Kind: c38Choice, Choices: []string{"logrus", "honeycomb"},
		Expect: func(v any) map[string]any {
			if v.(string) == "logrus" { // logrus wrote to STDOUT
				return map[string]any{"Logger.Type": "stdout"}
			}
			return map[string]any{"Logger.Type": "honeycomb"}
		}, Note: "v1 top-level Logger is v2 Logger.Type (logrus = stdout)"},
	{V1Name: "Metrics", V2: "PrometheusMetrics.Enabled", Kind: c38Choice, Choices: []string{"prometheus", "honeycomb"},
		Expect: func(v any) map[string]any {
			return map[string]any{"PrometheusMetrics.Enabled": v.(string) == "prometheus"}
		}},

	{V1Group: "PeerManagement", V1Name: "Type", V2: "PeerManagement.Type", Kind: c38Choice, Choices: []string{"file", "redis"}},
	{V1Group: "PeerManagement", V1Name: "Peers", V2: "PeerManagement.Peers", Kind: c38StrArr, Gen: "urls"},
	{V1Group: "PeerManagement", V1Name: "RedisHost", V2: "RedisPeerManagement.Host", Kind: c38Hostport},
	{V1Group: "PeerManagement", V1Name: "RedisUsername", V2: "RedisPeerManagement.Username", Kind: c38String},
	{V1Group: "PeerManagement", V1Name: "RedisPassword", V2: "RedisPeerManagement.Password", Kind: c38String,
		Note: "v1 PeerManagement.RedisPassword is v2 RedisPeerManagement.Password"},
	{V1Group: "PeerManagement", V1Name: "RedisPrefix", Kind: c38String, Gen: "alnum", Note: "Prefix deprecated since v2.6"},
	{V1Group: "PeerManagement", V1Name: "RedisDatabase", Kind: c38Int, Gen: "db", Note: "Database deprecated since v2.6"},
	{V1Group: "PeerManagement", V1Name: "UseTLS", V2: "RedisPeerManagement.UseTLS", Kind: c38Bool},
	{V1Group: "PeerManagement", V1Name: "UseTLSInsecure", V2: "RedisPeerManagement.UseTLSInsecure", Kind: c38Bool},
	{V1Group: "PeerManagement", V1Name: "IdentifierInterfaceName", V2: "PeerManagement.IdentifierInterfaceName", Kind: c38String, Gen: "alnum"},
	{V1Group: "PeerManagement", V1Name: "UseIPV6Identifier", V2: "PeerManagement.UseIPV6Identifier", Kind: c38Bool},
	{V1Group: "PeerManagement", V1Name: "RedisIdentifier", V2: "PeerManagement.Identifier", Kind: c38String},
	{V1Group: "PeerManagement", V1Name: "Timeout", V2: "RedisPeerManagement.Timeout", Kind: c38Duration},
	{V1Group: "PeerManagement", V1Name: "Strategy", Kind: c38Choice, Choices: []string{"legacy", "hash"}, Note: "removed in v2"},

	{V1Group: "InMemCollector", V1Name: "CacheCapacity", Kind: c38Int, Gen: "cache", Note: "Collection.CacheCapacity was removed (v3.0.0)"},
	{V1Group: "InMemCollector", V1Name: "MaxAlloc", V2: "Collection.MaxAlloc", Kind: c38Bytes},

	{V1Group: "HoneycombLogger", V1Name: "LoggerHoneycombAPI", V2: "HoneycombLogger.APIHost", Kind: c38URL},
	{V1Group: "HoneycombLogger", V1Name: "LoggerAPIKey", V2: "HoneycombLogger.APIKey", Kind: c38String, Gen: "apikey"},
	{V1Group: "HoneycombLogger", V1Name: "LoggerDataset", V2: "HoneycombLogger.Dataset", Kind: c38String},
	{V1Group: "HoneycombLogger", V1Name: "LoggerSamplerEnabled", V2: "HoneycombLogger.SamplerEnabled", Kind: c38Bool},
	{V1Group: "HoneycombLogger", V1Name: "LoggerSamplerThroughput", V2: "HoneycombLogger.SamplerThroughput", Kind: c38Int, Gen: "small",
		Note: "v1 HoneycombLogger.LoggerSamplerThroughput is v2 HoneycombLogger.SamplerThroughput"},

	{V1Group: "HoneycombMetrics", V1Name: "MetricsHoneycombAPI", Kind: c38URL, Note: "LegacyMetrics was removed (v3.0.0)"},
	{V1Group: "HoneycombMetrics", V1Name: "MetricsAPIKey", Kind: c38String, Gen: "apikey", Note: "LegacyMetrics was removed (v3.0.0)"},
	{V1Group: "HoneycombMetrics", V1Name: "MetricsDataset", Kind: c38String, Note: "LegacyMetrics was removed (v3.0.0)"},
	{V1Group: "HoneycombMetrics", V1Name: "MetricsReportingInterval", Kind: c38Int, Gen: "small", Note: "LegacyMetrics was removed (v3.0.0)"},

	{V1Group: "PrometheusMetrics", V1Name: "MetricsListenAddr", V2: "PrometheusMetrics.ListenAddr", Kind: c38Hostport},

	{V1Group: "GRPCServerParameters", V1Name: "MaxConnectionIdle", V2: "GRPCServerParameters.MaxConnectionIdle", Kind: c38Duration},
	{V1Group: "GRPCServerParameters", V1Name: "MaxConnectionAge", V2: "GRPCServerParameters.MaxConnectionAge", Kind: c38Duration},
	{V1Group: "GRPCServerParameters", V1Name: "MaxConnectionAgeGrace", V2: "GRPCServerParameters.MaxConnectionAgeGrace", Kind: c38Duration},
	{V1Group: "GRPCServerParameters", V1Name: "Time", V2: "GRPCServerParameters.KeepAlive", Kind: c38Duration},
	{V1Group: "GRPCServerParameters", V1Name: "Timeout", V2: "GRPCServerParameters.KeepAliveTimeout", Kind: c38Duration},

	{V1Group: "SampleCacheConfig", V1Name: "Type", Kind: c38Choice, Choices: []string{"legacy", "cuckoo"}, Note: "removed in v2"},
	{V1Group: "SampleCacheConfig", V1Name: "KeptSize", V2: "SampleCache.KeptSize", Kind: c38Int},
	{V1Group: "SampleCacheConfig", V1Name: "DroppedSize", V2: "SampleCache.DroppedSize", Kind: c38Int},
	{V1Group: "SampleCacheConfig", V1Name: "SizeCheckInterval", V2: "SampleCache.SizeCheckInterval", Kind: c38Duration},

	{V1Group: "StressRelief", V1Name: "Mode", V2: "StressRelief.Mode", Kind: c38Choice, Choices: []string{"never", "monitor", "always"}},
	{V1Group: "StressRelief", V1Name: "ActivationLevel", V2: "StressRelief.ActivationLevel", Kind: c38Percent, Gen: "hi"},
	{V1Group: "StressRelief", V1Name: "DeactivationLevel", V2: "StressRelief.DeactivationLevel", Kind: c38Percent, Gen: "lo"},
	{V1Group: "StressRelief", V1Name: "StressSamplingRate", V2: "StressRelief.SamplingRate", Kind: c38Int},
	{V1Group: "StressRelief", V1Name: "MinimumActivationDuration", V2: "StressRelief.MinimumActivationDuration", Kind: c38Duration},
	{V1Group: "StressRelief", V1Name: "MinimumStartupDuration", Kind: c38Duration, Note: "removed in v2.6"},

	{V1Name: "AdditionalAttributes", V2: "Specialized.AdditionalAttributes", Kind: c38Map},
}

// v1 defaults the 1.x document states (or shows as the only sensible reading); only used to
// leave values alone that are not "non-default v1 settings".
var c38V1Defaults = map[string]any{
	"AddSpanCountToRoot":               false,
	"AddRuleReasonToTrace":             false,
	"CompressPeerCommunication":        true,
	"PeerManagement.UseTLS":            false,
	"PeerManagement.UseTLSInsecure":    false,
	"PeerManagement.UseIPV6Identifier": false,
	"InMemCollector.MaxAlloc":          int64(0),
	"StressRelief.Mode":                "never",
	"PeerManagement.Type":              "file",
	"EnvironmentCacheTTL":              "1h",
}

// ---------------------------------------------------------------------------------------
// value generation: classes of values, each homogeneous in how a YAML writer must treat them
// ---------------------------------------------------------------------------------------

type c38Value struct {
	Class string
	V     any // string | int64 | bool | []string | map[string]string
}

// fixed representatives of the hostile classes: always all of them are tried in the sweep so
// that the set of signatures does not depend on the seed.
// "unquoted-nonstring": strings made only of characters in [a-zA-z0-9] (that range includes
// [ ] ^ _ and the backtick) which a YAML reader does not read as a string when left unquoted.
var c38UnquotedNonStrings = []string{"20240131", "true", "[secret]"}
// "number-like": purely alphanumeric strings that YAML 1.1/1.2 readers (yaml.v3) resolve to a
// number although they are not plain decimal integers.
var c38NumberLikeStrings = []string{"0x1f", "1e3", "0o17", "0b1011", "12E5"}

// "special-scalar": other texts with a non-string meaning in YAML (they contain punctuation, so a
// writer that quotes everything non-alphanumeric gets them right).
var c38SpecialScalarStrings = []string{".5", "1_000", "+1", ".inf", ".nan", "~", "-0x1f", "1.5e3"}

// an API key of the classic format ([a-f0-9]{32}) that is also a YAML float
const c38NumberLikeAPIKey = "12345678901234567890123456789e12"

var c38PunctStrings = []string{"se-cr.et/1:x", "p@ss: w#rd", "it's \"q\""}

func c38Alnum(rng *verifkit.Rand, n int) string {
	const letters = "abcdefghijkmnopqrstuvwxyzABCDEFGHJKLMNPQRSTUVWXYZ"
	const all = letters + "0123456789"
	b := make([]byte, n)
	b[0] = letters[rng.Intn(len(letters))]
	for i := 1; i < n; i++ {
		b[i] = all[rng.Intn(len(all))]
	}
	// keep clear of anything a YAML reader could take for a number or keyword
	s := string(b)
	return "k" + s[1:]
}

func c38GenHostport(rng *verifkit.Rand) string {
	port := rng.Range(1025, 65000)
	switch rng.Intn(4) {
	case 0:
		return fmt.Sprintf("10.%d.%d.%d:%d", rng.Intn(256), rng.Intn(256), rng.Range(1, 254), port)
	case 1:
		return fmt.Sprintf("refinery-%s.internal:%d", strings.ToLower(c38Alnum(rng, 5)), port)
	case 2:
		return fmt.Sprintf("[::1]:%d", port)
	default:
		return fmt.Sprintf("localhost:%d", port)
	}
}

func c38GenURL(rng *verifkit.Rand) string {
	switch rng.Intn(3) {
	case 0:
		return fmt.Sprintf("https://api-%s.example.com", strings.ToLower(c38Alnum(rng, 4)))
	case 1:
		return fmt.Sprintf("http://10.%d.%d.%d:%d", rng.Intn(256), rng.Intn(256), rng.Range(1, 254), rng.Range(1025, 65000))
	default:
		return fmt.Sprintf("https://hny.%s.example.org:8443/ingest", strings.ToLower(c38Alnum(rng, 4)))
	}
}

func c38GenAPIKey(rng *verifkit.Rand) string {
	if rng.Bool() {
		return "a" + rng.Hex(31) // classic: 32 hex
	}
	return c38Alnum(rng, 22) // 20-23 alphanumerics
}

func c38GenFieldName(rng *verifkit.Rand) string {
	return verifkit.Pick(rng, "trace.span_id", "http.status_code", "service.name", "app.tenant-id", "request/path", "error", "db.statement", "k8s.pod.name") +
		verifkit.Pick(rng, "", "", "_2", ".x")
}

// quantity reads a metadata validation argument the way the v2 validator does (durations in ms).
func c38Quantity(v any) (float64, bool) {
	switch x := v.(type) {
	case int:
		return float64(x), true
	case int64:
		return float64(x), true
	case float64:
		return x, true
	case string:
		if d, err := time.ParseDuration(x); err == nil {
			return float64(d.Milliseconds()), true
		}
		var m config.MemorySize
		if err := m.UnmarshalText([]byte(x)); err == nil {
			return float64(m), true
		}
	}
	return 0, false
}

type c38Bounds struct {
	min, max   float64
	hasMin     bool
	hasMax     bool
	minOrZero  float64
	hasMOZ     bool
	format     string
	v2Default  any
	fieldFound bool
}

func c38BoundsFor(meta *config.Metadata, v2 string) c38Bounds {
	var b c38Bounds
	if v2 == "" {
		return b
	}
	f := meta.GetField(v2)
	if f == nil {
		return b
	}
	b.fieldFound = true
	b.v2Default = f.Default
	for _, val := range f.Validations {
		switch val.Type {
		case "minimum":
			if q, ok := c38Quantity(val.Arg); ok {
				b.min, b.hasMin = q, true
			}
		case "maximum":
			if q, ok := c38Quantity(val.Arg); ok {
				b.max, b.hasMax = q, true
			}
		case "minOrZero":
			if q, ok := c38Quantity(val.Arg); ok {
				b.minOrZero, b.hasMOZ = q, true
			}
		case "format":
			b.format, _ = val.Arg.(string)
		}
	}
	return b
}

func c38GenDuration(rng *verifkit.Rand, b c38Bounds) string {
	// candidates in milliseconds, written the way people write them
	type cand struct {
		ms int64
		s  string
	}
	cands := []cand{{250, "250ms"}, {1500, "1.5s"}, {3000, "3s"}, {7000, "7s"}, {45000, "45s"}, {90000, "90s"}, {90000, "1m30s"},
		{120000, "2m"}, {300000, "5m"}, {1500000, "25m"}, {5400000, "1h30m"}, {7200000, "2h"}, {11000, "11s"}, {1000, "1000ms"}, {600000, "600s"}}
	var ok []cand
	for _, c := range cands {
		if b.hasMin && float64(c.ms) < b.min {
			continue
		}
		if b.hasMOZ && float64(c.ms) < b.minOrZero {
			continue
		}
		if b.hasMax && float64(c.ms) > b.max {
			continue
		}
		if d, isS := b.v2Default.(string); isS {
			if dd, err := time.ParseDuration(d); err == nil && dd.Milliseconds() == c.ms {
				continue
			}
		}
		ok = append(ok, c)
	}
	if len(ok) == 0 {
		return "2h"
	}
	return ok[rng.Intn(len(ok))].s
}

func c38GenInt(rng *verifkit.Rand, s c38Setting, b c38Bounds) int64 {
	lo, hi := int64(1), int64(5_000_000)
	switch s.Gen {
	case "small":
		lo, hi = 2, 900
	case "db":
		lo, hi = 1, 15
	case "cache":
		lo, hi = 1000, 200_000
	}
	if b.hasMin && int64(b.min) > lo {
		lo = int64(b.min)
	}
	if b.hasMax && int64(b.max) < hi {
		hi = int64(b.max)
	}
	for tries := 0; tries < 20; tries++ {
		var v int64
		switch rng.Intn(4) {
		case 0: // small magnitudes
			v = lo + int64(rng.Intn(int(min(hi-lo, 998)+1)))
		case 1: // round thousands
			v = (lo/1000 + 1 + int64(rng.Intn(500))) * 1000
		default:
			v = lo + rng.Int63()%(hi-lo+1)
		}
		if v < lo || v > hi {
			continue
		}
		if d, ok := c38Quantity(b.v2Default); ok && int64(d) == v {
			continue
		}
		return v
	}
	return lo + 1
}

// c38ValuesFor returns the sweep values of a setting: the fixed representatives of every class
// plus PRNG-drawn members of the parametric classes.
//
// allReps=false (quick tier) keeps one PRNG-chosen representative per hostile class: the members
// of a class are chosen to behave alike, the signature names the class, not the member.
func c38ValuesFor(rng *verifkit.Rand, s c38Setting, meta *config.Metadata, extra int, allReps bool) (out []c38Value) {
	b := c38BoundsFor(meta, s.V2)
	add := func(class string, v any) { out = append(out, c38Value{class, v}) }
	defer func() {
		if allReps {
			return
		}
		hostile := map[string][]c38Value{}
		var kept []c38Value
		for _, v := range out {
			switch v.Class {
			case "punct", "unquoted-nonstring", "needs-quoting", "number-like", "special-scalar":
				hostile[v.Class] = append(hostile[v.Class], v)
			default:
				kept = append(kept, v)
			}
		}
		for _, c := range []string{"punct", "unquoted-nonstring", "needs-quoting", "number-like", "special-scalar"} {
			if l := hostile[c]; len(l) > 0 {
				i := rng.Intn(len(l))
				kept = append(kept, l[i])
				if c == "number-like" && len(l) > 1 { // two distinct members: the class is the widest
					kept = append(kept, l[(i+1+rng.Intn(len(l)-1))%len(l)])
				}
			}
		}
		out = kept
	}()
	switch s.Kind {
	case c38Hostport:
		for i := 0; i < 1+extra; i++ {
			add("hostport", c38GenHostport(rng))
		}
	case c38URL:
		for i := 0; i < 1+extra; i++ {
			add("url", c38GenURL(rng))
		}
	case c38Duration:
		for i := 0; i < 1+extra; i++ {
			add("duration", c38GenDuration(rng, b))
		}
		// "0s" is not generated: the v2 loader replaces an explicit zero by the default (C29's
		// subject), which no converter output could avoid.
	case c38Int:
		for i := 0; i < 1+extra; i++ {
			add("int", c38GenInt(rng, s, b))
		}
	case c38Seconds:
		for i := 0; i < 1+extra; i++ {
			add("int", int64(rng.Range(1, 3000)))
		}
	case c38Bytes:
		add("int", int64(1)<<30)
		for i := 0; i < 1+extra; i++ {
			add("int", int64(100_000_000)+rng.Int63()%int64(20_000_000_000))
		}
	case c38Percent:
		for i := 0; i < 1+extra; i++ {
			if s.Gen == "lo" {
				add("int", int64(rng.Range(5, 60)))
			} else {
				add("int", int64(rng.Range(80, 99)))
			}
		}
	case c38Bool:
		add("true", true)
		add("false", false)
	case c38Choice:
		for _, c := range s.Choices {
			add("choice="+c, c)
		}
	case c38String:
		switch s.Gen {
		case "apikey":
			for i := 0; i < 1+extra; i++ {
				add("plain", c38GenAPIKey(rng))
			}
			add("number-like", c38NumberLikeAPIKey)
		case "alnum":
			for i := 0; i < 1+extra; i++ {
				add("plain", c38Alnum(rng, rng.Range(4, 12)))
			}
		default:
			for i := 0; i < 1+extra; i++ {
				add("plain", c38Alnum(rng, rng.Range(6, 16)))
			}
			for _, v := range c38PunctStrings {
				add("punct", v)
			}
			for _, v := range c38UnquotedNonStrings {
				add("unquoted-nonstring", v)
			}
			for _, v := range c38NumberLikeStrings {
				add("number-like", v)
			}
			for _, v := range c38SpecialScalarStrings {
				add("special-scalar", v)
			}
		}
	case c38StrArr:
		gen := func() string { return c38Alnum(rng, rng.Range(5, 10)) }
		switch s.Gen {
		case "fieldnames":
			gen = func() string { return c38GenFieldName(rng) }
		case "urls":
			gen = func() string {
				return fmt.Sprintf("http://10.%d.%d.%d:%d", rng.Intn(256), rng.Intn(256), rng.Range(1, 254), rng.Range(1025, 65000))
			}
		}
		for i := 0; i < 1+extra; i++ {
			n := rng.Range(1, 4)
			l := make([]string, n)
			for j := range l {
				l[j] = gen()
			}
			add("plain", l)
		}
		if s.Gen == "fieldnames" { // field names are free-form strings
			add("punct", []string{"app.user id", "http.url"})
			// elements a YAML writer has to quote
			add("needs-quoting", []string{"404", "trace.span_id"})
			add("needs-quoting", []string{"app.#hash"})
			add("needs-quoting", []string{"*wild"})
			add("needs-quoting", []string{"k: v"})
			add("number-like", []string{"0x1f", "trace.span_id", "1e3"})
			add("number-like", []string{"0o17", "0b1011", "12E5"})
			add("special-scalar", []string{".5", "1_000", "+1"})
			add("special-scalar", []string{".inf", ".nan", "~"})
		}
	case c38APIKeyList:
		add("star", []string{"*"})
		for i := 0; i < 1+extra; i++ {
			n := rng.Range(1, 3)
			l := make([]string, n)
			for j := range l {
				l[j] = c38GenAPIKey(rng)
			}
			add("keys", l)
			add("keys+star", append(append([]string{}, l...), "*"))
		}
		add("number-like", []string{c38NumberLikeAPIKey})
	case c38Map:
		add("map", map[string]string{"ClusterName": "MyCluster", "environment": "production"})
		for i := 0; i < extra; i++ {
			add("map", map[string]string{c38Alnum(rng, 6): c38Alnum(rng, 8)})
		}
	}
	return out
}

// ---------------------------------------------------------------------------------------
// one conversion and its verdict
// ---------------------------------------------------------------------------------------

type c38Assign struct {
	S c38Setting
	V c38Value
}

func c38BuildV1(assigns []c38Assign, altSampleCacheGroup bool) map[string]any {
	doc := map[string]any{}
	for _, a := range assigns {
		var v any = a.V.V
		switch x := v.(type) {
		case []string:
			l := make([]any, len(x))
			for i := range x {
				l[i] = x[i]
			}
			v = l
		case map[string]string:
			m := map[string]any{}
			for k, e := range x {
				m[k] = e
			}
			v = m
		}
		if a.S.V1Group == "" {
			doc[a.S.V1Name] = v
			continue
		}
		g := a.S.V1Group
		if g == "SampleCacheConfig" && altSampleCacheGroup {
			g = "SampleCache"
		}
		sub, _ := doc[g].(map[string]any)
		if sub == nil {
			sub = map[string]any{}
			doc[g] = sub
		}
		sub[a.S.V1Name] = v
	}
	return doc
}

// c38Want is what the v1 value means in v2 terms: "Group.Field" -> effective value.
func c38Want(a c38Assign) map[string]any {
	if a.S.V2 == "" {
		return nil
	}
	if a.S.Expect != nil {
		return a.S.Expect(a.V.V)
	}
	var w any
	switch a.S.Kind {
	case c38Duration:
		d, err := time.ParseDuration(a.V.V.(string))
		if err != nil {
			panic("harness: bad generated duration " + a.V.V.(string))
		}
		w = d
	case c38Seconds:
		w = time.Duration(a.V.V.(int64)) * time.Second
	case c38Map:
		m := map[string]string{}
		for k, v := range a.V.V.(map[string]string) {
			m[k] = v
		}
		w = m
	default:
		w = a.V.V
	}
	return map[string]any{a.S.V2: w}
}

type c38Outcome struct {
	V1Text     string
	Out        string
	Crash      string         // converter died (or would have called os.Exit)
	LoadErr    string         // v2 loader rejected the output
	Eff        map[string]any // effective v2 values when it loaded
	InputError string         // the converter's loader rejected the generated v1 text (harness problem)
}

type c38Bench struct {
	run    *verifkit.Run
	loader *c38V2Loader
	meta   *config.Metadata
	eff0   map[string]any // effective values of a conversion of the empty v1 config = v2 defaults
	memo   map[string]map[string]string
}

func (b *c38Bench) convert(doc map[string]any, typ string) c38Outcome {
	var o c38Outcome
	txt, err := c38Encode(doc, typ)
	if err != nil {
		o.InputError = "encode: " + err.Error()
		return o
	}
	o.V1Text = txt
	data, err := c38Load(txt, typ)
	if err != nil {
		o.InputError = "converter loader: " + err.Error()
		return o
	}
	if data == nil {
		data = map[string]any{}
	}
	out, crash := c38ConvertConfigReal(data)
	o.Out, o.Crash = out, crash
	if crash != "" {
		return o
	}
	b.run.Count("conversions", 1)
	cfg, fail := b.loader.load(out, c38MinimalV2Rules)
	if cfg == nil {
		o.LoadErr = fail
		return o
	}
	o.Eff = c38Effective(cfg)
	return o
}

// judge returns the failure kind of one assignment within an outcome ("" = preserved).
func (b *c38Bench) judge(a c38Assign, o c38Outcome) (kind, detail string) {
	if o.Crash != "" {
		return "crash", o.Crash
	}
	if o.LoadErr != "" {
		return "invalid-output", o.LoadErr
	}
	want := c38Want(a)
	keys := make([]string, 0, len(want))
	for k := range want {
		keys = append(keys, k)
	}
	sort.Strings(keys)
	for _, k := range keys {
		got, ok := o.Eff[k]
		if !ok {
			return "harness", "no getter for " + k
		}
		if c38Equal(got, want[k]) {
			continue
		}
		if d, ok := c38V1Defaults[a.S.path()]; ok && reflect.DeepEqual(d, a.V.V) {
			b.run.Count("skipped_value_is_v1_default", 1)
			continue
		}
		if c38Equal(got, b.eff0[k]) {
			return "lost", fmt.Sprintf("%s: v1 %s=%#v means %#v, v2 has its default %#v", k, a.S.path(), a.V.V, want[k], got)
		}
		return "changed", fmt.Sprintf("%s: v1 %s=%#v means %#v, v2 has %#v", k, a.S.path(), a.V.V, want[k], got)
	}
	return "", ""
}

// isolated converts a v1 file holding only this one setting, in all three input formats, and
// returns format -> failure kind. This is what signatures are made of.
//
// The three loaders hand strings, bools, lists and maps to the converter as the same Go values;
// only numbers differ (TOML int64, YAML int, JSON float64). In the quick tier a non-numeric
// value is therefore first tried in one format (first) and in the other two only if that fails.
func (b *c38Bench) isolated(a c38Assign, first string) (map[string]string, map[string]c38Outcome, map[string]string) {
	kinds := map[string]string{}
	outs := map[string]c38Outcome{}
	details := map[string]string{}
	one := func(f string) {
		o := b.convert(c38BuildV1([]c38Assign{a}, false), f)
		if o.InputError != "" {
			kinds[f], details[f], outs[f] = "harness", o.InputError, o
			return
		}
		k, d := b.judge(a, o)
		kinds[f], details[f], outs[f] = k, d, o
	}
	numeric := a.S.Kind == c38Int || a.S.Kind == c38Percent || a.S.Kind == c38Bytes || a.S.Kind == c38Seconds
	if first != "" && !numeric && !b.run.Thorough() {
		one(first)
		if kinds[first] == "" {
			return kinds, outs, details
		}
	}
	for _, f := range c38Formats {
		if _, done := kinds[f]; !done {
			one(f)
		}
	}
	return kinds, outs, details
}

func c38FmtSuffix(kinds map[string]string, kind string) string {
	var fs []string
	for _, f := range c38Formats {
		if kinds[f] == kind {
			fs = append(fs, f)
		}
	}
	if len(fs) == len(kinds) {
		return ""
	}
	return "/fmt=" + strings.Join(fs, "")
}

func c38Sig(a c38Assign, kind string, kinds map[string]string) string {
	class := a.V.Class
	if strings.HasPrefix(class, "choice=") || class == "true" || class == "false" {
		class = "" // the value itself is not a class of its own
	}
	sig := "C38/config/" + a.S.path() + "/" + kind
	switch class {
	case "", "plain", "int", "duration", "hostport", "url", "map", "keys":
		class = ""
	}
	if class != "" {
		sig += "/" + class
	}
	return sig + c38FmtSuffix(kinds, kind)
}

// aloneKind is the failure kind of a file holding only this assignment, in one format.
func (b *c38Bench) aloneKind(a c38Assign, typ string) string {
	key := fmt.Sprintf("%s|%#v", a.S.path(), a.V.V)
	if m, ok := b.memo[key]; ok {
		return m[typ]
	}
	o := b.convert(c38BuildV1([]c38Assign{a}, false), typ)
	if o.InputError != "" {
		return ""
	}
	k, _ := b.judge(a, o)
	return k
}

// report files the violations of one isolated assignment and returns whether any was found.
func (b *c38Bench) reportIsolated(a c38Assign, first string) (bad bool, kinds map[string]string) {
	key := fmt.Sprintf("%s|%#v", a.S.path(), a.V.V)
	if m, ok := b.memo[key]; ok {
		for _, k := range m {
			if k != "" && k != "harness" {
				bad = true
			}
		}
		return bad, m
	}
	kinds, outs, details := b.isolated(a, first)
	b.memo[key] = kinds
	seen := map[string]bool{}
	for _, f := range c38Formats {
		k := kinds[f]
		if k == "" || seen[k] {
			continue
		}
		seen[k] = true
		if k == "harness" {
			b.run.Inconclusive("generated v1 input not usable: " + details[f])
			continue
		}
		bad = true
		o := outs[f]
		b.run.Violation(c38Sig(a, k, kinds), details[f], map[string]any{
			"v1_setting": a.S.path(), "v1_value": a.V.V, "value_class": a.V.Class, "input_format": f,
			"means_in_v2": fmt.Sprintf("%#v", c38Want(a)), "note": a.S.Note,
			"v1_input": o.V1Text, "converter_output_active_lines": c38ActiveLines(o.Out),
			"failure_by_format": kinds,
		})
	}
	return bad, kinds
}

// ---------------------------------------------------------------------------------------
// what the converter's template knows (evidence only)
// ---------------------------------------------------------------------------------------

var c38InvocationRE = regexp.MustCompile(`\{\{\s*(\w+)\s+\.Data\s+"([^"]+)"\s+"([^"]+)"`)
var c38CondRE = regexp.MustCompile(`\{\{\s*conditional\s+\.Data\s+"([^"]+)"\s+"(\w+)\s+(\w+)`)

func c38TemplateV1Paths() (paths []string) {
	seen := map[string]bool{}
	txt := c38TemplateText()
	for _, m := range c38InvocationRE.FindAllStringSubmatch(txt, -1) {
		if m[1] == "conditional" {
			continue
		}
		if !seen[m[3]] {
			seen[m[3]] = true
			paths = append(paths, m[3])
		}
	}
	for _, m := range c38CondRE.FindAllStringSubmatch(txt, -1) {
		if !seen[m[3]] {
			seen[m[3]] = true
			paths = append(paths, m[3])
		}
	}
	sort.Strings(paths)
	return paths
}

func c38V1DocText() string {
	for _, p := range []string{"../../config_complete.1.x.toml", filepath.Join(os.Getenv("VERIF_REPO"), "config_complete.1.x.toml")} {
		if b, err := os.ReadFile(p); err == nil {
			return string(b)
		}
	}
	return ""
}

// ---------------------------------------------------------------------------------------
// the check
// ---------------------------------------------------------------------------------------

func TestVerif_C38(t *testing.T) {
	run := verifkit.Start(t, "C38", "convert")
	defer run.Finish()
	run.Rule("CONFIG sweep: every documented v1 setting alone x every value class (fixed hostile representatives + PRNG-drawn members) x TOML/YAML/JSON; " +
		"combos: 2..all settings with PRNG-drawn values in one PRNG-chosen format. Non-trivial = the v1 value differs from the v2 default of its successor; " +
		"distinct = distinct (setting,class,format) resp. distinct setting sets. " + c38RulesRuleText +
		" HELM: values files with a v1 config section (case 0/1: every boolean setting explicitly false/true, then PRNG-chosen combos) and a v1 rules section through the real ConvertHelm; same oracle on the converted sections")
	// ConvertRules and the v2 loader print to stdout; keep the log readable
	if devnull, err := os.OpenFile(os.DevNull, os.O_WRONLY, 0); err == nil {
		old := os.Stdout
		os.Stdout = devnull
		defer func() { os.Stdout = old; devnull.Close() }()
	}
	c38ConfigPart(t, run)
	c38RulesPart(t, run)
	c38HelmPart(t, run)
}

func c38ConfigPart(t *testing.T, run *verifkit.Run) {
	run.Assume("v1 settings, their types and their v2 successors are the harness table c38Settings, anchored in /repo/config_complete.1.x.toml; any subset of those keys is a valid v1 file (v1 supplied defaults)")
	run.Assume("generated values are valid for v1 and for the v2 successor's validation rules (read from configMeta.yaml at run time), so a rejected output is the converter's doing")
	run.Assume("effective value = what config.NewConfig + the public Config getters return for the converter's output combined with a minimal v2 rules file; no REFINERY_* environment")

	meta := c38ConfigMeta()
	bench := &c38Bench{run: run, loader: &c38V2Loader{dir: t.TempDir()}, meta: meta, memo: map[string]map[string]string{}}

	// anchor: every table key must be a key of the 1.x document
	doc := c38V1DocText()
	if doc == "" {
		run.Inconclusive("config_complete.1.x.toml not found: the v1 setting table has no anchor")
		return
	}
	for _, s := range c38Settings {
		re := regexp.MustCompile(`(?m)^[ \t#]*\[*` + regexp.QuoteMeta(s.V1Name) + `\]*\s*(=|$)`)
		if !re.MatchString(doc) {
			t.Fatalf("harness: v1 key %s is not in config_complete.1.x.toml", s.path())
		}
		if s.V2 != "" && meta.GetField(s.V2) == nil {
			t.Fatalf("harness: v2 field %s (successor of %s) is not in configMeta.yaml", s.V2, s.path())
		}
		if s.V2 != "" && meta.GetField(s.V2).LastVersion != "" {
			t.Fatalf("harness: v2 field %s is deprecated, it does not 'still exist'", s.V2)
		}
	}
	// evidence: how the table relates to the v1 paths the template reads
	tpaths := c38TemplateV1Paths()
	inTable := map[string]bool{}
	for _, s := range c38Settings {
		inTable[s.path()] = true
		if s.V1Group == "SampleCacheConfig" {
			inTable["SampleCacheConfig/SampleCache."+s.V1Name] = true
		}
	}
	var notV1 []string
	for _, p := range tpaths {
		if inTable[p] {
			run.Count("template_v1_paths_in_table", 1)
		} else {
			notV1 = append(notV1, p)
		}
	}
	run.Count("template_v1_paths_total", int64(len(tpaths)))
	run.Sample(map[string]any{"template_paths_that_are_not_documented_v1_keys": notV1})
	if len(tpaths) < 40 {
		run.Inconclusive("could not read the converter's template invocations")
	}

	// baseline: the empty v1 config gives the v2 defaults
	o0 := bench.convert(map[string]any{}, "T")
	if o0.Crash != "" || o0.LoadErr != "" || o0.Eff == nil {
		run.Violation("C38/config/_empty/invalid-output", "the conversion of an empty v1 config does not load: "+o0.Crash+o0.LoadErr,
			map[string]any{"converter_output_active_lines": c38ActiveLines(o0.Out)})
		return
	}
	bench.eff0 = o0.Eff

	extra := run.N(0, 10)

	// ---- sweep: one setting at a time ------------------------------------------------
	// bad[setting path + "\x00" + class] = kinds by format, used by the combos to leave out
	// what is already known to fail on its own
	badAlone := map[string]bool{}
	run.Cases("sweep", len(c38Settings), func(i int, rng *verifkit.Rand) {
		s := c38Settings[i]
		for _, v := range c38ValuesFor(rng, s, meta, extra, run.Thorough()) {
			a := c38Assign{s, v}
			bad, kinds := bench.reportIsolated(a, c38Formats[rng.Intn(3)])
			if bad {
				badAlone[s.path()+"\x00"+v.Class] = true
			}
			run.Count("sweep_assignments", 1)
			want := c38Want(a)
			nontrivial := false
			for k, w := range want {
				if !c38Equal(w, bench.eff0[k]) {
					nontrivial = true
				}
			}
			if nontrivial {
				for f, k := range kinds {
					run.Nontrivial(s.path() + "|" + v.Class + "|" + f)
					if k == "" {
						run.Count("sweep_preserved", 1)
					}
				}
			}
			if i < 3 && v.Class != "false" {
				run.Sample(map[string]any{"v1_setting": s.path(), "value": v.V, "class": v.Class, "means_in_v2": fmt.Sprintf("%v", want)})
			}
		}
	})

	// ---- combos: many settings in one file ------------------------------------------
	run.Cases("combo", run.N(50, 4000), func(i int, rng *verifkit.Rand) {
		n := len(c38Settings)
		k := rng.Range(2, 12)
		if rng.Chance(0.15) {
			k = rng.Range(12, n)
		}
		perm := rng.Perm(n)
		var assigns []c38Assign
		for _, idx := range perm[:k] {
			s := c38Settings[idx]
			vals := c38ValuesFor(rng, s, meta, 0, true)
			v := vals[rng.Intn(len(vals))]
			// what fails on its own is the sweep's finding; here it would only mask the others
			if badAlone[s.path()+"\x00"+v.Class] {
				run.Count("combo_members_left_out_known_bad_alone", 1)
				continue
			}
			assigns = append(assigns, c38Assign{s, v})
		}
		if len(assigns) < 2 {
			return
		}
		typ := c38Formats[rng.Intn(3)]
		alt := rng.Chance(0.3)
		names := func(as []c38Assign) []string {
			var l []string
			for _, a := range as {
				l = append(l, a.S.path())
			}
			sort.Strings(l)
			return l
		}
		o := bench.convert(c38BuildV1(assigns, alt), typ)
		if o.InputError != "" {
			run.Inconclusive("generated v1 input not usable: " + o.InputError)
			return
		}
		run.Nontrivial("combo|" + strings.Join(names(assigns), ","))
		run.Count("combo_files", 1)
		wholeFile := func(o c38Outcome) string {
			if o.Crash != "" {
				return "crash"
			}
			if o.LoadErr != "" {
				return "invalid-output"
			}
			return ""
		}
		if wholeFile(o) != "" {
			// members that fail the same way alone (sweep did not run, e.g. a replay) are left out
			var rest []c38Assign
			for _, a := range assigns {
				if bench.aloneKind(a, typ) != "" {
					bench.reportIsolated(a, "")
					continue
				}
				rest = append(rest, a)
			}
			if len(rest) != len(assigns) {
				assigns = rest
				if len(assigns) == 0 {
					return
				}
				o = bench.convert(c38BuildV1(assigns, alt), typ)
			}
		}
		if kind := wholeFile(o); kind != "" {
			// no member fails alone: shrink to a minimal failing set
			cur := assigns
			for changed := true; changed && len(cur) > 1; {
				changed = false
				for j := range cur {
					try := append(append([]c38Assign{}, cur[:j]...), cur[j+1:]...)
					if wholeFile(bench.convert(c38BuildV1(try, alt), typ)) == kind {
						cur, changed = try, true
						break
					}
				}
			}
			mo := bench.convert(c38BuildV1(cur, alt), typ)
			run.Violation("C38/config/"+strings.Join(names(cur), "+")+"/"+kind+"/interaction", mo.Crash+mo.LoadErr, map[string]any{
				"input_format": typ, "v1_input": mo.V1Text, "converter_output_active_lines": c38ActiveLines(mo.Out),
			})
			return
		}
		for _, a := range assigns {
			kind, detail := bench.judge(a, o)
			if kind == "" {
				run.Count("combo_settings_preserved", 1)
				continue
			}
			if kind == "harness" {
				run.Inconclusive(detail)
				continue
			}
			// does it fail the same way on its own? then it is the sweep's finding (a PRNG-drawn
			// member of a class that behaves unlike the class representatives)
			if bench.aloneKind(a, typ) == kind {
				bench.reportIsolated(a, "")
				continue
			}
			run.Violation("C38/config/"+a.S.path()+"/"+kind+"/interaction", detail, map[string]any{
				"v1_setting": a.S.path(), "v1_value": a.V.V, "input_format": typ, "all_settings_in_file": names(assigns),
				"v1_input": o.V1Text, "converter_output_active_lines": c38ActiveLines(o.Out),
			})
		}
	})
}
