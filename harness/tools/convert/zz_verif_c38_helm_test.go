//go:build verif

package main

// C38 – helm path: `convert helm` converts the `config` and `rules` sections of a helm values file
// with the same two converters and post-processes the result (YAML round trip, removeEmpty). The
// same oracle applies: the converted sections load in the v2 loader and every v1 setting has the
// same effective value. A setting that survives `convert config` but not `convert helm` gets a
// `C38/helm/...` signature.

import (
	"bytes"
	"fmt"
	"sort"
	"strings"
	"testing"

	"github.com/honeycombio/refinery/internal/verifkit"
	"gopkg.in/yaml.v3"
)

// c38ConvertHelmReal runs the real ConvertHelm on a loaded values file. ConvertHelm calls
// ConvertConfig (os.Exit on template errors), so the config section is rehearsed first.
func c38ConvertHelmReal(values map[string]any) (out string, crash string) {
	defer func() {
		if r := recover(); r != nil {
			crash = fmt.Sprintf("panic: %v", c38Short(fmt.Sprint(r), 300))
		}
	}()
	if cfg, ok := values["config"].(map[string]any); ok {
		if msg := c38Rehearse(c38DeepCopy(cfg).(map[string]any)); msg != "" {
			return "", msg
		}
	}
	var buf bytes.Buffer
	ConvertHelm(&configTemplateData{Input: "values.yaml", Data: values}, &buf)
	return buf.String(), ""
}

func c38HelmPart(t *testing.T, run *verifkit.Run) {
	run.Assume("helm: the values file carries the v1 config under `config` and the v1 rules under `rules` next to unrelated chart keys; the converted `config` and `rules` sections are what Refinery loads")

	meta := c38ConfigMeta()
	bench := &c38Bench{run: run, loader: &c38V2Loader{dir: t.TempDir()}, meta: meta, memo: map[string]map[string]string{}}
	rbench := &c38RBench{run: run, loader: bench.loader}
	o0 := bench.convert(map[string]any{}, "T")
	if o0.Eff == nil {
		return // the config part reports this
	}
	bench.eff0 = o0.Eff
	avoidOpen := func(_, _, class string) bool { return class == "int>2^53" } // open known finding of the rules part

	var bools []c38Setting
	for _, s := range c38Settings {
		if s.Kind == c38Bool {
			bools = append(bools, s)
		}
	}

	nfixed := 2
	run.Cases("helm", nfixed+run.N(14, 600), func(i int, rng *verifkit.Rand) {
		var assigns []c38Assign
		switch {
		case i < nfixed:
			// every boolean setting explicitly false (case 0) / true (case 1): the zero value of the
			// type is a real setting wherever the v2 default is true
			for _, s := range bools {
				assigns = append(assigns, c38Assign{s, c38Value{fmt.Sprint(i == 1), i == 1}})
			}
			// plus a few non-boolean controls
			for _, s := range c38Settings {
				if s.V2 != "" && (s.Kind == c38Int || s.Kind == c38Duration) && rng.Chance(0.5) {
					vals := c38ValuesFor(rng, s, meta, 0, false)
					assigns = append(assigns, c38Assign{s, vals[0]})
				}
			}
		default:
			perm := rng.Perm(len(c38Settings))
			k := rng.Range(3, 14)
			for _, idx := range perm[:k] {
				s := c38Settings[idx]
				vals := c38ValuesFor(rng, s, meta, 0, true)
				assigns = append(assigns, c38Assign{s, vals[rng.Intn(len(vals))]})
			}
		}
		typ := "Y" // a values file is YAML; the tool also takes the other formats
		if i >= nfixed && rng.Chance(0.3) {
			typ = c38Formats[rng.Intn(3)]
		}
		v1cfg := c38BuildV1(assigns, false)

		// rules section
		var sets []c38RDataset
		gen := func(name string) c38RDataset {
			st := c38V1SamplerTypes[rng.Intn(len(c38V1SamplerTypes))]
			if st == "RulesBasedSampler" {
				m, exps := c38GenRulesSampler(rng, c38RulesSpec{}, avoidOpen)
				return c38RDataset{Name: name, Type: st, V1: m, Exp: exps}
			}
			m, exps := c38GenPlainSampler(rng, st, nil, nil, "", "", st, avoidOpen)
			return c38RDataset{Name: name, Type: st, V1: m, Exp: exps}
		}
		sets = append(sets, gen(""))
		for _, n := range []string{"dataset1", "MyService-Prod"}[:rng.Range(0, 2)] {
			sets = append(sets, gen(n))
		}
		rulesDoc := c38BuildRulesDoc(sets, 0)

		values := map[string]any{
			"config":       v1cfg,
			"rules":        rulesDoc,
			"replicaCount": int64(3),
			"image":        map[string]any{"repository": "honeycombio/refinery", "tag": "1.21.0"},
		}
		if i >= nfixed && rng.Chance(0.3) {
			v1cfg["RulesConfigMapName"] = "refinery-rules"
		}
		if i >= nfixed && rng.Chance(0.3) {
			rulesDoc["LiveReload"] = true
		}
		txt, err := c38Encode(values, typ)
		if err != nil {
			run.Inconclusive("helm values not encodable: " + err.Error())
			return
		}
		data, err := c38Load(txt, typ)
		if err != nil {
			run.Inconclusive("helm values not loadable: " + err.Error())
			return
		}
		names := make([]string, 0, len(assigns))
		for _, a := range assigns {
			names = append(names, a.S.path())
		}
		sort.Strings(names)
		run.Nontrivial("helm|" + strings.Join(names, ","))
		run.Count("helm_files", 1)

		out, crash := c38ConvertHelmReal(data)
		witness := map[string]any{"input_format": typ, "values_input": c38Short(txt, 4000), "helm_output": c38Short(out, 4000)}
		// a failure that `convert config` shows on the same config section is the config part's finding
		directAlsoFails := func() bool {
			d := bench.convert(c38BuildV1(assigns, false), typ)
			if d.Crash != "" || d.LoadErr != "" {
				run.Count("helm_files_failing_in_convert_config_too", 1)
				return true
			}
			return false
		}
		if crash != "" {
			if !directAlsoFails() {
				run.Violation("C38/helm/_file/crash", crash, witness)
			}
			return
		}
		var conv map[string]any
		if err := yaml.Unmarshal([]byte(out), &conv); err != nil {
			run.Violation("C38/helm/_file/invalid-output", "helm output is not YAML: "+err.Error(), witness)
			return
		}
		cfgY, _ := yaml.Marshal(conv["config"])
		rulesY, _ := yaml.Marshal(conv["rules"])
		cfg, fail := bench.loader.load(string(cfgY), string(rulesY))
		if cfg == nil {
			if !directAlsoFails() {
				run.Violation("C38/helm/_file/invalid-output", fail, witness)
			}
			return
		}
		o := c38Outcome{V1Text: txt, Out: out, Eff: c38Effective(cfg)}
		for _, a := range assigns {
			kind, detail := bench.judge(a, o)
			if kind == "" {
				run.Count("helm_settings_preserved", 1)
				continue
			}
			if kind == "harness" {
				run.Inconclusive(detail)
				continue
			}
			if bench.aloneKind(a, typ) == kind { // convert config loses it too: the config part's finding
				run.Count("helm_members_failing_in_convert_config_too", 1)
				continue
			}
			w := map[string]any{"v1_setting": a.S.path(), "v1_value": a.V.V, "preserved_by_convert_config": true}
			for k, v := range witness {
				w[k] = v
			}
			run.Violation("C38/helm/"+a.S.path()+"/"+kind, detail+" (convert config preserves it)", w)
		}
		ro := c38ROutcome{V1Text: txt, Out: out}
		if r := cfg.GetAllSamplerRules(); r != nil {
			ro.Samplers = r.Samplers
		}
		for _, d := range sets {
			for _, fl := range rbench.judge(d, ro) {
				run.Violation(c38RSig(d.Type, fl.Exp.V1Field, fl.Kind, fl.Exp.Class, "/helm"), fl.Detail, witness)
			}
		}
		if conv["replicaCount"] == nil || conv["image"] == nil {
			run.Count("helm_unrelated_keys_dropped", 1)
		}
	})
}
