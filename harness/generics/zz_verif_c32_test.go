//go:build verif

package generics

import (
	"fmt"
	"sort"
	"strings"
	"testing"
	"time"

	"github.com/honeycombio/refinery/internal/verifkit"
	"github.com/jonboulle/clockwork"
)

// C32: TTL sets and maps agree on membership at every instant.
//
// Lock-step reference model: item -> expiry instant. Strictly before the expiry
// instant the item must be present in every query, strictly after it must be
// absent from every query; at the expiry instant itself either answer is
// allowed but all queries issued at that instant must give the same one.

type c32step struct {
	Op   string `json:"op"`
	Item string `json:"item,omitempty"`
	Adv  int64  `json:"advance_ns,omitempty"`
}

func TestVerif_C32(t *testing.T) {
	run := verifkit.Start(t, "C32", "generics")
	defer run.Finish()
	run.Rule("seeded histories of add/remove/advance/query on SetWithTTL and MapWithTTL under a FakeClock, clock advances landing exactly on, 1ns before and 1ns after expiry instants; every query kind is issued at every step in a PRNG-chosen order; non-trivial = history queried at least one live item exactly at its expiry instant; distinct = distinct op-kind sequences")
	run.Assume("clockwork.FakeClock is the only time source of generics.SetWithTTL/MapWithTTL")

	n := run.N(1500, 150000)
	run.Cases("set", n, func(i int, rng *verifkit.Rand) { c32set(run, rng, i < 2) })
	run.Cases("map", n, func(i int, rng *verifkit.Rand) { c32map(run, rng, i < 2) })
	run.Cases("bulk", run.N(150, 6000), func(i int, rng *verifkit.Rand) { c32bulk(run, rng) })
}

// c32HookClock lets the driver interleave another client's operation at the
// instant the code under test reads the clock (an injected dependency): the
// one-shot hook runs inside Now(). It stands for a concurrent goroutine whose
// operation is linearised at that point.
type c32HookClock struct {
	clockwork.Clock
	hook func()
}

func (c *c32HookClock) Now() time.Time {
	if h := c.hook; h != nil {
		c.hook = nil
		h()
	}
	return c.Clock.Now()
}

func c32advance(rng *verifkit.Rand, now time.Time, exp map[string]time.Time, ttl time.Duration) time.Duration {
	// candidate instants: each live expiry, +-1ns
	var future []time.Time
	for _, e := range exp {
		if e.After(now) {
			future = append(future, e)
		}
	}
	sort.Slice(future, func(i, j int) bool { return future[i].Before(future[j]) })
	if len(future) > 0 && rng.Chance(0.7) {
		e := future[rng.Intn(len(future))]
		d := e.Sub(now)
		switch rng.Intn(4) {
		case 0, 1:
			return d
		case 2:
			if d > 1 {
				return d - 1
			}
			return d
		default:
			return d + 1
		}
	}
	return time.Duration(rng.Range(0, int(ttl)*3/2))
}

func c32set(run *verifkit.Run, rng *verifkit.Rand, sample bool) {
	clock := clockwork.NewFakeClock()
	ttl := time.Duration(rng.Range(1, 50)) * time.Duration(verifkit.Pick(rng, 1, 7, 1000, 1000000))
	s := NewSetWithTTL[string](ttl)
	hc := &c32HookClock{Clock: clock}
	s.Clock = hc
	exp := map[string]time.Time{}
	items := []string{"a", "b", "c", "d", "e"}[:rng.Range(1, 5)]
	steps := rng.Range(5, 40)
	var hist []c32step
	var kinds strings.Builder
	atExpiry := false
	for st := 0; st < steps; st++ {
		switch k := rng.Intn(10); {
		case k < 3:
			it := items[rng.Intn(len(items))]
			s.Add(it)
			exp[it] = clock.Now().Add(ttl)
			hist = append(hist, c32step{Op: "add", Item: it})
			kinds.WriteByte('a')
		case k < 4:
			it := items[rng.Intn(len(items))]
			s.Remove(it)
			delete(exp, it)
			hist = append(hist, c32step{Op: "remove", Item: it})
			kinds.WriteByte('r')
		default:
			d := c32advance(rng, clock.Now(), exp, ttl)
			clock.Advance(d)
			hist = append(hist, c32step{Op: "advance", Adv: int64(d)})
			kinds.WriteByte('t')
		}
		// query everything in a random order
		now := clock.Now()
		order := rng.Perm(3)
		// per item: answers from each query kind
		ans := map[string]map[string]bool{}
		note := func(q, it string, present bool) {
			if ans[it] == nil {
				ans[it] = map[string]bool{}
			}
			ans[it][q] = present
		}
		lengthSeen := -1
		membersLen := -1
		interleaved := map[string]bool{}
		for _, q := range order {
			switch q {
			case 0:
				for _, it := range items {
					it := it
					if rng.Chance(0.2) {
						// another client re-adds this very item while Contains is reading the clock
						hc.hook = func() {
							if !s.mut.TryLock() {
								return // the code under test holds its lock: no other client could get in here
							}
							s.mut.Unlock()
							s.Add(it)
							exp[it] = clock.Now().Add(ttl)
							interleaved[it] = true
							hist = append(hist, c32step{Op: "add-interleaved-in-Contains", Item: it})
							run.Count("set_adds_interleaved_inside_a_query", 1)
						}
					}
					present := s.Contains(it)
					hc.hook = nil
					if !interleaved[it] {
						note("Contains", it, present)
					}
				}
			case 1:
				ms := s.Members()
				membersLen = len(ms)
				got := map[string]bool{}
				for _, m := range ms {
					got[m] = true
				}
				if !sort.StringsAreSorted(ms) {
					run.Violation("C32/set/members-not-sorted", "Members() not sorted", map[string]any{"history": hist, "members": ms})
				}
				for _, it := range items {
					note("Members", it, got[it])
				}
			case 2:
				lengthSeen = s.Length()
			}
		}
		run.Count("set_queries", 3)
		qorder := fmt.Sprint(order)
		if len(interleaved) > 0 {
			// queries of this step straddle the interleaved add: the next step judges its effect
			continue
		}
		for _, it := range items {
			e, live := exp[it]
			a := ans[it]
			switch {
			case live && now.Before(e):
				for q, p := range a {
					if !p {
						run.Violation("C32/set/"+q+"/absent-before-expiry", fmt.Sprintf("item %q absent from %s before its TTL elapsed", it, q),
							map[string]any{"history": hist, "ttl_ns": int64(ttl), "query_order": qorder, "item": it})
					}
				}
			case !live || now.After(e):
				for q, p := range a {
					if p {
						run.Violation("C32/set/"+q+"/present-after-expiry", fmt.Sprintf("item %q present in %s after expiry/removal", it, q),
							map[string]any{"history": hist, "ttl_ns": int64(ttl), "query_order": qorder, "item": it})
					}
				}
			default: // exactly at expiry instant
				atExpiry = true
				run.Count("set_queries_at_expiry_instant", 1)
				if a["Contains"] != a["Members"] {
					run.Violation("C32/set/contains-vs-members-at-expiry-instant",
						fmt.Sprintf("at the expiry instant Contains(%q)=%v but Members lists it=%v", it, a["Contains"], a["Members"]),
						map[string]any{"history": hist, "ttl_ns": int64(ttl), "query_order": qorder, "item": it})
				}
			}
		}
		// Length and Members must agree with each other and with the model up to boundary items
		lo, hi := 0, 0
		for _, it := range items {
			e, live := exp[it]
			if !live {
				continue
			}
			if now.Before(e) {
				lo++
				hi++
			} else if now.Equal(e) {
				hi++
			}
		}
		if lengthSeen != membersLen {
			run.Violation("C32/set/length-vs-members", fmt.Sprintf("Length()=%d but len(Members())=%d at the same instant", lengthSeen, membersLen),
				map[string]any{"history": hist, "ttl_ns": int64(ttl), "query_order": qorder})
		}
		if lengthSeen < lo || lengthSeen > hi {
			run.Violation("C32/set/length-vs-model", fmt.Sprintf("Length()=%d outside model bounds [%d,%d]", lengthSeen, lo, hi),
				map[string]any{"history": hist, "ttl_ns": int64(ttl), "query_order": qorder})
		}
	}
	if atExpiry {
		run.Nontrivial("set:" + kinds.String())
	}
	if sample {
		run.Sample(map[string]any{"kind": "set", "ttl_ns": int64(ttl), "history": hist})
	}
}

func c32map(run *verifkit.Run, rng *verifkit.Rand, sample bool) {
	clock := clockwork.NewFakeClock()
	ttl := time.Duration(rng.Range(1, 50)) * time.Duration(verifkit.Pick(rng, 1, 7, 1000, 1000000))
	m := NewMapWithTTL[string, int](ttl, nil)
	m.Clock = clock
	exp := map[string]time.Time{}
	val := map[string]int{}
	items := []string{"a", "b", "c", "d", "e"}[:rng.Range(1, 5)]
	steps := rng.Range(5, 40)
	var hist []c32step
	var kinds strings.Builder
	atExpiry := false
	next := 1
	for st := 0; st < steps; st++ {
		// one to three operations between two rounds of queries: a key can leave and
		// another arrive without any listing in between (same count, different keys)
		nops := 1
		if rng.Chance(0.4) {
			nops = rng.Range(2, 3)
		}
		for op := 0; op < nops; op++ {
			switch k := rng.Intn(10); {
			case k < 3:
				it := items[rng.Intn(len(items))]
				m.Set(it, next)
				val[it] = next
				next++
				exp[it] = clock.Now().Add(ttl)
				hist = append(hist, c32step{Op: "set", Item: it})
				kinds.WriteByte('a')
			case k < 4:
				it := items[rng.Intn(len(items))]
				m.Delete(it)
				delete(exp, it)
				hist = append(hist, c32step{Op: "delete", Item: it})
				kinds.WriteByte('r')
			default:
				d := c32advance(rng, clock.Now(), exp, ttl)
				clock.Advance(d)
				hist = append(hist, c32step{Op: "advance", Adv: int64(d)})
				kinds.WriteByte('t')
			}
		}
		hist = append(hist, c32step{Op: "query-all"})
		kinds.WriteByte('q')
		now := clock.Now()
		order := rng.Perm(6)
		ans := map[string]map[string]bool{}
		note := func(q, it string, present bool) {
			if ans[it] == nil {
				ans[it] = map[string]bool{}
			}
			ans[it][q] = present
		}
		lengthSeen := -1
		wit := func(extra ...any) map[string]any {
			w := map[string]any{"history": hist, "ttl_ns": int64(ttl), "query_order": fmt.Sprint(order)}
			for i := 0; i+1 < len(extra); i += 2 {
				w[fmt.Sprint(extra[i])] = extra[i+1]
			}
			return w
		}
		valOwner := func(v int) string {
			for it, x := range val {
				if x == v {
					return it
				}
			}
			return ""
		}
		for _, q := range order {
			switch q {
			case 0:
				for _, it := range items {
					v, ok := m.Get(it)
					note("Get", it, ok)
					if ok && v != val[it] {
						run.Violation("C32/map/get-wrong-value", fmt.Sprintf("Get(%q)=%d want %d", it, v, val[it]), wit("item", it))
					}
				}
			case 1:
				got := map[string]bool{}
				for _, k := range m.Keys() {
					if got[k] {
						run.Violation("C32/map/keys-duplicate", "Keys() lists a key twice", wit("item", k))
					}
					got[k] = true
				}
				for _, it := range items {
					note("Keys", it, got[it])
				}
			case 2:
				ks := m.SortedKeys()
				if !sort.StringsAreSorted(ks) {
					run.Violation("C32/map/sortedkeys-not-sorted", "SortedKeys() not sorted", wit("keys", ks))
				}
				got := map[string]bool{}
				for _, k := range ks {
					got[k] = true
				}
				for _, it := range items {
					note("SortedKeys", it, got[it])
				}
			case 3:
				got := map[string]bool{}
				for _, v := range m.Values() {
					o := valOwner(v)
					if o == "" {
						run.Violation("C32/map/values-stale-value", fmt.Sprintf("Values() returned %d which is no key's current value", v), wit())
					}
					got[o] = true
				}
				for _, it := range items {
					note("Values", it, got[it])
				}
			case 4:
				vs := m.SortedValues()
				got := map[string]bool{}
				prev := ""
				for _, v := range vs {
					o := valOwner(v)
					if o == "" {
						run.Violation("C32/map/sortedvalues-stale-value", fmt.Sprintf("SortedValues() returned %d which is no key's current value", v), wit())
						continue
					}
					if o <= prev {
						run.Violation("C32/map/sortedvalues-order", "SortedValues() not ordered by key", wit("values", vs))
					}
					prev = o
					got[o] = true
				}
				for _, it := range items {
					note("SortedValues", it, got[it])
				}
			case 5:
				lengthSeen = m.Length()
			}
		}
		run.Count("map_queries", 6)
		lo, hi := 0, 0
		for _, it := range items {
			e, live := exp[it]
			a := ans[it]
			switch {
			case live && now.Before(e):
				lo++
				hi++
				for q, p := range a {
					if !p {
						run.Violation("C32/map/"+q+"/absent-before-expiry", fmt.Sprintf("key %q absent from %s before its TTL elapsed", it, q), wit("item", it))
					}
				}
			case !live || now.After(e):
				for q, p := range a {
					if p {
						run.Violation("C32/map/"+q+"/present-after-expiry", fmt.Sprintf("key %q present in %s after expiry/removal", it, q), wit("item", it))
					}
				}
			default:
				hi++
				atExpiry = true
				run.Count("map_queries_at_expiry_instant", 1)
				first := a["Get"]
				for q, p := range a {
					if p != first {
						run.Violation("C32/map/get-vs-"+q+"-at-expiry-instant",
							fmt.Sprintf("at the expiry instant Get(%q) present=%v but %s present=%v", it, first, q, p), wit("item", it))
					}
				}
			}
		}
		if lengthSeen < lo || lengthSeen > hi {
			run.Violation("C32/map/length-vs-model", fmt.Sprintf("Length()=%d outside model bounds [%d,%d]", lengthSeen, lo, hi), wit())
		}
		keysListed := 0
		for _, it := range items {
			if ans[it]["Keys"] {
				keysListed++
			}
		}
		if lengthSeen != keysListed {
			run.Violation("C32/map/length-vs-keys", fmt.Sprintf("Length()=%d but Keys() lists %d keys at the same instant", lengthSeen, keysListed), wit())
		}
		if lo == hi {
			// no boundary item: all listings must have exactly lo entries
			if n := len(m.Keys()); n != lo {
				run.Violation("C32/map/keys-count", fmt.Sprintf("len(Keys())=%d want %d", n, lo), wit())
			}
		}
	}
	if atExpiry {
		run.Nontrivial("map:" + kinds.String())
	}
	if sample {
		run.Sample(map[string]any{"kind": "map", "ttl_ns": int64(ttl), "history": hist})
	}
}

// c32bulk: many entries expiring together (an implementation that sweeps in
// bounded batches must still not LIST expired entries), with a subset refreshed
// just before the expiry instant.
func c32bulk(run *verifkit.Run, rng *verifkit.Rand) {
	clock := clockwork.NewFakeClock()
	ttl := time.Duration(rng.Range(1, 50)) * time.Millisecond
	n := rng.Range(200, 1200)
	m := NewMapWithTTL[int, int](ttl, nil)
	m.Clock = clock
	s := NewSetWithTTL[int](ttl)
	s.Clock = clock
	for i := 0; i < n; i++ {
		m.Set(i, i)
		s.Add(i)
	}
	refreshed := map[int]bool{}
	if rng.Bool() {
		clock.Advance(ttl - 1)
		k := rng.Range(1, 20)
		for j := 0; j < k; j++ {
			i := rng.Intn(n)
			refreshed[i] = true
			m.Set(i, i)
			s.Add(i)
		}
		clock.Advance(2) // the originals are 1ns past expiry, the refreshed ones live
	} else {
		clock.Advance(ttl + 1)
	}
	want := len(refreshed)
	wit := map[string]any{"entries": n, "ttl_ns": int64(ttl), "refreshed_before_expiry": want}
	order := rng.Perm(6)
	for _, q := range order {
		switch q {
		case 0:
			if got := len(m.Keys()); got != want {
				run.Violation("C32/map/Keys/present-after-expiry/bulk", fmt.Sprintf("Keys() lists %d entries, %d are unexpired (of %d set)", got, want, n), wit)
			}
		case 1:
			if got := len(m.Values()); got != want {
				run.Violation("C32/map/Values/present-after-expiry/bulk", fmt.Sprintf("Values() lists %d entries, %d are unexpired", got, want), wit)
			}
		case 2:
			if got := len(m.SortedKeys()); got != want {
				run.Violation("C32/map/SortedKeys/present-after-expiry/bulk", fmt.Sprintf("SortedKeys() lists %d entries, %d are unexpired", got, want), wit)
			}
		case 3:
			if got := m.Length(); got != want {
				run.Violation("C32/map/Length/present-after-expiry/bulk", fmt.Sprintf("Length()=%d, %d are unexpired", got, want), wit)
			}
		case 4:
			if got := len(s.Members()); got != want {
				run.Violation("C32/set/Members/present-after-expiry/bulk", fmt.Sprintf("Members() lists %d items, %d are unexpired", got, want), wit)
			}
		case 5:
			if got := s.Length(); got != want {
				run.Violation("C32/set/Length/present-after-expiry/bulk", fmt.Sprintf("Length()=%d, %d are unexpired", got, want), wit)
			}
		}
	}
	for j := 0; j < 40; j++ {
		i := rng.Intn(n)
		_, ok := m.Get(i)
		if ok != refreshed[i] {
			run.Violation("C32/map/Get/wrong-after-bulk-expiry", fmt.Sprintf("Get(%d) present=%v, want %v", i, ok, refreshed[i]), wit)
		}
		if s.Contains(i) != refreshed[i] {
			run.Violation("C32/set/Contains/wrong-after-bulk-expiry", fmt.Sprintf("Contains(%d)=%v, want %v", i, s.Contains(i), refreshed[i]), wit)
		}
	}
	run.Count("bulk_entries_expired_together", int64(n-want))
	run.Nontrivial(fmt.Sprintf("bulk:%d:%d", n/100, want))
}
