//go:build verif

package cache

import (
	"fmt"
	"runtime"
	"strings"
	"sync/atomic"
	"testing"
	"time"

	cuckoo "github.com/panmari/cuckoofilter"

	"github.com/honeycombio/refinery/config"
	"github.com/honeycombio/refinery/internal/verifkit"
	"github.com/honeycombio/refinery/metrics"
	"github.com/honeycombio/refinery/types"
	"github.com/jonboulle/clockwork"
)

// C31: the decision cache remembers what it promises.
//
// Lock-step reference model, observing only CheckSpan / CheckTrace answers.
//
// Kept promise. The model keeps, per kept id, the logical time of its last
// CERTAIN touch (Record(keep), or a lookup that the real cache answered "kept")
// and of its last POSSIBLE touch (additionally: a lookup answered "dropped" for an
// id that also has a kept record - the real cache may or may not have consulted its
// LRU). An id MUST be answered kept (recorded rate and reason) while fewer than K
// other ids were touched (certainly or possibly) after its last certain touch; K is
// the per-worker kept capacity; once released it stays released until the next
// certain touch. For a true LRU this bound is exact when no possible touches
// occurred. Resize(K') keeps every id with fewer than K' such newer ids.
//
// Dropped promise. A dropped record of id X (whose Add was not refused by a full
// add queue - measured through the cuckoo_addqueue_full metric) must be answered
// "dropped" by CheckSpan and CheckTrace, whether or not X also has a kept record,
// at least until the current filter has been filled to its capacity (entry count
// >= the capacity it was created with, or load factor > 0.99, whichever the driver
// sees first after a drain) at some moment after the record. Answers are taken
// after the driver has drained the add queue itself.
//
// "dropped" answers for ids never recorded as dropped are classified by replaying
// the pair (id, every id ever recorded dropped) into fresh filters of the sizes
// used: a fingerprint collision explains them => exempt and counted.

// ---- adapter ------------------------------------------------------------------

type c31metrics struct {
	addQueueFull atomic.Int64
}

func (m *c31metrics) Register(metrics.Metadata) {}
func (m *c31metrics) Increment(string)          {}
func (m *c31metrics) Gauge(string, float64)     {}
func (m *c31metrics) Count(string, int64)       {}
func (m *c31metrics) Histogram(string, float64) {}
func (m *c31metrics) Up(name string) {
	if name == AddQueueFull {
		m.addQueueFull.Add(1)
	}
}
func (m *c31metrics) Down(string)                {}
func (m *c31metrics) Get(string) (float64, bool) { return 0, false }
func (m *c31metrics) Store(string, float64)      {}

type c31real struct {
	c   *cuckooSentCache
	met *c31metrics
}

func c31cfg(keptSize, droppedSize, workers uint) config.SampleCacheConfig {
	return config.SampleCacheConfig{KeptSize: keptSize, DroppedSize: droppedSize, WorkerCount: workers,
		SizeCheckInterval: config.Duration(24 * time.Hour)} // parks the internal monitor; the driver calls Maintain
}

func c31new(cfg config.SampleCacheConfig, clock clockwork.Clock) (*c31real, error) {
	met := &c31metrics{}
	tc, err := NewCuckooSentCache(cfg, met)
	if err != nil {
		return nil, err
	}
	c := tc.(*cuckooSentCache)
	c.recentDroppedIDs.Clock = clock
	return &c31real{c: c, met: met}, nil
}

// drain empties the add queue into the filter. Items are received and inserted
// under the checker's write lock, so an empty queue means everything queued so far
// is visible to the next Check (which takes the read lock).
func (r *c31real) drain() {
	for len(r.c.dropped.addch) > 0 {
		r.c.dropped.drain()
	}
}

// fill returns the number of entries in the current filter and its load factor.
func (r *c31real) fill() (uint, float64) {
	d := r.c.dropped
	d.mut.RLock()
	defer d.mut.RUnlock()
	if d.current == nil {
		return 0, 0 // the next Check of the real code will panic and be reported as a crash
	}
	return d.current.Count(), d.current.LoadFactor()
}

// gens returns the identities of the two filter generations and the capacity the
// next generation will be created with.
func (r *c31real) gens() (cur, fut *cuckoo.Filter, nextCap uint) {
	d := r.c.dropped
	d.mut.RLock()
	defer d.mut.RUnlock()
	return d.current, d.future, d.capacity
}

// fillFuture returns the fill of the second generation, if it exists.
func (r *c31real) fillFuture() (count uint, lf float64, exists bool) {
	d := r.c.dropped
	d.mut.RLock()
	defer d.mut.RUnlock()
	if d.future == nil {
		return 0, 0, false
	}
	return d.future.Count(), d.future.LoadFactor(), true
}

func (r *c31real) maintain() { r.c.dropped.Maintain() }

// c31slots is the number of fingerprint slots of a filter created with capacity capa.
func c31slots(capa uint) int {
	f := cuckoo.NewFilter(capa)
	f.Insert([]byte("x"))
	return int(1/f.LoadFactor() + 0.5)
}

// ---- stubs --------------------------------------------------------------------

type c31trace struct {
	id     string
	rate   uint
	reason uint
}

func (t *c31trace) ID() string              { return t.id }
func (t *c31trace) SampleRate() uint        { return t.rate }
func (t *c31trace) DescendantCount() uint32 { return 3 }
func (t *c31trace) SpanEventCount() uint32  { return 1 }
func (t *c31trace) SpanLinkCount() uint32   { return 1 }
func (t *c31trace) SpanCount() uint32       { return 1 }
func (t *c31trace) SetKeptReason(r uint)    { t.reason = r }
func (t *c31trace) KeptReason() uint        { return t.reason }

// ---- model --------------------------------------------------------------------

type c31keptRec struct {
	rate         uint
	reason       string
	certain      int64
	any          int64
	must         bool
	resizedSince bool
}

// c31gen is one filter generation as the MODEL sees it: generations are created and
// handed over (future -> current) only by Maintain; nothing else may replace one.
type c31gen struct {
	n         int
	capa      uint
	fullEpoch int // incremented each time the generation is seen filled to its capacity
}

type c31dropRec struct {
	// the generation(s) the record went into (current, and future if it existed) and
	// their fullEpoch at that time
	g1, g2   *c31gen
	e1, e2   int
	overflow bool
	ordinal  int // number of dropped records before this one
}

type c31step struct {
	Op     string `json:"op"`
	ID     string `json:"id,omitempty"`
	Rate   uint   `json:"rate,omitempty"`
	Reason string `json:"reason,omitempty"`
	N      int    `json:"n,omitempty"`
	Answer string `json:"answer,omitempty"`
	Note   string `json:"note,omitempty"`
}

type c31case struct {
	run   *verifkit.Run
	rng   *verifkit.Rand
	real  *c31real
	clock *clockwork.FakeClock

	k        int // per-worker kept capacity
	seq      int64
	kept     map[string]*c31keptRec
	keptIDs  []string
	dropped  map[string]*c31dropRec
	dropIDs  []string
	everDrop map[string]bool
	nDropped int
	// capacity each filter generation was created with (generations are told apart by identity)
	curL, futL *c31gen
	nGens      int
	capsUsed   map[uint]bool

	hist      []c31step
	histTrunc int
	kinds     strings.Builder
	nextID    int

	sawEvictionBoundary, sawDropWithKept, sawFilterFilled, sawResize, sawHandover bool
	// retention measurement (evidence only): false once the history did something that
	// makes "age in dropped records" meaningless (burst past the capacity, dropped-size change)
	cleanRetention bool
	// repeated dropped records of one id put the same fingerprint into the filter again
	dropCount    map[string]int
	maxDropCount int
	dupHeavy     bool // only a quarter of the histories record one id as dropped more than 3 times
	workers      uint
	cycles       int
	maxCycles    int
}

func (c *c31case) log(st c31step) {
	if len(c.hist) > 400 {
		c.hist = c.hist[100:]
		c.histTrunc += 100
	}
	c.hist = append(c.hist, st)
}

func (c *c31case) witness(extra ...any) map[string]any {
	count, lf := c.real.fill()
	w := map[string]any{"history_tail": c.hist, "history_steps_omitted": c.histTrunc, "kept_capacity_per_worker": c.k,
		"filter_entries": count, "filter_load_factor": lf, "filter_capacity_current_generation": c.curL.capa, "future_generation_exists": c.futL != nil, "dropped_records_so_far": c.nDropped}
	for i := 0; i+1 < len(extra); i += 2 {
		w[fmt.Sprint(extra[i])] = extra[i+1]
	}
	return w
}

// newer counts the ids other than x touched (certainly or possibly) after x's last certain touch.
func (c *c31case) newer(x string) int {
	rx := c.kept[x]
	n := 0
	for id, r := range c.kept {
		if id != x && r.any > rx.certain {
			n++
		}
	}
	return n
}

func (c *c31case) release() {
	for id, r := range c.kept {
		if r.must && c.newer(id) >= c.k {
			r.must = false
		}
	}
}

func (c *c31case) touchCertain(id string) {
	c.seq++
	r := c.kept[id]
	r.certain, r.any, r.must, r.resizedSince = c.seq, c.seq, true, false
	c.release()
}

func (c *c31case) touchPossible(id string) {
	c.seq++
	c.kept[id].any = c.seq
	c.release()
}

func (c *c31case) promised(id string) bool {
	d, ok := c.dropped[id]
	if !ok || d.overflow {
		return false
	}
	return (d.g1 == c.curL && d.e1 == c.curL.fullEpoch) || (d.g2 == c.curL && d.e2 == c.curL.fullEpoch)
}

// viaHandover: the promise rests on the copy that went into what was the future generation then.
func (c *c31case) viaHandover(id string) bool {
	d := c.dropped[id]
	return d != nil && d.g1 != c.curL && d.g2 == c.curL
}

// afterDrain samples the filter fill; a filter filled to capacity ends every outstanding dropped promise.
func (c *c31case) afterDrain() {
	count, lf := c.real.fill()
	if count >= c.curL.capa || lf > 0.99 {
		c.curL.fullEpoch++
		c.sawFilterFilled = true
		c.run.Count("filter_filled_to_capacity_events", 1)
	}
	if c.futL != nil {
		if fc, flf, ok := c.real.fillFuture(); ok && (fc >= c.futL.capa || flf > 0.99) {
			c.futL.fullEpoch++
		}
	}
}

// ---- operations ---------------------------------------------------------------

var c31reasons = []string{"", "deterministic/always", "rules/trace/keep-errors", "dynamic", "emadynamic", "rules/span/slow 🐢", strings.Repeat("long-reason/", 40)}
var c31rates = []uint{1, 1, 1, 2, 2, 10, 10, 100, 100, 1000, 1000, 1 << 31, 1<<32 - 1, 1 << 31, 1<<32 - 1, 1<<32 + 7}

func (c *c31case) newID(prefix string) string {
	c.nextID++
	return fmt.Sprintf("%s%04d-%s", prefix, c.nextID, c.rng.Hex(8))
}

func (c *c31case) recordKept(id string) {
	rate := c31rates[c.rng.Intn(len(c31rates))]
	reason := c31reasons[c.rng.Intn(len(c31reasons))]
	tr := &c31trace{id: id, rate: rate}
	c.real.c.Record(tr, true, reason)
	if _, ok := c.kept[id]; !ok {
		c.kept[id] = &c31keptRec{}
		c.keptIDs = append(c.keptIDs, id)
	}
	r := c.kept[id]
	r.rate, r.reason = rate, reason
	c.touchCertain(id)
	c.kinds.WriteByte('K')
	c.log(c31step{Op: "Record(keep)", ID: id, Rate: rate, Reason: c31short(reason)})
}

func c31short(s string) string {
	if len(s) > 40 {
		return s[:40] + "..."
	}
	return s
}

// recordDroppedNoDrain records one dropped decision and returns whether the add queue refused it.
func (c *c31case) recordDroppedNoDrain(id string) bool {
	before := c.real.met.addQueueFull.Load()
	c.real.c.Record(&c31trace{id: id, rate: 1}, false, "")
	overflow := c.real.met.addQueueFull.Load() != before
	if _, ok := c.dropped[id]; !ok {
		c.dropIDs = append(c.dropIDs, id)
	}
	rec := &c31dropRec{g1: c.curL, e1: c.curL.fullEpoch, overflow: overflow, ordinal: c.nDropped}
	if c.futL != nil {
		rec.g2, rec.e2 = c.futL, c.futL.fullEpoch
	}
	c.dropped[id] = rec
	c.everDrop[id] = true
	c.nDropped++
	c.dropCount[id]++
	if c.dropCount[id] > c.maxDropCount {
		c.maxDropCount = c.dropCount[id]
	}
	if overflow {
		c.run.Count("addqueue_overflows_exempted", 1)
	}
	if _, ok := c.kept[id]; ok {
		c.sawDropWithKept = true
	}
	return overflow
}

func (c *c31case) recordDropped(id string) {
	if !c.dupHeavy && c.dropCount[id] >= 3 {
		id = c.newID("d")
	}
	if c.rng.Chance(0.2) {
		// measured, not asserted: what CheckTrace says before the queue is drained
		if rec, _, found := c.real.c.CheckTrace(id); !found || rec.Kept() {
			c.run.Count("checktrace_before_drain_not_dropped", 1)
			if _, ok := c.kept[id]; ok && found {
				c.touchCertain(id)
			}
		}
	}
	c.recordDroppedNoDrain(id)
	c.real.drain()
	c.afterDrain()
	c.kinds.WriteByte('D')
	c.log(c31step{Op: "Record(drop)", ID: id})
}

func (c *c31case) burst(n int) {
	c.sweep() // every outstanding promise is checked while it still holds
	c.fill(n)
}

// fill is burst without the preceding sweep.
func (c *c31case) fill(n int) {
	for i := 0; i < n; i++ {
		c.recordDroppedNoDrain(c.newID("d"))
	}
	c.real.drain()
	c.afterDrain()
	c.kinds.WriteByte('B')
	c.log(c31step{Op: "Record(drop) x n, new ids, drained afterwards", N: n})
}

func (c *c31case) newGen(capa uint) *c31gen {
	c.nGens++
	c.capsUsed[capa] = true
	return &c31gen{n: c.nGens, capa: capa}
}

// maintain calls Maintain and moves the model's generations the way the unchanged
// Maintain does: a rotation makes the previous future generation the current one (or a
// fresh one if there was none), and a future generation that appears is new. Whether a
// rotation / creation happened is read off the real object (so retuned thresholds do not
// matter); WHICH generation becomes current is the model's expectation, not an observation.
func (c *c31case) maintain() (rotated bool) {
	c.real.drain()
	c.afterDrain()
	_, lf := c.real.fill()
	curBefore, _, _ := c.real.gens()
	c.real.maintain()
	curAfter, futAfter, nextCap := c.real.gens()
	if curAfter != curBefore {
		rotated = true
		if c.futL != nil {
			c.curL = c.futL
		} else {
			c.curL = c.newGen(nextCap)
		}
		c.futL = nil
		c.run.Count("filter_rotations", 1)
	}
	if futAfter != nil && c.futL == nil {
		c.futL = c.newGen(nextCap)
	}
	c.afterDrain()
	c.kinds.WriteByte('M')
	c.log(c31step{Op: "Maintain", Note: fmt.Sprintf("load factor before %.3f, rotated %v, future exists %v", lf, rotated, c.futL != nil)})
	return rotated
}

// cycle drives the dropped filter through a complete hand-over: make sure the future
// generation exists, record dropped decisions (they go into both generations), change
// DroppedSize with a Resize at that point of the cycle, fill the current generation until
// Maintain swaps, and check every outstanding promise against the new current generation.
func (c *c31case) cycle() {
	rng := c.rng
	fillTo := func(target float64) {
		slots := c31slots(c.curL.capa)
		count, lf := c.real.fill()
		if lf > target {
			return
		}
		n := int(target*float64(slots)) - int(count) + 2
		if n > 900 {
			n = 900 // stay below the add-queue depth between drains
		}
		if n < 1 {
			n = 1
		}
		c.cleanRetention = false
		c.fill(n)
	}
	c.sweep()
	for i := 0; i < 6 && c.futL == nil; i++ {
		fillTo(0.5)
		c.maintain()
	}
	if c.futL == nil {
		return
	}
	for i := rng.Range(1, 12); i > 0; i-- {
		if rng.Chance(0.2) && len(c.keptIDs) > 0 {
			id, _ := c.pickKept()
			c.recordDropped(id)
		} else {
			c.recordDropped(c.newID("d"))
		}
	}
	if rng.Chance(0.7) {
		_, _, nextCap := c.real.gens()
		nd := nextCap
		for nd == nextCap {
			nd = uint(verifkit.Pick(rng, 32, 64, 128, 500, 700, 1500))
		}
		if c.dupHeavy && nd < 500 {
			nd = 700
		}
		c.resize(uint(c.k)*c.workers, nd*c.workers, c.workers)
	}
	for i := rng.Range(0, 6); i > 0; i-- {
		c.recordDropped(c.newID("d"))
	}
	c.sweep()
	for i := 0; i < 12; i++ {
		fillTo(0.995)
		if c.maintain() {
			break
		}
	}
	c.sweep()
	c.kinds.WriteByte('C')
}

func (c *c31case) resize(keptSize, droppedSize, workers uint) {
	cfg := c31cfg(keptSize, droppedSize, workers)
	if err := c.real.c.Resize(cfg); err != nil {
		c.run.Inconclusive("Resize failed: " + err.Error())
		return
	}
	c.k = int(cfg.GetKeptSizePerWorker())
	for _, r := range c.kept {
		if r.must {
			r.resizedSince = true
		}
	}
	c.release()
	c.sawResize = true
	c.kinds.WriteByte('Z')
	c.log(c31step{Op: "Resize", Note: fmt.Sprintf("kept per worker %d, dropped per worker (next generation) %d", c.k, cfg.GetDroppedSizePerWorker())})
}

// explainedByCollision reports whether a "dropped" answer for an id never recorded as
// dropped can be a cuckoo fingerprint collision with an id that was.
func (c *c31case) explainedByCollision(id string) bool {
	for capa := range c.capsUsed {
		f := cuckoo.NewFilter(capa)
		for other := range c.everDrop {
			f.Insert([]byte(other))
			hit := f.Lookup([]byte(id))
			f.Delete([]byte(other))
			if hit {
				return true
			}
		}
	}
	return false
}

func (c *c31case) lookup(id string, span bool) {
	call := "CheckTrace"
	var rec TraceSentRecord
	var reason string
	var found bool
	if span {
		call = "CheckSpan"
		rec, reason, found = c.real.c.CheckSpan(&types.Span{TraceID: id, Event: &types.Event{}})
	} else {
		rec, reason, found = c.real.c.CheckTrace(id)
	}
	answer := "unknown"
	switch {
	case found && rec != nil && rec.Kept():
		answer = "kept"
	case found && rec != nil:
		answer = "dropped"
	}
	c.run.Count("lookups", 1)
	kr, hasKept := c.kept[id]
	st := c31step{Op: call, ID: id, Answer: answer}
	if answer == "kept" {
		st.Rate, st.Reason = rec.Rate(), c31short(reason)
	}
	c.log(st)

	switch {
	case c.promised(id):
		c.run.Count("dropped_promise_checks", 1)
		if c.viaHandover(id) {
			c.run.Count("dropped_promise_checks_across_handover", 1)
			c.sawHandover = true
		}
		if answer != "dropped" {
			sig := "C31/dropped/" + call + "/answered-" + answer
			if hasKept {
				sig += "/also-recorded-kept"
			}
			d := c.dropped[id]
			what := fmt.Sprintf("%s(%s) answered %q although the trace was recorded as dropped %d dropped records ago and the filter has not been filled to its capacity since", call, id, answer, c.nDropped-d.ordinal-1)
			if c.maxDropCount >= 4 {
				// input class of its own: the same fingerprint was inserted 4+ times
				sig = "C31/dropped/forgotten-after-repeated-drop-records-of-one-id"
				what += fmt.Sprintf("; some trace id was recorded as dropped %d times in this history", c.maxDropCount)
			}
			c.run.Violation(sig, what, c.witness("id", id, "max_drop_records_of_one_id", c.maxDropCount))
		}
	case hasKept && kr.must:
		c.run.Count("kept_promise_checks", 1)
		if c.newer(id) == c.k-1 {
			c.sawEvictionBoundary = true
		}
		switch answer {
		case "kept":
			if rec.Rate() != kr.rate && kr.rate > 1<<32-1 && rec.Rate() == uint(uint32(kr.rate)) {
				c.run.Violation("C31/kept/rate-above-uint32-truncated", fmt.Sprintf("%s(%s) answered kept with rate %d, recorded rate %d (the rate lost its upper 32 bits)", call, id, rec.Rate(), kr.rate), c.witness("id", id))
			} else if rec.Rate() != kr.rate {
				c.run.Violation("C31/kept/"+call+"/wrong-rate", fmt.Sprintf("%s(%s) answered kept with rate %d, recorded rate %d", call, id, rec.Rate(), kr.rate), c.witness("id", id))
			}
			if reason != kr.reason {
				c.run.Violation("C31/kept/"+call+"/wrong-reason", fmt.Sprintf("%s(%s) answered kept with reason %q, recorded reason %q", call, id, c31short(reason), c31short(kr.reason)), c.witness("id", id))
			}
		case "dropped":
			if !c.everDrop[id] {
				if c.explainedByCollision(id) {
					c.run.Count("false_positives_exempted", 1)
				} else {
					c.run.Violation("C31/kept/"+call+"/answered-dropped-never-recorded-dropped", fmt.Sprintf("%s(%s) answered dropped for a kept trace that was never recorded as dropped and collides with no dropped id", call, id), c.witness("id", id))
				}
			}
		default:
			sig := "C31/kept/" + call + "/forgotten-within-capacity"
			if kr.resizedSince {
				sig += "/after-resize"
			}
			c.run.Violation(sig, fmt.Sprintf("%s(%s) does not know a kept trace although only %d other kept traces were recorded or consulted since (capacity %d)", call, id, c.newer(id), c.k), c.witness("id", id))
		}
	default:
		c.run.Count("unconstrained_lookups", 1)
	}
	// lock-step: feed the model with what the lookup did to recency
	if hasKept {
		switch answer {
		case "kept":
			c.touchCertain(id)
		case "dropped":
			c.touchPossible(id)
		}
	}
}

// sweep checks every outstanding dropped promise (CheckTrace does not change any state when it answers dropped).
func (c *c31case) sweep() {
	for _, id := range c.dropIDs {
		if c.promised(id) {
			c.lookup(id, false)
		}
	}
}

// retentionProbe measures (no verdict) how long dropped decisions were actually
// remembered, in dropped records since the record, relative to the filter capacity.
func (c *c31case) retentionProbe(maintainedEveryStep bool) {
	if !c.cleanRetention || !maintainedEveryStep || c.curL.capa == 0 {
		return
	}
	for _, id := range c.dropIDs {
		d := c.dropped[id]
		if d.overflow {
			continue
		}
		age := c.nDropped - d.ordinal - 1
		rec, _, found := c.real.c.CheckTrace(id)
		c.run.Count("retention_probe_ids", 1)
		if found && !rec.Kept() {
			if age >= int(c.curL.capa) {
				c.run.Count("retention_probe_remembered_beyond_one_capacity", 1)
			}
			continue
		}
		c.run.Count("retention_probe_forgotten", 1)
		if age*2 < int(c.curL.capa) {
			c.run.Count("retention_probe_forgotten_younger_than_half_capacity", 1)
		}
	}
}

// pickKept returns a kept id, biased to the eviction boundary.
func (c *c31case) pickKept() (string, bool) {
	if len(c.keptIDs) == 0 {
		return "", false
	}
	if c.rng.Chance(0.6) {
		// the must-present id with the most newer ids (next to be evicted)
		best, bestN := "", -1
		for _, id := range c.keptIDs {
			if r := c.kept[id]; r.must {
				if n := c.newer(id); n > bestN {
					best, bestN = id, n
				}
			}
		}
		if best != "" {
			return best, true
		}
	}
	return c.keptIDs[c.rng.Intn(len(c.keptIDs))], true
}

func (c *c31case) pickDropped() (string, bool) {
	if len(c.dropIDs) == 0 {
		return "", false
	}
	if c.rng.Chance(0.5) {
		// oldest outstanding promise
		for _, id := range c.dropIDs {
			if c.promised(id) {
				return id, true
			}
		}
	}
	return c.dropIDs[c.rng.Intn(len(c.dropIDs))], true
}

// c31guard is the only defer of a case: it turns a panic of the code under test on the
// driver goroutine into a recorded violation, and stops the cache otherwise. After a panic the
// cache is NOT stopped: the panicking call may have died holding the checker's lock, and Stop
// would wait for the drain goroutine parked on it (the instance is leaked instead). A panic on
// one of the cache's own goroutines still kills the test binary (runner: C31/crash).
func c31guard(run *verifkit.Run, sig string, witness func() map[string]any, stop func()) {
	r := recover()
	if r == nil {
		stop()
		return
	}
	buf := make([]byte, 6000)
	buf = buf[:runtime.Stack(buf, false)]
	w := map[string]any{}
	if witness != nil {
		w = witness()
	}
	w["panic"] = fmt.Sprint(r)
	w["stack"] = string(buf)
	run.Violation(sig, fmt.Sprintf("the cache panicked on the calling goroutine: %v", r), w)
}

func c31newCase(run *verifkit.Run, rng *verifkit.Rand, kPer, dPer, workers uint, dupHeavy bool) *c31case {
	mk := func(per uint) uint { return per*workers - uint(rng.Intn(int(workers))) } // ceil(x/workers) == per
	cfg := c31cfg(mk(kPer), mk(dPer), workers)
	clock := clockwork.NewFakeClock()
	real, err := c31new(cfg, clock)
	if err != nil {
		run.Inconclusive("NewCuckooSentCache: " + err.Error())
		return nil
	}
	c := &c31case{run: run, rng: rng, real: real, clock: clock,
		k: int(cfg.GetKeptSizePerWorker()), kept: map[string]*c31keptRec{}, dropped: map[string]*c31dropRec{}, everDrop: map[string]bool{},
		capsUsed: map[uint]bool{}, cleanRetention: true, workers: workers, maxCycles: verifkit.Pick(rng, 0, 0, 1, 1, 2),
		dropCount: map[string]int{}, dupHeavy: dupHeavy}
	c.curL = c.newGen(cfg.GetDroppedSizePerWorker())
	c.log(c31step{Op: "New", Note: fmt.Sprintf("kept per worker %d, dropped per worker %d, workers %d", c.k, c.curL.capa, workers)})
	return c
}

// c31burst: a burst of dropped decisions takes the filter from at most half full (no second
// generation yet) to more than 99 % full BETWEEN two Maintain calls; then Maintain twice, then
// lookups of old and new ids. The unchanged Maintain creates the second generation and
// rotates to it in the same call, so the ids recorded before are legitimately forgotten
// (the filter was filled to capacity since) - what must hold is: nothing panics, and
// dropped decisions recorded AFTER the two Maintain calls are answered dropped.
func c31burst(run *verifkit.Run, rng *verifkit.Rand, sample bool) {
	dPer := uint(verifkit.Pick(rng, 32, 64, 128, 128, 500))
	c := c31newCase(run, rng, uint(verifkit.Pick(rng, 2, 8, 32)), dPer, uint(rng.Range(1, 2)), false)
	if c == nil {
		return
	}
	defer c31guard(run, "C31/dropped-filter/panic-after-burst", func() map[string]any { return map[string]any{"history_tail": c.hist} }, c.real.c.Stop)
	slots := c31slots(c.curL.capa)
	// phase 1: at most half full, maintained, no second generation
	pre := rng.Range(0, slots/2-1)
	for i := 0; i < pre; i++ {
		id := c.newID("d")
		if rng.Chance(0.1) {
			c.recordKept(id)
		}
		c.recordDropped(id)
		if rng.Chance(0.3) {
			c.maintain()
		}
	}
	c.maintain()
	if c.futL != nil {
		return // a fingerprint-heavy start already passed 50 %; not the shape wanted here
	}
	old := append([]string(nil), c.dropIDs...)
	// phase 2: burst past 99 % without Maintain (chunks below the add-queue depth, drained by the driver)
	passed := false
	for i := 0; i < 40 && !passed; i++ {
		count, lf := c.real.fill()
		if lf > 0.99 {
			passed = true
			break
		}
		n := slots - int(count) + 1
		if n > 900 {
			n = 900
		}
		c.fill(n)
	}
	if _, lf := c.real.fill(); lf <= 0.99 {
		run.Count("burst_histories_that_did_not_reach_99pct", 1)
		return
	}
	// phase 3: Maintain twice
	c.maintain()
	c.maintain()
	// phase 4: old ids (unconstrained, counted), new ids (promised)
	stillDropped := 0
	for _, id := range old {
		if rec, _, found := c.real.c.CheckTrace(id); found && !rec.Kept() {
			stillDropped++
		}
	}
	run.Count("burst_old_ids", int64(len(old)))
	run.Count("burst_old_ids_still_dropped", int64(stillDropped))
	fresh := rng.Range(3, 12)
	for i := 0; i < fresh; i++ {
		id := c.newID("d")
		c.recordDropped(id)
		c.lookup(id, rng.Bool())
	}
	c.maintain()
	c.sweep()
	run.Nontrivial(fmt.Sprintf("burst cap%d pre%d fresh%d", c.curL.capa, pre*8/slots, fresh))
	if sample {
		run.Sample(map[string]any{"list": "burst-maintain", "history_tail": c.hist})
	}
}

func c31run(run *verifkit.Run, rng *verifkit.Rand, sample bool) {
	workers := uint(rng.Range(1, 3))
	kPer := uint(verifkit.Pick(rng, 1, 2, 3, 5, 8, 16, 32))
	dPer := uint(verifkit.Pick(rng, 32, 32, 64, 64, 128, 128, 500, 700, 700, 1500)) // capacities whose filter is at most ~3/4 occupied when "full" (see notes/C31.md)
	dupHeavy := rng.Chance(0.25)
	if dupHeavy && dPer < 500 {
		// many copies of one fingerprint make inserts fail in filters with few buckets even
		// when they are nearly empty (see notes/C31.md); keep those histories on larger filters
		dPer = 500
	}
	c := c31newCase(run, rng, kPer, dPer, workers, dupHeavy)
	if c == nil {
		return
	}
	clock := c.clock
	defer c31guard(run, "C31/panic/lock-step-history", func() map[string]any { return map[string]any{"history_tail": c.hist} }, c.real.c.Stop)
	steps := rng.Range(20, 220)
	maintainEvery := verifkit.Pick(rng, 1, 3, 10, 1000) // 1000: (almost) never, the filter overfills
	for st := 0; st < steps; st++ {
		x := rng.Float64()
		switch {
		case x < 0.22:
			if len(c.keptIDs) < 3*c.k+6 && rng.Chance(0.7) || len(c.keptIDs) == 0 {
				c.recordKept(c.newID("k"))
			} else {
				c.recordKept(c.keptIDs[rng.Intn(len(c.keptIDs))])
			}
		case x < 0.36:
			switch y := rng.Float64(); {
			case y < 0.35 && len(c.keptIDs) > 0:
				id, _ := c.pickKept()
				c.recordDropped(id) // dropped after (or besides) kept
			case y < 0.45 && len(c.dropIDs) > 0:
				id := c.dropIDs[rng.Intn(len(c.dropIDs))]
				if c.dupHeavy && rng.Chance(0.7) {
					id = c.dropIDs[0] // one hot trace whose dropped decision is recorded again and again
				}
				c.recordDropped(id)
			default:
				id := c.newID("d")
				c.recordDropped(id)
				if rng.Chance(0.15) {
					c.kept[id] = &c31keptRec{}
					c.keptIDs = append(c.keptIDs, id)
					c.recordKept(id) // kept after dropped
				}
			}
		case x < 0.42:
			count, _ := c.real.fill()
			room := int(c.curL.capa) - int(count)
			n := rng.Range(1, 12)
			switch rng.Intn(4) {
			case 0:
				if room > 2 {
					n = room - 1 // one short of capacity
				}
			case 1:
				if room > 0 {
					n = room + rng.Range(0, int(c.curL.capa)) // to capacity and beyond
				}
			}
			if dPer == 1500 && rng.Chance(0.3) {
				n = rng.Range(1001, 1400) // more than the add queue holds between drains
			}
			if n > room {
				c.cleanRetention = false
			}
			c.burst(n)
		case x < 0.80:
			span := rng.Bool()
			if rng.Chance(0.55) {
				if id, ok := c.pickKept(); ok {
					c.lookup(id, span)
				}
			} else if id, ok := c.pickDropped(); ok {
				c.lookup(id, span)
			}
		case x < 0.845 && c.cycles < c.maxCycles:
			c.cycles++
			c.cycle()
		case x < 0.88:
			c.maintain()
		case x < 0.92:
			nk := uint(verifkit.Pick(rng, 1, 2, 3, 5, 8, 16, 32))
			if rng.Chance(0.4) && c.k > 1 {
				nk = uint(rng.Range(1, c.k)) // shrink
			}
			nd := dPer
			if rng.Chance(0.3) {
				nd = uint(verifkit.Pick(rng, 32, 64, 128, 500))
				if c.dupHeavy {
					nd = 500
				}
				c.cleanRetention = false
			}
			c.resize(nk*workers, nd*workers, workers)
		default:
			d := time.Duration(rng.Range(0, 4000)) * time.Millisecond
			clock.Advance(d)
			c.kinds.WriteByte('t')
			c.log(c31step{Op: "advance clock", Note: d.String()})
		}
		if st%maintainEvery == maintainEvery-1 {
			c.maintain()
		}
	}
	c.sweep()
	c.retentionProbe(maintainEvery == 1)
	if c.sawEvictionBoundary && c.sawDropWithKept && c.sawFilterFilled {
		run.Nontrivial(c.kinds.String())
	}
	if sample {
		run.Sample(map[string]any{"history_tail": c.hist})
	}
}

func TestVerif_C31(t *testing.T) {
	run := verifkit.Start(t, "C31", "cache")
	defer run.Finish()
	run.Rule("PRNG histories on one real cuckooSentCache (kept capacity 1-32 per worker, dropped capacity 32-1500 per worker, 1-3 workers): Record(keep) of new and known ids with boundary rates and interned reasons, Record(drop) of new ids, of kept ids and of already dropped ids, bursts that stop one short of / reach / exceed the filter capacity or the add-queue depth, CheckSpan/CheckTrace biased to the next-to-be-evicted kept id and the oldest outstanding dropped promise, Maintain at different cadences (incl. never), Resize up and down, fake-clock advances across the 3 s recent-dropped TTL; non-trivial = the history looked up a kept id with exactly K-1 newer ids, recorded a dropped decision for an id that also has a kept record, and filled the filter to capacity at least once; distinct = sequence of step kinds. read-your-writes list: 100-400 ids per case, CheckSpan right after Record(dropped) returned (same goroutine / second goroutine released by a hand-over), no drain; non-trivial = some lookup preceded the filter insert. burst-maintain list: <=50% load, burst past 99% without Maintain, Maintain twice, lookups; non-trivial = the burst reached 99%")
	run.Assume("answers are taken after the driver drained the add queue (CuckooTraceChecker.drain); the 100us internal drain goroutine may run concurrently; the internal monitor is parked (SizeCheckInterval 24h) and the driver calls Maintain")
	run.Assume("'filled to capacity' is read as: entry count of the current filter >= the capacity it was created with (or load factor > 0.99); the filter library places at most 96% of its slots at that capacity, so inserts do not fail before that point")
	run.Cases("histories", run.N(800, 80000), func(i int, rng *verifkit.Rand) { c31run(run, rng, i < 2) })
	run.Assume("read-your-writes list: once Record(dropped) has returned, CheckSpan answers dropped without any drain (the unchanged code puts the id into the synchronous recentDroppedIDs set, TTL 3 s on the injected clock, before it queues it for the filter); CheckTrace consults only the filter and is measured, not asserted, in that window")
	run.Cases("read-your-writes", run.N(150, 15000), func(i int, rng *verifkit.Rand) { c31ryw(run, rng, i < 1) })
	run.Cases("burst-maintain", run.N(150, 15000), func(i int, rng *verifkit.Rand) { c31burst(run, rng, i < 1) })
}

// c31ryw: lookups immediately after Record(dropped), with no drain by the driver and no
// yield in between - on the recording goroutine, or on a second goroutine released by an
// unbuffered hand-over right after Record returned. Many ids per case, a large filter and
// few records, so the filter is nowhere near its capacity and the add queue never full
// (an overflow, measured, would exempt the id). Half of the ids have a kept record first.
func c31ryw(run *verifkit.Run, rng *verifkit.Rand, sample bool) {
	clock := clockwork.NewFakeClock()
	real, err := c31new(c31cfg(uint(rng.Range(8, 64)), uint(verifkit.Pick(rng, 1500, 4000, 20000)), 1), clock)
	if err != nil {
		run.Inconclusive("NewCuckooSentCache: " + err.Error())
		return
	}
	defer c31guard(run, "C31/panic/read-your-writes", nil, real.c.Stop)
	n := rng.Range(100, 400)
	otherGoroutine := rng.Bool()
	type item struct {
		id      string
		hasKept bool
	}
	items := make([]item, n)
	for i := range items {
		items[i] = item{id: fmt.Sprintf("r%04d-%s", i, rng.Hex(8)), hasKept: rng.Bool()}
	}
	type obs struct {
		answer    string
		inFilter  bool
		overflow  bool
		traceSaid string
	}
	res := make([]obs, n)
	look := func(i int) {
		id := items[i].id
		rec, _, found := real.c.CheckSpan(&types.Span{TraceID: id, Event: &types.Event{}})
		res[i].answer = "unknown"
		if found && rec != nil {
			res[i].answer = "dropped"
			if rec.Kept() {
				res[i].answer = "kept"
			}
		}
		// measured only: had the id reached the filter by then?
		res[i].inFilter = real.c.dropped.Check(id)
	}
	var handoff chan int
	done := make(chan struct{})
	if otherGoroutine {
		handoff = make(chan int)
		go func() {
			defer close(done)
			for i := range handoff {
				look(i)
			}
		}()
	}
	for i, it := range items {
		if it.hasKept {
			real.c.Record(&c31trace{id: it.id, rate: 10}, true, "deterministic/always")
		}
		before := real.met.addQueueFull.Load()
		real.c.Record(&c31trace{id: it.id, rate: 1}, false, "")
		res[i].overflow = real.met.addQueueFull.Load() != before
		if otherGoroutine {
			handoff <- i // released right after Record returned; the next Record waits for the lookup's start only
		} else {
			look(i)
		}
		if rng.Chance(0.05) {
			clock.Advance(time.Duration(rng.Range(0, 2500)) * time.Millisecond) // stays inside the 3 s TTL of the last record
		}
	}
	if otherGoroutine {
		close(handoff)
		select {
		case <-done:
		case <-time.After(30 * time.Second):
			run.Inconclusive("read-your-writes: lookup goroutine did not finish (watchdog)")
			return
		}
	}
	mode := "same goroutine"
	if otherGoroutine {
		mode = "second goroutine released right after Record returned"
	}
	early := 0
	bad := map[string]int{}
	first := map[string]string{}
	for i, o := range res {
		run.Count("ryw_lookups", 1)
		if !o.inFilter {
			early++
		}
		if o.overflow {
			run.Count("addqueue_overflows_exempted", 1)
			continue
		}
		if o.answer != "dropped" {
			sig := "C31/dropped/CheckSpan/not-dropped-immediately-after-record"
			if items[i].hasKept {
				sig += "/also-recorded-kept"
			}
			bad[sig]++
			if first[sig] == "" {
				first[sig] = fmt.Sprintf("%s answered %q (id in the filter right afterwards: %v)", items[i].id, o.answer, o.inFilter)
			}
		}
	}
	run.Count("ryw_lookups_before_filter_insert", int64(early))
	for sig, k := range bad {
		run.Violation(sig, fmt.Sprintf("%d of %d traces looked up by CheckSpan (%s) right after Record(dropped) returned were not answered dropped; first: %s", k, n, mode, first[sig]),
			map[string]any{"mode": mode, "ids": n, "not_dropped": k, "lookups_that_preceded_the_filter_insert": early, "first": first[sig]})
	}
	if early > 0 {
		run.Nontrivial(fmt.Sprintf("ryw %v n%d early%d", otherGoroutine, n/50, early*10/n))
	}
	if sample {
		run.Sample(map[string]any{"list": "read-your-writes", "mode": mode, "ids": n, "lookups_that_preceded_the_filter_insert": early})
	}
}
