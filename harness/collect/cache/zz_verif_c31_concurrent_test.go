//go:build verif

package cache

import (
	"fmt"
	"sync"
	"sync/atomic"
	"testing"
	"time"

	"github.com/honeycombio/refinery/internal/verifkit"
	"github.com/jonboulle/clockwork"
)

// C31, concurrent case list: keep decisions recorded WHILE the cache is being resized.
//
// N goroutines Record(keep) unique ids (router goroutines do that through
// ProcessSpanImmediately under stress relief) while one goroutine (the collector
// worker, on every reload) calls Resize again and again. All capacities, before and
// after every resize, exceed the total number of ids ever recorded, so the promise
// "answers kept, with the recorded rate and reason, for every kept trace among its most
// recently recorded ... up to its per-worker kept capacity, and a resize keeps the
// newest of them up to the new capacity" covers EVERY id: after joining, each one must be
// answered kept with its own rate and reason. Unique ids => one lookup per id decides.
// A prefilled LRU makes the copy inside Resize long enough to overlap with recorders.

type c31crec struct {
	id     string
	rate   uint
	reason string
}

func TestVerif_C31_concurrent(t *testing.T) {
	run := verifkit.Start(t, "C31", "cache-concurrent")
	defer run.Finish()
	run.Rule("per case: a real cuckooSentCache with kept capacity 5500-24000 is prefilled with 800-3000 kept ids; 2-6 goroutines then record 100-400 further unique kept ids each while one goroutine calls Resize continuously with kept capacities that always exceed the total number of ids (dropped size also varied); afterwards every id is looked up once; non-trivial = at least one Resize completed while recorders were running; distinct = (goroutines, ids per goroutine, prefill, resizes overlapped)")
	run.Assume("the interleaving of Record and Resize is whatever the Go scheduler produces; the number of Resize calls that overlapped recorders is measured")
	run.Cases("resize-vs-record", run.N(12, 600), func(i int, rng *verifkit.Rand) { c31concurrent(run, rng, i < 1) })
}

func c31concurrent(run *verifkit.Run, rng *verifkit.Rand, sample bool) {
	kcap := uint(rng.Range(5500, 24000))
	prefill := rng.Range(800, 3000)
	g := rng.Range(2, 6)
	per := rng.Range(100, 400)
	total := prefill + g*per // <= 5400 < every capacity used
	real, err := c31new(c31cfg(kcap, 500, 1), clockwork.NewFakeClock())
	if err != nil {
		run.Inconclusive("NewCuckooSentCache: " + err.Error())
		return
	}
	defer real.c.Stop()
	mk := func(prefix string, n int, r *verifkit.Rand) []c31crec {
		out := make([]c31crec, n)
		for j := range out {
			out[j] = c31crec{id: fmt.Sprintf("%s-%05d-%s", prefix, j, r.Hex(6)), rate: c31rates[r.Intn(len(c31rates)-1)], reason: c31reasons[r.Intn(len(c31reasons))]}
		}
		return out
	}
	record := func(rs []c31crec) {
		for _, r := range rs {
			real.c.Record(&c31trace{id: r.id, rate: r.rate}, true, r.reason)
		}
	}
	pre := mk("pre", prefill, rng.Fork("pre"))
	record(pre)
	scripts := make([][]c31crec, g)
	for w := range scripts {
		scripts[w] = mk(fmt.Sprintf("w%d", w), per, rng.Fork(fmt.Sprint("w", w)))
	}
	// capacities for the resizer, all > total
	var caps []uint
	for j := 0; j < 64; j++ {
		caps = append(caps, uint(total+1+rng.Intn(20000)))
	}
	dcaps := []uint{500, 500, 700, 1500}

	var running atomic.Int32
	var overlapped, resizes atomic.Int64
	start := make(chan struct{})
	var wg sync.WaitGroup
	for w := 0; w < g; w++ {
		wg.Add(1)
		running.Add(1)
		go func(rs []c31crec) {
			defer wg.Done()
			defer running.Add(-1)
			<-start
			record(rs)
		}(scripts[w])
	}
	resizeErr := make(chan error, 1)
	wg.Add(1)
	go func() {
		defer wg.Done()
		<-start
		for j := 0; ; j++ {
			before := running.Load()
			if before == 0 && j > 0 {
				return
			}
			if err := real.c.Resize(c31cfg(caps[j%len(caps)], dcaps[j%len(dcaps)], 1)); err != nil {
				select {
				case resizeErr <- err:
				default:
				}
				return
			}
			resizes.Add(1)
			if before > 0 && running.Load() > 0 {
				overlapped.Add(1)
			}
		}
	}()
	close(start)
	done := make(chan struct{})
	go func() { wg.Wait(); close(done) }()
	select {
	case <-done:
	case <-time.After(60 * time.Second): // watchdog only
		run.Inconclusive("concurrent Resize/Record case did not finish within the watchdog")
		return
	}
	select {
	case err := <-resizeErr:
		run.Inconclusive("Resize failed: " + err.Error())
		return
	default:
	}
	run.Count("concurrent_resizes", resizes.Load())
	run.Count("concurrent_resizes_overlapping_recorders", overlapped.Load())
	run.Count("concurrent_ids", int64(total))

	check := func(rs []c31crec, class string) {
		lost, wrong := 0, 0
		var first *c31crec
		var firstWhat string
		for j := range rs {
			r := &rs[j]
			rec, reason, found := real.c.CheckTrace(r.id)
			switch {
			case !found || rec == nil:
				lost++
				if first == nil {
					first, firstWhat = r, "unknown"
				}
			case !rec.Kept():
				// never recorded dropped: only a fingerprint collision could explain it; nothing is dropped here
				lost++
				if first == nil {
					first, firstWhat = r, "dropped"
				}
			case rec.Rate() != r.rate || reason != r.reason:
				wrong++
				if first == nil {
					first, firstWhat = r, fmt.Sprintf("kept with rate %d reason %q", rec.Rate(), c31short(reason))
				}
			}
		}
		if lost > 0 {
			run.Violation("C31/kept/concurrent-resize/forgotten-within-capacity/"+class,
				fmt.Sprintf("%d of %d kept traces %s are not answered kept after the run although only %d kept traces exist and every capacity used was larger (first: %s answered %s)", lost, len(rs), map[string]string{"recorded-during-resizes": "recorded while Resize calls were running", "recorded-before": "recorded before the resizes"}[class], total, first.id, firstWhat),
				map[string]any{"goroutines": g, "ids_per_goroutine": per, "prefilled": prefill, "resizes": resizes.Load(), "resizes_overlapping_recorders": overlapped.Load(), "initial_kept_capacity": kcap, "first_lost": first.id, "lost": lost})
		} else if wrong > 0 {
			run.Violation("C31/kept/concurrent-resize/wrong-rate-or-reason/"+class,
				fmt.Sprintf("%d kept traces are answered with another rate or reason than recorded (first: %s answered %s, recorded rate %d reason %q)", wrong, first.id, firstWhat, first.rate, c31short(first.reason)),
				map[string]any{"goroutines": g, "ids_per_goroutine": per, "prefilled": prefill, "resizes": resizes.Load()})
		}
	}
	check(pre, "recorded-before")
	for _, sc := range scripts {
		check(sc, "recorded-during-resizes")
	}
	if overlapped.Load() > 0 {
		run.Nontrivial(fmt.Sprintf("g%d per%d pre%d ov%d", g, per/50, prefill/500, overlapped.Load()))
	}
	if sample {
		run.Sample(map[string]any{"unit": "cache-concurrent", "goroutines": g, "ids_per_goroutine": per, "prefilled": prefill, "resizes": resizes.Load(), "resizes_overlapping_recorders": overlapped.Load()})
	}
}
