//go:build verif

package collect

// =====================================================================================
// E1 — collector lifecycle driver (shared by C01, C02, C03, C05 and later C04, C06, C07)
// =====================================================================================
//
// What runs: the REAL InMemCollector (monitor goroutine, N CollectorWorker goroutines,
// sendTraces goroutine), the real trace buffer, the real cuckoo sample cache, the real
// sample.SamplerFactory and samplers — on a clockwork.FakeClock, configured through a
// config.MockConfig (wrapped only to count GetSampleCacheConfig calls, see Reload).
// Replaced by harness objects: upstream Transmission (recorder), Metrics (counter store),
// Health (counter), StressReliever (scripted), Logger (null), Tracer (noop).
//
// Driver API (everything a check needs; no check touches unexported collector state):
//
//   e := e1Start(tb, E1Config{...})        start a collector; e.Stop() must be deferred
//   e.NewSpan(trace, kind)                 build an E1Span with a fresh unique verif.id
//   e.AddSpan(s) error                     AddSpan / AddSpanFromPeer (s.Peer), then quiesce
//   e.Burst(spans, held) []error           several spans without quiescing in between; with
//                                          held=true the workers are parked first, so queue
//                                          overflow (ErrWouldBlock) and processing order are
//                                          deterministic (peer queue first, then incoming)
//   e.AddStressed(s) (processed, kept)     what the router does while Stressed(): ProcessSpanImmediately
//   e.Advance(d)                           advance the fake clock by d, one send tick at a time,
//                                          quiescing after every tick (each tick is its own step)
//   e.AdvanceJump(d)                       ONE FakeClock.Advance call (workers see 1–2 ticks at the
//                                          end time; not step-deterministic; for cheap flushing only)
//   e.Reload(what, func(*config.MockConfig)) mutate the MockConfig (only while no Reload is in
//                                          flight), call MockConfig.Reload(), wait until the monitor
//                                          has run reloadConfigs and EVERY worker has handled its
//                                          reload signal, quiesce
//   e.DryRunAt(step), e.DryRunOnThroughout(a,b)  DryRun setting in force per step (Reload may toggle MockConfig.DryRun)
//   e.Eject(worker, bytes)                 the sendEarly message checkAlloc would send (worker<0: all)
//   e.TickWithFullOutgoingQueue()          process the next send tick while tracesToSend is completely full and the
//                                          upstream blocks (fillers + recorder gate), then release and quiesce
//   e.InstallSlowShim(env, seed, maxMs)    wrap env's real sampler: every decision advances the FakeClock by 0..maxMs ms
//   e.Flush()                              bounded progress: TraceTimeout+SendDelay+backlog ticks
//   e.Inspect(func(*E1View))               run fn while ALL workers are parked between loop
//                                          iterations: buffered traces, CheckTrace, buffer counts
//   e.Events() / e.EventsFrom(seq)         deep snapshots taken at EnqueueSpan/EnqueueEvent time
//   e.Added()                              every span handed to the collector with the returned error
//   e.Counter(name)                        metrics counters written by Refinery (trace_send_dropped …)
//   e.Step(), e.Now(), e.TickTimes()       current step index, virtual time offset, processed ticks
//   e.Ops()                                JSON-able log of driver operations (witness)
//   e.WorkerOf(traceID)                    worker index Refinery assigns (getWorkerIDForTrace)
//   e.Failed()                             non-empty when the harness watchdog fired (⇒ Inconclusive)
//
// Quiescence after every step (deterministic, no sleeps in the oracle path):
//   1. wait until every worker's incoming and fromPeer channels are empty;
//   2. if the step advanced the clock onto a send tick: wait until every worker has stored
//      that instant in healthCheckInAt (first statement of the tick branch);
//   3. pause handshake with every worker (unbuffered `pause` channel: a worker only accepts it
//      in its select, i.e. between loop iterations) and keep them parked;
//   4. push a sentinel sendableTrace through tracesToSend and wait until its span reaches the
//      recorder: sendTraces is the single FIFO consumer, so everything queued before it has been
//      handed to the Transmission;
//   5. run inspection hooks, resume the workers and wait (bounded, best effort) until each has started its
//      next loop iteration (counted Clock.Now() at the loop top), so that the worker is idle in its select
//      with this step's instant as loop-start time when the next step advances the clock.
// A step therefore never overlaps the next one; an event's Step/VTime is the step that caused it.
//
// Steps and ticks: worker tickers are created at t0 (the driver never advances before every
// worker has started), so send ticks fall on t0+k·SendTicker. Advance splits a duration at
// those instants so that every tick is processed at exactly its own virtual time and exactly
// once. SendTicker must be > 0 (FakeClock.NewTicker panics otherwise; the real config turns 0
// into the 100ms default before the collector sees it).
//
// Known real-time pieces inside Refinery that E1 leaves alone: cuckoo add queue (100µs real
// ticker), recentDroppedIDs (3s real TTL), SizeCheckInterval (set to 1h), Span.ArrivalTime.

import (
	"encoding/json"
	"fmt"
	"maps"
	"os"
	"runtime"
	"sort"
	"strconv"
	"sync"
	"sync/atomic"
	"testing"
	"time"

	"github.com/jonboulle/clockwork"
	"go.opentelemetry.io/otel/trace/noop"

	"github.com/honeycombio/refinery/config"
	"github.com/honeycombio/refinery/internal/peer"
	"github.com/honeycombio/refinery/internal/verifkit"
	"github.com/honeycombio/refinery/logger"
	"github.com/honeycombio/refinery/metrics"
	"github.com/honeycombio/refinery/sample"
	"github.com/honeycombio/refinery/sharder"
	"github.com/honeycombio/refinery/types"
)

// -------------------------------------------------------------------------------------
// Adapters: the ONLY places that touch unexported identifiers of package collect.
// -------------------------------------------------------------------------------------

func e1adWorkers(c *InMemCollector) []*CollectorWorker { return c.workers }

func e1adQueuesEmpty(w *CollectorWorker) bool { return len(w.incoming) == 0 && len(w.fromPeer) == 0 }

func e1adQueueCaps(w *CollectorWorker) (int, int) { return cap(w.incoming), cap(w.fromPeer) }

// e1adPause offers the pause handshake; returns the channel whose close resumes the worker.
func e1adPause(w *CollectorWorker, giveUp <-chan time.Time) (chan struct{}, bool) {
	ch := make(chan struct{})
	select {
	case w.pause <- ch:
		return ch, true
	case <-giveUp:
		return nil, false
	}
}

func e1adLastTick(w *CollectorWorker) int64 { return w.healthCheckInAt.Load() }

func e1adWorkerFor(c *InMemCollector, traceID string) int { return c.getWorkerIDForTrace(traceID) }

func e1adPushSentinel(c *InMemCollector, tr *types.Trace) {
	c.tracesToSend <- sendableTrace{Trace: tr, reason: "verif-sentinel", sendReason: "verif-sentinel", shouldSend: true}
}

func e1adOutgoingLen(c *InMemCollector) int { return len(c.tracesToSend) }
func e1adOutgoingCap(c *InMemCollector) int { return cap(c.tracesToSend) }

// e1adTryPushOutgoing queues a ready-made trace for sendTraces without blocking.
func e1adTryPushOutgoing(c *InMemCollector, tr *types.Trace) bool {
	select {
	case c.tracesToSend <- sendableTrace{Trace: tr, reason: "verif-filler", sendReason: "verif-filler", shouldSend: true}:
		return true
	default:
		return false
	}
}

// e1adInjectSampler installs sampler s for samplerKey in worker w. Only while the worker is parked.
func e1adInjectSampler(w *CollectorWorker, samplerKey string, s sample.Sampler) {
	w.datasetSamplers[samplerKey] = s
}

// e1adEject sends the message checkAlloc sends and returns a channel closed when the worker is done.
func e1adEject(ws []*CollectorWorker, bytes int) <-chan struct{} {
	var wg sync.WaitGroup
	wg.Add(len(ws))
	for _, w := range ws {
		w.sendEarly <- sendEarly{wg: &wg, bytesToSend: bytes}
	}
	done := make(chan struct{})
	go func() { wg.Wait(); close(done) }()
	return done
}

// the following three may only be called while the worker is parked (Inspect).
func e1adBuffered(w *CollectorWorker) []*types.Trace { return w.cache.GetAll() }
func e1adBufferCount(w *CollectorWorker) int         { return w.cache.GetCacheEntryCount() }
func e1adCheckTrace(w *CollectorWorker, id string) (found, kept bool, rate uint, reason string) {
	rec, reason, found := w.sampleCache.CheckTrace(id)
	if !found || rec == nil {
		return false, false, 0, ""
	}
	return true, rec.Kept(), rec.Rate(), reason
}

func e1adReloadIdle(c *InMemCollector) bool {
	if len(c.reload) != 0 {
		return false
	}
	for _, w := range c.workers {
		if len(w.reload) != 0 {
			return false
		}
	}
	return true
}

// e1TuneRuntime picks GOMAXPROCS for an E1-based test and returns the restore function. Every E1 step is a
// chain of goroutine hand-offs (driver → worker → driver → sendTraces → driver); with one P these are
// user-space switches and the run is 2–5× faster and far less sensitive to machine load, so the quick tier
// uses 1. The thorough tier (built with -race) uses 4 so that workers, monitor, sendTraces and the cuckoo
// goroutines really run in parallel. VERIF_E1_PROCS overrides both.
func e1TuneRuntime(run *verifkit.Run) func() {
	n := 1
	if run.Thorough() {
		n = 4
	}
	if v, err := strconv.Atoi(os.Getenv("VERIF_E1_PROCS")); err == nil && v > 0 {
		n = v
	}
	old := runtime.GOMAXPROCS(n)
	return func() { runtime.GOMAXPROCS(old) }
}

// -------------------------------------------------------------------------------------
// Public (in-package) types
// -------------------------------------------------------------------------------------

const (
	e1FieldID       = "verif.id"
	e1FieldSentinel = "verif.sentinel"
	e1FieldFiller   = "verif.filler"
	e1APIKey        = "verif-key-not-legacy-0001" // not 32 hex / 64 classic ⇒ sampler key = environment
	e1APIHost       = "http://upstream.verif.invalid"
	e1Watchdog      = 30 * time.Second
)

// E1Config selects everything that is fixed at collector start (most of it can be changed later by Reload).
type E1Config struct {
	Workers       int                 // ≥1
	Traces        config.TracesConfig // SendTicker > 0 required
	IncomingQueue int                 // total, Refinery divides by workers (ceil); 0 ⇒ 10000
	PeerQueue     int                 // same
	KeptSize      uint                // total; 0 ⇒ 10000·workers
	DroppedSize   uint                // total; 0 ⇒ 20000·workers
	DryRun        bool
	AddRuleReason bool
	AddSpanCount  bool
	AddHostMeta   bool
	Attributes    map[string]string
	Samplers      map[string]*config.V2SamplerChoice // by environment; "__default__" is added (deterministic 1) if absent
	HealthTimeout time.Duration                      // Collection.HealthCheckTimeout; 0 ⇒ 1h (never reached)
}

// E1Span describes one span the driver hands to the collector.
type E1Span struct {
	ID      string         `json:"id"`    // unique, carried as field verif.id
	Trace   string         `json:"trace"` // trace id
	Kind    string         `json:"kind"`  // root | child | event | link
	Peer    bool           `json:"peer,omitempty"`
	Rate    uint           `json:"rate,omitempty"` // client sample rate, 0 = absent
	Env     string         `json:"env,omitempty"`
	Dataset string         `json:"dataset,omitempty"`
	Fields  map[string]any `json:"fields,omitempty"`
}

// E1Added is one span handed to the collector together with what the collector answered.
type E1Added struct {
	Span     E1Span        `json:"span"`
	Step     int           `json:"step"`
	VTime    time.Duration `json:"vtime"`
	Accepted bool          `json:"accepted"`
	Err      string        `json:"err,omitempty"`
	Stressed bool          `json:"stressed,omitempty"`    // went through ProcessSpanImmediately
	Kept     bool          `json:"stress_kept,omitempty"` // answer of ProcessSpanImmediately
	Worker   int           `json:"worker"`
}

// E1Event is a deep snapshot of one event at the upstream Transmission boundary.
type E1Event struct {
	Seq         int            `json:"seq"`
	Step        int            `json:"step"`
	VTime       time.Duration  `json:"vtime"`
	Via         string         `json:"via"` // span | event
	ID          string         `json:"id"`
	Trace       string         `json:"trace"`
	IsRoot      bool           `json:"is_root,omitempty"`
	SampleRate  uint           `json:"sample_rate"`
	APIKey      string         `json:"api_key"`
	APIHost     string         `json:"api_host"`
	Dataset     string         `json:"dataset"`
	Environment string         `json:"environment"`
	Timestamp   time.Time      `json:"timestamp"`
	Fields      map[string]any `json:"fields"`
}

// E1Op is one driver operation (for witnesses / replay reading).
type E1Op struct {
	Step   int    `json:"step"`
	VTime  string `json:"t"`
	Op     string `json:"op"`
	Detail any    `json:"detail,omitempty"`
}

// E1Buffered is one undecided trace seen in a worker's buffer during Inspect.
type E1Buffered struct {
	Worker   int           `json:"worker"`
	Trace    string        `json:"trace"`
	SpanIDs  []string      `json:"span_ids"`
	HasRoot  bool          `json:"has_root"`
	Sent     bool          `json:"sent"`
	SendBy   time.Duration `json:"send_by"` // offset from t0
	DataSize int           `json:"data_size"`
}

// E1Decision is the decision cache's answer for a trace id.
type E1Decision struct {
	Found  bool   `json:"found"`
	Kept   bool   `json:"kept"`
	Rate   uint   `json:"rate"`
	Reason string `json:"reason,omitempty"`
}

// E1View is what Inspect hands out while all workers are parked.
type E1View struct{ e *E1 }

// -------------------------------------------------------------------------------------
// Replaced collaborators
// -------------------------------------------------------------------------------------

type e1Config struct {
	*config.MockConfig
	sampleCacheCalls atomic.Int64
}

func (c *e1Config) GetSampleCacheConfig() config.SampleCacheConfig {
	c.sampleCacheCalls.Add(1)
	return c.MockConfig.GetSampleCacheConfig()
}

// e1Clock is the clock handed to the collector: the shared FakeClock, with Now() calls counted. The count is
// used for schedule shaping only (resume waits until every worker has begun its next loop iteration, whose
// first action is Clock.Now()), never by an oracle. The driver and the recorder read the FakeClock directly.
type e1Clock struct {
	*clockwork.FakeClock
	nowCalls atomic.Int64
}

func (c *e1Clock) Now() time.Time {
	t := c.FakeClock.Now()
	c.nowCalls.Add(1)
	return t
}

type e1Metrics struct {
	mu       sync.Mutex
	counters map[string]int64
	gauges   map[string]float64
	consts   map[string]float64
}

func newE1Metrics() *e1Metrics {
	return &e1Metrics{counters: map[string]int64{}, gauges: map[string]float64{}, consts: map[string]float64{}}
}
func (m *e1Metrics) Register(metrics.Metadata) {}
func (m *e1Metrics) Increment(name string)     { m.mu.Lock(); m.counters[name]++; m.mu.Unlock() }
func (m *e1Metrics) Count(name string, n int64) {
	m.mu.Lock()
	m.counters[name] += n
	m.mu.Unlock()
}
func (m *e1Metrics) Gauge(name string, v float64)     { m.mu.Lock(); m.gauges[name] = v; m.mu.Unlock() }
func (m *e1Metrics) Histogram(name string, v float64) {}
func (m *e1Metrics) Up(name string)                   { m.mu.Lock(); m.counters[name]++; m.mu.Unlock() }
func (m *e1Metrics) Down(name string)                 { m.mu.Lock(); m.counters[name]--; m.mu.Unlock() }
func (m *e1Metrics) Store(name string, v float64)     { m.mu.Lock(); m.consts[name] = v; m.mu.Unlock() }
func (m *e1Metrics) Get(name string) (float64, bool) {
	m.mu.Lock()
	defer m.mu.Unlock()
	if v, ok := m.counters[name]; ok {
		return float64(v), true
	}
	if v, ok := m.gauges[name]; ok {
		return v, true
	}
	v, ok := m.consts[name]
	return v, ok
}
func (m *e1Metrics) counter(name string) int64 {
	m.mu.Lock()
	defer m.mu.Unlock()
	return m.counters[name]
}

var _ metrics.Metrics = (*e1Metrics)(nil)

type e1Health struct{ ready atomic.Int64 }

func (h *e1Health) Register(string, time.Duration) {}
func (h *e1Health) Unregister(string)              {}
func (h *e1Health) Ready(string, bool)             { h.ready.Add(1) }

// E1Stress is the scripted StressReliever. The collector itself never consults Stressed();
// the router does, and AddStressed emulates exactly that call sequence.
type E1Stress struct {
	on      atomic.Bool
	updates atomic.Int64
	mu      sync.Mutex
	rate    uint
	keepFn  func(traceID string) bool
}

func (s *E1Stress) Start() error      { return nil }
func (s *E1Stress) UpdateFromConfig() { s.updates.Add(1) }
func (s *E1Stress) Recalc() uint      { return 0 }
func (s *E1Stress) Stressed() bool    { return s.on.Load() }
func (s *E1Stress) GetSampleRate(traceID string) (uint, bool, string) {
	s.mu.Lock()
	defer s.mu.Unlock()
	keep := true
	if s.keepFn != nil {
		keep = s.keepFn(traceID)
	}
	r := s.rate
	if r == 0 {
		r = 1
	}
	return r, keep, "verif-stress"
}

// Script sets the stress state and the stress decision function.
func (s *E1Stress) Script(on bool, rate uint, keep func(traceID string) bool) {
	s.mu.Lock()
	s.rate, s.keepFn = rate, keep
	s.mu.Unlock()
	s.on.Store(on)
}

var _ StressReliever = (*E1Stress)(nil)

// e1Recorder is the upstream Transmission.
type e1Recorder struct {
	e        *E1
	mu       sync.Mutex
	events   []E1Event
	sentinel chan int64
	gate     chan struct{} // non-nil while the upstream is stalled: every Enqueue call blocks until it is closed
	blocked  atomic.Int64  // Enqueue calls currently (or ever) held at the gate
	fillers  atomic.Int64  // filler events swallowed
}

func e1OrHour(d time.Duration) time.Duration {
	if d <= 0 {
		return time.Hour
	}
	return d
}

// hold blocks the caller while the upstream is stalled (a Transmission whose queue is full blocks like this).
func (r *e1Recorder) hold() {
	r.mu.Lock()
	g := r.gate
	r.mu.Unlock()
	if g != nil {
		r.blocked.Add(1)
		<-g
	}
}

func e1DeepCopy(v any) any {
	switch t := v.(type) {
	case map[string]any:
		out := make(map[string]any, len(t))
		for k, x := range t {
			out[k] = e1DeepCopy(x)
		}
		return out
	case []any:
		out := make([]any, len(t))
		for i, x := range t {
			out[i] = e1DeepCopy(x)
		}
		return out
	case []byte:
		return append([]byte(nil), t...)
	default:
		return v
	}
}

func (r *e1Recorder) record(via string, ev *types.Event, traceID string, isRoot bool) {
	r.hold()
	if ev.Data.Get(e1FieldFiller) != nil {
		r.fillers.Add(1)
		return
	}
	if v := ev.Data.Get(e1FieldSentinel); v != nil {
		if n, ok := v.(int64); ok {
			r.sentinel <- n
		}
		return
	}
	fields := make(map[string]any, 16)
	for k, v := range ev.Data.All() {
		fields[k] = e1DeepCopy(v)
	}
	id, _ := fields[e1FieldID].(string)
	e := E1Event{
		Step: int(r.e.step.Load()), VTime: r.e.clock.Now().Sub(r.e.t0), Via: via, ID: id, Trace: traceID, IsRoot: isRoot,
		SampleRate: ev.SampleRate, APIKey: ev.APIKey, APIHost: ev.APIHost, Dataset: ev.Dataset, Environment: ev.Environment,
		Timestamp: ev.Timestamp, Fields: fields,
	}
	r.mu.Lock()
	e.Seq = len(r.events)
	r.events = append(r.events, e)
	r.mu.Unlock()
}

func (r *e1Recorder) EnqueueEvent(ev *types.Event) { r.record("event", ev, ev.Data.MetaTraceID, false) }
func (r *e1Recorder) EnqueueSpan(sp *types.Span)   { r.record("span", sp.Event, sp.TraceID, sp.IsRoot) }

// e1PeerSink records nothing but counts: the collector never uses the peer transmission in this version.
type e1PeerSink struct{ n atomic.Int64 }

func (p *e1PeerSink) EnqueueEvent(*types.Event) { p.n.Add(1) }
func (p *e1PeerSink) EnqueueSpan(*types.Span)   { p.n.Add(1) }

// -------------------------------------------------------------------------------------
// The driver
// -------------------------------------------------------------------------------------

type E1 struct {
	tb        testing.TB
	Cfg       *config.MockConfig
	cfgW      *e1Config
	Stress    *E1Stress
	coll      *InMemCollector
	sf        *sample.SamplerFactory
	clock     *clockwork.FakeClock
	cclock    *e1Clock
	t0        time.Time
	tick      time.Duration
	ticksDone int64 // number of send ticks processed so far (tick k is at t0+k·tick)
	met       *e1Metrics
	health    *e1Health
	rec       *e1Recorder
	peer      *e1PeerSink

	step    atomic.Int64
	nextID  int
	sentN   int64
	added   []E1Added
	ops     []E1Op
	ticks   []E1Tick
	failed  string
	stopped bool
	hooks   []func(*E1View)
	slow    []*e1SlowShim
	dryLog  []e1DryAt // DryRun value and the step of the reload that set it (entry 0: start value)
	parked  []chan struct{}
}

var e1Epoch = time.Date(2024, 3, 1, 12, 0, 0, 0, time.UTC)

func e1Start(tb testing.TB, c E1Config) *E1 {
	tb.Helper()
	if c.Workers < 1 {
		c.Workers = 1
	}
	if c.Traces.SendTicker <= 0 {
		tb.Fatalf("E1: SendTicker must be > 0")
	}
	if c.IncomingQueue == 0 {
		c.IncomingQueue = 10000
	}
	if c.PeerQueue == 0 {
		c.PeerQueue = 10000
	}
	if c.KeptSize == 0 {
		c.KeptSize = 10000 * uint(c.Workers)
	}
	if c.DroppedSize == 0 {
		c.DroppedSize = 20000 * uint(c.Workers)
	}
	samplers := map[string]*config.V2SamplerChoice{}
	for k, v := range c.Samplers {
		samplers[k] = v
	}
	if _, ok := samplers["__default__"]; !ok {
		samplers["__default__"] = &config.V2SamplerChoice{DeterministicSampler: &config.DeterministicSamplerConfig{SampleRate: 1}}
	}
	mc := &config.MockConfig{
		GetTracesConfigVal: c.Traces,
		GetCollectionConfigVal: config.CollectionConfig{
			WorkerCount:        c.Workers,
			IncomingQueueSize:  c.IncomingQueue,
			PeerQueueSize:      c.PeerQueue,
			HealthCheckTimeout: config.Duration(e1OrHour(c.HealthTimeout)),
			ShutdownDelay:      config.Duration(time.Millisecond),
		},
		SampleCache: config.SampleCacheConfig{
			KeptSize:          c.KeptSize,
			DroppedSize:       c.DroppedSize,
			SizeCheckInterval: config.Duration(time.Hour),
		},
		Samplers:               samplers,
		GetSamplerTypeVal:      &config.DeterministicSamplerConfig{SampleRate: 1},
		DryRun:                 c.DryRun,
		AddRuleReasonToTrace:   c.AddRuleReason,
		AddSpanCountToRoot:     c.AddSpanCount,
		AddHostMetadataToTrace: c.AddHostMeta,
		AdditionalAttributes:   c.Attributes,
		TraceIdFieldNames:      []string{"trace.trace_id", "traceId"},
		ParentIdFieldNames:     []string{"trace.parent_id", "parentId"},
	}
	e := &E1{tb: tb, Cfg: mc, cfgW: &e1Config{MockConfig: mc}, Stress: &E1Stress{}, met: newE1Metrics(), health: &e1Health{},
		peer: &e1PeerSink{}, clock: clockwork.NewFakeClockAt(e1Epoch), t0: e1Epoch, tick: time.Duration(c.Traces.SendTicker)}
	e.cclock = &e1Clock{FakeClock: e.clock}
	e.dryLog = []e1DryAt{{0, c.DryRun}}
	e.rec = &e1Recorder{e: e, sentinel: make(chan int64, 4)}
	e.sf = &sample.SamplerFactory{Config: e.cfgW, Metrics: e.met, Logger: &logger.NullLogger{}}
	if err := e.sf.Start(); err != nil {
		tb.Fatalf("E1: sampler factory: %v", err)
	}
	e.coll = &InMemCollector{
		Config:           e.cfgW,
		Clock:            e.cclock,
		Logger:           &logger.NullLogger{},
		Tracer:           noop.NewTracerProvider().Tracer("verif"),
		Health:           e.health,
		Transmission:     e.rec,
		PeerTransmission: e.peer,
		Metrics:          e.met,
		StressRelief:     e.Stress,
		SamplerFactory:   e.sf,
		Peers:            peer.NewMockPeers([]string{"self"}, "self"),
		Sharder:          &sharder.MockSharder{Self: &sharder.TestShard{Addr: "self"}},
	}
	if err := e.coll.Start(); err != nil {
		tb.Fatalf("E1: collector start: %v", err)
	}
	// every worker must have created its ticker (at t0) before the clock moves
	e.waitFor("workers started", func() bool {
		for _, w := range e1adWorkers(e.coll) {
			if e1adLastTick(w) == 0 {
				return false
			}
		}
		return true
	})
	e.logOp("start", c.describe())
	e.quiesce(0)
	return e
}

func (c E1Config) describe() map[string]any {
	s := map[string]any{}
	for k, v := range c.Samplers {
		s[k] = e1DescribeSampler(v)
	}
	return map[string]any{
		"workers": c.Workers, "send_ticker": time.Duration(c.Traces.SendTicker).String(), "send_delay": time.Duration(c.Traces.SendDelay).String(),
		"trace_timeout": time.Duration(c.Traces.TraceTimeout).String(), "span_limit": c.Traces.SpanLimit, "max_expired": c.Traces.MaxExpiredTraces,
		"incoming_queue": c.IncomingQueue, "peer_queue": c.PeerQueue, "kept_size": c.KeptSize, "dropped_size": c.DroppedSize,
		"dry_run": c.DryRun, "add_rule_reason": c.AddRuleReason, "samplers": s,
	}
}

func e1DescribeSampler(v *config.V2SamplerChoice) any {
	if v == nil {
		return nil
	}
	b, err := json.Marshal(v)
	if err != nil {
		return fmt.Sprintf("%+v", v)
	}
	var out map[string]any
	_ = json.Unmarshal(b, &out)
	for k, x := range out {
		if x == nil {
			delete(out, k)
		}
	}
	return out
}

// Stop shuts the collector down (also after a watchdog failure, best effort).
func (e *E1) Stop() {
	if e.stopped {
		return
	}
	e.stopped = true
	e.resume()
	done := make(chan struct{})
	go func() {
		_ = e.coll.Stop()
		e.sf.Stop()
		close(done)
	}()
	select {
	case <-done:
	case <-time.After(e1Watchdog):
		e.fail("collector Stop did not return")
	}
}

func (e *E1) Failed() string              { return e.failed }
func (e *E1) Step() int                   { return int(e.step.Load()) }
func (e *E1) Now() time.Duration          { return e.clock.Now().Sub(e.t0) }
func (e *E1) Tick() time.Duration         { return e.tick }
func (e *E1) Workers() int                { return len(e1adWorkers(e.coll)) }
func (e *E1) Ops() []E1Op                 { return e.ops }
func (e *E1) Added() []E1Added            { return e.added }
func (e *E1) WorkerOf(traceID string) int { return e1adWorkerFor(e.coll, traceID) }
func (e *E1) Counter(name string) int64   { return e.met.counter(name) }
func (e *E1) Config() config.Config       { return e.cfgW }

type e1DryAt struct {
	step int
	on   bool
}

// DryRunAt reports the DryRun setting in force during the given step. A reload that toggles it is a step of
// its own in which nothing is forwarded; the new value applies to every later step.
func (e *E1) DryRunAt(step int) bool {
	on := e.dryLog[0].on
	for _, d := range e.dryLog[1:] {
		if d.step < step {
			on = d.on
		}
	}
	return on
}

// DryRunOnThroughout reports whether DryRun was on during every step from..to (inclusive).
func (e *E1) DryRunOnThroughout(from, to int) bool {
	if !e.DryRunAt(from) {
		return false
	}
	for _, d := range e.dryLog[1:] {
		if d.step >= from && d.step < to && !d.on {
			return false
		}
	}
	return true
}

// DryRunEverOn reports whether DryRun was on at any time so far.
func (e *E1) DryRunEverOn() bool {
	for _, d := range e.dryLog {
		if d.on {
			return true
		}
	}
	return false
}

// E1Tick is one processed send tick: the step it was processed in and its virtual instant.
type E1Tick struct {
	Step int           `json:"step"`
	At   time.Duration `json:"at"`
}

// TickTimes lists all send ticks processed so far (deterministic ones: one step each).
func (e *E1) TickTimes() []E1Tick { return e.ticks }

// IsTickStep reports whether the current step processed a send tick, and its instant.
func (e *E1) IsTickStep() (time.Duration, bool) {
	if n := len(e.ticks); n > 0 && e.ticks[n-1].Step == e.Step() {
		return e.ticks[n-1].At, true
	}
	return 0, false
}

// QueueCaps reports the per-worker queue capacities Refinery derived from the configuration.
func (e *E1) QueueCaps() (incoming, peer int) { return e1adQueueCaps(e1adWorkers(e.coll)[0]) }

func (e *E1) Events() []E1Event { return e.EventsFrom(0) }

// EventsFrom returns the events with Seq ≥ seq (a copy of the slice header; snapshots are immutable).
func (e *E1) EventsFrom(seq int) []E1Event {
	e.rec.mu.Lock()
	defer e.rec.mu.Unlock()
	if seq >= len(e.rec.events) {
		return nil
	}
	return append([]E1Event(nil), e.rec.events[seq:]...)
}

func (e *E1) EventCount() int {
	e.rec.mu.Lock()
	defer e.rec.mu.Unlock()
	return len(e.rec.events)
}

// OnQuiesce registers a hook that runs at the end of EVERY step while the workers are parked.
func (e *E1) OnQuiesce(fn func(*E1View)) { e.hooks = append(e.hooks, fn) }

func (e *E1) fail(why string) {
	if e.failed == "" {
		e.failed = fmt.Sprintf("E1 watchdog at step %d: %s", e.Step(), why)
	}
}

func (e *E1) logOp(op string, detail any) {
	e.ops = append(e.ops, E1Op{Step: e.Step(), VTime: e.Now().String(), Op: op, Detail: detail})
}

func (e *E1) waitFor(what string, cond func() bool) bool {
	if e.failed != "" {
		return false
	}
	deadline := time.Now().Add(e1Watchdog)
	for i := 0; ; i++ {
		if cond() {
			return true
		}
		switch {
		case i < 200:
			runtime.Gosched()
		default:
			time.Sleep(20 * time.Microsecond)
			if i%512 == 0 && time.Now().After(deadline) {
				e.fail("timed out waiting for " + what)
				return false
			}
		}
	}
}

// park performs the pause handshake with every worker and keeps them parked.
func (e *E1) park() bool {
	if len(e.parked) > 0 {
		return true
	}
	giveUp := time.After(e1Watchdog)
	for _, w := range e1adWorkers(e.coll) {
		ch, ok := e1adPause(w, giveUp)
		if !ok {
			e.fail("pause handshake not accepted")
			e.resume()
			return false
		}
		e.parked = append(e.parked, ch)
	}
	return true
}

// resume releases the parked workers and then lets each of them finish the interrupted loop iteration and
// begin the next one (its first action is Clock.Now(), which e1Clock counts) BEFORE the driver goes on. A
// worker is thus back in its select, with the loop-top time of THIS step, when the next step moves the clock —
// the schedule of an idle worker that sleeps through a deadline. The wait is bounded and best effort: it
// shapes the schedule, nothing depends on it for correctness (a Now() call by the monitor may end it early).
func (e *E1) resume() {
	n := int64(len(e.parked))
	base := e.cclock.nowCalls.Load()
	for _, ch := range e.parked {
		close(ch)
	}
	e.parked = nil
	if n == 0 || e.stopped {
		return
	}
	for i := 0; i < 4000 && e.cclock.nowCalls.Load() < base+n; i++ {
		if i < 2000 {
			runtime.Gosched()
		} else {
			time.Sleep(10 * time.Microsecond)
		}
	}
}

// sentinel pushes a marker through tracesToSend and waits for it at the recorder.
func (e *E1) sentinel() bool {
	e.sentN++
	n := e.sentN
	ev := &types.Event{APIHost: e1APIHost, APIKey: e1APIKey, Dataset: "verif-sentinel", Timestamp: e1Epoch,
		Data: types.NewPayload(e.cfgW, map[string]any{e1FieldSentinel: n})}
	tr := &types.Trace{TraceID: "verif-sentinel", APIKey: e1APIKey, Dataset: "verif-sentinel"}
	tr.AddSpan(&types.Span{Event: ev, TraceID: "verif-sentinel"})
	e1adPushSentinel(e.coll, tr)
	select {
	case got := <-e.rec.sentinel:
		if got != n {
			e.fail(fmt.Sprintf("sentinel %d arrived, expected %d", got, n))
			return false
		}
		return true
	case <-time.After(e1Watchdog):
		e.fail("sentinel did not reach the recorder")
		return false
	}
}

// quiesce implements steps 1–5 of the protocol in the header. tickAt ≠ 0: the unix-nano instant of the
// send tick this step landed on.
func (e *E1) quiesce(tickAt int64) {
	if e.failed != "" {
		return
	}
	ws := e1adWorkers(e.coll)
	if !e.waitFor("queues empty", func() bool {
		for _, w := range ws {
			if !e1adQueuesEmpty(w) {
				return false
			}
		}
		return true
	}) {
		return
	}
	if tickAt != 0 {
		if !e.waitFor("send tick processed", func() bool {
			for _, w := range ws {
				if e1adLastTick(w) < tickAt { // == tickAt unless a shim moved the clock further meanwhile
					return false
				}
			}
			return true
		}) {
			return
		}
	}
	if !e.park() {
		return
	}
	if !e.sentinel() {
		e.resume()
		return
	}
	if len(e.hooks) > 0 {
		v := &E1View{e: e}
		for _, h := range e.hooks {
			h(v)
		}
	}
	e.resume()
}

// Inspect runs fn while every worker is parked between two loop iterations.
func (e *E1) Inspect(fn func(*E1View)) {
	if e.failed != "" {
		return
	}
	if !e.park() {
		return
	}
	fn(&E1View{e: e})
	e.resume()
}

func (e *E1) beginStep() int { return int(e.step.Add(1)) }

// NewSpan builds a span description with a fresh verif.id.
func (e *E1) NewSpan(trace, kind string) E1Span {
	e.nextID++
	return E1Span{ID: fmt.Sprintf("s%d", e.nextID), Trace: trace, Kind: kind, Env: "env-a", Dataset: "ds"}
}

func (e *E1) build(s E1Span) *types.Span {
	data := map[string]any{
		e1FieldID:        s.ID,
		"trace.trace_id": s.Trace,
		"trace.span_id":  "sp-" + s.ID,
		"verif.kind":     s.Kind,
	}
	if s.Kind != "root" {
		data["trace.parent_id"] = "sp-parent"
	}
	for k, v := range s.Fields {
		data[k] = v
	}
	ev := &types.Event{
		APIHost: e1APIHost, APIKey: e1APIKey, Dataset: s.Dataset, Environment: s.Env, SampleRate: s.Rate,
		Timestamp: e1Epoch.Add(-time.Minute),
		Data:      types.NewPayload(e.cfgW, data),
	}
	ev.Data.MetaTraceID = s.Trace
	switch s.Kind {
	case "event":
		ev.Data.Set("meta.annotation_type", "span_event")
	case "link":
		ev.Data.Set("meta.annotation_type", "link")
	}
	return &types.Span{Event: ev, TraceID: s.Trace, IsRoot: s.Kind == "root"}
}

func (e *E1) hand(s E1Span) error {
	sp := e.build(s)
	var err error
	if s.Peer {
		err = e.coll.AddSpanFromPeer(sp)
	} else {
		err = e.coll.AddSpan(sp)
	}
	a := E1Added{Span: s, Step: e.Step(), VTime: e.Now(), Accepted: err == nil, Worker: e.WorkerOf(s.Trace)}
	if err != nil {
		a.Err = err.Error()
	}
	e.added = append(e.added, a)
	return err
}

// AddSpan hands one span to AddSpan/AddSpanFromPeer and quiesces.
func (e *E1) AddSpan(s E1Span) error {
	if e.failed != "" {
		return fmt.Errorf("E1 failed")
	}
	e.beginStep()
	e.logOp("span", s)
	err := e.hand(s)
	e.quiesce(0)
	return err
}

// Burst hands several spans over without quiescing in between. held=true parks the workers first so
// that the queues fill deterministically (capacity, then ErrWouldBlock).
func (e *E1) Burst(spans []E1Span, held bool) []error {
	if e.failed != "" {
		return nil
	}
	e.beginStep()
	e.logOp("burst", map[string]any{"held": held, "spans": spans})
	if held && !e.park() {
		return nil
	}
	errs := make([]error, len(spans))
	for i, s := range spans {
		errs[i] = e.hand(s)
	}
	if held {
		e.resume()
	}
	e.quiesce(0)
	return errs
}

// AddStressed does what route.processEvent does while the collector reports Stressed():
// ProcessSpanImmediately. The caller scripts e.Stress.
func (e *E1) AddStressed(s E1Span) (processed, kept bool) {
	if e.failed != "" {
		return false, false
	}
	e.beginStep()
	e.logOp("stressed-span", s)
	sp := e.build(s)
	processed, kept = e.coll.ProcessSpanImmediately(sp)
	e.added = append(e.added, E1Added{Span: s, Step: e.Step(), VTime: e.Now(), Accepted: processed, Stressed: true, Kept: kept, Worker: e.WorkerOf(s.Trace)})
	e.quiesce(0)
	return processed, kept
}

// Advance moves the fake clock by d. Every send tick on the way is processed at its own instant and
// is a step of its own.
func (e *E1) Advance(d time.Duration) {
	if e.failed != "" || d < 0 {
		return
	}
	e.logOp("advance", d.String())
	target := e.clock.Now().Add(d)
	for e.failed == "" {
		e.syncTicks()
		next := e.t0.Add(time.Duration(e.ticksDone+1) * e.tick)
		if next.After(target) {
			break
		}
		e.beginStep()
		e.clock.Advance(max(next.Sub(e.clock.Now()), 0))
		e.ticksDone++
		e.ticks = append(e.ticks, E1Tick{Step: e.Step(), At: next.Sub(e.t0)})
		e.quiesce(next.UnixNano())
	}
	if e.failed != "" {
		return
	}
	if rest := target.Sub(e.clock.Now()); rest > 0 {
		e.beginStep()
		e.clock.Advance(rest)
		e.quiesce(0)
	}
}

// syncTicks re-aligns the driver's tick count with the clock. It changes nothing unless somebody other than
// the driver moved the FakeClock (a sampler shim that "takes" fake time inside GetSampleRate, see C02's
// slow-decisions list): the fake tickers stay on the grid t0+k·SendTicker, so the number of grid instants that
// have passed is floor((now-t0)/tick). Ticks skipped that way were delivered (at most one buffered per ticker)
// or dropped by the FakeClock, exactly as for a real overrunning worker.
func (e *E1) syncTicks() {
	if k := int64(e.clock.Now().Sub(e.t0) / e.tick); k > e.ticksDone {
		e.ticksDone = k
	}
}

// FakeClock exposes the shared clock to sampler shims that model slow decisions by advancing it.
func (e *E1) FakeClock() *clockwork.FakeClock { return e.clock }

// AdvanceToNextTick advances exactly onto the next send tick.
func (e *E1) AdvanceToNextTick() {
	e.syncTicks()
	next := e.t0.Add(time.Duration(e.ticksDone+1) * e.tick)
	e.Advance(next.Sub(e.clock.Now()))
}

// AdvanceJump moves the clock by d with ONE FakeClock.Advance call. Workers see one or two ticks, all at
// the end instant; cheap, but not step-deterministic. Afterwards ticks are re-aligned.
func (e *E1) AdvanceJump(d time.Duration) {
	if e.failed != "" || d <= 0 {
		return
	}
	e.beginStep()
	e.logOp("advance-jump", d.String())
	before := e.ticksDone
	e.clock.Advance(d)
	now := e.clock.Now()
	e.ticksDone = int64(now.Sub(e.t0) / e.tick)
	if e.ticksDone > before {
		// at least one tick fired; workers process it with Clock.Now()==now
		e.ticks = append(e.ticks, E1Tick{Step: e.Step(), At: now.Sub(e.t0)})
		e.quiesce(now.UnixNano())
		// a second tick may still sit in a ticker channel; let it be consumed (it is processed at `now` too)
		e.beginStep()
		e.quiesceLoose()
	} else {
		e.quiesce(0)
	}
}

// quiesceLoose: a few rounds of park/resume so that a stale buffered tick is consumed before going on.
func (e *E1) quiesceLoose() {
	for i := 0; i < 3 && e.failed == ""; i++ {
		runtime.Gosched()
		e.quiesce(0)
	}
}

// Reload mutates the MockConfig (nil: no change), triggers the reload callbacks and waits until the
// monitor has propagated the reload and every worker has handled it.
func (e *E1) Reload(what string, mutate func(*config.MockConfig)) {
	if e.failed != "" {
		return
	}
	e.beginStep()
	e.logOp("reload", what)
	if !e.waitFor("previous reload drained", func() bool { return e1adReloadIdle(e.coll) }) {
		return
	}
	n0 := e.cfgW.sampleCacheCalls.Load()
	u0 := e.Stress.updates.Load()
	if mutate != nil {
		e.Cfg.Mux.Lock()
		mutate(e.Cfg)
		dry := e.Cfg.DryRun
		e.Cfg.Mux.Unlock()
		if dry != e.dryLog[len(e.dryLog)-1].on {
			e.dryLog = append(e.dryLog, e1DryAt{e.Step(), dry})
		}
	}
	if err := e.Cfg.Reload(); err != nil {
		e.fail("MockConfig.Reload: " + err.Error())
		return
	}
	want := n0 + int64(e.Workers())
	if !e.waitFor("monitor ran reloadConfigs", func() bool { return e.Stress.updates.Load() > u0 }) {
		return
	}
	if !e.waitFor("every worker handled its reload signal", func() bool { return e.cfgW.sampleCacheCalls.Load() >= want }) {
		return
	}
	e.quiesce(0)
}

// Eject sends the sendEarly message (bytes budget) to one worker, or to all when worker < 0.
func (e *E1) Eject(worker int, bytes int) {
	if e.failed != "" {
		return
	}
	e.beginStep()
	e.logOp("eject", map[string]any{"worker": worker, "bytes": bytes})
	ws := e1adWorkers(e.coll)
	if worker >= 0 {
		ws = ws[worker%len(ws) : worker%len(ws)+1]
	}
	select {
	case <-e1adEject(ws, bytes):
	case <-time.After(e1Watchdog):
		e.fail("eject not acknowledged")
		return
	}
	e.quiesce(0)
}

// TickWithFullOutgoingQueue advances the clock onto the next send tick while the collector's outgoing queue
// (tracesToSend, 100 000 slots) is COMPLETELY full because the upstream Transmission does not take anything:
//  1. the recorder's gate is closed (every Enqueue call blocks, like a Transmission whose own queue is full);
//  2. one filler trace is queued and sendTraces is seen blocked inside EnqueueSpan with it;
//  3. cap(tracesToSend) more fillers are queued (one shared one-span trace; the recorder swallows fillers) — full;
//  4. the clock moves onto the tick; the workers decide what is due and hand it to send(). A correct collector
//     blocks there until there is room;
//  5. after the workers had time to attempt every hand-over, the gate is opened, everything drains, and the step
//     quiesces as usual.
//
// Traces decided in this step are reported by the recorder with this step's index.
func (e *E1) TickWithFullOutgoingQueue() {
	if e.failed != "" {
		return
	}
	e.syncTicks()
	next := e.t0.Add(time.Duration(e.ticksDone+1) * e.tick)
	if pre := next.Sub(e.clock.Now()); pre > e.tick {
		e.fail("TickWithFullOutgoingQueue: clock is more than one tick before the next tick")
		return
	}
	e.beginStep()
	e.logOp("stalled-tick", next.Sub(e.t0).String())
	filler := &types.Trace{TraceID: "verif-filler", APIKey: e1APIKey, Dataset: "verif-filler"}
	filler.AddSpan(&types.Span{TraceID: "verif-filler", Event: &types.Event{APIHost: e1APIHost, APIKey: e1APIKey, Dataset: "verif-filler", Timestamp: e1Epoch,
		Data: types.NewPayload(e.cfgW, map[string]any{e1FieldFiller: true})}})
	g := make(chan struct{})
	e.rec.mu.Lock()
	e.rec.gate = g
	e.rec.mu.Unlock()
	open := func() {
		e.rec.mu.Lock()
		if e.rec.gate != nil {
			close(e.rec.gate)
			e.rec.gate = nil
		}
		e.rec.mu.Unlock()
	}
	b0 := e.rec.blocked.Load()
	if !e1adTryPushOutgoing(e.coll, filler) || !e.waitFor("sendTraces blocked in the stalled transmission", func() bool { return e.rec.blocked.Load() > b0 }) {
		open()
		e.fail("could not stall sendTraces")
		return
	}
	for n := e1adOutgoingCap(e.coll); n > 0; n-- {
		if !e1adTryPushOutgoing(e.coll, filler) {
			break
		}
	}
	if e1adOutgoingLen(e.coll) != e1adOutgoingCap(e.coll) {
		open()
		e.fail("could not fill the outgoing queue")
		return
	}
	_, applied0 := e.DecisionCounts()
	e.clock.Advance(max(next.Sub(e.clock.Now()), 0))
	e.ticksDone++
	e.ticks = append(e.ticks, E1Tick{Step: e.Step(), At: next.Sub(e.t0)})
	// let the workers reach send(): at least one decision applied (bounded), then give them time for the rest
	for i := 0; i < 20000; i++ {
		if _, a := e.DecisionCounts(); a > applied0 {
			break
		}
		if i < 2000 {
			runtime.Gosched()
		} else {
			time.Sleep(20 * time.Microsecond)
		}
	}
	for i := 0; i < 400; i++ {
		runtime.Gosched()
	}
	time.Sleep(2 * time.Millisecond)
	e.logOp("stalled-tick-release", map[string]any{"outgoing_len": e1adOutgoingLen(e.coll), "fillers_swallowed": e.rec.fillers.Load()})
	open()
	e.quiesce(next.UnixNano())
}

// e1SlowShim wraps a real sampler and "takes" fake time per decision by advancing the shared FakeClock.
type e1SlowShim struct {
	inner sample.Sampler
	clock *clockwork.FakeClock
	mu    sync.Mutex
	rng   *verifkit.Rand
	maxMs int
	Calls int
	Spent time.Duration
}

func (s *e1SlowShim) Start() error                       { return nil }
func (s *e1SlowShim) GetKeyFields() ([]string, []string) { return s.inner.GetKeyFields() }
func (s *e1SlowShim) GetSampleRate(tr *types.Trace) (uint, bool, string, string) {
	s.mu.Lock()
	d := time.Duration(s.rng.Range(0, s.maxMs)) * time.Millisecond
	s.Calls++
	s.Spent += d
	s.mu.Unlock()
	if d > 0 {
		s.clock.Advance(d)
	}
	return s.inner.GetSampleRate(tr)
}

// InstallSlowShim wraps the real sampler of environment env (built by the real SamplerFactory) in every worker
// with a shim that advances the FakeClock by 0..maxMs ms per decision. Only sound for single-worker collectors
// and timing-insensitive oracles (see notes/C02.md, slow decisions). A reload removes the shim.
func (e *E1) InstallSlowShim(env string, seed uint64, maxMs int) {
	if e.failed != "" {
		return
	}
	e.logOp("slow-shim", map[string]any{"env": env, "max_ms": maxMs})
	shim := &e1SlowShim{clock: e.clock, rng: verifkit.NewRand(seed), maxMs: maxMs}
	e.Inspect(func(*E1View) {
		shim.inner = e.sf.GetSamplerImplementationForKey(env)
		if shim.inner == nil {
			return
		}
		for _, w := range e1adWorkers(e.coll) {
			e1adInjectSampler(w, env, shim)
		}
	})
	if shim.inner == nil {
		e.fail("slow shim: sampler factory returned no sampler")
		return
	}
	e.slow = append(e.slow, shim)
}

// SlowSpent reports the fake time all installed slow shims have consumed and the number of decisions they saw.
func (e *E1) SlowSpent() (time.Duration, int) {
	var d time.Duration
	n := 0
	for _, s := range e.slow {
		s.mu.Lock()
		d += s.Spent
		n += s.Calls
		s.mu.Unlock()
	}
	return d, n
}

// EffectiveTimes returns SendDelay and TraceTimeout with Refinery's documented zero defaults applied.
func (e *E1) EffectiveTimes() (sendDelay, traceTimeout time.Duration) {
	tc := e.Cfg.GetTracesConfig()
	sendDelay, traceTimeout = tc.GetSendDelay(), tc.GetTraceTimeout()
	if sendDelay == 0 {
		sendDelay = 2 * time.Second
	}
	if traceTimeout == 0 {
		traceTimeout = 60 * time.Second
	}
	return
}

// Flush is the bounded-progress step: after the last input, advance TraceTimeout + SendDelay +
// ⌈backlog/MaxExpiredTraces⌉·SendTicker + one tick. jump=true crosses the first part with AdvanceJump.
func (e *E1) Flush(jump bool) {
	if e.failed != "" {
		return
	}
	e.logOp("flush", map[string]any{"jump": jump})
	backlog := 0
	e.Inspect(func(v *E1View) {
		for w := 0; w < e.Workers(); w++ {
			if n := v.BufferCount(w); n > backlog {
				backlog = n
			}
		}
	})
	sd, tt := e.EffectiveTimes()
	extra := 1
	if m := int(e.Cfg.GetTracesConfig().MaxExpiredTraces); m > 0 {
		extra += (backlog + m - 1) / m
	}
	if jump {
		e.AdvanceJump(tt + sd)
		e.AdvanceToNextTick()
	} else {
		e.Advance(tt + sd)
	}
	for i := 0; i < extra; i++ {
		e.AdvanceToNextTick()
	}
}

// ----- E1View (valid only inside Inspect / OnQuiesce hooks) ---------------------------

func (v *E1View) BufferCount(worker int) int { return e1adBufferCount(e1adWorkers(v.e.coll)[worker]) }

func (v *E1View) Buffered() []E1Buffered {
	var out []E1Buffered
	for i, w := range e1adWorkers(v.e.coll) {
		for _, tr := range e1adBuffered(w) {
			b := E1Buffered{Worker: i, Trace: tr.TraceID, HasRoot: tr.RootSpan != nil, Sent: tr.Sent, SendBy: tr.SendBy.Sub(v.e.t0), DataSize: tr.DataSize}
			for _, sp := range tr.GetSpans() {
				id, _ := sp.Data.Get(e1FieldID).(string)
				b.SpanIDs = append(b.SpanIDs, id)
			}
			out = append(out, b)
		}
	}
	sort.Slice(out, func(i, j int) bool { return out[i].Trace < out[j].Trace })
	return out
}

// CheckTrace asks the owning worker's decision cache. NOTE: a hit on a kept record refreshes its LRU
// recency — call it only where that cannot disturb the oracle (end of history).
func (v *E1View) CheckTrace(traceID string) E1Decision {
	w := e1adWorkers(v.e.coll)[v.e.WorkerOf(traceID)]
	found, kept, rate, reason := e1adCheckTrace(w, traceID)
	return E1Decision{Found: found, Kept: kept, Rate: rate, Reason: reason}
}

// -------------------------------------------------------------------------------------
// Shared oracle helpers (used by more than one property)
// -------------------------------------------------------------------------------------

// E1TraceObs is everything observed about one trace id in one history.
type E1TraceObs struct {
	Trace     string
	Worker    int
	Accepted  []E1Added // accepted spans in hand-over order
	Rejected  []E1Added
	Forwarded map[string][]E1Event // by verif.id
	Final     E1Decision
}

// E1Final is the end-of-history observation set.
type E1Final struct {
	Traces      map[string]*E1TraceObs
	Order       []string     // trace ids in first-seen order
	Unknown     []E1Event    // events whose verif.id was never handed over
	BufferLeft  []E1Buffered // traces still buffered
	DropClaims  int          // trace ids of this history the dropped filter claims
	DropCounter int64        // trace_send_dropped
	StressDrops int64        // dropped_from_stress
	Made        int64        // sampler decisions made (makeDecision): trace_send_has_root + trace_send_no_root
	Applied     int64        // decisions applied (send): trace_send_kept + trace_send_dropped
	FilterLag   int          // ids still unanswered by the decision cache when the wall-clock bound expired
}

const e1FilterLagBound = 2 * time.Second

var e1FilterLagSeen atomic.Bool

// Finalize collects the end-of-history observations. It probes CheckTrace for every trace id, so it
// must be the last thing done with the collector.
func (e *E1) Finalize() *E1Final {
	f := &E1Final{Traces: map[string]*E1TraceObs{}}
	byID := map[string]*E1TraceObs{}
	for _, a := range e.added {
		t := f.Traces[a.Span.Trace]
		if t == nil {
			t = &E1TraceObs{Trace: a.Span.Trace, Worker: a.Worker, Forwarded: map[string][]E1Event{}}
			f.Traces[a.Span.Trace] = t
			f.Order = append(f.Order, a.Span.Trace)
		}
		if a.Accepted {
			t.Accepted = append(t.Accepted, a)
		} else {
			t.Rejected = append(t.Rejected, a)
		}
		byID[a.Span.ID] = t
	}
	for _, ev := range e.Events() {
		t := byID[ev.ID]
		if t == nil || ev.ID == "" {
			f.Unknown = append(f.Unknown, ev)
			continue
		}
		t.Forwarded[ev.ID] = append(t.Forwarded[ev.ID], ev)
	}
	// The dropped-trace filter is filled by a goroutine on a 100µs REAL ticker, so a drop decision may not
	// be visible to CheckTrace yet. Synchronise on the effect: re-probe ids that have no answer and that
	// cannot be kept records (nothing forwarded; or dry run) until they answer, with a wall-clock bound
	// whose expiry is only ever reported as FilterLag (never as a verdict by itself). Probing an id that
	// is not in the kept LRU does not change any recency.
	dry := e.DryRunEverOn()
	bound := e1FilterLagBound
	if e1FilterLagSeen.Load() {
		bound = 20 * time.Millisecond
	}
	deadline := time.Now().Add(bound)
	for round := 0; ; round++ {
		pending := 0
		e.Inspect(func(v *E1View) {
			if round == 0 {
				f.BufferLeft = v.Buffered()
			}
			for _, id := range f.Order {
				t := f.Traces[id]
				if round > 0 && (t.Final.Found || len(t.Accepted) == 0 || !(dry || t.ForwardedCount() == 0)) {
					continue
				}
				t.Final = v.CheckTrace(id)
				if !t.Final.Found && len(t.Accepted) > 0 && (dry || t.ForwardedCount() == 0) {
					pending++
				}
			}
		})
		if pending == 0 || len(f.BufferLeft) > 0 || e.failed != "" {
			break
		}
		if time.Now().After(deadline) {
			f.FilterLag = pending
			e1FilterLagSeen.Store(true)
			break
		}
		time.Sleep(200 * time.Microsecond)
	}
	for _, id := range f.Order {
		if t := f.Traces[id]; t.Final.Found && !t.Final.Kept {
			f.DropClaims++
		}
	}
	f.DropCounter = e.Counter("trace_send_dropped")
	f.Made, f.Applied = e.DecisionCounts()
	f.StressDrops = e.Counter("dropped_from_stress")
	return f
}

// FirstForwardStep returns the step of the first forwarded event of the trace (-1: none).
func (t *E1TraceObs) FirstForwardStep() int {
	first := -1
	for _, evs := range t.Forwarded {
		for _, ev := range evs {
			if first < 0 || ev.Step < first {
				first = ev.Step
			}
		}
	}
	return first
}

// ForwardedCount counts distinct accepted span ids that were forwarded at least once.
func (t *E1TraceObs) ForwardedCount() int {
	n := 0
	for _, a := range t.Accepted {
		if len(t.Forwarded[a.Span.ID]) > 0 {
			n++
		}
	}
	return n
}

// E1SurelyRetained: measured (not assumed) version of "the kept decision has not aged out". The kept
// record of t was created at t's first forwarded event. It can only have been evicted if at least
// minKept distinct OTHER traces of the same worker used the kept LRU at or after that step; every such
// use (Record of a kept trace, CheckSpan hit for a late span) shows as a forwarded event of that trace.
func (f *E1Final) E1SurelyRetained(t *E1TraceObs, minKeptPerWorker int) bool {
	s := t.FirstForwardStep()
	if s < 0 {
		return true
	}
	others := 0
	for _, id := range f.Order {
		u := f.Traces[id]
		if u == t || u.Worker != t.Worker {
			continue
		}
		used := false
		for _, evs := range u.Forwarded {
			for _, ev := range evs {
				if ev.Step >= s {
					used = true
				}
			}
		}
		if used {
			others++
		}
	}
	return others < minKeptPerWorker
}

// DecisionCounts returns how many sampler decisions the workers made (makeDecision counts
// trace_send_has_root / trace_send_no_root) and how many were applied (send counts trace_send_kept /
// trace_send_dropped). On a correct collector every decision made is applied in the same loop iteration, so
// the two are equal at every quiescent point; a surplus of made decisions means decisions were RECORDED in the
// decision cache for traces that were not sent or dropped.
func (e *E1) DecisionCounts() (made, applied int64) {
	return e.Counter("trace_send_has_root") + e.Counter("trace_send_no_root"), e.Counter("trace_send_kept") + e.Counter("trace_send_dropped")
}

// PhantomDecisions is Made - Applied (0 on a correct collector). While it is non-zero a "dropped" answer of the
// filter that no drop decision accounts for is NOT evidence of a false positive.
func (f *E1Final) PhantomDecisions() int64 { return f.Made - f.Applied }

// DropFilterExcess: the dropped-trace filter answered "dropped" for DropClaims ids of this history while
// Refinery made DropCounter+StressDrops drop decisions. A positive excess is the measured number of
// false positives among this history's ids (lower bound 0).
func (f *E1Final) DropFilterExcess() int {
	x := f.DropClaims - int(f.DropCounter) - int(f.StressDrops)
	if x < 0 {
		return 0
	}
	return x
}

// -------------------------------------------------------------------------------------
// Shared workload: sampler definitions with a prediction function
// -------------------------------------------------------------------------------------

// E1SamplerDef is a sampler definition plus what the driver can predict about it.
type E1SamplerDef struct {
	Kind   string
	Choice *config.V2SamplerChoice
	// Predict returns the decision for a trace whose spans ALL carry verif.keep=keepField, when known.
	Predict func(traceID string, keepField bool) (keep bool, known bool)
}

func e1KeepValue(b bool) string {
	if b {
		return "yes"
	}
	return "no"
}

func e1Cond(field, op string, value any) *config.RulesBasedSamplerCondition {
	return &config.RulesBasedSamplerCondition{Field: field, Operator: op, Value: value, Datatype: "string"}
}

// e1DetPredict asks a private instance of the real DeterministicSampler (no collector involved).
func e1DetPredict(rate int) func(string, bool) (bool, bool) {
	ref := &sample.DeterministicSampler{Config: &config.DeterministicSamplerConfig{SampleRate: rate}, Logger: &logger.NullLogger{}, Metrics: &metrics.NullMetrics{}}
	_ = ref.Start()
	return func(id string, _ bool) (bool, bool) {
		_, keep, _, _ := ref.GetSampleRate(&types.Trace{TraceID: id})
		return keep, true
	}
}

// e1GenSampler draws a sampler definition. predictableOnly restricts to definitions whose outcome is a
// function of (trace id, verif.keep).
func e1GenSampler(rng *verifkit.Rand, predictableOnly bool) E1SamplerDef {
	n := 9
	if predictableOnly {
		n = 4
	}
	switch rng.Intn(n) {
	case 0:
		return E1SamplerDef{Kind: "det1", Choice: &config.V2SamplerChoice{DeterministicSampler: &config.DeterministicSamplerConfig{SampleRate: 1}},
			Predict: func(string, bool) (bool, bool) { return true, true }}
	case 1:
		r := verifkit.Pick(rng, 2, 3, 5)
		return E1SamplerDef{Kind: fmt.Sprintf("det%d", r), Choice: &config.V2SamplerChoice{DeterministicSampler: &config.DeterministicSamplerConfig{SampleRate: r}},
			Predict: e1DetPredict(r)}
	case 2:
		return E1SamplerDef{Kind: "rules-keep-field", Choice: &config.V2SamplerChoice{RulesBasedSampler: &config.RulesBasedSamplerConfig{Rules: []*config.RulesBasedSamplerRule{
			{Name: "keep-marked", SampleRate: 1, Conditions: []*config.RulesBasedSamplerCondition{e1Cond("verif.keep", "=", "yes")}},
			{Name: "drop-rest", Drop: true},
		}}}, Predict: func(_ string, k bool) (bool, bool) { return k, true }}
	case 3:
		return E1SamplerDef{Kind: "rules-drop-field", Choice: &config.V2SamplerChoice{RulesBasedSampler: &config.RulesBasedSamplerConfig{Rules: []*config.RulesBasedSamplerRule{
			{Name: "drop-marked", Drop: true, Scope: "span", Conditions: []*config.RulesBasedSamplerCondition{e1Cond("verif.keep", "=", "no")}},
			{Name: "keep-rest", SampleRate: 1},
		}}}, Predict: func(_ string, k bool) (bool, bool) { return k, true }}
	case 4:
		return E1SamplerDef{Kind: "rules-has-root", Choice: &config.V2SamplerChoice{RulesBasedSampler: &config.RulesBasedSamplerConfig{Rules: []*config.RulesBasedSamplerRule{
			{Name: "rooted", SampleRate: 1, Conditions: []*config.RulesBasedSamplerCondition{{Operator: config.HasRootSpan, Value: true}}},
			{Name: "rootless", Drop: true},
		}}}, Predict: func(string, bool) (bool, bool) { return false, false }}
	case 5:
		return E1SamplerDef{Kind: "rules-random-2", Choice: &config.V2SamplerChoice{RulesBasedSampler: &config.RulesBasedSamplerConfig{Rules: []*config.RulesBasedSamplerRule{
			{Name: "half", SampleRate: 2},
		}}}, Predict: func(string, bool) (bool, bool) { return false, false }}
	case 6:
		return E1SamplerDef{Kind: "dynamic-2", Choice: &config.V2SamplerChoice{DynamicSampler: &config.DynamicSamplerConfig{SampleRate: 2, FieldList: []string{"svc"}}},
			Predict: func(string, bool) (bool, bool) { return false, false }}
	case 7:
		return E1SamplerDef{Kind: "rules-span-count", Choice: &config.V2SamplerChoice{RulesBasedSampler: &config.RulesBasedSamplerConfig{Rules: []*config.RulesBasedSamplerRule{
			// depends on WHICH spans are in the buffer at decision time: only spans numbered "odd" keep the trace
			{Name: "has-odd", SampleRate: 1, Scope: "span", Conditions: []*config.RulesBasedSamplerCondition{e1Cond("verif.parity", "=", "odd")}},
			{Name: "even-only", Drop: true},
		}}}, Predict: func(string, bool) (bool, bool) { return false, false }}
	default:
		return E1SamplerDef{Kind: "rules-downstream-dynamic", Choice: &config.V2SamplerChoice{RulesBasedSampler: &config.RulesBasedSamplerConfig{Rules: []*config.RulesBasedSamplerRule{
			{Name: "dyn", Conditions: []*config.RulesBasedSamplerCondition{e1Cond("verif.keep", "=", "yes")},
				Sampler: &config.RulesBasedDownstreamSampler{DynamicSampler: &config.DynamicSamplerConfig{SampleRate: 2, FieldList: []string{"svc"}}}},
			{Name: "drop-rest", Drop: true},
		}}}, Predict: func(string, bool) (bool, bool) { return false, false }}
	}
}

// -------------------------------------------------------------------------------------
// Shared workload: lifecycle histories (C01, C02, C05)
// -------------------------------------------------------------------------------------

// E1Profile tunes the lifecycle workload.
type E1Profile struct {
	DryRun          bool
	TinyQueues      bool // queue capacity 1–3 per worker, held bursts ⇒ rejections
	PredictableOnly bool // only samplers with a known outcome
	SmallKept       bool // kept-decision capacity small enough that records can age out
	StressSpans     bool // some first spans go through ProcessSpanImmediately
	ToggleDryRun    bool // sampler reloads are replaced by reloads that switch DryRun on/off (sampler definitions stay fixed)
	MaxSteps        int
}

type e1TracePlan struct {
	ID      string
	Env     string
	Keep    bool
	Svc     string
	Rate    uint
	Spans   int
	HadRoot bool
}

// E1History is one generated lifecycle case: configuration + operation list.
type E1History struct {
	Cfg     E1Config
	Defs    map[string]E1SamplerDef // current definition per environment (follows reloads during Run)
	Plans   []*e1TracePlan
	Steps   []e1Step
	Profile E1Profile
	MinKept int // smallest kept capacity per worker over the history
}

type e1Step struct {
	Op     string // span burst advance reload-sampler reload-flags reload-same resize eject stress-span
	Spans  []E1Span
	Held   bool
	Dur    time.Duration
	Env    string
	Def    E1SamplerDef
	Kept   uint
	Worker int
	Bytes  int
	Flag   string
	Seed   uint64 // slow-shim: PRNG seed of the shim
}

func e1PerWorker(total uint, workers int) int {
	return int((total + uint(workers) - 1) / uint(workers))
}

// e1GenHistory draws one lifecycle history.
func e1GenHistory(rng *verifkit.Rand, p E1Profile) *E1History {
	h := &E1History{Profile: p, Defs: map[string]E1SamplerDef{}}
	workers := verifkit.Pick(rng, 1, 1, 2, 3, 4, 8)
	tick := 100 * time.Millisecond
	c := E1Config{Workers: workers, DryRun: p.DryRun, AddRuleReason: rng.Bool(), AddSpanCount: rng.Bool()}
	c.Traces = config.TracesConfig{
		SendTicker:       config.Duration(tick),
		SendDelay:        config.Duration(verifkit.Pick(rng, 100, 250, 300, 500) * int(time.Millisecond)),
		TraceTimeout:     config.Duration(verifkit.Pick(rng, 1000, 1500, 2000, 3000) * int(time.Millisecond)),
		SpanLimit:        uint(verifkit.Pick(rng, 0, 0, 3, 5, 32000)),
		MaxExpiredTraces: uint(verifkit.Pick(rng, 0, 1, 3, 3000)),
	}
	if p.TinyQueues {
		c.IncomingQueue = workers * rng.Range(1, 3)
		c.PeerQueue = workers * rng.Range(1, 3)
	}
	if p.SmallKept {
		c.KeptSize = uint(workers * rng.Range(1, 4))
	}
	envs := []string{"env-a", "env-b"}
	c.Samplers = map[string]*config.V2SamplerChoice{}
	for _, env := range envs {
		d := e1GenSampler(rng, p.PredictableOnly)
		h.Defs[env] = d
		c.Samplers[env] = d.Choice
	}
	h.Cfg = c
	kept := c.KeptSize
	if kept == 0 {
		kept = 10000 * uint(workers)
	}
	h.MinKept = e1PerWorker(kept, workers)

	nTraces := rng.Range(3, 40)
	for i := 0; i < nTraces; i++ {
		h.Plans = append(h.Plans, &e1TracePlan{ID: rng.Hex(32), Env: envs[rng.Intn(len(envs))], Keep: rng.Bool(),
			Svc: verifkit.Pick(rng, "api", "db", "web"), Rate: uint(verifkit.Pick(rng, 0, 0, 1, 2, 10))})
	}
	nextID := 0
	mkSpan := func() E1Span {
		// bias towards a small working set so that traces get several spans, late spans included
		var pl *e1TracePlan
		if rng.Chance(0.6) {
			pl = h.Plans[rng.Intn(min(len(h.Plans), 6))]
		} else {
			pl = h.Plans[rng.Intn(len(h.Plans))]
		}
		kind := "child"
		switch k := rng.Intn(10); {
		case k < 3:
			kind = "root"
		case k == 3:
			kind = "event"
		case k == 4:
			kind = "link"
		}
		nextID++
		pl.Spans++
		parity := "even"
		if pl.Spans%2 == 1 {
			parity = "odd"
		}
		return E1Span{ID: fmt.Sprintf("s%d", nextID), Trace: pl.ID, Kind: kind, Peer: rng.Chance(0.3), Rate: pl.Rate, Env: pl.Env, Dataset: "ds-" + pl.Env,
			Fields: map[string]any{"verif.keep": e1KeepValue(pl.Keep), "svc": pl.Svc, "verif.parity": parity, "n": int64(pl.Spans)}}
	}
	sd := time.Duration(c.Traces.SendDelay)
	tt := time.Duration(c.Traces.TraceTimeout)
	maxSteps := p.MaxSteps
	if maxSteps == 0 {
		maxSteps = 60
	}
	n := rng.Range(maxSteps/3, maxSteps)
	for i := 0; i < n; i++ {
		switch k := rng.Intn(100); {
		case k < 50:
			h.Steps = append(h.Steps, e1Step{Op: "span", Spans: []E1Span{mkSpan()}})
		case k < 58:
			m := rng.Range(2, 12)
			st := e1Step{Op: "burst", Held: p.TinyQueues || rng.Bool()}
			for j := 0; j < m; j++ {
				st.Spans = append(st.Spans, mkSpan())
			}
			h.Steps = append(h.Steps, st)
		case k < 84:
			d := verifkit.Pick(rng, 0, tick/2, tick, tick, 3*tick, sd, sd+tick, tt-time.Nanosecond, tt, tt+time.Nanosecond, tt+tick)
			h.Steps = append(h.Steps, e1Step{Op: "advance", Dur: d})
		case k < 88:
			if p.ToggleDryRun {
				h.Steps = append(h.Steps, e1Step{Op: "reload-dryrun"})
			} else {
				h.Steps = append(h.Steps, e1Step{Op: "reload-sampler", Env: envs[rng.Intn(len(envs))], Def: e1GenSampler(rng, p.PredictableOnly)})
			}
		case k < 90:
			if p.ToggleDryRun && rng.Bool() {
				h.Steps = append(h.Steps, e1Step{Op: "reload-dryrun"})
			} else {
				h.Steps = append(h.Steps, e1Step{Op: "reload-flags", Flag: verifkit.Pick(rng, "reason", "spancount", "attrs")})
			}
		case k < 91:
			h.Steps = append(h.Steps, e1Step{Op: "reload-same"})
		case k < 94:
			var ks uint
			if p.SmallKept {
				ks = uint(workers * rng.Range(1, 4))
			} else {
				ks = uint(workers * verifkit.Pick(rng, 50, 200, 10000)) // always ≥ the number of traces per worker
			}
			h.Steps = append(h.Steps, e1Step{Op: "resize", Kept: ks})
			if pw := e1PerWorker(ks, workers); pw < h.MinKept {
				h.MinKept = pw
			}
		case k < 98:
			h.Steps = append(h.Steps, e1Step{Op: "eject", Worker: rng.Intn(workers+1) - 1, Bytes: verifkit.Pick(rng, 0, 1, 150, 600, 1<<30)})
		default:
			if p.StressSpans {
				h.Steps = append(h.Steps, e1Step{Op: "stress-span", Spans: []E1Span{mkSpan()}})
			} else {
				h.Steps = append(h.Steps, e1Step{Op: "span", Spans: []E1Span{mkSpan()}})
			}
		}
	}
	return h
}

// Run executes the history on a fresh collector and returns the driver (caller defers Stop) after the
// bounded-progress flush. onStart (optional) runs right after the collector started (install OnQuiesce
// hooks there); onStep (optional) runs after every generated step.
func (h *E1History) Run(tb testing.TB, onStart func(e *E1), onStep func(e *E1, st e1Step)) *E1 {
	e := e1Start(tb, h.Cfg)
	if onStart != nil {
		onStart(e)
	}
	stressKeep := func(id string) bool { return id[len(id)-1]%2 == 0 }
	for _, st := range h.Steps {
		if e.Failed() != "" {
			break
		}
		switch st.Op {
		case "span":
			_ = e.AddSpan(st.Spans[0])
		case "burst":
			e.Burst(st.Spans, st.Held)
		case "stress-span":
			e.Stress.Script(true, 1, stressKeep)
			e.AddStressed(st.Spans[0])
			e.Stress.Script(false, 1, stressKeep)
		case "advance":
			e.Advance(st.Dur)
		case "reload-sampler":
			def := st.Def
			env := st.Env
			e.Reload("sampler "+env+" -> "+def.Kind, func(m *config.MockConfig) {
				ns := maps.Clone(m.Samplers)
				ns[env] = def.Choice
				m.Samplers = ns
			})
			h.Defs[env] = def
		case "reload-flags":
			flag := st.Flag
			e.Reload("toggle "+flag, func(m *config.MockConfig) {
				switch flag {
				case "reason":
					m.AddRuleReasonToTrace = !m.AddRuleReasonToTrace
				case "spancount":
					m.AddSpanCountToRoot = !m.AddSpanCountToRoot
				default:
					if m.AdditionalAttributes == nil {
						m.AdditionalAttributes = map[string]string{"verif.attr": "x"}
					} else {
						m.AdditionalAttributes = nil
					}
				}
			})
		case "reload-dryrun":
			e.Reload("toggle DryRun", func(m *config.MockConfig) { m.DryRun = !m.DryRun })
		case "reload-same":
			e.Reload("unchanged", nil)
		case "resize":
			ks := st.Kept
			e.Reload(fmt.Sprintf("resize kept=%d", ks), func(m *config.MockConfig) { m.SampleCache.KeptSize = ks })
		case "eject":
			e.Eject(st.Worker, st.Bytes)
		case "stalled-tick":
			e.TickWithFullOutgoingQueue()
		case "slow-shim":
			e.InstallSlowShim(st.Env, st.Seed, st.Bytes)
		case "loose":
			e.quiesceLoose()
		}
		if onStep != nil && e.Failed() == "" {
			onStep(e, st)
		}
	}
	e.Flush(false)
	return e
}

// Abstract summarises a finished history for the distinct-nontrivial count.
func (h *E1History) Abstract(f *E1Final) (sig string, late, keptTraces, droppedTraces int) {
	ops := map[string]int{}
	for _, st := range h.Steps {
		ops[st.Op]++
	}
	lateKept, lateDropped := 0, 0
	for _, id := range f.Order {
		t := f.Traces[id]
		if len(t.Accepted) == 0 {
			continue
		}
		first := t.FirstForwardStep()
		if t.ForwardedCount() > 0 {
			keptTraces++
			for _, a := range t.Accepted {
				if a.Step > first {
					lateKept++
				}
			}
		} else {
			droppedTraces++
			if t.Final.Found && len(t.Accepted) > 1 {
				lateDropped++ // approximation: several spans, at least one may be late
			}
		}
	}
	bucket := func(n int) int {
		switch {
		case n == 0:
			return 0
		case n < 3:
			return 1
		case n < 10:
			return 2
		}
		return 3
	}
	kinds := []string{}
	for env, d := range h.Defs {
		kinds = append(kinds, env+"="+d.Kind)
	}
	sort.Strings(kinds)
	sig = fmt.Sprintf("w%d %v sl%d me%d lk%d k%d d%d ej%d rl%d rs%d b%d", h.Cfg.Workers, kinds, h.Cfg.Traces.SpanLimit, h.Cfg.Traces.MaxExpiredTraces,
		bucket(lateKept), bucket(keptTraces), bucket(droppedTraces), bucket(ops["eject"]), bucket(ops["reload-sampler"]+ops["reload-flags"]), bucket(ops["resize"]), bucket(ops["burst"]))
	return sig, lateKept + lateDropped, keptTraces, droppedTraces
}

// -------------------------------------------------------------------------------------
// Shared workload: stalled upstream and slow decisions (step lists for E1History.Run)
// -------------------------------------------------------------------------------------

func e1KeepFieldDef() E1SamplerDef {
	return E1SamplerDef{Kind: "rules-keep-field", Choice: &config.V2SamplerChoice{RulesBasedSampler: &config.RulesBasedSamplerConfig{Rules: []*config.RulesBasedSamplerRule{
		{Name: "keep-marked", SampleRate: 1, Conditions: []*config.RulesBasedSamplerCondition{e1Cond("verif.keep", "=", "yes")}},
		{Name: "drop-rest", Drop: true},
	}}}, Predict: func(_ string, k bool) (bool, bool) { return k, true }}
}

// e1GenStalledHistory: 6–14 rooted traces fall due at one tick; that tick is processed while the outgoing queue
// is completely full and the upstream takes nothing (TickWithFullOutgoingQueue). Afterwards late spans for the
// traces, a few new traces, and the normal flush.
func e1GenStalledHistory(rng *verifkit.Rand, dryRun bool) *E1History {
	tick := 100 * time.Millisecond
	def := e1KeepFieldDef()
	h := &E1History{Defs: map[string]E1SamplerDef{"env-a": def, "env-b": def}, MinKept: 10000, Profile: E1Profile{DryRun: dryRun, PredictableOnly: true}}
	h.Cfg = E1Config{Workers: rng.Range(1, 3), DryRun: dryRun, AddRuleReason: rng.Bool(),
		Traces:   config.TracesConfig{SendTicker: config.Duration(tick), SendDelay: config.Duration(300 * time.Millisecond), TraceTimeout: config.Duration(2 * time.Second)},
		Samplers: map[string]*config.V2SamplerChoice{"env-a": def.Choice, "env-b": def.Choice}}
	nextID := 0
	mk := func(pl *e1TracePlan, kind string) E1Span {
		nextID++
		pl.Spans++
		return E1Span{ID: fmt.Sprintf("s%d", nextID), Trace: pl.ID, Kind: kind, Peer: rng.Chance(0.3), Rate: pl.Rate, Env: pl.Env, Dataset: "ds-" + pl.Env,
			Fields: map[string]any{"verif.keep": e1KeepValue(pl.Keep), "svc": pl.Svc, "n": int64(pl.Spans)}}
	}
	newPlan := func() *e1TracePlan {
		pl := &e1TracePlan{ID: rng.Hex(32), Env: "env-a", Keep: rng.Chance(0.6), Svc: "api", Rate: uint(verifkit.Pick(rng, 0, 1, 2))}
		h.Plans = append(h.Plans, pl)
		return pl
	}
	var burst []E1Span
	for j := rng.Range(6, 14); j > 0; j-- {
		pl := newPlan()
		for c := rng.Range(0, 2); c > 0; c-- {
			burst = append(burst, mk(pl, "child"))
		}
		burst = append(burst, mk(pl, "root"))
	}
	first := len(h.Plans)
	h.Steps = append(h.Steps, e1Step{Op: "burst", Held: true, Spans: burst})
	h.Steps = append(h.Steps, e1Step{Op: "advance", Dur: 250 * time.Millisecond}) // ticks at 100 and 200 ms; everything is due at 300 ms
	h.Steps = append(h.Steps, e1Step{Op: "stalled-tick"})
	for _, pl := range h.Plans[:first] {
		if rng.Chance(0.7) {
			h.Steps = append(h.Steps, e1Step{Op: "span", Spans: []E1Span{mk(pl, verifkit.Pick(rng, "child", "child", "root"))}})
		}
	}
	for j := rng.Range(0, 3); j > 0; j-- {
		pl := newPlan()
		h.Steps = append(h.Steps, e1Step{Op: "span", Spans: []E1Span{mk(pl, "root")}})
	}
	h.Steps = append(h.Steps, e1Step{Op: "advance", Dur: verifkit.Pick(rng, tick, 400*time.Millisecond)})
	return h
}

// e1GenSlowHistory: single worker; every decision "takes" 0–300 ms of fake time (slow-shim); 8–16 traces fall due
// at one tick (rooted: SendDelay; rootless: TraceTimeout); HealthCheckTimeout is small (2–4 s). Late spans for
// the decided traces follow each overrunning pass.
func e1GenSlowHistory(rng *verifkit.Rand) *E1History {
	tick := 100 * time.Millisecond
	def := e1GenSampler(rng, true)
	h := &E1History{Defs: map[string]E1SamplerDef{"env-a": def}, MinKept: 10000, Profile: E1Profile{PredictableOnly: true}}
	h.Cfg = E1Config{Workers: 1, AddRuleReason: rng.Bool(), HealthTimeout: time.Duration(verifkit.Pick(rng, 2, 3, 4)) * time.Second,
		Traces: config.TracesConfig{SendTicker: config.Duration(tick), SendDelay: config.Duration(verifkit.Pick(rng, 200, 300) * int(time.Millisecond)),
			TraceTimeout: config.Duration(verifkit.Pick(rng, 1000, 2000) * int(time.Millisecond)), MaxExpiredTraces: uint(verifkit.Pick(rng, 0, 0, 3000, 6))},
		Samplers: map[string]*config.V2SamplerChoice{"env-a": def.Choice}}
	nextID := 0
	mk := func(pl *e1TracePlan, kind string) E1Span {
		nextID++
		pl.Spans++
		return E1Span{ID: fmt.Sprintf("s%d", nextID), Trace: pl.ID, Kind: kind, Peer: rng.Chance(0.3), Rate: pl.Rate, Env: "env-a", Dataset: "ds",
			Fields: map[string]any{"verif.keep": e1KeepValue(pl.Keep), "svc": "api", "n": int64(pl.Spans)}}
	}
	h.Steps = append(h.Steps, e1Step{Op: "slow-shim", Env: "env-a", Seed: rng.Uint64(), Bytes: 300})
	var burst []E1Span
	rooted := []*e1TracePlan{}
	for j := rng.Range(8, 16); j > 0; j-- {
		pl := &e1TracePlan{ID: rng.Hex(32), Env: "env-a", Keep: rng.Chance(0.7), Rate: uint(verifkit.Pick(rng, 0, 1, 2))}
		h.Plans = append(h.Plans, pl)
		for c := rng.Range(0, 2); c > 0; c-- {
			burst = append(burst, mk(pl, "child"))
		}
		if rng.Chance(0.6) {
			burst = append(burst, mk(pl, "root"))
			rooted = append(rooted, pl)
		} else {
			burst = append(burst, mk(pl, "child"))
		}
	}
	h.Steps = append(h.Steps, e1Step{Op: "burst", Held: true, Spans: burst})
	h.Steps = append(h.Steps, e1Step{Op: "advance", Dur: time.Duration(h.Cfg.Traces.SendDelay) + tick}, e1Step{Op: "loose"})
	for _, pl := range rooted {
		if rng.Chance(0.7) {
			h.Steps = append(h.Steps, e1Step{Op: "span", Spans: []E1Span{mk(pl, "child")}})
		}
	}
	h.Steps = append(h.Steps, e1Step{Op: "advance", Dur: time.Duration(h.Cfg.Traces.TraceTimeout)}, e1Step{Op: "loose"})
	for _, pl := range h.Plans {
		if rng.Chance(0.6) {
			h.Steps = append(h.Steps, e1Step{Op: "span", Spans: []E1Span{mk(pl, verifkit.Pick(rng, "child", "root"))}})
		}
	}
	return h
}

// e1GenShrinkKeptHistory: N traces are decided one after the other (distinct deadlines, so the order of the kept
// records is known); most are kept BECAUSE OF THEIR ROOT (rules: keep iff some span has error=yes / iff a root is
// present — only the root carries it), some are dropped. Then a reload shrinks SampleCache.KeptSize to k per
// worker (3 ≤ k < kept traces), optionally twice. Afterwards ONLY the globally newest ≤ k kept traces receive late
// spans (children that on their own would be dropped): whatever the worker assignment, those are among the
// newest k of their worker, so a correct Resize still remembers them and E1SurelyRetained (MinKept = k) holds
// for them — fewer than k other traces use the kept LRU after their decision.
func e1GenShrinkKeptHistory(rng *verifkit.Rand) *E1History {
	tick := 100 * time.Millisecond
	workers := verifkit.Pick(rng, 1, 1, 2, 3)
	errDef := E1SamplerDef{Kind: "rules-error-field", Choice: &config.V2SamplerChoice{RulesBasedSampler: &config.RulesBasedSamplerConfig{Rules: []*config.RulesBasedSamplerRule{
		{Name: "has-error", SampleRate: 1, Conditions: []*config.RulesBasedSamplerCondition{e1Cond("error", "=", "yes")}},
		{Name: "no-error", Drop: true},
	}}}, Predict: func(string, bool) (bool, bool) { return false, false }}
	rootDef := E1SamplerDef{Kind: "rules-has-root", Choice: &config.V2SamplerChoice{RulesBasedSampler: &config.RulesBasedSamplerConfig{Rules: []*config.RulesBasedSamplerRule{
		{Name: "rooted", SampleRate: verifkit.Pick(rng, 1, 1), Conditions: []*config.RulesBasedSamplerCondition{{Operator: config.HasRootSpan, Value: true}}},
		{Name: "rootless", Drop: true},
	}}}, Predict: func(string, bool) (bool, bool) { return false, false }}
	h := &E1History{Defs: map[string]E1SamplerDef{"env-a": errDef, "env-b": rootDef}}
	h.Cfg = E1Config{Workers: workers, AddRuleReason: rng.Bool(),
		Traces:   config.TracesConfig{SendTicker: config.Duration(tick), SendDelay: config.Duration(200 * time.Millisecond), TraceTimeout: config.Duration(verifkit.Pick(rng, 1000, 2000) * int(time.Millisecond))},
		Samplers: map[string]*config.V2SamplerChoice{"env-a": errDef.Choice, "env-b": rootDef.Choice}}
	nextID := 0
	mk := func(pl *e1TracePlan, kind string, marked bool) E1Span {
		nextID++
		pl.Spans++
		f := map[string]any{"svc": pl.Svc, "n": int64(pl.Spans)}
		if marked {
			f["error"] = "yes"
		}
		return E1Span{ID: fmt.Sprintf("s%d", nextID), Trace: pl.ID, Kind: kind, Peer: rng.Chance(0.3), Rate: pl.Rate, Env: pl.Env, Dataset: "ds-" + pl.Env, Fields: f}
	}
	span := func(s E1Span) { h.Steps = append(h.Steps, e1Step{Op: "span", Spans: []E1Span{s}}) }
	var kept []*e1TracePlan // in decision order
	n := rng.Range(8, 20)
	for j := 0; j < n; j++ {
		pl := &e1TracePlan{ID: rng.Hex(32), Env: verifkit.Pick(rng, "env-a", "env-b"), Svc: "api", Rate: uint(verifkit.Pick(rng, 0, 1, 2)), Keep: rng.Chance(0.8)}
		h.Plans = append(h.Plans, pl)
		if rng.Bool() {
			span(mk(pl, "child", false))
		}
		if pl.Keep {
			span(mk(pl, "root", true)) // env-a: error on the root; env-b: the root itself
			kept = append(kept, pl)
		} else {
			span(mk(pl, "child", false)) // rootless, no error: dropped at TraceTimeout
		}
		h.Steps = append(h.Steps, e1Step{Op: "advance", Dur: tick}) // next trace's root arrives one tick later ⇒ decided one tick later
	}
	h.Steps = append(h.Steps, e1Step{Op: "advance", Dur: 300 * time.Millisecond}) // every rooted trace is decided now, in arrival order
	k := 3
	if len(kept) > 4 {
		k = rng.Range(3, len(kept)-1)
	}
	h.MinKept = k
	if rng.Chance(0.3) { // shrink in two steps
		h.Steps = append(h.Steps, e1Step{Op: "resize", Kept: uint(workers * (k + rng.Range(1, 4)))})
	}
	h.Steps = append(h.Steps, e1Step{Op: "resize", Kept: uint(workers * k)}) // KeptSizePerWorker = k
	newest := kept
	if len(newest) > k {
		newest = newest[len(newest)-k:]
	}
	for _, i := range rng.Perm(len(newest)) {
		pl := newest[i]
		for c := rng.Range(1, 2); c > 0; c-- {
			span(mk(pl, verifkit.Pick(rng, "child", "child", "event"), false)) // alone it would be dropped
		}
		if rng.Chance(0.3) {
			h.Steps = append(h.Steps, e1Step{Op: "advance", Dur: tick})
		}
	}
	return h
}
