//go:build verif

package collect

import (
	"fmt"
	"maps"
	"reflect"
	"sort"
	"strings"
	"sync/atomic"
	"testing"
	"time"
	"unsafe"

	"github.com/honeycombio/refinery/config"
	"github.com/honeycombio/refinery/internal/verifkit"
	"github.com/honeycombio/refinery/sample"
	"github.com/honeycombio/refinery/types"
)

// C12, unit "collect": all collector workers of one node use the same rate-tracking state for a given sampler
// definition — observed on the REAL InMemCollector (engine E1), not on a worker model.
//
// Histories: ≥ 2 workers, 2-3 environments with dynsampler-backed samplers (top-level dynamic / EMA dynamic /
// total / EMA / windowed throughput, and rules with a downstream dynamic or EMA sampler); steps: traffic (root
// spans of fresh traces hashed to chosen workers, then one send tick ⇒ decisions ⇒ lazy sampler creation),
// plain reloads (same or changed definition) and RACING reloads: the collector's StressReliever is an injected
// dependency whose UpdateFromConfig() is called in the middle of InMemCollector.reloadConfigs, so a wrapper
// around E1's scripted reliever is a legitimate interleaving point. In a racing reload the wrapper, running on
// the collector's monitor goroutine inside reloadConfigs, holds all workers but one (pause handshake), lets that
// worker finish whatever reload signal it may already have, advances the fake clock onto the next send tick so
// that the worker decides a trace that was queued for it, and releases the others. Every wait in there is
// bounded; an expired bound makes the case inconclusive, never a verdict.
//
// Oracle at every quiescent point (E1 OnQuiesce: all workers parked): for every sampler key held by ≥ 2 workers
// and every slot (top-level dynsampler, each downstream sampler of a rules sampler) the dynsampler behind the
// workers' samplers is the same object (unexported fields of package sample read through reflect). At the end of
// a history the identity verdict is cross-checked behaviourally: feeding worker A's sampler must raise the
// request counter of worker B's dynsampler iff they are the same object.

// ---- adapters ------------------------------------------------------------------------------

type c12Stress struct {
	*E1Stress
	hook atomic.Pointer[func()]
}

func (s *c12Stress) UpdateFromConfig() {
	if h := s.hook.Swap(nil); h != nil {
		(*h)()
	}
	s.E1Stress.UpdateFromConfig()
}

// c12adSwapStress installs the wrapper right after e1Start (workers parked, clock not moved yet; the monitor
// reads StressRelief only after a reload signal sent by the driver).
func c12adSwapStress(e *E1) *c12Stress {
	s := &c12Stress{E1Stress: e.Stress}
	e.Inspect(func(*E1View) { e.coll.StressRelief = s })
	return s
}

func c12adSamplers(w *CollectorWorker) map[string]sample.Sampler { return w.datasetSamplers } // parked only
func c12adReloadPending(w *CollectorWorker) bool                 { return len(w.reload) != 0 }

// c12Slots returns slot → (address of the dynsampler, the struct field holding it) for one sampler.
type c12Slot struct {
	ptr   uintptr
	field reflect.Value // addressable field "dynsampler"
}

func c12Slots(v reflect.Value, prefix string, out map[string]c12Slot) {
	for v.Kind() == reflect.Interface || v.Kind() == reflect.Pointer {
		if v.IsNil() {
			return
		}
		v = v.Elem()
	}
	if v.Kind() != reflect.Struct {
		return
	}
	if f := v.FieldByName("dynsampler"); f.IsValid() {
		p := f
		if p.Kind() == reflect.Interface {
			p = p.Elem()
		}
		if p.Kind() == reflect.Pointer && !p.IsNil() {
			slot := "top-level"
			if prefix != "" {
				slot = prefix
			}
			out[slot] = c12Slot{ptr: p.Pointer(), field: f}
		}
	}
	if m := v.FieldByName("samplers"); m.IsValid() && m.Kind() == reflect.Map {
		it := m.MapRange()
		for it.Next() {
			c12Slots(it.Value(), "downstream:"+it.Key().String(), out)
		}
	}
}

// c12RequestCount reads the dynsampler's own request counter (dynsampler-go GetMetrics) through the field.
func c12RequestCount(f reflect.Value) (int64, bool) {
	if !f.CanAddr() {
		return 0, false
	}
	g, ok := reflect.NewAt(f.Type(), unsafe.Pointer(f.UnsafeAddr())).Elem().Interface().(interface {
		GetMetrics(prefix string) map[string]int64
	})
	if !ok {
		return 0, false
	}
	for _, p := range []string{"dynamic_", "emadynamic_", "totalthroughput_", "emathroughput_", "windowedthroughput_"} {
		if m := g.GetMetrics(p); m != nil {
			v, ok := m[p+"request_count"]
			return v, ok
		}
	}
	return 0, false
}

// ---- workload ------------------------------------------------------------------------------

func c12GenDef(rng *verifkit.Rand) (string, *config.V2SamplerChoice) {
	fl := []string{"svc"}
	switch rng.Intn(7) {
	case 0:
		return "dynamic", &config.V2SamplerChoice{DynamicSampler: &config.DynamicSamplerConfig{SampleRate: int64(verifkit.Pick(rng, 1, 2, 5)), FieldList: fl}}
	case 1:
		return "emadynamic", &config.V2SamplerChoice{EMADynamicSampler: &config.EMADynamicSamplerConfig{GoalSampleRate: verifkit.Pick(rng, 1, 2, 5), FieldList: fl}}
	case 2:
		return "totalthroughput", &config.V2SamplerChoice{TotalThroughputSampler: &config.TotalThroughputSamplerConfig{GoalThroughputPerSec: verifkit.Pick(rng, 5, 100), FieldList: fl}}
	case 3:
		return "emathroughput", &config.V2SamplerChoice{EMAThroughputSampler: &config.EMAThroughputSamplerConfig{GoalThroughputPerSec: verifkit.Pick(rng, 5, 100), InitialSampleRate: 2, FieldList: fl}}
	case 4:
		return "windowedthroughput", &config.V2SamplerChoice{WindowedThroughputSampler: &config.WindowedThroughputSamplerConfig{GoalThroughputPerSec: verifkit.Pick(rng, 5, 100), FieldList: fl}}
	case 5:
		return "rules>dynamic", &config.V2SamplerChoice{RulesBasedSampler: &config.RulesBasedSamplerConfig{Rules: []*config.RulesBasedSamplerRule{
			{Name: "all", Sampler: &config.RulesBasedDownstreamSampler{DynamicSampler: &config.DynamicSamplerConfig{SampleRate: int64(verifkit.Pick(rng, 1, 3)), FieldList: fl}}}}}}
	default:
		return "rules>emadynamic+totalthroughput", &config.V2SamplerChoice{RulesBasedSampler: &config.RulesBasedSamplerConfig{Rules: []*config.RulesBasedSamplerRule{
			{Name: "api", Conditions: []*config.RulesBasedSamplerCondition{e1Cond("svc", "=", "api")},
				Sampler: &config.RulesBasedDownstreamSampler{EMADynamicSampler: &config.EMADynamicSamplerConfig{GoalSampleRate: verifkit.Pick(rng, 1, 4), FieldList: fl}}},
			{Name: "rest", Sampler: &config.RulesBasedDownstreamSampler{TotalThroughputSampler: &config.TotalThroughputSamplerConfig{GoalThroughputPerSec: 50, FieldList: fl}}}}}}
	}
}

type c12Witness struct {
	Config     any                          `json:"config"`
	Samplers   map[string]string            `json:"sampler_kinds"`
	Key        string                       `json:"sampler_key"`
	Slot       string                       `json:"slot"`
	ByWorker   map[string]string            `json:"dynsampler_address_by_worker"`
	LastReload string                       `json:"last_reload"`
	Step       int                          `json:"step"`
	Race       any                          `json:"racing_reload,omitempty"`
	AllWorkers map[string]map[string]string `json:"all_slots_by_worker"`
	Ops        []E1Op                       `json:"ops"`
}

func TestVerif_C12Collect(t *testing.T) {
	run := verifkit.Start(t, "C12", "collect")
	defer run.Finish()
	defer e1TuneRuntime(run)()
	run.Rule("seeded histories on the real collector with 2-4 workers and 2-3 environments whose samplers are dynsampler-backed (5 top-level kinds, rules with 1-2 downstream samplers): traffic steps (root spans of fresh traces hashed to chosen workers + one send tick), plain reloads (same or changed definition) and racing reloads in which one PRNG-chosen worker decides a queued trace while reloadConfigs is inside StressRelief.UpdateFromConfig (the others held by the pause handshake); non-trivial = after a racing reload whose interleaving completed, ≥ 2 workers held a sampler for the raced environment at a quiescent point; distinct = (workers, sampler kinds, raced kind, racing reloads). Second block (classic-key): 1-2 classic API keys sending to 2-3 datasets with their own dynsampler definitions (with/without DatasetPrefix), PRNG arrival order mostly on one worker, optional reloads; per dataset: own sampler on every deciding worker, dynsamplers of different datasets distinct, request counters = traces decided; non-trivial = one key sent two different datasets to one worker")
	run.Assume("identity of rate-tracking state = address of the dynsampler-go object behind a worker's sampler (field dynsampler, and RulesBasedSampler.samplers for downstream samplers), read while every worker is parked")
	run.Assume("the interleaving point is the injected StressReliever's UpdateFromConfig; every wait inside it is bounded and an expired bound is reported as inconclusive")

	run.Cases("workers", run.N(40, 600), func(ci int, rng *verifkit.Rand) {
		workers := verifkit.Pick(rng, 2, 2, 3, 4)
		tick := 100 * time.Millisecond
		envs := []string{"env-a", "env-b", "env-c"}[:rng.Range(2, 3)]
		kinds := map[string]string{}
		cfg := E1Config{Workers: workers, Samplers: map[string]*config.V2SamplerChoice{},
			Traces: config.TracesConfig{SendTicker: config.Duration(tick), SendDelay: config.Duration(tick), TraceTimeout: config.Duration(time.Second), MaxExpiredTraces: 3000}}
		for _, env := range envs {
			kinds[env], cfg.Samplers[env] = c12GenDef(rng)
		}
		e := e1Start(t, cfg)
		defer e.Stop()
		stress := c12adSwapStress(e)
		ws := e1adWorkers(e.coll)

		lastReload := "no-reload"
		var lastRace map[string]any
		raceDone, raceSeen := 0, false
		racedEnv := ""
		snapshot := func() (map[string]map[int]map[string]c12Slot, map[string]map[string]string) {
			byKey := map[string]map[int]map[string]c12Slot{}
			all := map[string]map[string]string{}
			for i, w := range ws {
				for key, s := range c12adSamplers(w) {
					slots := map[string]c12Slot{}
					c12Slots(reflect.ValueOf(s), "", slots)
					if byKey[key] == nil {
						byKey[key] = map[int]map[string]c12Slot{}
					}
					byKey[key][i] = slots
					for slot, x := range slots {
						wk := fmt.Sprintf("worker-%d", i)
						if all[wk] == nil {
							all[wk] = map[string]string{}
						}
						all[wk][key+"/"+slot] = fmt.Sprintf("%#x", x.ptr)
					}
				}
			}
			return byKey, all
		}
		e.OnQuiesce(func(*E1View) {
			byKey, all := snapshot()
			for key, perWorker := range byKey {
				if len(perWorker) < 2 {
					continue
				}
				if key == racedEnv && lastReload == "after-racing-reload" {
					raceSeen = true
				}
				slots := map[string]map[string]string{}
				for i, m := range perWorker {
					for slot, x := range m {
						if slots[slot] == nil {
							slots[slot] = map[string]string{}
						}
						slots[slot][fmt.Sprintf("worker-%d", i)] = fmt.Sprintf("%#x", x.ptr)
					}
				}
				for slot, addrs := range slots {
					distinct := map[string]bool{}
					for _, a := range addrs {
						distinct[a] = true
					}
					run.Count("slot_comparisons", 1)
					if len(addrs) >= 2 && len(distinct) > 1 {
						cls := "top-level"
						if strings.HasPrefix(slot, "downstream:") {
							cls = "downstream"
						}
						run.Violation("C12/collect/workers-diverge/"+cls+"/"+lastReload,
							fmt.Sprintf("%d workers hold a sampler for %s (%s); behind slot %s they use %d different dynsampler objects", len(addrs), key, kinds[key], slot, len(distinct)),
							c12Witness{Config: cfg.describe(), Samplers: kinds, Key: key, Slot: slot, ByWorker: addrs, LastReload: lastReload, Step: e.Step(), Race: lastRace, AllWorkers: all, Ops: e.Ops()})
					}
				}
			}
		})

		traceFor := func(w int) string {
			for {
				id := rng.Hex(32)
				if e.WorkerOf(id) == w {
					return id
				}
			}
		}
		rootSpan := func(w int, env string) E1Span {
			s := e.NewSpan(traceFor(w), "root")
			s.Env, s.Dataset = env, "ds-"+env
			s.Fields = map[string]any{"svc": verifkit.Pick(rng, "api", "db", "web")}
			return s
		}
		traffic := func(env string, all bool) {
			for w := 0; w < workers; w++ {
				if all || rng.Chance(0.6) {
					_ = e.AddSpan(rootSpan(w, env))
				}
			}
			e.Advance(tick) // SendBy = arrival + SendDelay = this tick
		}
		reloadMutate := func(m *config.MockConfig, env string, change bool) string {
			if !change {
				return "unchanged"
			}
			k, c := c12GenDef(rng)
			ns := maps.Clone(m.Samplers)
			ns[env] = c
			m.Samplers = ns
			kinds[env] = k
			return env + " -> " + k
		}

		for _, env := range envs {
			traffic(env, rng.Bool())
		}
		nOps := rng.Range(8, 16)
		for op := 0; op < nOps && e.Failed() == ""; op++ {
			switch k := rng.Intn(10); {
			case k < 5:
				traffic(envs[rng.Intn(len(envs))], rng.Chance(0.3))
			case k < 7:
				env := envs[rng.Intn(len(envs))]
				change := rng.Chance(0.4)
				e.Reload("plain", func(m *config.MockConfig) { reloadMutate(m, env, change) })
				lastReload = "after-reload"
			default:
				// racing reload
				env := envs[rng.Intn(len(envs))]
				W := rng.Intn(workers)
				change := rng.Chance(0.3)
				_ = e.AddSpan(rootSpan(W, env)) // decided at the next send tick
				next := e.t0.Add(time.Duration(e.ticksDone+1) * e.tick)
				res := map[string]any{"worker": W, "env": env, "kind": kinds[env]}
				var problem atomic.Pointer[string]
				var advanced atomic.Bool
				hook := func() {
					fail := func(s string) { problem.Store(&s) }
					giveUp := time.After(5 * time.Second)
					var held []chan struct{}
					defer func() {
						for _, ch := range held {
							close(ch)
						}
					}()
					for i, w := range ws {
						if i == W {
							continue
						}
						ch, ok := e1adPause(w, giveUp)
						if !ok {
							fail("could not hold a worker")
							return
						}
						held = append(held, ch)
					}
					// a reload signal the collector may already have sent to W is consumed and handled first
					for i := 0; c12adReloadPending(ws[W]); i++ {
						select {
						case <-giveUp:
							fail("worker did not take its reload signal")
							return
						default:
							time.Sleep(20 * time.Microsecond)
						}
					}
					if ch, ok := e1adPause(ws[W], giveUp); ok {
						close(ch)
					} else {
						fail("worker did not return to its select")
						return
					}
					e.clock.Advance(next.Sub(e.clock.Now()))
					advanced.Store(true)
					for e1adLastTick(ws[W]) != next.UnixNano() {
						select {
						case <-giveUp:
							fail("worker did not process the send tick")
							return
						default:
							time.Sleep(20 * time.Microsecond)
						}
					}
					if ch, ok := e1adPause(ws[W], giveUp); ok {
						close(ch)
					} else {
						fail("worker did not finish the send tick")
					}
				}
				stress.hook.Store(&hook)
				e.Reload("racing", func(m *config.MockConfig) { res["definition"] = reloadMutate(m, env, change) })
				if advanced.Load() {
					// the hook moved the clock onto a send tick: bring E1's tick bookkeeping and the other workers up to date
					e.ticksDone++
					e.ticks = append(e.ticks, E1Tick{Step: e.Step(), At: next.Sub(e.t0)})
					e.waitFor("send tick processed by every worker", func() bool {
						for _, w := range ws {
							if e1adLastTick(w) != next.UnixNano() {
								return false
							}
						}
						return true
					})
				}
				lastReload, racedEnv, lastRace = "after-racing-reload", env, res
				if p := problem.Load(); p != nil || stress.hook.Load() != nil {
					why := "hook did not run"
					if p != nil {
						why = *p
					}
					stress.hook.Store(nil)
					run.Inconclusive("racing reload: " + why)
					return
				}
				raceDone++
				e.quiesce(0)
				traffic(env, true) // every worker (re)builds its sampler for the raced environment
			}
		}
		if e.Failed() != "" {
			run.Inconclusive(e.Failed())
			return
		}
		// behavioural cross-check of the identity verdicts, on the final state
		for _, env := range envs {
			traffic(env, true)
		}
		if e.Failed() != "" {
			run.Inconclusive(e.Failed())
			return
		}
		e.Inspect(func(*E1View) {
			byKey, all := snapshot()
			for key, perWorker := range byKey {
				var idx []int
				for i := range perWorker {
					idx = append(idx, i)
				}
				sort.Ints(idx)
				if len(idx) < 2 {
					continue
				}
				a, b := idx[0], idx[len(idx)-1]
				for slot, sb := range perWorker[b] {
					sa, ok := perWorker[a][slot]
					if !ok {
						continue
					}
					r0, ok0 := c12RequestCount(sb.field)
					for n := 0; n < 6; n++ {
						svc := []string{"api", "db", "web"}[n%3]
						tr := &types.Trace{TraceID: fmt.Sprintf("c12-probe-%d", n), Environment: key, APIKey: e1APIKey, Dataset: "ds-" + key}
						tr.AddSpan(&types.Span{TraceID: tr.TraceID, IsRoot: true, Event: &types.Event{Environment: key, Data: types.NewPayload(e.Config(), map[string]any{"svc": svc})}})
						c12adSamplers(ws[a])[key].GetSampleRate(tr)
					}
					r1, ok1 := c12RequestCount(sb.field)
					if !ok0 || !ok1 {
						run.Count("behavioural_probe_unavailable", 1)
						continue
					}
					run.Count("behavioural_probes", 1)
					shared := r1 > r0
					same := sa.ptr == sb.ptr
					if shared != same {
						cls := "top-level"
						if strings.HasPrefix(slot, "downstream:") {
							cls = "downstream"
						}
						sig := "C12/collect/harness/identity-and-behaviour-disagree"
						if same {
							sig = "C12/collect/workers-diverge/" + cls + "/same-object-but-requests-not-shared"
						}
						run.Violation(sig, fmt.Sprintf("%s slot %s: worker %d and %d dynsampler same object=%v, but feeding worker %d's sampler moved worker %d's request count %d→%d", key, slot, a, b, same, a, b, r0, r1),
							c12Witness{Config: cfg.describe(), Samplers: kinds, Key: key, Slot: slot, LastReload: lastReload, Step: e.Step(), AllWorkers: all, Ops: e.Ops()})
					}
				}
			}
		})
		if raceDone > 0 && raceSeen {
			ks := make([]string, 0, len(kinds))
			for _, env := range envs {
				ks = append(ks, kinds[env])
			}
			run.Nontrivial(fmt.Sprintf("w%d %v raced=%s n%d", workers, ks, kinds[racedEnv], min(raceDone, 3)))
		}
		run.Count("racing_reloads_completed", int64(raceDone))
		run.Count("steps", int64(e.Step()))
		if ci < 2 {
			run.Sample(map[string]any{"config": cfg.describe(), "kinds": kinds, "racing_reloads": raceDone, "ops": len(e.Ops())})
		}
	})

	run.Cases("classic-key", run.N(20, 400), func(ci int, rng *verifkit.Rand) { c12ClassicKeyCase(run, t, rng, ci < 1) })
}

// ---- classic keys: one key, several datasets ---------------------------------------------------
//
// With a classic (legacy) API key the sampler key is the dataset (DatasetPrefix.dataset), and one
// classic key writes to any number of datasets. Case: 1-3 workers, 1-2 classic keys (32-hex and
// hc?ic_ shapes), 2-3 datasets each with its own dynsampler-backed definition, traces of PRNG-chosen
// (key, dataset) decided one after the other mostly on one home worker, optional reloads. Oracle at
// every check point (before a reload and at the end, workers parked), for the datasets decided since
// the last reload: every worker that decided a trace of dataset d holds a sampler under d's sampler
// key; the dynsamplers behind different datasets are different objects; and the request counters of
// d's dynsamplers add up to exactly the number of traces of d decided since the reload (a trace fed
// into another dataset's state shows up as a surplus there and a deficit here).

func c12AddWithKey(e *E1, s E1Span, apiKey string) error {
	if e.Failed() != "" {
		return fmt.Errorf("E1 failed")
	}
	e.beginStep()
	e.logOp("span-with-key", map[string]any{"span": s, "api_key": apiKey})
	sp := e.build(s)
	sp.APIKey = apiKey
	err := e.coll.AddSpan(sp)
	e.quiesce(0)
	return err
}

type c12ClassicTrace struct {
	Key     string `json:"api_key"`
	Dataset string `json:"dataset"`
	Worker  int    `json:"worker"`
	Epoch   int    `json:"config_epoch"`
}

func c12ClassicKeyCase(run *verifkit.Run, t *testing.T, rng *verifkit.Rand, sample bool) {
	workers := verifkit.Pick(rng, 1, 1, 2, 3)
	tick := 10 * time.Millisecond
	prefix := verifkit.Pick(rng, "", "", "pfx")
	target := func(ds string) string {
		if prefix != "" {
			return prefix + "." + ds
		}
		return ds
	}
	datasets := []string{"ds-a", "ds-b", "ds-c"}[:rng.Range(2, 3)]
	kinds := map[string]string{}
	cfg := E1Config{Workers: workers, Samplers: map[string]*config.V2SamplerChoice{},
		Traces: config.TracesConfig{SendTicker: config.Duration(tick), SendDelay: config.Duration(tick), TraceTimeout: config.Duration(time.Second), MaxExpiredTraces: 3000}}
	for _, ds := range datasets {
		kinds[ds], cfg.Samplers[target(ds)] = c12GenDef(rng)
	}
	e := e1Start(t, cfg)
	defer e.Stop()
	if prefix != "" {
		e.Reload("dataset-prefix", func(c *config.MockConfig) { c.DatasetPrefix = prefix })
	}
	ws := e1adWorkers(e.coll)

	keys := []string{rng.Hex(32)}
	if rng.Bool() {
		b := []byte("hcxic_")
		for len(b) < 64 {
			b = append(b, "0123456789abcdefghijklmnopqrstuvwxyz"[rng.Intn(36)])
		}
		if rng.Bool() {
			keys = append(keys, string(b))
		} else {
			keys[0] = string(b)
		}
	}
	home := rng.Intn(workers)
	traceOn := func(w int) string {
		for {
			id := rng.Hex(32)
			if e.WorkerOf(id) == w {
				return id
			}
		}
	}

	epoch := 0
	var traces []c12ClassicTrace
	decided := map[string]int{}           // dataset -> traces decided since the last reload
	decidedOn := map[int]map[string]int{} // worker -> dataset -> same
	firstOnWorker := map[string]string{}  // worker|key -> first dataset seen (for the abstract signature)
	multi := false

	check := func(when string) {
		e.Inspect(func(*E1View) {
			type slotOf struct {
				ds, slot string
				s        c12Slot
			}
			objs := map[uintptr]slotOf{}
			total := map[string]int64{}
			for i, w := range ws {
				held := c12adSamplers(w)
				for _, ds := range datasets {
					if decidedOn[i][ds] == 0 {
						continue
					}
					smp, ok := held[target(ds)]
					if !ok {
						var have []string
						for k := range held {
							have = append(have, k)
						}
						sort.Strings(have)
						run.Violation("C12/collect/classic-key/dataset-without-own-sampler",
							fmt.Sprintf("worker %d decided %d trace(s) of dataset %q (classic key) since the last reload but holds no sampler for %q (%s); it holds %v", i, decidedOn[i][ds], ds, target(ds), when, have),
							map[string]any{"kinds": kinds, "prefix": prefix, "traces_in_decision_order": traces, "worker": i, "dataset": ds})
						continue
					}
					slots := map[string]c12Slot{}
					c12Slots(reflect.ValueOf(smp), "", slots)
					for name, sl := range slots {
						if prev, seen := objs[sl.ptr]; seen {
							if prev.ds != ds {
								run.Violation("C12/collect/classic-key/datasets-share-dynsampler",
									fmt.Sprintf("datasets %q and %q of one classic key are rated by the same dynsampler object (%s)", prev.ds, ds, when),
									map[string]any{"kinds": kinds, "prefix": prefix, "traces_in_decision_order": traces})
							}
							continue
						}
						objs[sl.ptr] = slotOf{ds, name, sl}
						if n, ok := c12RequestCount(sl.field); ok {
							total[ds] += n
						} else {
							total[ds] = -1 << 40
						}
					}
				}
			}
			for _, ds := range datasets {
				if decided[ds] == 0 {
					continue
				}
				run.Count("classic_dataset_state_checks", 1)
				if total[ds] < 0 {
					run.Count("classic_request_count_unavailable", 1)
					continue
				}
				if total[ds] != int64(decided[ds]) {
					run.Violation("C12/collect/classic-key/dataset-state-request-count-mismatch",
						fmt.Sprintf("dataset %q (%s): %d trace(s) decided since the last reload, but its dynsampler state has counted %d request(s) (%s)", ds, kinds[ds], decided[ds], total[ds], when),
						map[string]any{"kinds": kinds, "prefix": prefix, "traces_in_decision_order": traces, "decided": decided})
				}
			}
		})
	}

	n := rng.Range(6, 14)
	for i := 0; i < n && e.Failed() == ""; i++ {
		if i > 0 && rng.Chance(0.12) {
			check("before-reload")
			ds := datasets[rng.Intn(len(datasets))]
			change := rng.Bool()
			e.Reload("plain", func(m *config.MockConfig) {
				if change {
					k, c := c12GenDef(rng)
					ns := maps.Clone(m.Samplers)
					ns[target(ds)] = c
					m.Samplers = ns
					kinds[ds] = k
				}
			})
			epoch++
			clear(decided)
			clear(decidedOn)
			clear(firstOnWorker)
		}
		key := keys[rng.Intn(len(keys))]
		ds := datasets[rng.Intn(len(datasets))]
		w := home
		if rng.Chance(0.25) {
			w = rng.Intn(workers)
		}
		s := e.NewSpan(traceOn(w), "root")
		s.Env, s.Dataset = "", ds
		s.Fields = map[string]any{"svc": verifkit.Pick(rng, "api", "db", "web")}
		if err := c12AddWithKey(e, s, key); err != nil {
			run.Inconclusive("collector refused a span: " + err.Error())
			return
		}
		e.Advance(3 * tick) // decided before the next trace arrives: decision order = PRNG order
		traces = append(traces, c12ClassicTrace{Key: key, Dataset: ds, Worker: w, Epoch: epoch})
		decided[ds]++
		if decidedOn[w] == nil {
			decidedOn[w] = map[string]int{}
		}
		decidedOn[w][ds]++
		fk := fmt.Sprintf("%d|%s", w, key)
		if first, ok := firstOnWorker[fk]; !ok {
			firstOnWorker[fk] = ds
		} else if first != ds {
			multi = true
		}
	}
	if e.Failed() != "" {
		run.Inconclusive(e.Failed())
		return
	}
	check("at-end")
	if multi {
		ks := make([]string, 0, len(datasets))
		for _, ds := range datasets {
			ks = append(ks, kinds[ds])
		}
		run.Nontrivial(fmt.Sprintf("classic w%d keys%d prefix=%v %v reloads=%d", workers, len(keys), prefix != "", ks, min(epoch, 2)))
	}
	run.Count("classic_traces_decided", int64(len(traces)))
	if sample {
		run.Sample(map[string]any{"classic_key_case": true, "kinds": kinds, "prefix": prefix, "traces": traces})
	}
}
