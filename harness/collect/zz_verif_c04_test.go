//go:build verif

package collect

import (
	"fmt"
	"math/bits"
	"sort"
	"strings"
	"sync"
	"testing"
	"time"

	"github.com/honeycombio/refinery/config"
	"github.com/honeycombio/refinery/internal/verifkit"
	"github.com/honeycombio/refinery/sample"
	"github.com/honeycombio/refinery/types"
)

// C04: every span forwarded for a kept trace (outside dry run) carries
//     SampleRate = max(client rate, 1) × trace rate,   trace rate ≥ 1,
//     meta.refinery.final_sample_rate = that product,
//     meta.refinery.original_sample_rate = the client rate iff it is nonzero;
// late spans use the rate recorded with the decision, stress-relief spans the stress-relief rate.
//
// Engine: E1 (real InMemCollector, workers, decision cache, SamplerFactory and samplers, FakeClock).
// "The trace rate" is OBSERVED, not recomputed: each worker's sampler is wrapped in a logging shim
// (c04Shim) that forwards to the real sampler built by the real SamplerFactory for that environment
// — or, for the environment "scripted", answers the rate the driver chose (so that rates up to 2^31-1
// reach the collector with keep=true; no real sampler keeps a trace at such a rate in bounded time).
// The stress-relief rate is the one the scripted StressReliever returned for the trace.
// The oracle is pure arithmetic on the snapshots the recording Transmission took.

// ---- adapters (only uses of unexported collector state in this file) -------------------------

// c04adInject installs sampler s for samplerKey in worker w. Only while the worker is parked.
func c04adInject(w *CollectorWorker, samplerKey string, s sample.Sampler) {
	w.datasetSamplers[samplerKey] = s
}

// ---- logging sampler shim --------------------------------------------------------------------

type c04Decision struct {
	Kind   string `json:"sampler"`
	Rate   uint   `json:"rate"`
	Keep   bool   `json:"keep"`
	Reason string `json:"reason"`
	Step   int    `json:"step"`
	Calls  int    `json:"calls"`
}

type c04Book struct {
	mu     sync.Mutex
	dec    map[string]*c04Decision // by trace id; first decision, Calls counts all
	script map[string]uint         // scripted rate by trace id (environment "scripted")
}

type c04Shim struct {
	kind  string
	inner sample.Sampler // nil: scripted
	book  *c04Book
	e     *E1
}

func (s *c04Shim) Start() error { return nil }
func (s *c04Shim) GetKeyFields() ([]string, []string) {
	if s.inner != nil {
		return s.inner.GetKeyFields()
	}
	return nil, nil
}
func (s *c04Shim) GetSampleRate(tr *types.Trace) (uint, bool, string, string) {
	var rate uint
	var keep bool
	var reason, key string
	if s.inner != nil {
		rate, keep, reason, key = s.inner.GetSampleRate(tr)
	} else {
		s.book.mu.Lock()
		rate = s.book.script[tr.TraceID]
		s.book.mu.Unlock()
		keep, reason = rate > 0, "c04/scripted"
	}
	s.book.mu.Lock()
	if d := s.book.dec[tr.TraceID]; d != nil {
		d.Calls++
	} else {
		s.book.dec[tr.TraceID] = &c04Decision{Kind: s.kind, Rate: rate, Keep: keep, Reason: reason, Step: s.e.Step(), Calls: 1}
	}
	s.book.mu.Unlock()
	return rate, keep, reason, key
}

// ---- workload ------------------------------------------------------------------------------

type c04RealDef struct {
	Kind   string
	Choice *config.V2SamplerChoice
}

func c04GenReal(rng *verifkit.Rand) c04RealDef {
	fl := []string{"svc"}
	switch rng.Intn(11) {
	case 9:
		// a matching rule with SampleRate 0 (or omitted), no Drop, no downstream sampler: passes validation; it must
		// not keep anything (rate 0 is not a sample rate)
		return c04RealDef{"rules-rate-0", &config.V2SamplerChoice{RulesBasedSampler: &config.RulesBasedSamplerConfig{Rules: []*config.RulesBasedSamplerRule{{Name: "zero", SampleRate: 0}}}}}
	case 10:
		return c04RealDef{"rules-rate-0-by-field", &config.V2SamplerChoice{RulesBasedSampler: &config.RulesBasedSamplerConfig{Rules: []*config.RulesBasedSamplerRule{
			{Name: "zero-for-api", Conditions: []*config.RulesBasedSamplerCondition{e1Cond("svc", "=", "api")}},
			{Name: "rest", SampleRate: verifkit.Pick(rng, 1, 2)}}}}}
	case 8:
		return c04RealDef{"windowedthroughput", &config.V2SamplerChoice{WindowedThroughputSampler: &config.WindowedThroughputSamplerConfig{GoalThroughputPerSec: verifkit.Pick(rng, 1, 5, 100), FieldList: fl}}}
	case 0:
		return c04RealDef{"deterministic-1", &config.V2SamplerChoice{DeterministicSampler: &config.DeterministicSamplerConfig{SampleRate: 1}}}
	case 1:
		r := verifkit.Pick(rng, 2, 2, 10, 1000)
		return c04RealDef{fmt.Sprintf("deterministic-%d", r), &config.V2SamplerChoice{DeterministicSampler: &config.DeterministicSamplerConfig{SampleRate: r}}}
	case 2:
		r := verifkit.Pick(rng, 1, 2, 2, 10)
		return c04RealDef{fmt.Sprintf("rules-rate-%d", r), &config.V2SamplerChoice{RulesBasedSampler: &config.RulesBasedSamplerConfig{Rules: []*config.RulesBasedSamplerRule{{Name: "all", SampleRate: r}}}}}
	case 3:
		r := int64(verifkit.Pick(rng, 1, 2, 10))
		return c04RealDef{fmt.Sprintf("dynamic-%d", r), &config.V2SamplerChoice{DynamicSampler: &config.DynamicSamplerConfig{SampleRate: r, FieldList: fl}}}
	case 4:
		r := verifkit.Pick(rng, 1, 2, 10)
		return c04RealDef{fmt.Sprintf("emadynamic-%d", r), &config.V2SamplerChoice{EMADynamicSampler: &config.EMADynamicSamplerConfig{GoalSampleRate: r, FieldList: fl}}}
	case 5:
		return c04RealDef{"totalthroughput", &config.V2SamplerChoice{TotalThroughputSampler: &config.TotalThroughputSamplerConfig{GoalThroughputPerSec: verifkit.Pick(rng, 1, 5, 100), FieldList: fl}}}
	case 6:
		return c04RealDef{"emathroughput", &config.V2SamplerChoice{EMAThroughputSampler: &config.EMAThroughputSamplerConfig{GoalThroughputPerSec: verifkit.Pick(rng, 1, 5, 100), InitialSampleRate: verifkit.Pick(rng, 1, 2, 10), FieldList: fl}}}
	default:
		return c04RealDef{"rules-downstream-dynamic", &config.V2SamplerChoice{RulesBasedSampler: &config.RulesBasedSamplerConfig{Rules: []*config.RulesBasedSamplerRule{
			{Name: "dyn", Sampler: &config.RulesBasedDownstreamSampler{DynamicSampler: &config.DynamicSamplerConfig{SampleRate: 2, FieldList: fl}}}}}}}
	}
}

const c04Max31 = uint(1<<31 - 1)

func c04ClientRate(rng *verifkit.Rand) uint {
	switch rng.Intn(8) {
	case 0, 1:
		return 0 // absent ≡ 0 at the collector boundary
	case 2:
		return 1
	case 3:
		return 2
	case 4:
		return 10
	case 5:
		return c04Max31
	case 6:
		return uint(rng.Range(3, 1000))
	default:
		return uint(rng.Int63()%int64(c04Max31-2)) + 2
	}
}

func c04ScriptRate(rng *verifkit.Rand) uint {
	switch rng.Intn(7) {
	case 0:
		return 1
	case 1:
		return 2
	case 2:
		return 10
	case 3:
		return 1000
	case 4:
		return c04Max31
	case 5:
		return uint(rng.Range(3, 5000))
	default:
		return uint(rng.Int63()%int64(c04Max31-1)) + 1
	}
}

func c04StressRate(rng *verifkit.Rand) uint {
	return verifkit.Pick(rng, uint(1), 100, 1<<32-1, 1<<32, 1<<40, 1<<32+7, 3)
}

func c04RateClass(r uint) string {
	switch {
	case r == 0:
		return "0"
	case r == 1:
		return "1"
	case r <= 10:
		return "s"
	case r < c04Max31:
		return "m"
	case r == c04Max31:
		return "M31"
	case r < 1<<32:
		return "u32"
	default:
		return "o32"
	}
}

type c04Trace struct {
	ID       string
	Env      string
	Mode     string // sampler | stress
	Stress   uint   // stress rate at the stress decision
	Decided  bool
	HasRoot  bool
	Spans    int
	StressAt int // step of the stress decision
}

type c04Witness struct {
	Config   any                  `json:"config"`
	Trace    string               `json:"trace"`
	Env      string               `json:"env"`
	Decision any                  `json:"decision"`
	Span     E1Added              `json:"span"`
	Event    E1Event              `json:"forwarded_as"`
	Expected map[string]any       `json:"expected"`
	Accepted []E1Added            `json:"accepted_spans_of_trace"`
	Forward  map[string][]E1Event `json:"forwarded_of_trace,omitempty"`
	Ops      []E1Op               `json:"ops"`
}

func c04Int(v any) (int64, bool) {
	switch x := v.(type) {
	case int64:
		return x, true
	case int:
		return int64(x), true
	case uint:
		return int64(x), true
	case uint64:
		return int64(x), true
	}
	return 0, false
}

func TestVerif_C04(t *testing.T) {
	run := verifkit.Start(t, "C04", "collect")
	defer run.Finish()
	defer e1TuneRuntime(run)()
	run.Rule("seeded histories on the real collector: traces of 1-5 spans, every span with its own client rate from {absent/0,1,2,10,2^31-1,random}; environments decided by the real deterministic/rules/dynamic/EMA/throughput samplers (observed through a logging shim) or by a scripted sampler answering rates {1,2,10,1000,2^31-1,random} with keep; traces decided by stress relief (ProcessSpanImmediately, scripted rates {1,3,100,2^32-1,2^32,2^32+7,2^40}); late spans through AddSpan/AddSpanFromPeer and through the stress path, also after a reload that changed the sampler's rate; non-trivial = a late span with client rate>1 on a trace kept at rate>1 AND a stress-decided trace with a later span; distinct = set of (path, client class, trace-rate class) combinations checked")
	run.Assume("the trace rate is what the worker's sampler returned (logged by a shim around the real sampler) or what the scripted StressReliever returned; DryRun off; kept-decision capacity far above the trace count; products ≥ 2^63 (no int64 meta value exists) are not judged")

	run.Cases("rates", run.N(160, 4000), func(ci int, rng *verifkit.Rand) {
		workers := verifkit.Pick(rng, 1, 1, 2, 3)
		tick := 100 * time.Millisecond
		cfg := E1Config{Workers: workers, AddRuleReason: rng.Bool(), AddSpanCount: rng.Bool(),
			Traces: config.TracesConfig{SendTicker: config.Duration(tick), SendDelay: config.Duration(100 * time.Millisecond), TraceTimeout: config.Duration(400 * time.Millisecond), MaxExpiredTraces: 3000}}
		reals := map[string]c04RealDef{"real-a": c04GenReal(rng), "real-b": c04GenReal(rng)}
		cfg.Samplers = map[string]*config.V2SamplerChoice{"real-a": reals["real-a"].Choice, "real-b": reals["real-b"].Choice}
		e := e1Start(t, cfg)
		defer e.Stop()
		book := &c04Book{dec: map[string]*c04Decision{}, script: map[string]uint{}}
		envs := []string{"scripted", "scripted", "real-a", "real-b"}
		inject := func() {
			e.Inspect(func(*E1View) {
				for _, w := range e1adWorkers(e.coll) {
					c04adInject(w, "scripted", &c04Shim{kind: "scripted", book: book, e: e})
					for env, d := range reals {
						c04adInject(w, env, &c04Shim{kind: d.Kind, inner: e.sf.GetSamplerImplementationForKey(env), book: book, e: e})
					}
				}
			})
		}
		inject()

		var traces []*c04Trace
		byID := map[string]*c04Trace{}
		newTrace := func(mode string) *c04Trace {
			tr := &c04Trace{ID: rng.Hex(32), Env: envs[rng.Intn(len(envs))], Mode: mode}
			traces = append(traces, tr)
			byID[tr.ID] = tr
			return tr
		}
		mkSpan := func(tr *c04Trace, kind string) E1Span {
			s := e.NewSpan(tr.ID, kind)
			s.Env, s.Dataset, s.Rate, s.Peer = tr.Env, "ds-"+tr.Env, c04ClientRate(rng), rng.Chance(0.25)
			s.Fields = map[string]any{"svc": verifkit.Pick(rng, "api", "db", "web")}
			tr.Spans++
			return s
		}
		stressedSpanRates := map[string]uint{} // span id → stress rate scripted when it went through the stress path
		groups := rng.Range(2, 4)
		for g := 0; g < groups && e.Failed() == ""; g++ {
			// 1. new sampler-decided traces
			var fresh []*c04Trace
			for k := rng.Range(2, 5); k > 0; k-- {
				tr := newTrace("sampler")
				if tr.Env == "scripted" {
					book.mu.Lock()
					book.script[tr.ID] = c04ScriptRate(rng)
					book.mu.Unlock()
				}
				fresh = append(fresh, tr)
				for n := rng.Range(0, 3); n > 0; n-- {
					_ = e.AddSpan(mkSpan(tr, verifkit.Pick(rng, "child", "child", "event", "link")))
				}
				if tr.Spans == 0 || rng.Chance(0.6) {
					_ = e.AddSpan(mkSpan(tr, "root"))
					tr.HasRoot = true
				}
			}
			// 2. traces decided by stress relief (new ids only: the router sends every span there while stressed)
			for k := rng.Range(0, 2); k > 0; k-- {
				tr := newTrace("stress")
				tr.Stress = c04StressRate(rng)
				e.Stress.Script(true, tr.Stress, nil)
				s := mkSpan(tr, verifkit.Pick(rng, "child", "root"))
				stressedSpanRates[s.ID] = tr.Stress
				e.AddStressed(s)
				tr.Decided, tr.StressAt = true, e.Step()
				if rng.Bool() { // a second span while still stressed: found in the decision cache
					s2 := mkSpan(tr, "child")
					stressedSpanRates[s2.ID] = tr.Stress
					e.AddStressed(s2)
				}
				e.Stress.Script(false, 1, nil)
			}
			// 3. decide everything buffered
			e.Advance(600 * time.Millisecond)
			for _, tr := range fresh {
				tr.Decided = true
			}
			// 4. sometimes change the rates the samplers would answer NOW (late spans must not see it)
			if rng.Chance(0.5) {
				book.mu.Lock()
				for id := range book.script {
					book.script[id] = c04ScriptRate(rng)
				}
				book.mu.Unlock()
				env := verifkit.Pick(rng, "real-a", "real-b")
				nd := c04GenReal(rng)
				reals[env] = nd
				e.Reload("sampler "+env+" -> "+nd.Kind, func(m *config.MockConfig) {
					ns := map[string]*config.V2SamplerChoice{}
					for k, v := range m.Samplers {
						ns[k] = v
					}
					ns[env] = nd.Choice
					m.Samplers = ns
				})
				inject()
			}
			// 5. late spans on decided traces
			for k := rng.Range(2, 7); k > 0 && len(traces) > 0; k-- {
				tr := traces[rng.Intn(len(traces))]
				if !tr.Decided {
					continue
				}
				kind := verifkit.Pick(rng, "child", "child", "event", "root")
				if rng.Chance(0.25) {
					// late span arriving while the node is stressed: ProcessSpanImmediately finds the record
					sr := c04StressRate(rng)
					e.Stress.Script(true, sr, nil)
					s := mkSpan(tr, kind)
					stressedSpanRates[s.ID] = sr
					e.AddStressed(s)
					e.Stress.Script(false, 1, nil)
				} else {
					_ = e.AddSpan(mkSpan(tr, kind))
				}
			}
		}
		e.Flush(false)
		if e.Failed() != "" {
			run.Inconclusive(e.Failed())
			return
		}
		f := e.Finalize()
		if e.Failed() != "" {
			run.Inconclusive(e.Failed())
			return
		}

		// ---- oracle ------------------------------------------------------------------------
		combos := map[string]bool{}
		lateInteresting, stressFollowed := false, false
		for _, id := range f.Order {
			obs := f.Traces[id]
			tr := byID[id]
			if tr == nil || len(obs.Accepted) == 0 {
				continue
			}
			book.mu.Lock()
			var dec *c04Decision
			if d := book.dec[id]; d != nil {
				c := *d
				dec = &c
			}
			book.mu.Unlock()
			var traceRate uint
			var decision any
			decidedBy := tr.Mode
			switch tr.Mode {
			case "stress":
				traceRate, decision = tr.Stress, map[string]any{"by": "stress relief", "rate": tr.Stress, "step": tr.StressAt}
				if dec != nil { // a sampler ALSO decided it: outside this oracle
					run.Count("traces_skipped_two_deciders", 1)
					continue
				}
			default:
				if dec == nil {
					if obs.ForwardedCount() > 0 {
						run.Count("traces_forwarded_without_logged_decision", 1)
					}
					continue
				}
				if dec.Calls > 1 {
					run.Count("traces_skipped_redecided", 1)
					continue
				}
				decision = dec
				if !dec.Keep {
					run.Count("traces_dropped", 1)
					continue // nothing may be forwarded (C01/C02 own that)
				}
				traceRate = dec.Rate
				run.Count("traces_kept_"+strings.SplitN(dec.Kind, "-", 2)[0], 1)
				if traceRate < 1 {
					run.Violation("C04/sampler/kept-trace-with-rate-below-1/"+strings.SplitN(dec.Kind, "-", 2)[0], fmt.Sprintf("sampler %s kept trace %s with rate %d", dec.Kind, id, traceRate),
						map[string]any{"config": cfg.describe(), "decision": dec, "accepted": obs.Accepted, "ops": e.Ops()})
					continue
				}
			}
			first := obs.FirstForwardStep()
			for _, a := range obs.Accepted {
				evs := obs.Forwarded[a.Span.ID]
				if len(evs) == 0 {
					continue // presence is C02's subject
				}
				ev := evs[0]
				path := "on-time"
				switch {
				case a.Stressed && tr.Mode == "stress" && a.Step == tr.StressAt:
					path = "stress-decision"
				case a.Stressed:
					path = "stress-late"
				case tr.Mode == "stress" || (first >= 0 && a.Step > first) || (dec != nil && a.Step > dec.Step):
					path = "late"
				}
				client := a.Span.Rate
				allowed := []uint{traceRate}
				if path == "stress-late" && tr.Mode != "stress" {
					// a span of a sampler-decided trace arriving under stress is both "late" and "stress-relief":
					// the property allows the recorded rate or the stress-relief rate in force
					if sr := stressedSpanRates[a.Span.ID]; sr != traceRate {
						allowed = append(allowed, sr)
					}
				}
				big := ""
				if traceRate >= 1<<32 {
					big = "/decision-rate-above-32-bits"
				}
				wit := func(exp map[string]any) c04Witness {
					return c04Witness{Config: cfg.describe(), Trace: id, Env: tr.Env, Decision: decision, Span: a, Event: ev, Expected: exp, Accepted: obs.Accepted, Ops: e.Ops()}
				}
				var products []uint
				judged := true
				for _, r := range allowed {
					hi, lo := bits.Mul64(uint64(max(client, 1)), uint64(r))
					if hi != 0 || lo >= 1<<63 {
						judged = false
					}
					products = append(products, uint(lo))
				}
				if !judged {
					run.Count("spans_not_judged_product_above_2^63", 1)
					continue
				}
				run.Count("spans_checked_"+path, 1)
				combos[path+":"+c04RateClass(client)+"x"+c04RateClass(traceRate)] = true
				if path == "late" && client > 1 && traceRate > 1 && tr.Mode == "sampler" {
					lateInteresting = true
				}
				if tr.Mode == "stress" && path != "stress-decision" {
					stressFollowed = true
				}
				match := -1
				for i, p := range products {
					if ev.SampleRate == p {
						match = i
					}
				}
				exp := map[string]any{"client_rate": client, "trace_rate_allowed": allowed, "sample_rate_allowed": products, "decided_by": decidedBy}
				if match < 0 {
					run.Violation("C04/"+path+"/sample-rate-not-client-times-trace-rate"+big,
						fmt.Sprintf("span %s (%s): client rate %d, trace rate %v ⇒ expected SampleRate %v, forwarded with %d", a.Span.ID, path, client, allowed, products, ev.SampleRate), wit(exp))
					continue
				}
				if fin, ok := c04Int(ev.Fields[types.MetaRefineryFinalSampleRate]); !ok || uint(fin) != ev.SampleRate {
					run.Violation("C04/"+path+"/final-sample-rate-field-differs"+big,
						fmt.Sprintf("span %s: SampleRate %d but %s = %v", a.Span.ID, ev.SampleRate, types.MetaRefineryFinalSampleRate, ev.Fields[types.MetaRefineryFinalSampleRate]), wit(exp))
				}
				orig, has := ev.Fields[types.MetaRefineryOriginalSampleRate]
				switch {
				case client == 0 && has:
					run.Violation("C04/"+path+"/original-sample-rate-present-without-client-rate",
						fmt.Sprintf("span %s had no client rate but carries %s = %v", a.Span.ID, types.MetaRefineryOriginalSampleRate, orig), wit(exp))
				case client != 0:
					if o, ok := c04Int(orig); !ok || uint(o) != client {
						run.Violation("C04/"+path+"/original-sample-rate-not-the-client-rate",
							fmt.Sprintf("span %s: client rate %d, %s = %v", a.Span.ID, client, types.MetaRefineryOriginalSampleRate, orig), wit(exp))
					}
				}
			}
		}
		keys := make([]string, 0, len(combos))
		for k := range combos {
			keys = append(keys, k)
		}
		sort.Strings(keys)
		if lateInteresting && stressFollowed {
			run.Nontrivial(strings.Join(keys, " "))
		}
		run.Count("combos_in_history", int64(len(keys)))
		run.Count("events_forwarded", int64(e.EventCount()))
		run.Count("steps", int64(e.Step()))
		if ci < 2 {
			run.Sample(map[string]any{"config": cfg.describe(), "traces": len(traces), "combos": keys, "events": e.EventCount()})
		}
	})
}
