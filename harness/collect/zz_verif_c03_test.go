//go:build verif

package collect

import (
	"fmt"
	"sort"
	"testing"
	"time"

	"github.com/honeycombio/refinery/config"
	"github.com/honeycombio/refinery/internal/verifkit"
)

// C03: trace decisions happen at the documented time.
//
// Lock-step reference model of the deadline (the property's three clauses):
//   deadline = min( firstSpan + TraceTimeout(0⇒60s), rootSpan + SendDelay(0⇒2s), instant count first exceeds SpanLimit )
// checked after EVERY E1 step (OnQuiesce hook), i.e. with one-send-tick resolution:
//   * a trace is decided only in a step that processes a send tick (or an ejection step);
//   * at a tick at virtual time T every buffered trace of a worker with deadline ≤ T is decided, unless more
//     than MaxExpiredTraces of that worker are due: then exactly MaxExpiredTraces are decided and no decided
//     trace has a later deadline than a due trace that was left (ties free);
//   * no trace with deadline > T is decided at T;
//   * meta.refinery.send_reason (AddRuleReasonToTrace on) is got_root if a root is buffered, else span_limit if
//     the count exceeds SpanLimit, else expired.
// Decision time is observed without touching the decision cache: in dry-run histories and in keep-everything
// histories every decided trace shows up at the recorder in the step it is decided; in keep/drop histories
// (rules sampler on a field the driver sets, MaxExpiredTraces unlimited) kept traces are identified at the
// recorder and dropped ones through the per-step delta of the trace_send_dropped counter.

type c03Trace struct {
	ID      string        `json:"id"`
	Worker  int           `json:"worker"`
	Keep    bool          `json:"keep"`
	FirstAt time.Duration `json:"first_span_at"`
	SendBy  time.Duration `json:"deadline"`
	Kind    string        `json:"deadline_kind"` // timeout | root | span-limit
	HasRoot bool          `json:"has_root"`
	Count   int           `json:"span_count"`
	Decided bool          `json:"decided"`
	SetStep int           `json:"deadline_set_at_step"`
	spanIDs map[string]bool
}

type c03Model struct {
	tick, sd, tt time.Duration
	spanLimit    int
	maxExp       int
	traces       map[string]*c03Trace
	order        []string
}

func (m *c03Model) live(worker int) []*c03Trace {
	var out []*c03Trace
	for _, id := range m.order {
		if t := m.traces[id]; !t.Decided && (worker < 0 || t.Worker == worker) {
			out = append(out, t)
		}
	}
	return out
}

// span applies one processed span at virtual time now (the property's deadline rule).
func (m *c03Model) span(now time.Duration, step int, s E1Span, worker int, keep bool) {
	t := m.traces[s.Trace]
	if t == nil {
		t = &c03Trace{ID: s.Trace, Worker: worker, Keep: keep, FirstAt: now, SendBy: now + m.tt, Kind: "timeout", SetStep: step, spanIDs: map[string]bool{}}
		m.traces[s.Trace] = t
		m.order = append(m.order, s.Trace)
	}
	if t.Decided {
		return // late span: follows the recorded decision, not C03's subject
	}
	t.Count++
	t.spanIDs[s.ID] = true
	if s.Kind == "root" {
		t.HasRoot = true
		if d := now + m.sd; d < t.SendBy {
			t.SendBy, t.Kind, t.SetStep = d, "root", step
		}
	}
	if m.spanLimit > 0 && t.Count > m.spanLimit {
		if now < t.SendBy {
			t.SendBy, t.Kind, t.SetStep = now, "span-limit", step
		}
	}
}

type c03Witness struct {
	Config  any         `json:"config"`
	Mode    string      `json:"mode"`
	Step    int         `json:"step"`
	At      string      `json:"virtual_time"`
	TickAt  string      `json:"tick_at,omitempty"`
	Trace   *c03Trace   `json:"trace,omitempty"`
	Due     []*c03Trace `json:"due_at_this_tick,omitempty"`
	Decided []string    `json:"decided_in_this_step,omitempty"`
	Events  []E1Event   `json:"events_of_this_step,omitempty"`
	Ops     []E1Op      `json:"ops"`
}

var c03Combos = []struct {
	tick, sd, tt time.Duration
}{
	{100 * time.Millisecond, 300 * time.Millisecond, 2 * time.Second},
	{100 * time.Millisecond, time.Second, 3 * time.Second},
	{100 * time.Millisecond, 250 * time.Millisecond, 1050 * time.Millisecond},
	{100 * time.Millisecond, 100 * time.Millisecond, 500 * time.Millisecond},
	{250 * time.Millisecond, 0, 5 * time.Second},
	{time.Second, 0, 0},
	{2 * time.Second, 3 * time.Second, 0},
	{70 * time.Millisecond, 333 * time.Millisecond, 1234 * time.Millisecond},
}

func c03Reason(t *c03Trace, spanLimit int) string {
	switch {
	case t.HasRoot:
		return TraceSendGotRoot
	case spanLimit > 0 && t.Count > spanLimit:
		return TraceSendSpanLimit
	default:
		return TraceSendExpired
	}
}

func c03Short(reason string) string {
	switch reason {
	case TraceSendGotRoot:
		return "got-root"
	case TraceSendSpanLimit:
		return "span-limit"
	case TraceSendExpired:
		return "expired"
	case TraceSendEjectedMemsize:
		return "ejected-memsize"
	case TraceSendLateSpan:
		return "late-span"
	case "":
		return "none"
	}
	return "other"
}

func TestVerif_C03(t *testing.T) {
	run := verifkit.Start(t, "C03", "collect")
	defer run.Finish()
	defer e1TuneRuntime(run)()
	run.Rule("seeded timing histories on the real collector (1–3 workers; SendTicker/SendDelay/TraceTimeout from 8 combinations incl. zero defaults and off-grid values; SpanLimit 0/2/4 and 2^32, 2^40, 2^32+3 (never exceeded; traces get more spans than the low 32 bits); MaxExpiredTraces 0/1/3): roots and children added on, 1ns before and 1ns after model deadlines and ticks, root after the timeout, root after the span limit, equal deadlines, backlogs of 3×MaxExpiredTraces+1 on one worker, ejections; a third each dry-run, keep-everything and keep/drop-by-field; non-trivial = at least two of {clock landed exactly on a deadline, backlog beyond MaxExpiredTraces, root after its trace timed out, span limit exceeded, deadline tie, deadline passed while the worker sat idle in its select since before the deadline}; distinct = configuration class × feature set")
	run.Assume("decision instant = virtual time of the E1 step in which the trace's buffered spans reach the recorder (dry-run / keep-everything) or the trace_send_dropped counter moves (keep/drop histories, MaxExpiredTraces unlimited there)")
	run.Assume("trace-to-worker assignment is read from the collector (getWorkerIDForTrace); equal-deadline order inside one tick is unspecified and any order is accepted")

	run.Cases("timing", run.N(240, 3000), func(ci int, rng *verifkit.Rand) {
		cb := c03Combos[rng.Intn(len(c03Combos))]
		mode := verifkit.Pick(rng, "dry", "allkeep", "keepdrop")
		workers := rng.Range(1, 3)
		// SpanLimit is a uint setting: values at and above 2^32 must behave like "practically unlimited"
		spanLimit := verifkit.Pick(rng, 0, 0, 2, 4, 0, 2, 4, 1<<32, 1<<40, 1<<32+3)
		hugeLimit := spanLimit >= 1<<32
		maxExp := verifkit.Pick(rng, 0, 1, 3)
		if mode == "keepdrop" {
			maxExp = 0
		}
		cfg := E1Config{Workers: workers, DryRun: mode == "dry", AddRuleReason: true,
			Traces: config.TracesConfig{SendTicker: config.Duration(cb.tick), SendDelay: config.Duration(cb.sd), TraceTimeout: config.Duration(cb.tt),
				SpanLimit: uint(spanLimit), MaxExpiredTraces: uint(maxExp)}}
		keepAll := mode == "allkeep"
		if keepAll {
			cfg.Samplers = map[string]*config.V2SamplerChoice{"env-a": {DeterministicSampler: &config.DeterministicSamplerConfig{SampleRate: 1}}}
		} else {
			cfg.Samplers = map[string]*config.V2SamplerChoice{"env-a": {RulesBasedSampler: &config.RulesBasedSamplerConfig{Rules: []*config.RulesBasedSamplerRule{
				{Name: "keep-marked", SampleRate: 1, Conditions: []*config.RulesBasedSamplerCondition{e1Cond("verif.keep", "=", "yes")}},
				{Name: "drop-rest", Drop: true},
			}}}}
		}
		e := e1Start(t, cfg)
		defer e.Stop()
		m := &c03Model{tick: cb.tick, sd: cb.sd, tt: cb.tt, spanLimit: spanLimit, maxExp: maxExp, traces: map[string]*c03Trace{}}
		if m.sd == 0 {
			m.sd = 2 * time.Second
		}
		if m.tt == 0 {
			m.tt = 60 * time.Second
		}

		// ---- per-step oracle -------------------------------------------------------------
		feat := map[string]bool{}
		broken := false
		curOp := "start"
		ejectWorker := -2
		seen := 0
		var lastDropped int64
		idTrace := map[string]string{} // verif.id -> trace
		wit := func(tr *c03Trace, due []*c03Trace, decided []string, evs []E1Event) c03Witness {
			w := c03Witness{Config: cfg.describe(), Mode: mode, Step: e.Step(), At: e.Now().String(), Trace: tr, Due: due, Decided: decided, Ops: e.Ops()}
			if at, ok := e.IsTickStep(); ok {
				w.TickAt = at.String()
			}
			if len(evs) > 12 {
				evs = evs[:12]
			}
			w.Events = evs
			return w
		}
		violate := func(sig, what string, w c03Witness) {
			broken = true
			run.Violation(sig, what, w)
		}
		var prevAt time.Duration // virtual instant of the previous step = loop-start time of every (idle) worker
		e.OnQuiesce(func(v *E1View) {
			defer func() { prevAt = e.Now() }()
			evs := e.EventsFrom(seen)
			seen += len(evs)
			dropped := e.Counter("trace_send_dropped")
			dDropped := int(dropped - lastDropped)
			lastDropped = dropped
			if broken {
				return
			}
			// traces with a buffered (non-late) span at the recorder in this step
			decidedSet := map[string]bool{}
			var decided []string
			byTrace := map[string][]E1Event{}
			for _, ev := range evs {
				tid := idTrace[ev.ID]
				tr := m.traces[tid]
				if tr == nil {
					continue
				}
				if !tr.Decided && tr.spanIDs[ev.ID] {
					if !decidedSet[tid] {
						decidedSet[tid] = true
						decided = append(decided, tid)
					}
					byTrace[tid] = append(byTrace[tid], ev)
				}
			}
			tickAt, isTick := e.IsTickStep()
			switch {
			case isTick:
				expectDrops := 0
				for w := 0; w < workers; w++ {
					var due, obs []*c03Trace
					for _, tr := range m.live(w) {
						if tr.SendBy <= tickAt {
							due = append(due, tr)
						}
						if decidedSet[tr.ID] {
							obs = append(obs, tr)
						}
					}
					for _, tr := range obs {
						if tr.SendBy > tickAt {
							violate("C03/decided-before-deadline/"+tr.Kind, fmt.Sprintf("trace decided at the tick at %v, its %s deadline is %v", tickAt, tr.Kind, tr.SendBy), wit(tr, due, decided, evs))
							return
						}
					}
					sort.SliceStable(due, func(i, j int) bool { return due[i].SendBy < due[j].SendBy })
					if mode == "keepdrop" {
						// unlimited MaxExpiredTraces: everything due is decided; kept ones are identified, dropped ones counted
						for _, tr := range due {
							if tr.Keep && !decidedSet[tr.ID] {
								violate("C03/not-decided-at-first-tick-after-deadline/"+tr.Kind, fmt.Sprintf("kept trace with %s deadline %v was not decided at the tick at %v", tr.Kind, tr.SendBy, tickAt), wit(tr, due, decided, evs))
								return
							}
							if !tr.Keep {
								expectDrops++
							}
						}
						continue
					}
					if m.maxExp > 0 && len(due) > m.maxExp {
						feat["backlog"] = true
						if len(obs) > m.maxExp {
							violate("C03/more-than-MaxExpiredTraces-decided-in-one-tick", fmt.Sprintf("%d traces of one worker decided in one tick, MaxExpiredTraces=%d", len(obs), m.maxExp), wit(nil, due, decided, evs))
							return
						}
						if len(obs) < m.maxExp {
							violate("C03/backlog-tick-decided-fewer-than-MaxExpiredTraces", fmt.Sprintf("%d traces due, MaxExpiredTraces=%d, only %d decided at this tick", len(due), m.maxExp, len(obs)), wit(nil, due, decided, evs))
							return
						}
						var latestTaken time.Duration
						for _, tr := range obs {
							if tr.SendBy > latestTaken {
								latestTaken = tr.SendBy
							}
						}
						for _, tr := range due {
							if !decidedSet[tr.ID] && tr.SendBy < latestTaken {
								violate("C03/backlog-not-earliest-deadline-first", fmt.Sprintf("trace with deadline %v was left while a trace with deadline %v was decided", tr.SendBy, latestTaken), wit(tr, due, decided, evs))
								return
							}
						}
					} else {
						for _, tr := range due {
							if !decidedSet[tr.ID] {
								violate("C03/not-decided-at-first-tick-after-deadline/"+tr.Kind, fmt.Sprintf("trace with %s deadline %v was not decided at the tick at %v", tr.Kind, tr.SendBy, tickAt), wit(tr, due, decided, evs))
								return
							}
						}
					}
				}
				if mode == "keepdrop" && dDropped != expectDrops {
					violate("C03/dropped-decisions-at-tick-differ-from-due-traces", fmt.Sprintf("%d drop decisions were made at the tick at %v, %d to-be-dropped traces were due", dDropped, tickAt, expectDrops), wit(nil, nil, decided, evs))
					return
				}
				// send reasons + model update
				for w := 0; w < workers; w++ {
					for _, tr := range m.live(w) {
						isDue := tr.SendBy <= tickAt
						if decidedSet[tr.ID] {
							want := c03Reason(tr, m.spanLimit)
							for _, ev := range byTrace[tr.ID] {
								got, _ := ev.Fields["meta.refinery.send_reason"].(string)
								if got != want {
									sig := "C03/send-reason/" + c03Short(want) + "-reported-as-" + c03Short(got)
									if hugeLimit {
										sig += "/span-limit-above-32-bits"
									}
									run.Violation(sig, fmt.Sprintf("trace has root=%v, %d spans, SpanLimit=%d: send reason %q, expected %q", tr.HasRoot, tr.Count, m.spanLimit, got, want), wit(tr, nil, decided, evs))
									break // a wrong label does not make the model diverge: keep evaluating this history
								}
							}
							if tr.SendBy == tickAt {
								feat["exact"] = true
							}
							if tr.SendBy > prevAt {
								// the worker's loop iteration began (E1 resume barrier) before the deadline and it stayed
								// parked in its select until this tick: "now" must be read when the tick is handled
								feat["slept-through-deadline"] = true
								run.Count("decisions_with_deadline_after_last_wakeup", 1)
							}
							tr.Decided = true
						} else if mode == "keepdrop" && isDue && !tr.Keep {
							if tr.SendBy == tickAt {
								feat["exact"] = true
							}
							tr.Decided = true
						}
					}
				}
			case curOp == "eject":
				for _, tid := range decided {
					tr := m.traces[tid]
					if ejectWorker >= 0 && tr.Worker != ejectWorker {
						violate("C03/decided-outside-send-tick/other-worker-during-eject", "a trace of a worker that received no ejection request was decided in an ejection step", wit(tr, nil, decided, evs))
						return
					}
					tr.Decided = true
				}
				feat["eject"] = true
			default:
				if len(decided) > 0 {
					tr := m.traces[decided[0]]
					violate("C03/decided-outside-send-tick/"+curOp, fmt.Sprintf("trace decided in a %s step at %v (no send tick, no ejection); its %s deadline is %v", curOp, e.Now(), tr.Kind, tr.SendBy), wit(tr, nil, decided, evs))
					return
				}
				if mode == "keepdrop" && dDropped != 0 {
					violate("C03/decided-outside-send-tick/"+curOp+"-drop", fmt.Sprintf("%d drop decision(s) in a %s step (no send tick, no ejection)", dDropped, curOp), wit(nil, nil, decided, evs))
					return
				}
			}
		})

		// ---- generator (drives the model, never looks at observations) ---------------------
		nextSpan := 0
		newID := func(worker int) string {
			for {
				id := rng.Hex(32)
				if worker < 0 || e.WorkerOf(id) == worker {
					return id
				}
			}
		}
		mk := func(trace, kind string, keep bool) E1Span {
			nextSpan++
			s := E1Span{ID: fmt.Sprintf("s%d", nextSpan), Trace: trace, Kind: kind, Peer: rng.Chance(0.25), Env: "env-a", Dataset: "ds", Rate: uint(verifkit.Pick(rng, 0, 1, 4)),
				Fields: map[string]any{"verif.keep": e1KeepValue(keep)}}
			idTrace[s.ID] = trace
			return s
		}
		keepFor := func() bool { return keepAll || rng.Chance(0.6) }
		add := func(s E1Span, keep bool) {
			if tr := m.traces[s.Trace]; tr != nil {
				keep = tr.Keep
				if !tr.Decided && s.Kind == "root" {
					if tr.SendBy <= e.Now() {
						feat["root-after-timeout"] = true
					}
					if tr.Kind == "span-limit" {
						feat["root-after-span-limit"] = true
					}
				}
			}
			curOp = "span"
			m.span(e.Now(), e.Step()+1, s, e.WorkerOf(s.Trace), keep)
			if tr := m.traces[s.Trace]; tr.Kind == "span-limit" && !tr.Decided {
				feat["span-limit"] = true
			}
			if err := e.AddSpan(s); err != nil {
				run.Inconclusive("C03 history had a refused span (queues are sized not to refuse): " + err.Error())
				broken = true
			}
		}
		advance := func(d time.Duration) {
			if d < 0 {
				d = 0
			}
			curOp = "advance"
			e.Advance(d)
		}
		pickLive := func() *c03Trace {
			l := m.live(-1)
			if len(l) == 0 {
				return nil
			}
			return l[rng.Intn(len(l))]
		}
		pickDecided := func() *c03Trace {
			var d []*c03Trace
			for _, id := range m.order {
				if t := m.traces[id]; t.Decided {
					d = append(d, t)
				}
			}
			if len(d) == 0 {
				return nil
			}
			return d[rng.Intn(len(d))]
		}
		nOps := rng.Range(12, run.N(45, 90))
		for i := 0; i < nOps && !broken && e.Failed() == ""; i++ {
			switch k := rng.Intn(100); {
			case k < 14:
				keep := keepFor()
				add(mk(newID(-1), "child", keep), keep)
			case k < 22:
				keep := keepFor()
				add(mk(newID(-1), "root", keep), keep)
			case k < 34:
				if tr := pickLive(); tr != nil {
					add(mk(tr.ID, verifkit.Pick(rng, "child", "child", "event", "link"), tr.Keep), tr.Keep)
				}
			case k < 44:
				if tr := pickLive(); tr != nil {
					add(mk(tr.ID, "root", tr.Keep), tr.Keep)
				}
			case k < 48:
				if tr := pickDecided(); tr != nil {
					add(mk(tr.ID, verifkit.Pick(rng, "child", "root"), tr.Keep), tr.Keep)
				}
			case k < 72:
				// aim at a model deadline
				tr := pickLive()
				if tr == nil {
					advance(verifkit.Pick(rng, cb.tick/2, cb.tick))
					break
				}
				d := tr.SendBy - e.Now()
				switch rng.Intn(6) {
				case 0:
					d -= time.Nanosecond
				case 1:
					d += time.Nanosecond
				case 2:
					d -= cb.tick / 2
				case 3:
					// the first tick at or after the deadline
					ticks := (tr.SendBy + cb.tick - 1) / cb.tick
					d = ticks*cb.tick - e.Now()
				}
				advance(d)
			case k < 82:
				advance(verifkit.Pick(rng, 0, time.Nanosecond, cb.tick/2, cb.tick, cb.tick+time.Nanosecond))
			case k < 88:
				// push a trace over the span limit
				if spanLimit == 0 {
					break
				}
				tr := pickLive()
				var id string
				keep := keepFor()
				if tr != nil && rng.Bool() {
					id, keep = tr.ID, tr.Keep
				} else {
					id = newID(-1)
				}
				have := 0
				if x := m.traces[id]; x != nil {
					have = x.Count
				}
				target := spanLimit
				if hugeLimit {
					// cannot be exceeded; give the trace more spans than the limit's low 32 bits instead
					target = spanLimit&0xffffffff + 1
					feat["huge-span-limit-residue-exceeded"] = true
				}
				for j := have; j <= target && !broken; j++ {
					add(mk(id, "child", keep), keep)
				}
			case k < 95:
				// backlog: 3×MaxExpiredTraces+1 traces of ONE worker become due together
				n := 3*max(maxExp, 1) + 1
				w := rng.Intn(workers)
				tie := rng.Bool()
				if tie {
					feat["tie"] = true
				}
				for j := 0; j < n && !broken; j++ {
					keep := keepFor()
					add(mk(newID(w), "root", keep), keep)
					if !tie {
						advance(time.Nanosecond)
					}
				}
			default:
				if mode == "keepdrop" {
					break // dropped traces of an ejection could not be identified
				}
				curOp = "eject"
				if rng.Bool() {
					ejectWorker = rng.Intn(workers)
				} else {
					ejectWorker = -1
				}
				e.Eject(ejectWorker, verifkit.Pick(rng, 0, 1, 100, 1<<30))
			}
		}
		// ---- drain: advance until the model has no buffered trace ---------------------------
		for guard := 0; !broken && e.Failed() == "" && len(m.live(-1)) > 0 && guard < 100000; guard++ {
			var earliest time.Duration = -1
			for _, tr := range m.live(-1) {
				if earliest < 0 || tr.SendBy < earliest {
					earliest = tr.SendBy
				}
			}
			curOp = "advance"
			if earliest > e.Now() {
				ticks := (earliest + cb.tick - 1) / cb.tick
				advance(ticks*cb.tick - e.Now())
			} else {
				e.AdvanceToNextTick()
			}
		}
		if e.Failed() != "" {
			run.Inconclusive(e.Failed())
			return
		}
		if !broken {
			// nothing may be left in the real buffers once the model is empty
			var left []E1Buffered
			e.Inspect(func(v *E1View) { left = v.Buffered() })
			if len(left) > 0 {
				run.Violation("C03/trace-still-buffered-after-model-decided-everything", fmt.Sprintf("%d trace(s) still buffered although every model deadline has passed and been ticked", len(left)),
					map[string]any{"config": cfg.describe(), "mode": mode, "buffered": left[:min(5, len(left))], "ops": e.Ops()})
			}
		}
		feats := []string{}
		for k := range feat {
			feats = append(feats, k)
		}
		sort.Strings(feats)
		nt := 0
		for _, k := range []string{"exact", "backlog", "root-after-timeout", "span-limit", "tie", "root-after-span-limit", "slept-through-deadline", "huge-span-limit-residue-exceeded"} {
			if feat[k] {
				nt++
			}
		}
		if nt >= 2 {
			run.Nontrivial(fmt.Sprintf("%s w%d tick%v sd%v tt%v sl%d me%d %v", mode, workers, cb.tick, cb.sd, cb.tt, spanLimit, maxExp, feats))
		}
		for _, k := range feats {
			run.Count("histories_with_"+k, 1)
		}
		run.Count("traces", int64(len(m.order)))
		run.Count("ticks_checked", int64(len(e.TickTimes())))
		run.Count("steps", int64(e.Step()))
		run.Count("events_forwarded", int64(e.EventCount()))
		if ci < 2 {
			run.Sample(map[string]any{"config": cfg.describe(), "mode": mode, "features": feats, "traces": len(m.order), "ticks": len(e.TickTimes())})
		}
	})
}
