//go:build verif

package collect

import (
	"fmt"
	"testing"

	"github.com/honeycombio/refinery/internal/verifkit"
)

// C01: one keep/drop decision per trace, applied to every accepted span (outside dry run).
//
// Offline oracle over the E1 event log of one lifecycle history, after the bounded-progress flush:
// for every trace with ≥1 accepted span the set of forwarded verif.ids must be ∅ or ALL accepted ids,
// and the decision cache's final answer must agree with what was forwarded. Exemptions are the ones the
// property lists, measured: kept record possibly aged out (E1SurelyRetained false), id is a false
// positive of the dropped filter (filter claims more drops than drop decisions were made). Stress
// relief is never switched on in these histories and cluster membership is a single node.

type c01Witness struct {
	Config   any                  `json:"config"`
	Trace    string               `json:"trace"`
	Worker   int                  `json:"worker"`
	Final    E1Decision           `json:"final_check_trace"`
	Accepted []E1Added            `json:"accepted_spans"`
	Forward  map[string][]E1Event `json:"forwarded"`
	Ops      []E1Op               `json:"ops"`
}

func c01Check(run *verifkit.Run, h *E1History, e *E1, f *E1Final) (exempt, evaluated int) {
	witness := func(t *E1TraceObs) c01Witness {
		return c01Witness{Config: h.Cfg.describe(), Trace: t.Trace, Worker: t.Worker, Final: t.Final, Accepted: t.Accepted, Forward: t.Forwarded, Ops: e.Ops()}
	}
	// candidates for the false-positive exemption: kept traces the filter calls dropped
	fpBudget := f.DropFilterExcess()
	for _, id := range f.Order {
		t := f.Traces[id]
		if len(t.Accepted) == 0 {
			continue
		}
		evaluated++
		fwd := t.ForwardedCount()
		all := len(t.Accepted)
		retained := f.E1SurelyRetained(t, h.MinKept)
		anomaly := ""
		what := ""
		switch {
		case fwd != 0 && fwd != all:
			first := t.FirstForwardStep()
			missingLate, missingEarly, fwdEarly := 0, 0, 0
			for _, a := range t.Accepted {
				got := len(t.Forwarded[a.Span.ID]) > 0
				switch {
				case !got && a.Step >= first:
					missingLate++
				case !got:
					missingEarly++
				case got && a.Step < first:
					fwdEarly++
				}
			}
			switch {
			case missingLate > 0 && missingEarly == 0:
				anomaly = "C01/late-span-not-forwarded-for-kept-trace"
			case missingEarly > 0 && fwdEarly > 0:
				anomaly = "C01/spans-buffered-together-split-at-decision"
			default:
				anomaly = "C01/late-span-forwarded-for-dropped-trace"
			}
			what = fmt.Sprintf("%d of %d accepted spans of one trace were forwarded (missing: %d that arrived after the first forward, %d before)", fwd, all, missingLate, missingEarly)
		case fwd == all && t.Final.Found && !t.Final.Kept:
			anomaly = "C01/all-forwarded-but-decision-cache-says-dropped"
			what = "every accepted span was forwarded, yet CheckTrace answers dropped: later spans would be treated differently"
		case fwd == 0 && t.Final.Found && t.Final.Kept:
			anomaly = "C01/none-forwarded-but-decision-cache-says-kept"
			what = "no accepted span was forwarded, yet CheckTrace answers kept: later spans would be treated differently"
		}
		if anomaly == "" {
			continue
		}
		if !retained {
			exempt++
			run.Count("exempt_kept_record_possibly_aged_out", 1)
			continue
		}
		if t.Final.Found && !t.Final.Kept && fwd > 0 && fpBudget > 0 {
			// the filter claims this kept trace although no drop decision accounts for it
			fpBudget--
			exempt++
			run.Count("exempt_dropped_filter_false_positive", 1)
			continue
		}
		run.Violation(anomaly, what, witness(t))
	}
	return exempt, evaluated
}

func TestVerif_C01(t *testing.T) {
	run := verifkit.Start(t, "C01", "collect")
	defer run.Finish()
	defer e1TuneRuntime(run)()
	run.Rule("seeded lifecycle histories on the real collector (1–8 workers, 3–40 trace ids, root/child/span-event/link spans via AddSpan and AddSpanFromPeer, single spans and bursts, clock advances of 0, tick/2, tick, SendDelay, TraceTimeout±1ns, sampler/flag reloads, sample-cache resizes, ejections with byte budgets; deterministic, rules, has-root, span-content, random-rate and dynamic samplers); non-trivial = at least one accepted span arrived after its trace's decision and the history has both kept and dropped traces; distinct = workers × sampler kinds × bucketed counts of late spans, kept/dropped traces, ejections, reloads, resizes, bursts")
	run.Assume("single node (stable membership), stress relief scripted off for the whole history, DryRun off")
	run.Assume("accepted span = AddSpan/AddSpanFromPeer returned nil; forwarded = snapshot taken at Transmission.EnqueueSpan")
	run.Assume("kept-record retention is measured conservatively: a trace is exempt when ≥ KeptSizePerWorker other traces of its worker used the kept LRU after its decision")

	n := run.N(240, 3000)
	steps := run.N(60, 150)
	var exempt, evaluated int
	run.Cases("lifecycle", n, func(i int, rng *verifkit.Rand) {
		p := E1Profile{MaxSteps: steps, SmallKept: rng.Chance(0.06), TinyQueues: rng.Chance(0.1)}
		h := e1GenHistory(rng, p)
		e := h.Run(t, nil, nil)
		defer e.Stop()
		if e.Failed() != "" {
			run.Inconclusive(e.Failed())
			return
		}
		f := e.Finalize()
		if e.Failed() != "" {
			run.Inconclusive(e.Failed())
			return
		}
		x, ev := c01Check(run, h, e, f)
		exempt += x
		evaluated += ev
		sig, late, kept, dropped := h.Abstract(f)
		if late > 0 && kept > 0 && dropped > 0 {
			run.Nontrivial(sig)
		}
		run.Count("traces_evaluated", int64(ev))
		run.Count("spans_accepted", int64(c01Accepted(f)))
		run.Count("events_forwarded", int64(e.EventCount()))
		run.Count("late_spans", int64(late))
		run.Count("steps", int64(e.Step()))
		if i < 2 {
			run.Sample(map[string]any{"config": h.Cfg.describe(), "ops": len(e.Ops()), "traces": len(f.Order), "kept": kept, "dropped": dropped, "late": late})
		}
	})
	if evaluated > 0 && exempt*100 > evaluated*2 {
		run.Inconclusive(fmt.Sprintf("%d of %d traces exempted (>2%%)", exempt, evaluated))
	}
}

func c01Accepted(f *E1Final) int {
	n := 0
	for _, t := range f.Traces {
		n += len(t.Accepted)
	}
	return n
}
