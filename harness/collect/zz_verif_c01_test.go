//go:build verif

package collect

import (
	"fmt"
	"strings"
	"testing"
	"time"

	"github.com/honeycombio/refinery/config"

	"github.com/honeycombio/refinery/internal/verifkit"
)

// C01: one keep/drop decision per trace, applied to every accepted span (outside dry run).
//
// Offline oracle over the E1 event log of one lifecycle history, after the bounded-progress flush:
// for every trace with ≥1 accepted span the set of forwarded verif.ids must be ∅ or ALL accepted ids,
// and the decision cache's final answer must agree with what was forwarded. Exemptions are the ones the
// property lists, measured: kept record possibly aged out (E1SurelyRetained false), id is a false
// positive of the dropped filter (filter claims more drops than drop decisions were made). Stress
// relief is never switched on in these histories and cluster membership is a single node.

type c01Witness struct {
	Config   any                  `json:"config"`
	Trace    string               `json:"trace"`
	Worker   int                  `json:"worker"`
	Final    E1Decision           `json:"final_check_trace"`
	Accepted []E1Added            `json:"accepted_spans"`
	Forward  map[string][]E1Event `json:"forwarded"`
	Ops      []E1Op               `json:"ops"`
}

func c01Check(run *verifkit.Run, h *E1History, e *E1, f *E1Final) (exempt, evaluated int) {
	witness := func(t *E1TraceObs) c01Witness {
		return c01Witness{Config: h.Cfg.describe(), Trace: t.Trace, Worker: t.Worker, Final: t.Final, Accepted: t.Accepted, Forward: t.Forwarded, Ops: e.Ops()}
	}
	// candidates for the false-positive exemption: kept traces the filter calls dropped
	fpBudget := f.DropFilterExcess()
	if f.PhantomDecisions() != 0 {
		// decisions were recorded without being applied: surplus "dropped" answers are not false positives
		fpBudget = 0
	}
	for _, id := range f.Order {
		t := f.Traces[id]
		if len(t.Accepted) == 0 {
			continue
		}
		evaluated++
		fwd := t.ForwardedCount()
		all := len(t.Accepted)
		retained := f.E1SurelyRetained(t, h.MinKept)
		anomaly := ""
		what := ""
		switch {
		case fwd != 0 && fwd != all:
			first := t.FirstForwardStep()
			missingLate, missingEarly, fwdEarly := 0, 0, 0
			for _, a := range t.Accepted {
				got := len(t.Forwarded[a.Span.ID]) > 0
				switch {
				case !got && a.Step >= first:
					missingLate++
				case !got:
					missingEarly++
				case got && a.Step < first:
					fwdEarly++
				}
			}
			switch {
			case missingLate > 0 && missingEarly == 0:
				anomaly = "C01/late-span-not-forwarded-for-kept-trace"
			case missingEarly > 0 && fwdEarly > 0:
				anomaly = "C01/spans-buffered-together-split-at-decision"
			default:
				anomaly = "C01/late-span-forwarded-for-dropped-trace"
			}
			what = fmt.Sprintf("%d of %d accepted spans of one trace were forwarded (missing: %d that arrived after the first forward, %d before)", fwd, all, missingLate, missingEarly)
		case fwd == all && t.Final.Found && !t.Final.Kept:
			anomaly = "C01/all-forwarded-but-decision-cache-says-dropped"
			what = "every accepted span was forwarded, yet CheckTrace answers dropped: later spans would be treated differently"
		case fwd == 0 && t.Final.Found && t.Final.Kept:
			anomaly = "C01/none-forwarded-but-decision-cache-says-kept"
			what = "no accepted span was forwarded, yet CheckTrace answers kept: later spans would be treated differently"
		}
		if anomaly == "" {
			continue
		}
		if !retained {
			exempt++
			run.Count("exempt_kept_record_possibly_aged_out", 1)
			continue
		}
		if t.Final.Found && !t.Final.Kept && fwd > 0 && fpBudget > 0 {
			// the filter claims this kept trace although no drop decision accounts for it
			fpBudget--
			exempt++
			run.Count("exempt_dropped_filter_false_positive", 1)
			continue
		}
		run.Violation(anomaly, what, witness(t))
	}
	return exempt, evaluated
}

func TestVerif_C01(t *testing.T) {
	run := verifkit.Start(t, "C01", "collect")
	defer run.Finish()
	defer e1TuneRuntime(run)()
	run.Rule("seeded lifecycle histories on the real collector (1–8 workers, 3–40 trace ids, root/child/span-event/link spans via AddSpan and AddSpanFromPeer, single spans and bursts, clock advances of 0, tick/2, tick, SendDelay, TraceTimeout±1ns, sampler/flag reloads, sample-cache resizes, ejections with byte budgets; deterministic, rules, has-root, span-content, random-rate and dynamic samplers); non-trivial = at least one accepted span arrived after its trace's decision and the history has both kept and dropped traces; distinct = workers × sampler kinds × bucketed counts of late spans, kept/dropped traces, ejections, reloads, resizes, bursts")
	run.Assume("single node (stable membership), stress relief scripted off for the whole history, DryRun off")
	run.Assume("accepted span = AddSpan/AddSpanFromPeer returned nil; forwarded = snapshot taken at Transmission.EnqueueSpan")
	run.Assume("kept-record retention is measured conservatively: a trace is exempt when ≥ KeptSizePerWorker other traces of its worker used the kept LRU after its decision")

	n := run.N(160, 2600)
	steps := run.N(60, 150)
	var exempt, evaluated int
	one := func(label string, i int, h *E1History) {
		var e *E1
		hookBroken := false
		// Mechanism check at every quiescent point: a trace that is still buffered and undecided must have no
		// record in its worker's decision cache (a record for it means later spans will be treated by a decision the
		// trace itself never got). CheckTrace does not change LRU recency for ids it does not find.
		hook := func(v *E1View) {
			if hookBroken {
				return
			}
			for _, b := range v.Buffered() {
				if b.Sent {
					continue
				}
				d := v.CheckTrace(b.Trace)
				if !d.Found {
					continue
				}
				if made, applied := e.DecisionCounts(); !d.Kept && made == applied {
					// every decision made was applied, so nothing recorded this id: a false positive of the dropped filter
					run.Count("exempt_dropped_filter_false_positive_while_buffered", 1)
					continue
				}
				hookBroken = true
				run.Violation("C01/undecided-buffered-trace-has-recorded-decision",
					fmt.Sprintf("trace is buffered and undecided at step %d, yet the decision cache already answers kept=%v for it", e.Step(), d.Kept),
					map[string]any{"config": h.Cfg.describe(), "buffered": b, "check_trace": d, "ops": e.Ops()})
			}
		}
		e = h.Run(t, func(d *E1) { e = d; d.OnQuiesce(hook) }, nil)
		defer e.Stop()
		if e.Failed() != "" {
			run.Inconclusive(e.Failed())
			return
		}
		f := e.Finalize()
		if e.Failed() != "" {
			run.Inconclusive(e.Failed())
			return
		}
		x, ev := c01Check(run, h, e, f)
		exempt += x
		evaluated += ev
		sig, late, kept, dropped := h.Abstract(f)
		if late > 0 && kept > 0 && dropped > 0 {
			run.Nontrivial(label + " " + sig)
		}
		run.Count("traces_evaluated", int64(ev))
		run.Count("spans_accepted", int64(c01Accepted(f)))
		run.Count("events_forwarded", int64(e.EventCount()))
		run.Count("late_spans", int64(late))
		run.Count("steps", int64(e.Step()))
		if i < 2 {
			run.Sample(map[string]any{"label": label, "config": h.Cfg.describe(), "ops": len(e.Ops()), "traces": len(f.Order), "kept": kept, "dropped": dropped, "late": late})
		}
	}
	run.Cases("lifecycle", n, func(i int, rng *verifkit.Rand) {
		one("lifecycle", i, e1GenHistory(rng, E1Profile{MaxSteps: steps, SmallKept: rng.Chance(0.06), TinyQueues: rng.Chance(0.1)}))
	})
	// partial ejections followed by the spans that change a content-dependent sampler's mind
	run.Cases("eject-then-complete", run.N(50, 600), func(i int, rng *verifkit.Rand) {
		one("eject", i, c01GenEjectHistory(rng))
	})
	// a whole batch of traces is decided while the outgoing queue is full and the upstream takes nothing
	run.Cases("stalled-upstream", run.N(4, 40), func(i int, rng *verifkit.Rand) {
		one("stalled", i, e1GenStalledHistory(rng, false))
	})
	// a reload shrinks the kept-decision cache below the number of remembered kept traces; the newest ones get late spans
	run.Cases("shrink-kept-cache", run.N(20, 300), func(i int, rng *verifkit.Rand) {
		one("shrink", i, e1GenShrinkKeptHistory(rng))
	})
	// decisions take fake time (single worker, small HealthCheckTimeout), many traces due at one tick
	run.Cases("slow-decisions", run.N(25, 400), func(i int, rng *verifkit.Rand) {
		one("slow", i, e1GenSlowHistory(rng))
	})
	if evaluated > 0 && exempt*100 > evaluated*2 {
		run.Inconclusive(fmt.Sprintf("%d of %d traces exempted (>2%%)", exempt, evaluated))
	}
}

func c01Accepted(f *E1Final) int {
	n := 0
	for _, t := range f.Traces {
		n += len(t.Accepted)
	}
	return n
}

// c01GenEjectHistory: several traces of few workers are buffered WITHOUT the span that would make a
// content-dependent sampler keep them (rules: keep iff some span has error=yes / keep iff a root is present / keep
// iff an odd-numbered span is present). A partial ejection (byte budget 0, 1 or the size of the heaviest trace)
// decides the heaviest trace(s) and leaves the rest buffered. Then the survivors receive the deciding span (error
// span, root), more children, are decided by SendDelay/TraceTimeout, and receive late spans. A decision taken —
// or recorded — for a survivor during the ejection round would differ from its real one.
func c01GenEjectHistory(rng *verifkit.Rand) *E1History {
	workers := verifkit.Pick(rng, 1, 1, 2, 3)
	tick := 100 * time.Millisecond
	errSampler := E1SamplerDef{Kind: "rules-error-field", Choice: &config.V2SamplerChoice{RulesBasedSampler: &config.RulesBasedSamplerConfig{Rules: []*config.RulesBasedSamplerRule{
		{Name: "has-error", SampleRate: 1, Conditions: []*config.RulesBasedSamplerCondition{e1Cond("error", "=", "yes")}},
		{Name: "no-error", Drop: true},
	}}}, Predict: func(string, bool) (bool, bool) { return false, false }}
	hasRoot := E1SamplerDef{Kind: "rules-has-root", Choice: &config.V2SamplerChoice{RulesBasedSampler: &config.RulesBasedSamplerConfig{Rules: []*config.RulesBasedSamplerRule{
		{Name: "rooted", SampleRate: 1, Conditions: []*config.RulesBasedSamplerCondition{{Operator: config.HasRootSpan, Value: true}}},
		{Name: "rootless", Drop: true},
	}}}, Predict: func(string, bool) (bool, bool) { return false, false }}
	h := &E1History{Defs: map[string]E1SamplerDef{"env-a": errSampler, "env-b": verifkit.Pick(rng, hasRoot, errSampler)}, MinKept: 10000}
	h.Cfg = E1Config{Workers: workers, AddRuleReason: rng.Bool(),
		Traces: config.TracesConfig{SendTicker: config.Duration(tick), SendDelay: config.Duration(300 * time.Millisecond),
			TraceTimeout: config.Duration(verifkit.Pick(rng, 2000, 3000) * int(time.Millisecond)), MaxExpiredTraces: uint(verifkit.Pick(rng, 0, 2, 3000))},
		Samplers: map[string]*config.V2SamplerChoice{"env-a": h.Defs["env-a"].Choice, "env-b": h.Defs["env-b"].Choice}}
	type tr struct {
		id, env string
		n       int
	}
	var trs []*tr
	nextID := 0
	mk := func(x *tr, kind string, errField bool, pad int) E1Span {
		nextID++
		x.n++
		f := map[string]any{"svc": "api", "pad": strings.Repeat("x", pad), "n": int64(x.n)}
		if errField {
			f["error"] = "yes"
		}
		return E1Span{ID: fmt.Sprintf("s%d", nextID), Trace: x.id, Kind: kind, Peer: rng.Chance(0.3), Env: x.env, Dataset: "ds-" + x.env, Rate: uint(verifkit.Pick(rng, 0, 1, 2)), Fields: f}
	}
	span := func(s E1Span) { h.Steps = append(h.Steps, e1Step{Op: "span", Spans: []E1Span{s}}) }
	for j := rng.Range(4, 10); j > 0; j-- {
		trs = append(trs, &tr{id: rng.Hex(32), env: verifkit.Pick(rng, "env-a", "env-a", "env-b")})
	}
	// phase A: children only, distinct weights (so that "the heaviest" is well defined)
	for k, x := range trs {
		for c := rng.Range(1, 3); c > 0; c-- {
			span(mk(x, "child", false, 10+40*k+rng.Intn(30)))
		}
	}
	rounds := rng.Range(1, 3)
	for r := 0; r < rounds; r++ {
		// phase B: partial ejection
		h.Steps = append(h.Steps, e1Step{Op: "eject", Worker: rng.Intn(workers+1) - 1, Bytes: verifkit.Pick(rng, 0, 0, 1, 1, 60, 400)})
		// phase C: the deciding spans for (some of) the traces — survivors get them while still buffered, ejected ones as late spans
		for _, x := range trs {
			switch rng.Intn(5) {
			case 0:
				span(mk(x, "child", true, 5))
			case 1:
				span(mk(x, "root", false, 5))
			case 2:
				span(mk(x, "child", true, 5))
				span(mk(x, "root", false, 5))
			case 3:
				span(mk(x, "child", false, 20))
			}
		}
		h.Steps = append(h.Steps, e1Step{Op: "advance", Dur: verifkit.Pick(rng, tick, 300*time.Millisecond+tick, time.Second)})
	}
	// phase D: everything that is left times out; late spans for every trace, then more time
	h.Steps = append(h.Steps, e1Step{Op: "advance", Dur: 3*time.Second + tick})
	for _, x := range trs {
		for c := rng.Range(1, 2); c > 0; c-- {
			span(mk(x, verifkit.Pick(rng, "child", "child", "root"), rng.Chance(0.3), 5))
		}
	}
	return h
}
