//go:build verif

package collect

import (
	"fmt"
	"testing"

	"github.com/honeycombio/refinery/internal/verifkit"
)

// C02: kept spans are forwarded exactly once, dropped spans never; nothing invented; nothing forwarded
// for an undecided trace; every accepted span's trace is eventually decided (bounded progress).
//
// Multiset checker over unique verif.ids at the upstream Transmission boundary:
//   * an id seen twice                                      → duplicate
//   * an event without a handed-over id                     → invented
//   * an id whose hand-over was refused (ErrWouldBlock)     → forwarded although not accepted
//   * at any quiescent point: an id that is already forwarded while its trace is still in a
//     worker's buffer (= not decided yet), or a buffered trace marked Sent
//   * after the bounded-progress flush (TraceTimeout + SendDelay + ⌈backlog/MaxExpiredTraces⌉ ticks + 1):
//     a trace still buffered, or an accepted trace with no decision evidence at all
//   * decision cache says kept (or dry run is on) and an accepted span is missing
//   * decision cache says dropped (not a measured false positive) and a span was forwarded
// "kept"/"dropped" is Refinery's own recorded decision (CheckTrace, probed once at the very end), not a
// prediction, so nothing about sampler semantics is asserted here.

type c02Witness struct {
	Config   any                  `json:"config"`
	Trace    string               `json:"trace,omitempty"`
	Worker   int                  `json:"worker,omitempty"`
	Final    *E1Decision          `json:"final_check_trace,omitempty"`
	Accepted []E1Added            `json:"accepted_spans,omitempty"`
	Rejected []E1Added            `json:"rejected_spans,omitempty"`
	Forward  map[string][]E1Event `json:"forwarded,omitempty"`
	Events   []E1Event            `json:"events,omitempty"`
	Buffered []E1Buffered         `json:"buffered,omitempty"`
	Ops      []E1Op               `json:"ops"`
}

func c02Check(run *verifkit.Run, h *E1History, e *E1, f *E1Final, midViolations *int) {
	wt := func(t *E1TraceObs) c02Witness {
		return c02Witness{Config: h.Cfg.describe(), Trace: t.Trace, Worker: t.Worker, Final: &t.Final, Accepted: t.Accepted, Rejected: t.Rejected, Forward: t.Forwarded, Ops: e.Ops()}
	}
	if len(f.Unknown) > 0 {
		run.Violation("C02/invented-event-at-transmission", fmt.Sprintf("%d event(s) reached the upstream transmission that carry no verif.id handed to the collector", len(f.Unknown)),
			c02Witness{Config: h.Cfg.describe(), Events: f.Unknown[:min(len(f.Unknown), 5)], Ops: e.Ops()})
	}
	if len(f.BufferLeft) > 0 {
		sig := "C02/undecided-after-bounded-progress/no-root"
		for _, b := range f.BufferLeft {
			if b.HasRoot {
				sig = "C02/undecided-after-bounded-progress/has-root"
			}
		}
		run.Violation(sig, fmt.Sprintf("%d trace(s) still buffered after TraceTimeout+SendDelay+backlog ticks of virtual time", len(f.BufferLeft)),
			c02Witness{Config: h.Cfg.describe(), Buffered: f.BufferLeft[:min(len(f.BufferLeft), 5)], Ops: e.Ops()})
	}
	fpBudget := f.DropFilterExcess()
	var noEvidence []*E1TraceObs
	defer func() {
		if len(noEvidence) == 0 {
			return
		}
		// The dropped-trace filter is filled asynchronously on a real-time ticker; Finalize waited for it with a
		// wall-clock bound. If Refinery made enough drop decisions to explain every unanswered trace the filter is
		// merely late (inconclusive); if not, a trace left the buffer without any decision.
		if int(f.DropCounter+f.StressDrops) >= f.DropClaims+len(noEvidence) {
			run.Inconclusive(fmt.Sprintf("dropped-trace filter did not answer for %d decided trace(s) within the wall-clock bound", len(noEvidence)))
			return
		}
		run.Violation("C02/accepted-trace-without-decision-evidence",
			fmt.Sprintf("after the flush %d trace(s) are neither buffered, nor remembered by the decision cache, nor forwarded, and only %d drop decisions were made for %d traces the filter answers for", len(noEvidence), f.DropCounter+f.StressDrops, f.DropClaims),
			wt(noEvidence[0]))
	}()
	for _, id := range f.Order {
		t := f.Traces[id]
		for _, r := range t.Rejected {
			if len(t.Forwarded[r.Span.ID]) > 0 {
				run.Violation("C02/refused-span-forwarded", "a span whose AddSpan returned an error was forwarded", wt(t))
			}
		}
		if len(t.Accepted) == 0 {
			continue
		}
		stressDropped := map[string]bool{}
		for _, a := range t.Accepted {
			if a.Stressed && !a.Kept {
				stressDropped[a.Span.ID] = true
			}
		}
		fwd, first := t.ForwardedCount(), t.FirstForwardStep()
		for _, a := range t.Accepted {
			evs := t.Forwarded[a.Span.ID]
			if len(evs) > 1 {
				sig := "C02/span-forwarded-twice/again-at-a-later-step"
				if evs[0].Step == evs[len(evs)-1].Step {
					sig = "C02/span-forwarded-twice/within-one-step"
				}
				run.Violation(sig, fmt.Sprintf("span %s reached the upstream transmission %d times", a.Span.ID, len(evs)), wt(t))
			}
		}
		retained := f.E1SurelyRetained(t, h.MinKept)
		// decision evidence
		if !t.Final.Found && fwd == 0 {
			if len(f.BufferLeft) == 0 { // otherwise already reported above
				noEvidence = append(noEvidence, t)
			}
			continue
		}
		keptSide := h.Cfg.DryRun || (t.Final.Found && t.Final.Kept)
		switch {
		case keptSide:
			missing, missingLate := 0, 0
			for _, a := range t.Accepted {
				if len(t.Forwarded[a.Span.ID]) == 0 && !stressDropped[a.Span.ID] {
					missing++
					if first >= 0 && a.Step >= first {
						missingLate++
					}
				}
			}
			if missing == 0 {
				break
			}
			if !h.Cfg.DryRun && !retained {
				run.Count("exempt_kept_record_possibly_aged_out", 1)
				break
			}
			sig := "C02/kept-trace-span-lost/buffered-at-decision"
			if h.Cfg.DryRun {
				sig = "C02/dry-run-span-lost/buffered-at-decision"
			}
			if missingLate == missing {
				sig = "C02/kept-trace-span-lost/late-span"
				if h.Cfg.DryRun {
					sig = "C02/dry-run-span-lost/late-span"
				}
			}
			run.Violation(sig, fmt.Sprintf("%d of %d accepted spans of a trace recorded as kept (or dry run) never reached the upstream transmission", missing, len(t.Accepted)), wt(t))
		case t.Final.Found && !t.Final.Kept && fwd > 0:
			if !retained {
				run.Count("exempt_kept_record_possibly_aged_out", 1)
				break
			}
			if fpBudget > 0 {
				fpBudget--
				run.Count("exempt_dropped_filter_false_positive", 1)
				break
			}
			run.Violation("C02/dropped-trace-span-forwarded", fmt.Sprintf("%d span(s) of a trace recorded as dropped reached the upstream transmission", fwd), wt(t))
		}
	}
}

func TestVerif_C02(t *testing.T) {
	run := verifkit.Start(t, "C02", "collect")
	defer run.Finish()
	defer e1TuneRuntime(run)()
	run.Rule("same seeded lifecycle histories as C01 plus tiny-queue histories (1–3 slots per worker, bursts handed over while the workers are parked ⇒ deterministic ErrWouldBlock) and dry-run histories; after every step the worker buffers are compared with the forwarded ids; non-trivial = history has a late span, a kept and a dropped trace (or, tiny-queue label, at least one refused span and one kept trace); distinct = abstract history signature")
	run.Assume("accepted span = AddSpan/AddSpanFromPeer returned nil; refused spans are excluded and counted")
	run.Assume("bounded progress: TraceTimeout + SendDelay + ceil(backlog/MaxExpiredTraces)+1 send ticks of virtual time after the last input")
	run.Assume("kept/dropped is the collector's own recorded decision read through CheckTrace once at the end of the history")

	steps := run.N(60, 150)
	one := func(label string, rng *verifkit.Rand, p E1Profile, i int) {
		h := e1GenHistory(rng, p)
		mid := 0
		var e *E1
		forwardedAt := 0
		forwarded := map[string]int{} // id -> step first forwarded
		hook := func(v *E1View) {
			for _, ev := range e.EventsFrom(forwardedAt) {
				if _, ok := forwarded[ev.ID]; !ok {
					forwarded[ev.ID] = ev.Step
				}
				forwardedAt = ev.Seq + 1
			}
			for _, b := range v.Buffered() {
				if b.Sent {
					mid++
					run.Violation("C02/decided-trace-left-in-buffer", "a trace marked Sent is still in a worker's buffer at a quiescent point",
						c02Witness{Config: h.Cfg.describe(), Buffered: []E1Buffered{b}, Ops: e.Ops()})
				}
				for _, id := range b.SpanIDs {
					if st, ok := forwarded[id]; ok {
						mid++
						run.Violation("C02/span-forwarded-before-its-trace-was-decided", fmt.Sprintf("span %s was forwarded at step %d while its trace is still undecided in the buffer at step %d", id, st, e.Step()),
							c02Witness{Config: h.Cfg.describe(), Trace: b.Trace, Buffered: []E1Buffered{b}, Ops: e.Ops()})
					}
				}
			}
		}
		e = h.Run(t, func(d *E1) { e = d; d.OnQuiesce(hook) }, nil)
		defer e.Stop()
		if e.Failed() != "" {
			run.Inconclusive(e.Failed())
			return
		}
		f := e.Finalize()
		if e.Failed() != "" {
			run.Inconclusive(e.Failed())
			return
		}
		c02Check(run, h, e, f, &mid)
		sig, late, kept, dropped := h.Abstract(f)
		refused := 0
		for _, tr := range f.Traces {
			refused += len(tr.Rejected)
		}
		switch {
		case p.TinyQueues:
			if refused > 0 && kept > 0 {
				run.Nontrivial(label + " " + sig + fmt.Sprintf(" rf%d", min(refused, 5)))
			}
		case p.DryRun:
			if late > 0 {
				run.Nontrivial(label + " " + sig)
			}
		default:
			if late > 0 && kept > 0 && dropped > 0 {
				run.Nontrivial(label + " " + sig)
			}
		}
		run.Count("spans_accepted", int64(c01AcceptedC02(f)))
		run.Count("spans_refused", int64(refused))
		run.Count("events_forwarded", int64(e.EventCount()))
		run.Count("late_spans", int64(late))
		run.Count("steps", int64(e.Step()))
		run.Count("traces", int64(len(f.Order)))
		if i < 1 {
			run.Sample(map[string]any{"label": label, "config": h.Cfg.describe(), "ops": len(e.Ops()), "traces": len(f.Order), "kept": kept, "dropped": dropped, "late": late, "refused": refused})
		}
	}
	run.Cases("lifecycle", run.N(120, 1500), func(i int, rng *verifkit.Rand) {
		one("lifecycle", rng, E1Profile{MaxSteps: steps, SmallKept: rng.Chance(0.05)}, i)
	})
	run.Cases("tiny-queues", run.N(50, 500), func(i int, rng *verifkit.Rand) {
		one("tiny", rng, E1Profile{MaxSteps: steps, TinyQueues: true}, i)
	})
	run.Cases("dry-run", run.N(30, 500), func(i int, rng *verifkit.Rand) {
		one("dry", rng, E1Profile{MaxSteps: steps, DryRun: true}, i)
	})
}

func c01AcceptedC02(f *E1Final) int {
	n := 0
	for _, t := range f.Traces {
		n += len(t.Accepted)
	}
	return n
}
