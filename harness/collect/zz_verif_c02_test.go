//go:build verif

package collect

import (
	"fmt"
	"sync"
	"testing"
	"time"

	"github.com/jonboulle/clockwork"

	"github.com/honeycombio/refinery/config"
	"github.com/honeycombio/refinery/sample"
	"github.com/honeycombio/refinery/types"

	"github.com/honeycombio/refinery/internal/verifkit"
)

// C02: kept spans are forwarded exactly once, dropped spans never; nothing invented; nothing forwarded
// for an undecided trace; every accepted span's trace is eventually decided (bounded progress).
//
// Multiset checker over unique verif.ids at the upstream Transmission boundary:
//   * an id seen twice                                      → duplicate
//   * an event without a handed-over id                     → invented
//   * an id whose hand-over was refused (ErrWouldBlock)     → forwarded although not accepted
//   * at any quiescent point: an id that is already forwarded while its trace is still in a
//     worker's buffer (= not decided yet), or a buffered trace marked Sent
//   * after the bounded-progress flush (TraceTimeout + SendDelay + ⌈backlog/MaxExpiredTraces⌉ ticks + 1):
//     a trace still buffered, or an accepted trace with no decision evidence at all
//   * decision cache says kept (or dry run is on) and an accepted span is missing
//   * decision cache says dropped (not a measured false positive) and a span was forwarded
// "kept"/"dropped" is Refinery's own recorded decision (CheckTrace, probed once at the very end), not a
// prediction, so nothing about sampler semantics is asserted here.

type c02Witness struct {
	Config   any                  `json:"config"`
	Trace    string               `json:"trace,omitempty"`
	Worker   int                  `json:"worker,omitempty"`
	Final    *E1Decision          `json:"final_check_trace,omitempty"`
	Accepted []E1Added            `json:"accepted_spans,omitempty"`
	Rejected []E1Added            `json:"rejected_spans,omitempty"`
	Forward  map[string][]E1Event `json:"forwarded,omitempty"`
	Events   []E1Event            `json:"events,omitempty"`
	Buffered []E1Buffered         `json:"buffered,omitempty"`
	Ops      []E1Op               `json:"ops"`
}

func c02Check(run *verifkit.Run, h *E1History, e *E1, f *E1Final, midViolations *int) {
	wt := func(t *E1TraceObs) c02Witness {
		return c02Witness{Config: h.Cfg.describe(), Trace: t.Trace, Worker: t.Worker, Final: &t.Final, Accepted: t.Accepted, Rejected: t.Rejected, Forward: t.Forwarded, Ops: e.Ops()}
	}
	if len(f.Unknown) > 0 {
		run.Violation("C02/invented-event-at-transmission", fmt.Sprintf("%d event(s) reached the upstream transmission that carry no verif.id handed to the collector", len(f.Unknown)),
			c02Witness{Config: h.Cfg.describe(), Events: f.Unknown[:min(len(f.Unknown), 5)], Ops: e.Ops()})
	}
	if len(f.BufferLeft) > 0 {
		sig := "C02/undecided-after-bounded-progress/no-root"
		for _, b := range f.BufferLeft {
			if b.HasRoot {
				sig = "C02/undecided-after-bounded-progress/has-root"
			}
		}
		run.Violation(sig, fmt.Sprintf("%d trace(s) still buffered after TraceTimeout+SendDelay+backlog ticks of virtual time", len(f.BufferLeft)),
			c02Witness{Config: h.Cfg.describe(), Buffered: f.BufferLeft[:min(len(f.BufferLeft), 5)], Ops: e.Ops()})
	}
	fpBudget := f.DropFilterExcess()
	if f.PhantomDecisions() != 0 {
		// decisions were recorded without being applied: surplus "dropped" answers are not false positives
		fpBudget = 0
	}
	var noEvidence []*E1TraceObs
	defer func() {
		if len(noEvidence) == 0 {
			return
		}
		// The dropped-trace filter is filled asynchronously on a real-time ticker; Finalize waited for it with a
		// wall-clock bound. If Refinery made enough drop decisions to explain every unanswered trace the filter is
		// merely late (inconclusive); if not, a trace left the buffer without any decision.
		if int(f.DropCounter+f.StressDrops) >= f.DropClaims+len(noEvidence) {
			run.Inconclusive(fmt.Sprintf("dropped-trace filter did not answer for %d decided trace(s) within the wall-clock bound", len(noEvidence)))
			return
		}
		run.Violation("C02/accepted-trace-without-decision-evidence",
			fmt.Sprintf("after the flush %d trace(s) are neither buffered, nor remembered by the decision cache, nor forwarded, and only %d drop decisions were made for %d traces the filter answers for", len(noEvidence), f.DropCounter+f.StressDrops, f.DropClaims),
			wt(noEvidence[0]))
	}()
	for _, id := range f.Order {
		t := f.Traces[id]
		for _, r := range t.Rejected {
			if len(t.Forwarded[r.Span.ID]) > 0 {
				run.Violation("C02/refused-span-forwarded", "a span whose AddSpan returned an error was forwarded", wt(t))
			}
		}
		if len(t.Accepted) == 0 {
			continue
		}
		stressDropped := map[string]bool{}
		for _, a := range t.Accepted {
			if a.Stressed && !a.Kept {
				stressDropped[a.Span.ID] = true
			}
		}
		fwd, first := t.ForwardedCount(), t.FirstForwardStep()
		for _, a := range t.Accepted {
			evs := t.Forwarded[a.Span.ID]
			if len(evs) > 1 {
				sig := "C02/span-forwarded-twice/again-at-a-later-step"
				if evs[0].Step == evs[len(evs)-1].Step {
					sig = "C02/span-forwarded-twice/within-one-step"
				}
				run.Violation(sig, fmt.Sprintf("span %s reached the upstream transmission %d times", a.Span.ID, len(evs)), wt(t))
			}
		}
		retained := f.E1SurelyRetained(t, h.MinKept)
		// decision evidence
		if !t.Final.Found && fwd == 0 {
			if len(f.BufferLeft) == 0 { // otherwise already reported above
				noEvidence = append(noEvidence, t)
			}
			continue
		}
		keptSide := h.Cfg.DryRun || (t.Final.Found && t.Final.Kept)
		switch {
		case keptSide:
			missing, missingLate := 0, 0
			for _, a := range t.Accepted {
				if len(t.Forwarded[a.Span.ID]) == 0 && !stressDropped[a.Span.ID] {
					missing++
					if first >= 0 && a.Step >= first {
						missingLate++
					}
				}
			}
			if missing == 0 {
				break
			}
			if !h.Cfg.DryRun && !retained {
				run.Count("exempt_kept_record_possibly_aged_out", 1)
				break
			}
			sig := "C02/kept-trace-span-lost/buffered-at-decision"
			if h.Cfg.DryRun {
				sig = "C02/dry-run-span-lost/buffered-at-decision"
			}
			if missingLate == missing {
				sig = "C02/kept-trace-span-lost/late-span"
				if h.Cfg.DryRun {
					sig = "C02/dry-run-span-lost/late-span"
				}
			}
			run.Violation(sig, fmt.Sprintf("%d of %d accepted spans of a trace recorded as kept (or dry run) never reached the upstream transmission", missing, len(t.Accepted)), wt(t))
		case t.Final.Found && !t.Final.Kept && fwd > 0:
			if !retained {
				run.Count("exempt_kept_record_possibly_aged_out", 1)
				break
			}
			if fpBudget > 0 {
				fpBudget--
				run.Count("exempt_dropped_filter_false_positive", 1)
				break
			}
			run.Violation("C02/dropped-trace-span-forwarded", fmt.Sprintf("%d span(s) of a trace recorded as dropped reached the upstream transmission", fwd), wt(t))
		}
	}
}

func TestVerif_C02(t *testing.T) {
	run := verifkit.Start(t, "C02", "collect")
	defer run.Finish()
	defer e1TuneRuntime(run)()
	run.Rule("slow-decisions list: single-worker histories in which a shim around the real sampler advances the fake clock by 0–300 ms per decision while 8–16 traces fall due at one tick (non-trivial = more than 1 s of fake time spent in decisions and a kept trace); other lists: same seeded lifecycle histories as C01 plus tiny-queue histories (1–3 slots per worker, bursts handed over while the workers are parked ⇒ deterministic ErrWouldBlock) and dry-run histories; after every step the worker buffers are compared with the forwarded ids; non-trivial = history has a late span, a kept and a dropped trace (or, tiny-queue label, at least one refused span and one kept trace); distinct = abstract history signature")
	run.Assume("accepted span = AddSpan/AddSpanFromPeer returned nil; refused spans are excluded and counted")
	run.Assume("bounded progress: TraceTimeout + SendDelay + ceil(backlog/MaxExpiredTraces)+1 send ticks of virtual time after the last input")
	run.Assume("kept/dropped is the collector's own recorded decision read through CheckTrace once at the end of the history")

	steps := run.N(60, 150)
	one := func(label string, rng *verifkit.Rand, p E1Profile, i int) {
		var h *E1History
		switch label {
		case "stalled":
			h = e1GenStalledHistory(rng, p.DryRun)
		case "shrink":
			h = e1GenShrinkKeptHistory(rng)
		default:
			h = e1GenHistory(rng, p)
		}
		mid := 0
		var e *E1
		forwardedAt := 0
		forwarded := map[string]int{} // id -> step first forwarded
		hook := func(v *E1View) {
			for _, ev := range e.EventsFrom(forwardedAt) {
				if _, ok := forwarded[ev.ID]; !ok {
					forwarded[ev.ID] = ev.Step
				}
				forwardedAt = ev.Seq + 1
			}
			for _, b := range v.Buffered() {
				if b.Sent {
					mid++
					run.Violation("C02/decided-trace-left-in-buffer", "a trace marked Sent is still in a worker's buffer at a quiescent point",
						c02Witness{Config: h.Cfg.describe(), Buffered: []E1Buffered{b}, Ops: e.Ops()})
				}
				for _, id := range b.SpanIDs {
					if st, ok := forwarded[id]; ok {
						mid++
						run.Violation("C02/span-forwarded-before-its-trace-was-decided", fmt.Sprintf("span %s was forwarded at step %d while its trace is still undecided in the buffer at step %d", id, st, e.Step()),
							c02Witness{Config: h.Cfg.describe(), Trace: b.Trace, Buffered: []E1Buffered{b}, Ops: e.Ops()})
					}
				}
			}
		}
		e = h.Run(t, func(d *E1) { e = d; d.OnQuiesce(hook) }, nil)
		defer e.Stop()
		if e.Failed() != "" {
			run.Inconclusive(e.Failed())
			return
		}
		f := e.Finalize()
		if e.Failed() != "" {
			run.Inconclusive(e.Failed())
			return
		}
		c02Check(run, h, e, f, &mid)
		sig, late, kept, dropped := h.Abstract(f)
		refused := 0
		for _, tr := range f.Traces {
			refused += len(tr.Rejected)
		}
		switch {
		case p.TinyQueues:
			if refused > 0 && kept > 0 {
				run.Nontrivial(label + " " + sig + fmt.Sprintf(" rf%d", min(refused, 5)))
			}
		case p.DryRun:
			if late > 0 {
				run.Nontrivial(label + " " + sig)
			}
		default:
			if late > 0 && kept > 0 && dropped > 0 {
				run.Nontrivial(label + " " + sig)
			}
		}
		run.Count("spans_accepted", int64(c01AcceptedC02(f)))
		run.Count("spans_refused", int64(refused))
		run.Count("events_forwarded", int64(e.EventCount()))
		run.Count("late_spans", int64(late))
		run.Count("steps", int64(e.Step()))
		run.Count("traces", int64(len(f.Order)))
		if i < 1 {
			run.Sample(map[string]any{"label": label, "config": h.Cfg.describe(), "ops": len(e.Ops()), "traces": len(f.Order), "kept": kept, "dropped": dropped, "late": late, "refused": refused})
		}
	}
	run.Cases("lifecycle", run.N(110, 1500), func(i int, rng *verifkit.Rand) {
		one("lifecycle", rng, E1Profile{MaxSteps: steps, SmallKept: rng.Chance(0.05)}, i)
	})
	run.Cases("tiny-queues", run.N(45, 500), func(i int, rng *verifkit.Rand) {
		one("tiny", rng, E1Profile{MaxSteps: steps, TinyQueues: true}, i)
	})
	run.Cases("dry-run", run.N(25, 500), func(i int, rng *verifkit.Rand) {
		one("dry", rng, E1Profile{MaxSteps: steps, DryRun: true}, i)
	})
	run.Cases("slow-decisions", run.N(30, 600), func(i int, rng *verifkit.Rand) { c02Slow(t, run, rng, i) })
	// a whole batch of traces is decided while the outgoing queue (100 000 slots) is full and the upstream blocks
	run.Cases("stalled-upstream", run.N(4, 40), func(i int, rng *verifkit.Rand) {
		one("stalled", rng, E1Profile{DryRun: i%4 == 3}, i)
	})
	// a reload shrinks the kept-decision cache below the number of remembered kept traces; the newest ones get late spans
	run.Cases("shrink-kept-cache", run.N(20, 300), func(i int, rng *verifkit.Rand) {
		one("shrink", rng, E1Profile{}, i)
	})
}

// ---- slow decisions --------------------------------------------------------------------------------
//
// A sampler shim around the REAL sampler (built by the real SamplerFactory) that "takes" 0–300 ms of FAKE time
// per decision by advancing the shared FakeClock inside GetSampleRate, with 8–16 traces of ONE worker expiring at
// the same tick: a decision pass overruns one or several send ticks on the collector's own clock (slow
// sampler / back-pressure). Single-worker collector, so no other worker's ticker is involved; E1's tick count is
// re-aligned from the clock (syncTicks), a tick the overrunning worker finds buffered afterwards is processed
// like in production. Oracle unchanged: c02Check + the per-step buffer hook.

// c02adInject installs sampler s for samplerKey in worker w. Only while the worker is parked.
func c02adInject(w *CollectorWorker, samplerKey string, s sample.Sampler) {
	w.datasetSamplers[samplerKey] = s
}

type c02SlowShim struct {
	inner sample.Sampler
	clock *clockwork.FakeClock
	mu    sync.Mutex
	rng   *verifkit.Rand
	maxMs int
	calls int
	spent time.Duration
}

func (s *c02SlowShim) Start() error                       { return nil }
func (s *c02SlowShim) GetKeyFields() ([]string, []string) { return s.inner.GetKeyFields() }
func (s *c02SlowShim) GetSampleRate(tr *types.Trace) (uint, bool, string, string) {
	s.mu.Lock()
	d := time.Duration(s.rng.Range(0, s.maxMs)) * time.Millisecond
	s.calls++
	s.spent += d
	s.mu.Unlock()
	if d > 0 {
		s.clock.Advance(d) // the decision "takes" d on the collector's clock
	}
	return s.inner.GetSampleRate(tr)
}

func c02Slow(t *testing.T, run *verifkit.Run, rng *verifkit.Rand, i int) {
	tick := 100 * time.Millisecond
	def := e1GenSampler(rng, true) // deterministic 1/N or rules on verif.keep
	cfg := E1Config{Workers: 1, AddRuleReason: rng.Bool(), HealthTimeout: 3 * time.Second,
		Traces: config.TracesConfig{SendTicker: config.Duration(tick), SendDelay: config.Duration(verifkit.Pick(rng, 200, 300) * int(time.Millisecond)),
			TraceTimeout: config.Duration(verifkit.Pick(rng, 1000, 2000) * int(time.Millisecond)), SpanLimit: 0, MaxExpiredTraces: uint(verifkit.Pick(rng, 0, 0, 3000, 6))},
		Samplers: map[string]*config.V2SamplerChoice{"env-a": def.Choice}}
	h := &E1History{Cfg: cfg, Defs: map[string]E1SamplerDef{"env-a": def}, MinKept: 10000}
	e := e1Start(t, cfg)
	defer e.Stop()
	shim := &c02SlowShim{clock: e.FakeClock(), rng: rng.Fork("slow"), maxMs: 300}
	e.Inspect(func(*E1View) {
		shim.inner = e.sf.GetSamplerImplementationForKey("env-a")
		for _, w := range e1adWorkers(e.coll) {
			c02adInject(w, "env-a", shim)
		}
	})
	if shim.inner == nil {
		run.Inconclusive("slow-decisions: sampler factory returned no sampler")
		return
	}
	// same per-step hook as the other lists
	forwardedAt := 0
	forwarded := map[string]int{}
	e.OnQuiesce(func(v *E1View) {
		for _, ev := range e.EventsFrom(forwardedAt) {
			if _, ok := forwarded[ev.ID]; !ok {
				forwarded[ev.ID] = ev.Step
			}
			forwardedAt = ev.Seq + 1
		}
		for _, b := range v.Buffered() {
			if b.Sent {
				run.Violation("C02/decided-trace-left-in-buffer", "a trace marked Sent is still in a worker's buffer at a quiescent point",
					c02Witness{Config: cfg.describe(), Buffered: []E1Buffered{b}, Ops: e.Ops()})
			}
			for _, id := range b.SpanIDs {
				if st, ok := forwarded[id]; ok {
					run.Violation("C02/span-forwarded-before-its-trace-was-decided", fmt.Sprintf("span %s was forwarded at step %d while its trace is still undecided in the buffer at step %d", id, st, e.Step()),
						c02Witness{Config: cfg.describe(), Trace: b.Trace, Buffered: []E1Buffered{b}, Ops: e.Ops()})
				}
			}
		}
	})
	type plan struct {
		id   string
		keep bool
		root bool
	}
	var plans []*plan
	mk := func(pl *plan, kind string) E1Span {
		s := e.NewSpan(pl.id, kind)
		s.Peer = rng.Chance(0.3)
		s.Rate = uint(verifkit.Pick(rng, 0, 1, 2))
		s.Fields = map[string]any{"verif.keep": e1KeepValue(pl.keep), "svc": "api"}
		return s
	}
	// phase 1: n traces handed over in one held burst (one instant): the rooted ones fall due together SendDelay
	// later, the rootless ones together TraceTimeout later
	n := rng.Range(8, 16)
	var burst []E1Span
	for j := 0; j < n; j++ {
		pl := &plan{id: rng.Hex(32), keep: rng.Chance(0.7), root: rng.Chance(0.6)}
		plans = append(plans, pl)
		for k := rng.Range(0, 2); k > 0; k-- {
			burst = append(burst, mk(pl, "child"))
		}
		if pl.root {
			burst = append(burst, mk(pl, "root"))
		} else {
			burst = append(burst, mk(pl, "child"))
		}
	}
	e.Burst(burst, true)
	sd, tt := e.EffectiveTimes()
	// phase 2: cross the SendDelay deadline — the decision pass over the rooted traces overruns ticks
	e.Advance(sd + tick)
	e.quiesceLoose()
	// phase 3: late spans for decided traces, a few more rooted traces (a second overrunning pass)
	for j := rng.Range(2, 6); j > 0 && e.Failed() == ""; j-- {
		_ = e.AddSpan(mk(plans[rng.Intn(len(plans))], verifkit.Pick(rng, "child", "root")))
	}
	var burst2 []E1Span
	for j := rng.Range(0, 9); j > 0; j-- {
		pl := &plan{id: rng.Hex(32), keep: rng.Chance(0.7), root: true}
		plans = append(plans, pl)
		burst2 = append(burst2, mk(pl, "child"), mk(pl, "root"))
	}
	if len(burst2) > 0 {
		e.Burst(burst2, true)
	}
	// phase 4: cross the TraceTimeout deadline of the rootless traces (and the second rooted group), then flush
	e.Advance(tt)
	e.quiesceLoose()
	for j := rng.Range(0, 4); j > 0 && e.Failed() == ""; j-- {
		_ = e.AddSpan(mk(plans[rng.Intn(len(plans))], "child"))
	}
	e.Flush(false)
	e.quiesceLoose()
	if e.Failed() != "" {
		run.Inconclusive(e.Failed())
		return
	}
	f := e.Finalize()
	if e.Failed() != "" {
		run.Inconclusive(e.Failed())
		return
	}
	mid := 0
	c02Check(run, h, e, f, &mid)
	_, late, kept, dropped := h.Abstract(f)
	overrun := shim.spent > time.Second
	if overrun && kept > 0 {
		run.Nontrivial(fmt.Sprintf("slow %s n%d me%d spent%ds late%d d%d", def.Kind, n/4, cfg.Traces.MaxExpiredTraces, int(shim.spent/time.Second), min(late, 3), min(dropped, 2)))
	}
	run.Count("slow_decisions", int64(shim.calls))
	run.Count("slow_histories_with_more_than_1s_in_decisions", map[bool]int64{true: 1}[overrun])
	run.Count("spans_accepted", int64(c01AcceptedC02(f)))
	run.Count("events_forwarded", int64(e.EventCount()))
	run.Count("steps", int64(e.Step()))
	run.Count("traces", int64(len(f.Order)))
	if i < 1 {
		run.Sample(map[string]any{"label": "slow-decisions", "config": cfg.describe(), "traces": len(f.Order), "kept": kept, "dropped": dropped, "decisions": shim.calls, "fake_time_in_decisions": shim.spent.String()})
	}
}

func c01AcceptedC02(f *E1Final) int {
	n := 0
	for _, t := range f.Traces {
		n += len(t.Accepted)
	}
	return n
}
