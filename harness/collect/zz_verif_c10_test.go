//go:build verif

package collect

import (
	"fmt"
	"math"
	"math/bits"
	"sort"
	"strings"
	"sync"
	"sync/atomic"
	"testing"
	"time"

	"github.com/dgryski/go-wyhash"
	"github.com/honeycombio/refinery/config"
	"github.com/honeycombio/refinery/internal/verifkit"
	"github.com/honeycombio/refinery/logger"
)

// C10 (unit "collect"): stress-relief sampling is a pure, nested function of
// (trace ID, SamplingRate).
//
//   model      keep <=> wyhash(id, seed) <= floor((2^64-1)/rate); rate <= 1 keeps all
//   purity     two calls, a second instance configured through UpdateFromConfig and 8
//              goroutines sharing one instance decide the same
//   nesting    kept at N implies kept at every M <= N over a ladder of rates up to 2^64-1
//   fraction   kept fraction over a fixed number of PRNG ids within 6 sigma of 1/N
//   reload     every (rate, keep) returned while and after UpdateFromConfig switches between
//              PRNG-chosen rates is the threshold decision for the RETURNED rate

// ---- adapters to the code under test ---------------------------------------

func c10NewStressRelief(rate uint64) *StressRelief {
	s := &StressRelief{
		Config: &config.MockConfig{StressRelief: config.StressReliefConfig{Mode: "always", SamplingRate: rate}},
		Logger: &logger.NullLogger{},
	}
	s.UpdateFromConfig()
	return s
}

func c10SRDecide(s *StressRelief, id string) (uint, bool) {
	rate, keep, _ := s.GetSampleRate(id)
	return rate, keep
}

func c10SRSeed() uint64 { return hashSeed }

// c10HookLogger is an injected logger.Logger: every log line emitted by the code under
// test calls hook() on the emitting goroutine. Logging is an injected dependency, so
// whatever happens "while the logger runs" is a legitimate interleaving.
type c10HookLogger struct {
	logger.NullLogger
	hook atomic.Pointer[func()]
}

type c10HookEntry struct{ l *c10HookLogger }

func (l *c10HookLogger) Debug() logger.Entry { return &c10HookEntry{l} }
func (l *c10HookLogger) Info() logger.Entry  { return &c10HookEntry{l} }
func (l *c10HookLogger) Warn() logger.Entry  { return &c10HookEntry{l} }
func (l *c10HookLogger) Error() logger.Entry { return &c10HookEntry{l} }

func (e *c10HookEntry) WithField(string, interface{}) logger.Entry     { return e }
func (e *c10HookEntry) WithString(string, string) logger.Entry         { return e }
func (e *c10HookEntry) WithFields(map[string]interface{}) logger.Entry { return e }
func (e *c10HookEntry) Logf(string, ...interface{}) {
	if h := e.l.hook.Load(); h != nil {
		(*h)()
	}
}

func c10NewReloadable(rate uint64) (*StressRelief, *config.MockConfig, *c10HookLogger) {
	cfg := &config.MockConfig{StressRelief: config.StressReliefConfig{Mode: "always", SamplingRate: rate}}
	hl := &c10HookLogger{}
	s := &StressRelief{Config: cfg, Logger: hl}
	s.UpdateFromConfig()
	return s, cfg, hl
}

func c10SetRate(cfg *config.MockConfig, rate uint64) {
	cfg.Mux.Lock()
	cfg.StressRelief.SamplingRate = rate
	cfg.Mux.Unlock()
}

// ---- reference model -------------------------------------------------------

func c10SRModelKeep(id string, rate uint64) bool {
	if rate <= 1 {
		return true
	}
	h := wyhash.Hash([]byte(id), c10SRSeed())
	// h <= floor(MAX/rate)  <=>  h*rate <= MAX - (MAX mod rate) ... computed without
	// the division the implementation uses: h*rate must not exceed MAX.
	hi, lo := bits.Mul64(h, rate)
	_ = lo
	// floor(MAX/rate) >= h  <=>  h*rate <= MAX (since h*rate integer and MAX = 2^64-1)
	return hi == 0
}

var c10SRBoundaryRates = []uint64{0, 1, 2, 3, 4, 7, 10, 100, 1000, 65536, 1<<31 - 1, 1 << 31, 1<<32 - 1, 1 << 32, 1<<32 + 1,
	1 << 53, 1<<63 - 1, 1 << 63, 1<<63 + 1, math.MaxUint64 - 1, math.MaxUint64}

func c10SRGenRate(rng *verifkit.Rand) uint64 {
	switch rng.Intn(10) {
	case 0, 1, 2, 3:
		return c10SRBoundaryRates[rng.Intn(len(c10SRBoundaryRates))]
	case 4, 5, 6:
		return uint64(rng.Range(1, 64))
	case 7:
		return uint64(rng.Range(1, 1<<16))
	case 8:
		return rng.Uint64() >> uint(rng.Intn(64))
	default:
		return rng.Uint64()
	}
}

func c10SRGenID(rng *verifkit.Rand) (string, string) {
	switch rng.Intn(12) {
	case 0:
		return "", "empty"
	case 1:
		return verifkit.Pick(rng, "日本語のトレース", "trace-ünïcödé-"+rng.Hex(4), "🦶🔫"+rng.Hex(2), "\x00\x01"+rng.Hex(3)), "unicode"
	case 2:
		return strings.Repeat(rng.Hex(8), rng.Range(100, 2000)), "long"
	case 3, 4, 5:
		return rng.Hex(16), "hex16"
	case 6:
		// short ids: wyhash has special paths for < 4, < 8, < 16, < 32 bytes
		return rng.Hex(rng.Range(1, 31)), "short"
	default:
		return rng.Hex(32), "hex32"
	}
}

func c10SRRateClass(r uint64) string {
	switch {
	case r <= 1:
		return "<=1"
	case r < 1<<8:
		return "<2^8"
	case r < 1<<32:
		return "<2^32"
	case r < 1<<63:
		return "<2^63"
	default:
		return ">=2^63"
	}
}

func TestVerif_C10(t *testing.T) {
	run := verifkit.Start(t, "C10", "collect")
	defer run.Finish()
	run.Rule("(trace id, SamplingRate) pairs for StressRelief.GetSampleRate configured through UpdateFromConfig: ids from {hex16/hex32, 1..31-char, empty, unicode/control bytes, very long}; rates 0..2^64-1 biased to {0,1,2,3,..,2^31,2^32-1,2^32,2^32+1,2^53,2^63-1,2^63,2^63+1,2^64-2,2^64-1}; two instances, two calls, independent wyhash threshold model (division-free); ladders of 8 rates; 8 goroutines on one instance; fixed-size PRNG id sets per rate. non-trivial = rate>1 pair; distinct = id class x rate class x decision")
	run.Assume("github.com/dgryski/go-wyhash is the 'fixed hash' (the model uses the same library with the package's seed; the threshold comparison is recomputed with a 128-bit product instead of a division)")

	run.Cases("pair", run.N(20000, 2000000), func(i int, rng *verifkit.Rand) {
		id, idc := c10SRGenID(rng)
		rate := c10SRGenRate(rng)
		a := c10NewStressRelief(rate)
		b := c10NewStressRelief(rate)
		r1, k1 := c10SRDecide(a, id)
		r2, k2 := c10SRDecide(a, id)
		r3, k3 := c10SRDecide(b, id)
		wit := map[string]any{"trace_id": id, "rate": fmt.Sprint(rate), "first": fmt.Sprint(r1, k1), "again": fmt.Sprint(r2, k2), "other_instance": fmt.Sprint(r3, k3)}
		if r1 != r2 || k1 != k2 {
			run.Violation("C10/stress-relief/same-instance-disagrees", "two calls on one StressRelief disagree for the same (id, rate)", wit)
		}
		if r1 != r3 || k1 != k3 {
			run.Violation("C10/stress-relief/instances-disagree", "two StressRelief instances with the same SamplingRate disagree for the same id", wit)
		}
		want := c10SRModelKeep(id, rate)
		wit["model_keep"] = want
		if rate <= 1 {
			if !k1 {
				run.Violation("C10/stress-relief/rate-le-1-dropped", "SamplingRate <= 1 did not keep the trace", wit)
			}
			if r1 != 1 {
				run.Violation("C10/stress-relief/rate-le-1-reported-rate", fmt.Sprintf("SamplingRate <= 1 reported sample rate %d", r1), wit)
			}
		} else {
			if k1 != want {
				run.Violation("C10/stress-relief/threshold-model-mismatch", fmt.Sprintf("keep=%v but wyhash threshold rule says %v", k1, want), wit)
			}
			if uint64(r1) != rate {
				run.Violation("C10/stress-relief/reported-rate", fmt.Sprintf("configured rate %d reported as %d", rate, r1), wit)
			}
			run.Nontrivial(fmt.Sprintf("pair:%s:%s:%v", idc, c10SRRateClass(rate), k1))
		}
		run.Count("decisions", 3)
		if i < 3 {
			run.Sample(map[string]any{"kind": "stress-relief pair", "trace_id": id, "rate": fmt.Sprint(rate), "keep": k1})
		}
	})

	run.Cases("ladder", run.N(4000, 300000), func(i int, rng *verifkit.Rand) {
		id, idc := c10SRGenID(rng)
		rates := make([]uint64, 0, 8)
		for len(rates) < 8 {
			switch rng.Intn(3) {
			case 0:
				rates = append(rates, uint64(rng.Range(1, 8)))
			case 1:
				rates = append(rates, uint64(rng.Range(1, 200)))
			default:
				rates = append(rates, c10SRGenRate(rng))
			}
		}
		sort.Slice(rates, func(a, b int) bool { return rates[a] < rates[b] })
		keeps := make([]bool, len(rates))
		for j, r := range rates {
			_, keeps[j] = c10SRDecide(c10NewStressRelief(r), id)
		}
		run.Count("decisions", int64(len(rates)))
		highestKept := -1
		for j := range rates {
			if keeps[j] {
				highestKept = j
			}
		}
		for j := 0; j < highestKept; j++ {
			if !keeps[j] {
				run.Violation("C10/stress-relief/not-nested", fmt.Sprintf("kept at rate %d but dropped at smaller rate %d", rates[highestKept], rates[j]),
					map[string]any{"trace_id": id, "rates": fmt.Sprint(rates), "keeps": keeps})
				break
			}
		}
		if highestKept >= 1 && rates[highestKept] > 1 {
			run.Count("ladders_with_kept_above_rate_1", 1)
			run.Nontrivial(fmt.Sprintf("ladder:%s:%d", idc, highestKept))
		}
	})

	run.Cases("goroutines", run.N(6, 60), func(i int, rng *verifkit.Rand) {
		rate := verifkit.Pick[uint64](rng, 2, 3, 5, 10, 100)
		shared := c10NewStressRelief(rate)
		const nids = 2000
		ids := make([]string, nids)
		for j := range ids {
			ids[j] = rng.Hex(32)
		}
		seq := make([]bool, nids)
		for j, id := range ids {
			_, seq[j] = c10SRDecide(c10NewStressRelief(rate), id)
		}
		var wg sync.WaitGroup
		const workers = 8
		got := make([][]bool, workers)
		for w := 0; w < workers; w++ {
			got[w] = make([]bool, nids)
			wg.Add(1)
			go func(w int) {
				defer wg.Done()
				for j := 0; j < nids; j++ {
					x := (j + w*251) % nids
					_, got[w][x] = c10SRDecide(shared, ids[x])
				}
			}(w)
		}
		wg.Wait()
		kept := 0
		for j := range ids {
			if seq[j] {
				kept++
			}
			for w := 0; w < workers; w++ {
				if got[w][j] != seq[j] {
					run.Violation("C10/stress-relief/goroutines-disagree", "a goroutine sharing the StressRelief decided differently from a sequential instance",
						map[string]any{"trace_id": ids[j], "rate": rate, "sequential": seq[j], "goroutine": got[w][j]})
				}
			}
		}
		run.Count("decisions", int64(nids*(workers+1)))
		run.Nontrivial(fmt.Sprintf("goroutines:%d:%d", rate, kept))
	})

	// --- decisions taken while the sampling rate is being reloaded -------------
	// A reload must never make GetSampleRate answer outside the pure function: whatever
	// rate a call reports, keep must be the threshold decision for THAT rate. Readers run
	// (a) freely in two background goroutines for the whole history and (b) in a goroutine
	// started from inside every log call UpdateFromConfig makes; the logging goroutine gives
	// them a bounded head start (they simply block until the reload ends if the lock is
	// held across the log call). Timing only widens the window; the verdict is logical.
	type c10dec struct {
		id   string
		rate uint
		keep bool
	}
	run.Cases("reload", run.N(40, 600), func(i int, rng *verifkit.Rand) {
		reloadRates := []uint64{0, 1, 2, 2, 3, 3, 5, 10, 10, 100, 1000, 1 << 16, 1 << 32, 1 << 63, math.MaxUint64}
		first := reloadRates[rng.Intn(len(reloadRates))]
		s, cfg, hl := c10NewReloadable(first)
		configured := map[uint64]bool{first: true}
		if first == 0 {
			configured[1] = true
		}
		ids := make([]string, 64)
		for j := range ids {
			ids[j] = rng.Hex(32)
		}
		var mu sync.Mutex
		var decs []c10dec
		record := func(batch []c10dec) {
			mu.Lock()
			decs = append(decs, batch...)
			mu.Unlock()
		}
		readBatch := func(off int) []c10dec {
			batch := make([]c10dec, 0, len(ids))
			for j := range ids {
				id := ids[(j+off)%len(ids)]
				r, k := c10SRDecide(s, id)
				batch = append(batch, c10dec{id, r, k})
			}
			return batch
		}
		// (a) free-running readers
		stop := make(chan struct{})
		var bg sync.WaitGroup
		for w := 0; w < 2; w++ {
			bg.Add(1)
			go func(w int) {
				defer bg.Done()
				for n := 0; ; n++ {
					select {
					case <-stop:
						return
					default:
					}
					record(readBatch(n*7 + w))
					if n > 4000 {
						return
					}
				}
			}(w)
		}
		// (b) readers released from inside the reload's log calls
		var hooked sync.WaitGroup
		var inside, hooks int64
		hook := func() {
			atomic.AddInt64(&hooks, 1)
			done := make(chan struct{})
			hooked.Add(1)
			go func() {
				defer hooked.Done()
				defer close(done)
				record(readBatch(0))
			}()
			select {
			case <-done:
				atomic.AddInt64(&inside, 1)
			case <-time.After(2 * time.Millisecond):
			}
		}
		hl.hook.Store(&hook)
		prev := first
		for step := 0; step < 6; step++ {
			next := reloadRates[rng.Intn(len(reloadRates))]
			configured[next] = true
			if next == 0 {
				configured[1] = true
			}
			c10SetRate(cfg, next)
			s.UpdateFromConfig()
			// after the reload returned, the new rate is in force
			for _, d := range readBatch(step) {
				want := next
				if want == 0 {
					want = 1
				}
				if uint64(d.rate) != want {
					run.Violation("C10/stress-relief/reload/stale-rate-after-reload", fmt.Sprintf("UpdateFromConfig returned with SamplingRate %d but GetSampleRate reports %d", next, d.rate),
						map[string]any{"previous_rate": fmt.Sprint(prev), "new_rate": fmt.Sprint(next), "trace_id": d.id})
					break
				}
			}
			record(readBatch(step))
			run.Nontrivial(fmt.Sprintf("reload:%s->%s", c10SRRateClass(prev), c10SRRateClass(next)))
			prev = next
		}
		hl.hook.Store(nil)
		close(stop)
		joined := make(chan struct{})
		go func() { bg.Wait(); hooked.Wait(); close(joined) }()
		select {
		case <-joined:
		case <-time.After(30 * time.Second):
			run.Inconclusive("reload phase: reader goroutines did not finish within 30s")
			return
		}
		run.Count("reload_reloads", 6)
		run.Count("reload_log_calls_hooked", atomic.LoadInt64(&hooks))
		run.Count("reload_reader_batches_finished_inside_a_log_call", atomic.LoadInt64(&inside))
		mu.Lock()
		defer mu.Unlock()
		run.Count("reload_decisions", int64(len(decs)))
		for _, d := range decs {
			if !configured[uint64(d.rate)] {
				run.Violation("C10/stress-relief/reload/rate-never-configured", fmt.Sprintf("GetSampleRate reported rate %d which was never configured", d.rate),
					map[string]any{"trace_id": d.id, "rate": fmt.Sprint(d.rate)})
				continue
			}
			if want := c10SRModelKeep(d.id, uint64(d.rate)); d.keep != want {
				run.Violation("C10/stress-relief/reload/keep-inconsistent-with-returned-rate",
					fmt.Sprintf("during a reload GetSampleRate returned rate %d with keep=%v, but the threshold rule for rate %d says %v", d.rate, d.keep, d.rate, want),
					map[string]any{"trace_id": d.id, "returned_rate": fmt.Sprint(d.rate), "keep": d.keep, "model_keep": want, "first_rate": fmt.Sprint(first)})
			}
		}
	})

	nIDs := run.N(40000, 400000)
	for _, rate := range []uint64{2, 3, 10, 64, 100} {
		rate := rate
		run.Cases(fmt.Sprintf("fraction-%d", rate), 1, func(_ int, rng *verifkit.Rand) {
			s := c10NewStressRelief(rate)
			kept := 0
			for j := 0; j < nIDs; j++ {
				id := rng.Hex(32)
				if j%2 == 1 {
					id = rng.Hex(16)
				}
				if _, k := c10SRDecide(s, id); k {
					kept++
				}
			}
			p := 1 / float64(rate)
			mean := float64(nIDs) * p
			sigma := math.Sqrt(float64(nIDs) * p * (1 - p))
			run.Count("fraction_ids", int64(nIDs))
			run.Count(fmt.Sprintf("fraction_kept_rate_%d", rate), int64(kept))
			if math.Abs(float64(kept)-mean) > 6*sigma+1 {
				run.Violation("C10/stress-relief/kept-fraction", fmt.Sprintf("rate %d: kept %d of %d PRNG ids, expected %.0f +- %.0f (6 sigma)", rate, kept, nIDs, mean, 6*sigma),
					map[string]any{"rate": rate, "ids": nIDs, "kept": kept, "mean": mean, "sigma": sigma})
			}
			run.Nontrivial(fmt.Sprintf("fraction:%d:%d", rate, kept))
		})
	}
}
