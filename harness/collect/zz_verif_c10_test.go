//go:build verif

package collect

import (
	"context"
	"fmt"
	"math"
	"math/bits"
	"sort"
	"strings"
	"sync"
	"sync/atomic"
	"testing"
	"time"

	"github.com/dgryski/go-wyhash"
	"github.com/honeycombio/refinery/config"
	"github.com/honeycombio/refinery/internal/peer"
	"github.com/honeycombio/refinery/internal/verifkit"
	"github.com/honeycombio/refinery/logger"
	"github.com/honeycombio/refinery/metrics"
	"github.com/honeycombio/refinery/pubsub"
	"github.com/jonboulle/clockwork"
)

// C10 (unit "collect"): stress-relief sampling is a pure, nested function of
// (trace ID, SamplingRate).
//
//   model      keep <=> wyhash(id, seed) <= floor((2^64-1)/rate); rate <= 1 keeps all
//   purity     two calls, a second instance configured through UpdateFromConfig and 8
//              goroutines sharing one instance decide the same
//   nesting    kept at N implies kept at every M <= N over a ladder of rates up to 2^64-1
//   fraction   kept fraction over a fixed number of PRNG ids within 6 sigma of 1/N
//   reload     every (rate, keep) returned while and after UpdateFromConfig switches between
//              PRNG-chosen rates is the threshold decision for the RETURNED rate

// ---- adapters to the code under test ---------------------------------------

func c10NewStressRelief(rate uint64) *StressRelief {
	s := &StressRelief{
		Config: &config.MockConfig{StressRelief: config.StressReliefConfig{Mode: "always", SamplingRate: rate}},
		Logger: &logger.NullLogger{},
	}
	s.UpdateFromConfig()
	return s
}

func c10SRDecide(s *StressRelief, id string) (uint, bool) {
	rate, keep, _ := s.GetSampleRate(id)
	return rate, keep
}

func c10SRSeed() uint64 { return hashSeed }

// c10HookLogger is an injected logger.Logger: every log line emitted by the code under
// test calls hook() on the emitting goroutine. Logging is an injected dependency, so
// whatever happens "while the logger runs" is a legitimate interleaving.
type c10HookLogger struct {
	logger.NullLogger
	hook atomic.Pointer[func()]
}

type c10HookEntry struct{ l *c10HookLogger }

func (l *c10HookLogger) Debug() logger.Entry { return &c10HookEntry{l} }
func (l *c10HookLogger) Info() logger.Entry  { return &c10HookEntry{l} }
func (l *c10HookLogger) Warn() logger.Entry  { return &c10HookEntry{l} }
func (l *c10HookLogger) Error() logger.Entry { return &c10HookEntry{l} }

func (e *c10HookEntry) WithField(string, interface{}) logger.Entry     { return e }
func (e *c10HookEntry) WithString(string, string) logger.Entry         { return e }
func (e *c10HookEntry) WithFields(map[string]interface{}) logger.Entry { return e }
func (e *c10HookEntry) Logf(string, ...interface{}) {
	if h := e.l.hook.Load(); h != nil {
		(*h)()
	}
}

// c10Live is a started StressRelief (real Start, Recalc and UpdateFromConfig) whose stress
// level is driven through the metrics it reads, on a fake clock.
type c10Live struct {
	s     *StressRelief
	cfg   *config.MockConfig
	hl    *c10HookLogger
	mm    *metrics.MockMetrics
	clock *clockwork.FakeClock
}

type c10Bus struct{}
type c10Sub struct{}

func (c10Sub) Close()                                               {}
func (c10Bus) Publish(context.Context, string, string) error        { return nil }
func (c10Bus) FormatTopic(t string) string                          { return "c10:" + t }
func (c10Bus) Close()                                               {}
func (c10Bus) Start() error                                         { return nil }
func (c10Bus) Stop() error                                          { return nil }
func (c10Bus) Subscribe(context.Context, string, pubsub.SubscriptionCallback) pubsub.Subscription {
	return c10Sub{}
}

type c10Health struct{}

func (c10Health) Register(string, time.Duration) {}
func (c10Health) Unregister(string)              {}
func (c10Health) Ready(string, bool)             {}

const c10MinActive = 10 * time.Second

func c10NewLive(rate uint64, mode string) *c10Live {
	l := &c10Live{
		cfg: &config.MockConfig{StressRelief: config.StressReliefConfig{Mode: mode, ActivationLevel: 90, DeactivationLevel: 75,
			SamplingRate: rate, MinimumActivationDuration: config.Duration(c10MinActive)}},
		hl:    &c10HookLogger{},
		mm:    &metrics.MockMetrics{},
		clock: clockwork.NewFakeClock(),
	}
	l.mm.Start()
	l.mm.Store(DENOMINATOR_INCOMING_CAP, 1000)
	l.mm.Store(DENOMINATOR_PEER_CAP, 1000)
	l.mm.Store(DENOMINATOR_MEMORY_MAX_ALLOC, 1<<30)
	l.s = &StressRelief{RefineryMetrics: l.mm, Config: l.cfg, Logger: l.hl, Health: c10Health{}, PubSub: c10Bus{},
		Peer: peer.NewMockPeers([]string{"http://c10:8081"}, "http://c10:8081"), Clock: l.clock, Done: make(chan struct{})}
	l.s.disableStressLevelReport = true // the driver calls Recalc itself
	if err := l.s.Start(); err != nil {
		panic("verif harness: StressRelief.Start: " + err.Error())
	}
	l.s.UpdateFromConfig()
	return l
}

// load puts the incoming queue at the given fraction of its capacity and recalculates.
func (l *c10Live) load(fraction float64) {
	l.mm.Gauge(NUMERATOR_INCOMING_QUEUE, 1000*fraction)
	l.s.Recalc()
}

// activate drives the node over ActivationLevel (mode monitor) / lets Recalc switch relief on (always).
func (l *c10Live) activate() { l.load(1) }

// calm drops the load and lets the minimum activation duration pass.
func (l *c10Live) calm() {
	l.load(0)
	l.clock.Advance(c10MinActive + time.Second)
	l.s.Recalc()
}

func (l *c10Live) reload(rate uint64) {
	c10SetRate(l.cfg, rate)
	l.s.UpdateFromConfig()
}

// c10NewMaybeActive: a StressRelief at the given rate; 15% of them reached that rate by a
// reload from another rate while relief was active (Mode always, or monitor over ActivationLevel).
func c10NewMaybeActive(rng *verifkit.Rand, rate uint64) (*StressRelief, string) {
	if !rng.Chance(0.15) {
		return c10NewStressRelief(rate), "fresh"
	}
	mode := verifkit.Pick(rng, "always", "monitor")
	l := c10NewLive(c10SRGenRate(rng), mode)
	l.activate()
	kind := "reloaded-while-active/" + mode
	if rng.Chance(0.25) { // relief ended and came back before the reload
		l.calm()
		l.activate()
		kind += "/reactivated"
	}
	l.reload(rate)
	return l.s, kind
}

func c10SetRate(cfg *config.MockConfig, rate uint64) {
	cfg.Mux.Lock()
	cfg.StressRelief.SamplingRate = rate
	cfg.Mux.Unlock()
}

// ---- reference model -------------------------------------------------------

func c10SRModelKeep(id string, rate uint64) bool {
	if rate <= 1 {
		return true
	}
	h := wyhash.Hash([]byte(id), c10SRSeed())
	// h <= floor(MAX/rate)  <=>  h*rate <= MAX - (MAX mod rate) ... computed without
	// the division the implementation uses: h*rate must not exceed MAX.
	hi, lo := bits.Mul64(h, rate)
	_ = lo
	// floor(MAX/rate) >= h  <=>  h*rate <= MAX (since h*rate integer and MAX = 2^64-1)
	return hi == 0
}

var c10SRBoundaryRates = []uint64{0, 1, 2, 3, 4, 7, 10, 100, 1000, 65536, 1<<31 - 1, 1 << 31, 1<<32 - 1, 1 << 32, 1<<32 + 1,
	1 << 53, 1<<63 - 1, 1 << 63, 1<<63 + 1, math.MaxUint64 - 1, math.MaxUint64}

func c10SRGenRate(rng *verifkit.Rand) uint64 {
	switch rng.Intn(10) {
	case 0, 1, 2, 3:
		return c10SRBoundaryRates[rng.Intn(len(c10SRBoundaryRates))]
	case 4, 5, 6:
		return uint64(rng.Range(1, 64))
	case 7:
		return uint64(rng.Range(1, 1<<16))
	case 8:
		return rng.Uint64() >> uint(rng.Intn(64))
	default:
		return rng.Uint64()
	}
}

func c10SRGenID(rng *verifkit.Rand) (string, string) {
	switch rng.Intn(12) {
	case 0:
		return "", "empty"
	case 1:
		return verifkit.Pick(rng, "日本語のトレース", "trace-ünïcödé-"+rng.Hex(4), "🦶🔫"+rng.Hex(2), "\x00\x01"+rng.Hex(3)), "unicode"
	case 2:
		return strings.Repeat(rng.Hex(8), rng.Range(100, 2000)), "long"
	case 3, 4, 5:
		return rng.Hex(16), "hex16"
	case 6:
		// short ids: wyhash has special paths for < 4, < 8, < 16, < 32 bytes
		return rng.Hex(rng.Range(1, 31)), "short"
	default:
		return rng.Hex(32), "hex32"
	}
}

func c10SRRateClass(r uint64) string {
	switch {
	case r <= 1:
		return "<=1"
	case r < 1<<8:
		return "<2^8"
	case r < 1<<32:
		return "<2^32"
	case r < 1<<63:
		return "<2^63"
	default:
		return ">=2^63"
	}
}

func TestVerif_C10(t *testing.T) {
	run := verifkit.Start(t, "C10", "collect")
	defer run.Finish()
	run.Rule("(trace id, SamplingRate) pairs for StressRelief.GetSampleRate configured through UpdateFromConfig: ids from {hex16/hex32, 1..31-char, empty, unicode/control bytes, very long}; rates 0..2^64-1 biased to {0,1,2,3,..,2^31,2^32-1,2^32,2^32+1,2^53,2^63-1,2^63,2^63+1,2^64-2,2^64-1}; two instances, two calls, independent wyhash threshold model (division-free); ladders of 8 rates; 8 goroutines on one instance; fixed-size PRNG id sets per rate. non-trivial = rate>1 pair; distinct = id class x rate class x decision")
	run.Assume("github.com/dgryski/go-wyhash is the 'fixed hash' (the model uses the same library with the package's seed; the threshold comparison is recomputed with a 128-bit product instead of a division)")

	run.Cases("pair", run.N(20000, 2000000), func(i int, rng *verifkit.Rand) {
		id, idc := c10SRGenID(rng)
		rate := c10SRGenRate(rng)
		a, akind := c10NewMaybeActive(rng, rate)
		b, bkind := c10NewMaybeActive(rng, rate)
		r1, k1 := c10SRDecide(a, id)
		r2, k2 := c10SRDecide(a, id)
		r3, k3 := c10SRDecide(b, id)
		if akind != "fresh" || bkind != "fresh" {
			run.Count("pair_instances_reloaded_while_relief_active", 1)
		}
		wit := map[string]any{"trace_id": id, "rate": fmt.Sprint(rate), "instance": akind, "other_instance_kind": bkind, "first": fmt.Sprint(r1, k1), "again": fmt.Sprint(r2, k2), "other_instance": fmt.Sprint(r3, k3)}
		if r1 != r2 || k1 != k2 {
			run.Violation("C10/stress-relief/same-instance-disagrees", "two calls on one StressRelief disagree for the same (id, rate)", wit)
		}
		if r1 != r3 || k1 != k3 {
			run.Violation("C10/stress-relief/instances-disagree", "two StressRelief instances with the same SamplingRate disagree for the same id", wit)
		}
		want := c10SRModelKeep(id, rate)
		wit["model_keep"] = want
		if rate <= 1 {
			if !k1 {
				run.Violation("C10/stress-relief/rate-le-1-dropped", "SamplingRate <= 1 did not keep the trace", wit)
			}
			if r1 != 1 {
				run.Violation("C10/stress-relief/rate-le-1-reported-rate", fmt.Sprintf("SamplingRate <= 1 reported sample rate %d", r1), wit)
			}
		} else {
			if k1 != want {
				run.Violation("C10/stress-relief/threshold-model-mismatch", fmt.Sprintf("keep=%v but wyhash threshold rule says %v", k1, want), wit)
			}
			if uint64(r1) != rate {
				run.Violation("C10/stress-relief/reported-rate", fmt.Sprintf("configured rate %d reported as %d", rate, r1), wit)
			}
			run.Nontrivial(fmt.Sprintf("pair:%s:%s:%v", idc, c10SRRateClass(rate), k1))
		}
		run.Count("decisions", 3)
		if i < 3 {
			run.Sample(map[string]any{"kind": "stress-relief pair", "trace_id": id, "rate": fmt.Sprint(rate), "keep": k1})
		}
	})

	run.Cases("ladder", run.N(4000, 300000), func(i int, rng *verifkit.Rand) {
		id, idc := c10SRGenID(rng)
		rates := make([]uint64, 0, 8)
		for len(rates) < 8 {
			switch rng.Intn(3) {
			case 0:
				rates = append(rates, uint64(rng.Range(1, 8)))
			case 1:
				rates = append(rates, uint64(rng.Range(1, 200)))
			default:
				rates = append(rates, c10SRGenRate(rng))
			}
		}
		sort.Slice(rates, func(a, b int) bool { return rates[a] < rates[b] })
		keeps := make([]bool, len(rates))
		for j, r := range rates {
			inst, _ := c10NewMaybeActive(rng, r)
			_, keeps[j] = c10SRDecide(inst, id)
		}
		run.Count("decisions", int64(len(rates)))
		highestKept := -1
		for j := range rates {
			if keeps[j] {
				highestKept = j
			}
		}
		for j := 0; j < highestKept; j++ {
			if !keeps[j] {
				run.Violation("C10/stress-relief/not-nested", fmt.Sprintf("kept at rate %d but dropped at smaller rate %d", rates[highestKept], rates[j]),
					map[string]any{"trace_id": id, "rates": fmt.Sprint(rates), "keeps": keeps})
				break
			}
		}
		if highestKept >= 1 && rates[highestKept] > 1 {
			run.Count("ladders_with_kept_above_rate_1", 1)
			run.Nontrivial(fmt.Sprintf("ladder:%s:%d", idc, highestKept))
		}
	})

	run.Cases("goroutines", run.N(6, 60), func(i int, rng *verifkit.Rand) {
		rate := verifkit.Pick[uint64](rng, 2, 3, 5, 10, 100)
		shared := c10NewStressRelief(rate)
		const nids = 2000
		ids := make([]string, nids)
		for j := range ids {
			ids[j] = rng.Hex(32)
		}
		seq := make([]bool, nids)
		for j, id := range ids {
			_, seq[j] = c10SRDecide(c10NewStressRelief(rate), id)
		}
		var wg sync.WaitGroup
		const workers = 8
		got := make([][]bool, workers)
		for w := 0; w < workers; w++ {
			got[w] = make([]bool, nids)
			wg.Add(1)
			go func(w int) {
				defer wg.Done()
				for j := 0; j < nids; j++ {
					x := (j + w*251) % nids
					_, got[w][x] = c10SRDecide(shared, ids[x])
				}
			}(w)
		}
		wg.Wait()
		kept := 0
		for j := range ids {
			if seq[j] {
				kept++
			}
			for w := 0; w < workers; w++ {
				if got[w][j] != seq[j] {
					run.Violation("C10/stress-relief/goroutines-disagree", "a goroutine sharing the StressRelief decided differently from a sequential instance",
						map[string]any{"trace_id": ids[j], "rate": rate, "sequential": seq[j], "goroutine": got[w][j]})
				}
			}
		}
		run.Count("decisions", int64(nids*(workers+1)))
		run.Nontrivial(fmt.Sprintf("goroutines:%d:%d", rate, kept))
	})

	// --- decisions taken while the sampling rate is being reloaded -------------
	// A reload must never make GetSampleRate answer outside the pure function: whatever
	// rate a call reports, keep must be the threshold decision for THAT rate. Readers run
	// (a) freely in two background goroutines for the whole history and (b) in a goroutine
	// started from inside every log call UpdateFromConfig makes; the logging goroutine gives
	// them a bounded head start (they simply block until the reload ends if the lock is
	// held across the log call). Timing only widens the window; the verdict is logical.
	type c10dec struct {
		id   string
		rate uint
		keep bool
	}
	run.Cases("reload", run.N(60, 900), func(i int, rng *verifkit.Rand) {
		reloadRates := []uint64{0, 1, 2, 2, 3, 3, 5, 10, 10, 100, 1000, 1 << 16, 1 << 32, 1 << 63, math.MaxUint64}
		first := reloadRates[rng.Intn(len(reloadRates))]
		mode := verifkit.Pick(rng, "always", "always", "monitor", "monitor", "monitor", "never")
		live := c10NewLive(first, mode)
		s, hl := live.s, live.hl
		hist := []string{fmt.Sprintf("start mode=%s rate=%d", mode, first)}
		configured := map[uint64]bool{first: true}
		if first == 0 {
			configured[1] = true
		}
		ids := make([]string, 64)
		for j := range ids {
			ids[j] = rng.Hex(32)
		}
		var mu sync.Mutex
		var decs []c10dec
		record := func(batch []c10dec) {
			mu.Lock()
			decs = append(decs, batch...)
			mu.Unlock()
		}
		readBatch := func(off int) []c10dec {
			batch := make([]c10dec, 0, len(ids))
			for j := range ids {
				id := ids[(j+off)%len(ids)]
				r, k := c10SRDecide(s, id)
				batch = append(batch, c10dec{id, r, k})
			}
			return batch
		}
		// (a) free-running readers
		stop := make(chan struct{})
		var bg sync.WaitGroup
		for w := 0; w < 2; w++ {
			bg.Add(1)
			go func(w int) {
				defer bg.Done()
				for n := 0; ; n++ {
					select {
					case <-stop:
						return
					default:
					}
					record(readBatch(n*7 + w))
					if n > 600 {
						return
					}
				}
			}(w)
		}
		// (b) readers released from inside the reload's log calls
		var hooked sync.WaitGroup
		var inside, hooks int64
		hook := func() {
			atomic.AddInt64(&hooks, 1)
			done := make(chan struct{})
			hooked.Add(1)
			go func() {
				defer hooked.Done()
				defer close(done)
				record(readBatch(0))
			}()
			select {
			case <-done:
				atomic.AddInt64(&inside, 1)
			case <-time.After(2 * time.Millisecond):
			}
		}
		hl.hook.Store(&hook)
		prev := first
		// quiescent check after every step: the rate in force is the configured one and keep
		// is the threshold decision for it, whatever state relief is in.
		quiescent := func(step int) {
			want := prev
			if want == 0 {
				want = 1
			}
			for _, d := range readBatch(step) {
				if uint64(d.rate) != want {
					run.Violation("C10/stress-relief/reload/stale-rate-after-reload", fmt.Sprintf("SamplingRate %d is configured and UpdateFromConfig returned, but GetSampleRate reports %d", prev, d.rate),
						map[string]any{"history": hist, "trace_id": d.id, "relief_active": s.Stressed()})
					break
				}
				if wk := c10SRModelKeep(d.id, uint64(d.rate)); d.keep != wk {
					sig := "C10/stress-relief/reload/quiescent-keep-inconsistent-with-returned-rate"
					run.Violation(sig, fmt.Sprintf("after the history below GetSampleRate returns rate %d with keep=%v for a trace the threshold rule for rate %d decides %v (relief active: %v)", d.rate, d.keep, d.rate, wk, s.Stressed()),
						map[string]any{"history": hist, "trace_id": d.id, "returned_rate": fmt.Sprint(d.rate), "keep": d.keep, "model_keep": wk, "relief_active": s.Stressed()})
					break
				}
			}
		}
		if mode != "never" && rng.Chance(0.8) {
			live.activate()
			hist = append(hist, fmt.Sprintf("load 100%% + Recalc -> active=%v", s.Stressed()))
		}
		reloads, reloadsWhileActive, reactivations := 0, 0, 0
		wasActive, everEnded := s.Stressed(), false
		steps := rng.Range(6, 12)
		for step := 0; step < steps; step++ {
			switch k := rng.Intn(10); {
			case k < 5 || step == 0:
				next := reloadRates[rng.Intn(len(reloadRates))]
				configured[next] = true
				if next == 0 {
					configured[1] = true
				}
				active := s.Stressed()
				live.reload(next)
				reloads++
				if active {
					reloadsWhileActive++
				}
				hist = append(hist, fmt.Sprintf("reload SamplingRate %d -> %d (relief active: %v)", prev, next, active))
				run.Nontrivial(fmt.Sprintf("reload:%s:%v:%s->%s", mode, active, c10SRRateClass(prev), c10SRRateClass(next)))
				prev = next
			case k < 7:
				live.activate()
				hist = append(hist, fmt.Sprintf("load 100%% + Recalc -> active=%v", s.Stressed()))
			case k < 9:
				live.calm()
				hist = append(hist, fmt.Sprintf("load 0%% + %v + Recalc -> active=%v", c10MinActive+time.Second, s.Stressed()))
			default:
				live.load(verifkit.Pick(rng, 0.3, 0.6, 0.7, 0.85))
				hist = append(hist, fmt.Sprintf("partial load + Recalc -> active=%v", s.Stressed()))
			}
			now := s.Stressed()
			if wasActive && !now {
				everEnded = true
			}
			if !wasActive && now && everEnded {
				reactivations++
			}
			wasActive = now
			quiescent(step)
			record(readBatch(step))
		}
		run.Count("reload_reloads", int64(reloads))
		run.Count("reload_reloads_while_relief_active", int64(reloadsWhileActive))
		run.Count("reload_relief_reactivations", int64(reactivations))
		hl.hook.Store(nil)
		close(stop)
		joined := make(chan struct{})
		go func() { bg.Wait(); hooked.Wait(); close(joined) }()
		select {
		case <-joined:
		case <-time.After(30 * time.Second):
			run.Inconclusive("reload phase: reader goroutines did not finish within 30s")
			return
		}
		run.Count("reload_log_calls_hooked", atomic.LoadInt64(&hooks))
		run.Count("reload_reader_batches_finished_inside_a_log_call", atomic.LoadInt64(&inside))
		mu.Lock()
		defer mu.Unlock()
		run.Count("reload_decisions", int64(len(decs)))
		for _, d := range decs {
			if !configured[uint64(d.rate)] {
				run.Violation("C10/stress-relief/reload/rate-never-configured", fmt.Sprintf("GetSampleRate reported rate %d which was never configured", d.rate),
					map[string]any{"trace_id": d.id, "rate": fmt.Sprint(d.rate)})
				continue
			}
			if want := c10SRModelKeep(d.id, uint64(d.rate)); d.keep != want {
				run.Violation("C10/stress-relief/reload/keep-inconsistent-with-returned-rate",
					fmt.Sprintf("during a reload GetSampleRate returned rate %d with keep=%v, but the threshold rule for rate %d says %v", d.rate, d.keep, d.rate, want),
					map[string]any{"trace_id": d.id, "returned_rate": fmt.Sprint(d.rate), "keep": d.keep, "model_keep": want, "first_rate": fmt.Sprint(first)})
			}
		}
	})

	nIDs := run.N(40000, 400000)
	for _, rate := range []uint64{2, 3, 10, 64, 100} {
		rate := rate
		run.Cases(fmt.Sprintf("fraction-%d", rate), 1, func(_ int, rng *verifkit.Rand) {
			s := c10NewStressRelief(rate)
			kept := 0
			for j := 0; j < nIDs; j++ {
				id := rng.Hex(32)
				if j%2 == 1 {
					id = rng.Hex(16)
				}
				if _, k := c10SRDecide(s, id); k {
					kept++
				}
			}
			p := 1 / float64(rate)
			mean := float64(nIDs) * p
			sigma := math.Sqrt(float64(nIDs) * p * (1 - p))
			run.Count("fraction_ids", int64(nIDs))
			run.Count(fmt.Sprintf("fraction_kept_rate_%d", rate), int64(kept))
			if math.Abs(float64(kept)-mean) > 6*sigma+1 {
				run.Violation("C10/stress-relief/kept-fraction", fmt.Sprintf("rate %d: kept %d of %d PRNG ids, expected %.0f +- %.0f (6 sigma)", rate, kept, nIDs, mean, 6*sigma),
					map[string]any{"rate": rate, "ids": nIDs, "kept": kept, "mean": mean, "sigma": sigma})
			}
			run.Nontrivial(fmt.Sprintf("fraction:%d:%d", rate, kept))
		})
	}
}
