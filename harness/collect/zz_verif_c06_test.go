//go:build verif

package collect

import (
	"fmt"
	"maps"
	"os"
	"sort"
	"strings"
	"sync/atomic"
	"testing"
	"time"

	"github.com/honeycombio/refinery/config"
	"github.com/honeycombio/refinery/internal/verifkit"
	"github.com/honeycombio/refinery/types"
)

// C06: every span the collector forwards (on time, late, under stress relief) is decorated as the
// reloadable options IN FORCE WHEN IT IS FORWARDED say:
//   * every configured additional attribute (and none that a reload removed);
//   * meta.refinery.local_hostname = the node's hostname iff AddHostMetadataToTrace;
//   * meta.refinery.reason = the decision reason iff AddRuleReasonToTrace;
//   * root spans forwarded by the trace sampler: span/event counts = number of spans of the trace
//     Refinery had received at the decision (or at the root's own arrival when it is late),
//     AddCountsToRoot ⇒ meta.span_count/span_event_count/span_link_count/event_count by kind,
//     else AddSpanCountToRoot ⇒ meta.span_count = all descendants, else none of them.
//
// Engine E1. The model is a list of (step, options) pairs: the driver quiesces after every reload, no span
// is forwarded during a reload step, so the options in force for an event of step s are those of the last
// reload step < s. Received-span counts come from the driver's own log of accepted spans (E1Added), never
// from the forwarded events. The decision reason is recognised by the name of the rule that the driver made
// the trace match (rule names are versioned so that a sampler reload between decision and late span shows).
//
// config.MockConfig.GetAddCountsToRoot returns AddSpanCountToRoot (a bug of the mock, not of Refinery), which
// would make the "span count only" mode unreachable; the collector is therefore given a thin wrapper
// (c06Config) that answers GetAddCountsToRoot from MockConfig.AddCountsToRoot. Everything else is the MockConfig.

// ---- adapters ------------------------------------------------------------------------------

type c06Config struct{ *e1Config }

func (c *c06Config) GetAddCountsToRoot() bool {
	c.Mux.RLock()
	defer c.Mux.RUnlock()
	return c.MockConfig.AddCountsToRoot
}

// c06adSwapConfig replaces the collector's Config by the wrapper. Called once, right after e1Start, before
// the clock has moved: the workers are parked (pause handshake), sendTraces last touched Config before it
// delivered the start sentinel, the monitor has not had a tick yet — every later reader is ordered after this
// write by a channel operation of the driver (resume, span hand-over, clock advance, reload signal).
func c06adSwapConfig(e *E1) *c06Stress {
	st := &c06Stress{E1Stress: e.Stress}
	e.Inspect(func(*E1View) {
		e.coll.Config = &c06Config{e.cfgW}
		e.coll.StressRelief = st // read by the monitor only after a reload signal, and by the driver's own goroutine
	})
	return st
}

// c06Stress wraps E1's scripted StressReliever (an injected dependency of the collector): a one-shot hook runs at the
// start of UpdateFromConfig, i.e. on the monitor goroutine in the middle of reloadConfigs.
type c06Stress struct {
	*E1Stress
	hook atomic.Pointer[func()]
}

func (s *c06Stress) UpdateFromConfig() {
	if h := s.hook.Swap(nil); h != nil {
		(*h)()
	}
	s.E1Stress.UpdateFromConfig()
}

func c06adMonitorSignalPending(e *E1) bool { return len(e.coll.reload) != 0 }

// c06CoalescedReload: while the monitor goroutine is held inside reloadConfigs (hook above), two more reloads are
// announced; the first fills the monitor's single-slot reload channel, the second (mutateB) finds it full and is
// coalesced into it. After the release the monitor finishes the first reloadConfigs and runs one more for the pending
// signal; the step ends when that second run has passed UpdateFromConfig, every worker handled a reload signal and no
// signal is pending — from then on the LAST change must be in force. Returns a reason when the interleaving could not
// be produced (bounded waits; the caller reports inconclusive).
func c06CoalescedReload(e *E1, st *c06Stress, what string, mutateA, mutateB func(*config.MockConfig)) string {
	if e.failed != "" {
		return ""
	}
	e.beginStep()
	e.logOp("coalesced-reload", what)
	if !e.waitFor("previous reload drained", func() bool { return e1adReloadIdle(e.coll) }) {
		return ""
	}
	n0 := e.cfgW.sampleCacheCalls.Load()
	u0 := e.Stress.updates.Load()
	entered, release := make(chan struct{}), make(chan struct{})
	var held atomic.Bool
	hook := func() {
		close(entered)
		select {
		case <-release:
		case <-time.After(10 * time.Second):
			held.Store(true) // gave up waiting: the driver never released (harness problem)
		}
	}
	st.hook.Store(&hook)
	fire := func(mutate func(*config.MockConfig), cfgHash string) {
		e.Cfg.Mux.Lock()
		if mutate != nil {
			mutate(e.Cfg)
		}
		cbs := append([]config.ConfigReloadCallback(nil), e.Cfg.Callbacks...)
		e.Cfg.Mux.Unlock()
		for _, cb := range cbs {
			cb(cfgHash, "rules-same")
		}
	}
	step := e.Step()
	fire(nil, fmt.Sprintf("cfg-s%d-0", step))
	select {
	case <-entered:
	case <-time.After(5 * time.Second):
		st.hook.Store(nil)
		return "the monitor did not reach StressRelief.UpdateFromConfig within 5 s"
	}
	fire(mutateA, fmt.Sprintf("cfg-s%d-a", step))
	pendingAfterA := c06adMonitorSignalPending(e)
	fire(mutateB, fmt.Sprintf("cfg-s%d-b", step))
	close(release)
	if !pendingAfterA {
		return "the reload signal of the second reload was not pending while the monitor was held"
	}
	if !e.waitFor("monitor ran reloadConfigs for the pending signal", func() bool { return e.Stress.updates.Load() >= u0+2 }) {
		return ""
	}
	want := n0 + int64(e.Workers())
	if !e.waitFor("every worker handled a reload signal", func() bool { return e.cfgW.sampleCacheCalls.Load() >= want }) {
		return ""
	}
	if !e.waitFor("reload signals drained", func() bool { return e1adReloadIdle(e.coll) }) {
		return ""
	}
	e.quiesce(0)
	if held.Load() {
		return "hook released by its own bound"
	}
	return ""
}

// c06DoubleReload fires two configuration reloads back to back while every worker is held by the pause handshake,
// so that both are pending before any worker handles its (single-slot) reload signal: reload 1 changes the sampler
// rules (new rules hash), reload 2 changes only a non-rules option (same rules hash, new config hash). The registered
// reload callbacks are called the way the real config does it, with (config hash, rules hash); MockConfig.Reload
// itself would pass two empty strings. Then the workers are released and the step ends like E1.Reload: monitor ran
// reloadConfigs, every worker handled a reload signal, no signal pending, quiescence.
func c06DoubleReload(e *E1, what string, mutate1 func(*config.MockConfig), cfg1, rules1 string, mutate2 func(*config.MockConfig), cfg2 string) {
	if e.failed != "" {
		return
	}
	e.beginStep()
	e.logOp("double-reload", map[string]any{"what": what, "reload1": []string{cfg1, rules1}, "reload2": []string{cfg2, rules1}})
	if !e.waitFor("previous reload drained", func() bool { return e1adReloadIdle(e.coll) }) {
		return
	}
	n0 := e.cfgW.sampleCacheCalls.Load()
	u0 := e.Stress.updates.Load()
	if !e.park() {
		return
	}
	fire := func(mutate func(*config.MockConfig), cfgHash, rulesHash string) {
		e.Cfg.Mux.Lock()
		mutate(e.Cfg)
		cbs := append([]config.ConfigReloadCallback(nil), e.Cfg.Callbacks...)
		e.Cfg.Mux.Unlock()
		for _, cb := range cbs {
			cb(cfgHash, rulesHash)
		}
	}
	fire(mutate1, cfg1, rules1)
	fire(mutate2, cfg2, rules1)
	e.resume()
	want := n0 + int64(e.Workers())
	if !e.waitFor("monitor ran reloadConfigs", func() bool { return e.Stress.updates.Load() > u0 }) {
		return
	}
	if !e.waitFor("every worker handled a reload signal", func() bool { return e.cfgW.sampleCacheCalls.Load() >= want }) {
		return
	}
	if !e.waitFor("reload signals drained", func() bool { return e1adReloadIdle(e.coll) }) {
		return
	}
	e.quiesce(0)
}

// ---- model ---------------------------------------------------------------------------------

type c06Opts struct {
	Host      bool              `json:"AddHostMetadataToTrace"`
	Reason    bool              `json:"AddRuleReasonToTrace"`
	SpanCount bool              `json:"AddSpanCountToRoot"`
	Counts    bool              `json:"AddCountsToRoot"`
	Attrs     map[string]string `json:"AdditionalAttributes"`
}

type c06OptsAt struct {
	Step      int     `json:"reload_step"`
	Opts      c06Opts `json:"options"`
	Coalesced bool    `json:"announced_while_a_reload_signal_was_already_pending,omitempty"`
}

type c06Trace struct {
	ID      string
	Env     string
	Keep    bool
	Mode    string // sampler | stress
	RuleVer int    // version of the rule name in force... recorded at decision by step lookup
	Spans   int
}

type c06Witness struct {
	Config    any         `json:"config"`
	StartOpts c06Opts     `json:"options_at_start"`
	InForce   c06OptsAt   `json:"options_in_force_when_forwarded"`
	Reloads   []c06OptsAt `json:"option_history"`
	Trace     string      `json:"trace"`
	Span      E1Added     `json:"span"`
	Event     E1Event     `json:"forwarded_as"`
	Expected  any         `json:"expected,omitempty"`
	Accepted  []E1Added   `json:"accepted_spans_of_trace"`
	Ops       []E1Op      `json:"ops"`
}

var c06AttrKeys = []string{"verif.attr.a", "verif.attr.b", "cluster.name"}

func c06RulesChoice(ver int) *config.V2SamplerChoice {
	return &config.V2SamplerChoice{RulesBasedSampler: &config.RulesBasedSamplerConfig{Rules: []*config.RulesBasedSamplerRule{
		{Name: fmt.Sprintf("keep-v%d!", ver), SampleRate: 1, Conditions: []*config.RulesBasedSamplerCondition{e1Cond("verif.keep", "=", "yes")}},
		{Name: fmt.Sprintf("drop-v%d!", ver), Drop: true},
	}}}
}

func c06Kind(k string) string {
	switch k {
	case "event", "link":
		return k
	}
	return "span"
}

func c06FieldInt(ev E1Event, name string) (int64, bool) {
	v, ok := ev.Fields[name]
	if !ok {
		return 0, false
	}
	n, ok2 := c06Int(v)
	return n, ok2
}

func c06Int(v any) (int64, bool) {
	switch x := v.(type) {
	case int64:
		return x, true
	case int:
		return int64(x), true
	case uint32:
		return int64(x), true
	case uint:
		return int64(x), true
	case uint64:
		return int64(x), true
	}
	return 0, false
}

func TestVerif_C06(t *testing.T) {
	run := verifkit.Start(t, "C06", "collect")
	defer run.Finish()
	defer e1TuneRuntime(run)()
	hostname, herr := os.Hostname()
	if herr != nil || hostname == "" {
		run.Assume("os.Hostname() is unavailable in this environment: hostname decoration is not judged")
		hostname = ""
	}
	run.Rule("seeded histories on the real collector: traces of spans / span events / links with on-time, late or no root, decided by rules (driver-chosen rule, versioned name), deterministic-1 or stress relief; steps: span (both entry points), advance around SendDelay/TraceTimeout, reload toggling AddHostMetadataToTrace / AddRuleReasonToTrace / AddSpanCountToRoot / AddCountsToRoot / AdditionalAttributes (start values random too), sampler reload renaming the rules, back-to-back double reload (rules renamed, then an option-only reload with the same rules hash, both fired while the workers are held), coalesced reload (AddHostMetadataToTrace toggled by a reload announced while the monitor is held inside reloadConfigs and another reload signal is already pending), late spans and late roots, spans through ProcessSpanImmediately, ejections; DryRun on in 25 % of the histories (dropped traces forwarded with the dry-run marker, late spans after a drop decision included); non-trivial = a late root on a kept trace with further late spans AND at least two option reloads each followed by forwarded spans; distinct = (start options, set of option states under which spans were forwarded per path)")
	run.Assume("options in force for an event = those of the last reload step before the event's step (E1 quiesces after every reload and a reload step forwards nothing)")
	run.Assume("received-span counts are taken from the driver's log of accepted spans; kept-decision capacity is far above the trace count; queues never overflow; DryRun constant per history (on in a quarter of them); late roots of dry-run-dropped traces are not judged for counts")
	run.Assume("config.MockConfig answers GetAddCountsToRoot with AddSpanCountToRoot; the collector gets a wrapper answering it from AddCountsToRoot instead")

	maxSteps := run.N(70, 140)
	run.Cases("decoration", run.N(170, 4000), func(ci int, rng *verifkit.Rand) {
		workers := verifkit.Pick(rng, 1, 1, 2, 3)
		tick := 100 * time.Millisecond
		sd := time.Duration(verifkit.Pick(rng, 100, 200)) * time.Millisecond
		tt := time.Duration(verifkit.Pick(rng, 400, 500)) * time.Millisecond
		genAttrs := func() map[string]string {
			if rng.Chance(0.25) {
				return nil
			}
			m := map[string]string{}
			for _, k := range c06AttrKeys {
				if rng.Bool() {
					m[k] = "v" + rng.Hex(3)
				}
			}
			return m
		}
		start := c06Opts{Host: rng.Bool(), Reason: rng.Bool(), SpanCount: rng.Bool(), Counts: rng.Chance(0.4), Attrs: genAttrs()}
		ruleVer, reloadNo, doubleReloads, coalescedReloads := 0, 0, 0, 0
		keepP := 0.85
		dryRun := rng.Chance(0.25) // constant per history: every trace is forwarded, dropped ones marked dryrun.kept=false
		if dryRun {
			keepP = 0.5 // more would-be-dropped traces, whose late spans take their own branch
		}
		cfg := E1Config{Workers: workers, DryRun: dryRun, AddRuleReason: start.Reason, AddSpanCount: start.SpanCount, AddHostMeta: start.Host, Attributes: start.Attrs,
			Traces:   config.TracesConfig{SendTicker: config.Duration(tick), SendDelay: config.Duration(sd), TraceTimeout: config.Duration(tt), SpanLimit: uint(verifkit.Pick(rng, 0, 0, 4)), MaxExpiredTraces: 3000},
			Samplers: map[string]*config.V2SamplerChoice{"env-rules": c06RulesChoice(0), "env-det": {DeterministicSampler: &config.DeterministicSamplerConfig{SampleRate: 1}}}}
		e := e1Start(t, cfg)
		defer e.Stop()
		stress := c06adSwapConfig(e)
		e.Cfg.Mux.Lock()
		e.Cfg.AddCountsToRoot = start.Counts
		e.Cfg.Mux.Unlock()

		history := []c06OptsAt{{Step: 0, Opts: start}}
		cur := start
		type verAt struct {
			step, ver int
			double    bool // introduced by a back-to-back double reload
		}
		vers := []verAt{{0, 0, false}}
		var traces []*c06Trace
		byID := map[string]*c06Trace{}
		forwardedTraces := map[string]bool{} // kept traces with at least one forwarded span (⇒ decided)
		seenEvents := 0
		refreshForwarded := func() {
			for _, ev := range e.EventsFrom(seenEvents) {
				forwardedTraces[ev.Trace] = true
				seenEvents = ev.Seq + 1
			}
		}
		newTrace := func(mode string) *c06Trace {
			tr := &c06Trace{ID: rng.Hex(32), Env: verifkit.Pick(rng, "env-rules", "env-rules", "env-det"), Keep: rng.Chance(keepP), Mode: mode}
			traces = append(traces, tr)
			byID[tr.ID] = tr
			return tr
		}
		mkSpan := func(tr *c06Trace, kind string) E1Span {
			s := e.NewSpan(tr.ID, kind)
			s.Env, s.Dataset, s.Peer = tr.Env, "ds-"+tr.Env, rng.Chance(0.2)
			s.Fields = map[string]any{"verif.keep": e1KeepValue(tr.Keep)}
			tr.Spans++
			return s
		}
		pickKind := func() string {
			switch k := rng.Intn(20); {
			case k < 5:
				return "root"
			case k < 14:
				return "child"
			case k < 17:
				return "event"
			}
			return "link"
		}
		stressSpans := map[string]bool{}
		n := rng.Range(maxSteps/2, maxSteps)
		for i := 0; i < n && e.Failed() == ""; i++ {
			refreshForwarded()
			switch k := rng.Intn(100); {
			case k < 46: // a span for a recent or new sampler-decided trace
				var tr *c06Trace
				var pool []*c06Trace
				for _, x := range traces {
					if x.Mode == "sampler" {
						pool = append(pool, x)
					}
				}
				if len(pool) == 0 || rng.Chance(0.22) {
					tr = newTrace("sampler")
				} else if rng.Chance(0.7) {
					tr = pool[len(pool)-1-rng.Intn(min(len(pool), 4))]
				} else {
					tr = pool[rng.Intn(len(pool))]
				}
				_ = e.AddSpan(mkSpan(tr, pickKind()))
			case k < 52: // late root (or late span) aimed at a kept, decided trace
				var pool []*c06Trace
				for _, x := range traces {
					if forwardedTraces[x.ID] {
						pool = append(pool, x)
					}
				}
				if len(pool) == 0 {
					continue
				}
				tr := pool[rng.Intn(len(pool))]
				_ = e.AddSpan(mkSpan(tr, verifkit.Pick(rng, "root", "root", "child", "event", "link")))
			case k < 70:
				e.Advance(verifkit.Pick(rng, tick, tick, 2*tick, sd+tick, tt+tick))
			case k < 84: // reload decoration options
				nx := c06Opts{Host: cur.Host, Reason: cur.Reason, SpanCount: cur.SpanCount, Counts: cur.Counts, Attrs: cur.Attrs}
				what := []string{}
				for len(what) == 0 {
					if rng.Chance(0.35) {
						nx.Host = !nx.Host
						what = append(what, fmt.Sprintf("host=%v", nx.Host))
					}
					if rng.Chance(0.3) {
						nx.Reason = !nx.Reason
						what = append(what, fmt.Sprintf("reason=%v", nx.Reason))
					}
					if rng.Chance(0.3) {
						nx.SpanCount = !nx.SpanCount
						what = append(what, fmt.Sprintf("spancount=%v", nx.SpanCount))
					}
					if rng.Chance(0.3) {
						nx.Counts = !nx.Counts
						what = append(what, fmt.Sprintf("counts=%v", nx.Counts))
					}
					if rng.Chance(0.3) {
						nx.Attrs = genAttrs()
						what = append(what, fmt.Sprintf("attrs=%v", nx.Attrs))
					}
				}
				e.Reload("options "+strings.Join(what, " "), func(m *config.MockConfig) {
					m.AddHostMetadataToTrace, m.AddRuleReasonToTrace, m.AddSpanCountToRoot, m.AddCountsToRoot = nx.Host, nx.Reason, nx.SpanCount, nx.Counts
					m.AdditionalAttributes = maps.Clone(nx.Attrs)
				})
				cur = nx
				history = append(history, c06OptsAt{Step: e.Step(), Opts: nx})
			case k < 88: // sampler reload: same rules, new rule names
				if ruleVer >= 9 {
					continue
				}
				ruleVer++
				v := ruleVer
				e.Reload(fmt.Sprintf("rules renamed to v%d", v), func(m *config.MockConfig) {
					ns := maps.Clone(m.Samplers)
					ns["env-rules"] = c06RulesChoice(v)
					m.Samplers = ns
				})
				vers = append(vers, verAt{e.Step(), v, false})
			case k < 91: // back-to-back reloads: rules renamed, then an option-only reload with the same rules hash
				if ruleVer >= 9 {
					continue
				}
				ruleVer++
				v := ruleVer
				reloadNo++
				nx := c06Opts{Host: cur.Host, Reason: cur.Reason, SpanCount: cur.SpanCount, Counts: cur.Counts, Attrs: cur.Attrs}
				what := ""
				switch {
				case !nx.Reason:
					nx.Reason, what = true, "reason=true"
				case rng.Chance(0.4):
					nx.SpanCount, what = !nx.SpanCount, fmt.Sprintf("spancount=%v", !cur.SpanCount)
				case rng.Chance(0.5):
					nx.Counts, what = !nx.Counts, fmt.Sprintf("counts=%v", !cur.Counts)
				default:
					nx.Attrs, what = map[string]string{c06AttrKeys[0]: "v" + rng.Hex(3)}, "attrs"
				}
				c06DoubleReload(e, fmt.Sprintf("rules renamed to v%d, then %s", v, what),
					func(m *config.MockConfig) {
						ns := maps.Clone(m.Samplers)
						ns["env-rules"] = c06RulesChoice(v)
						m.Samplers = ns
					}, fmt.Sprintf("cfg-%d", reloadNo), fmt.Sprintf("rules-v%d", v),
					func(m *config.MockConfig) {
						m.AddRuleReasonToTrace, m.AddSpanCountToRoot, m.AddCountsToRoot = nx.Reason, nx.SpanCount, nx.Counts
						m.AdditionalAttributes = maps.Clone(nx.Attrs)
					}, fmt.Sprintf("cfg-%d'", reloadNo))
				cur = nx
				history = append(history, c06OptsAt{Step: e.Step(), Opts: nx})
				vers = append(vers, verAt{e.Step(), v, true})
				doubleReloads++
			case k < 94: // reload whose signal is coalesced: announced while the monitor is busy and a signal is already pending
				nx := c06Opts{Host: !cur.Host, Reason: cur.Reason, SpanCount: cur.SpanCount, Counts: cur.Counts, Attrs: genAttrs()}
				why := c06CoalescedReload(e, stress, fmt.Sprintf("A: attrs=%v; B (coalesced): host=%v", nx.Attrs, nx.Host),
					func(m *config.MockConfig) { m.AdditionalAttributes = maps.Clone(nx.Attrs) },
					func(m *config.MockConfig) { m.AddHostMetadataToTrace = nx.Host })
				if why != "" {
					run.Inconclusive("coalesced reload: " + why)
					return
				}
				cur = nx
				history = append(history, c06OptsAt{Step: e.Step(), Opts: nx, Coalesced: true})
				coalescedReloads++
			case k < 98: // stress relief: a new trace, or a span of a kept decided trace
				var tr *c06Trace
				var pool []*c06Trace
				for _, x := range traces {
					if forwardedTraces[x.ID] {
						pool = append(pool, x)
					}
				}
				if len(pool) > 0 && rng.Bool() {
					tr = pool[rng.Intn(len(pool))]
				} else {
					tr = newTrace("stress")
				}
				e.Stress.Script(true, uint(verifkit.Pick(rng, 1, 3)), nil)
				s := mkSpan(tr, verifkit.Pick(rng, "child", "root", "event"))
				stressSpans[s.ID] = true
				e.AddStressed(s)
				e.Stress.Script(false, 1, nil)
			default:
				e.Eject(-1, verifkit.Pick(rng, 0, 200, 1<<30))
			}
		}
		e.Flush(false)
		if e.Failed() != "" {
			run.Inconclusive(e.Failed())
			return
		}
		f := e.Finalize()
		if e.Failed() != "" {
			run.Inconclusive(e.Failed())
			return
		}

		// ---- oracle ------------------------------------------------------------------------
		inForce := func(step int) c06OptsAt {
			r := history[0]
			for _, h := range history[1:] {
				if h.Step < step {
					r = h
				}
			}
			return r
		}
		verInForce := func(step int) (int, bool) {
			r, dbl := 0, false
			for _, v := range vers[1:] {
				if v.step < step {
					r, dbl = v.ver, v.double
				}
			}
			return r, dbl
		}
		everAttr := map[string]bool{}
		for _, h := range history {
			for k := range h.Opts.Attrs {
				everAttr[k] = true
			}
		}
		statesSeen := map[string]bool{}
		reloadsWithTraffic := map[int]bool{}
		lateRootWithLate := false
		for _, id := range f.Order {
			obs := f.Traces[id]
			tr := byID[id]
			if tr == nil || len(obs.Accepted) == 0 || obs.ForwardedCount() == 0 {
				continue
			}
			stressTouchedBeforeDecision := tr.Mode == "stress"
			// decision step of the sampler: first forwarded event of a span that did not take the stress path
			d := -1
			for _, a := range obs.Accepted {
				if a.Stressed {
					continue
				}
				for _, ev := range obs.Forwarded[a.Span.ID] {
					if d < 0 || ev.Step < d {
						d = ev.Step
					}
				}
			}
			for _, a := range obs.Accepted {
				evs := obs.Forwarded[a.Span.ID]
				if len(evs) == 0 {
					continue // presence is C01/C02's subject
				}
				ev := evs[0]
				of := inForce(ev.Step)
				o := of.Opts
				path := "on-time"
				switch {
				case a.Stressed:
					path = "stress"
				case tr.Mode == "stress" || a.Step > d:
					path = "late"
				}
				base := path
				// dry run: a trace its sampler drops is forwarded anyway; its late spans leave through a separate branch
				droppedDry := dryRun && tr.Mode == "sampler" && tr.Env == "env-rules" && !tr.Keep
				if droppedDry {
					path += "-of-dry-run-dropped-trace"
				}
				changed := func(get func(c06Opts) bool) string {
					if get(o) != get(start) {
						return "changed-by-reload"
					}
					return "as-at-start"
				}
				wit := func(exp any) c06Witness {
					return c06Witness{Config: cfg.describe(), StartOpts: start, InForce: of, Reloads: history, Trace: id, Span: a, Event: ev, Expected: exp, Accepted: obs.Accepted, Ops: e.Ops()}
				}
				run.Count("spans_checked_"+path, 1)
				statesSeen[fmt.Sprintf("%s:h%v r%v s%v c%v a%d", path, o.Host, o.Reason, o.SpanCount, o.Counts, len(o.Attrs))] = true
				if of.Step > 0 {
					reloadsWithTraffic[of.Step] = true
				}

				// additional attributes
				for k, v := range o.Attrs {
					if got, ok := ev.Fields[k]; !ok || got != v {
						cls := "configured-at-start"
						if start.Attrs[k] != v {
							cls = "set-by-reload"
						}
						run.Violation("C06/attributes/"+path+"/missing-or-wrong/"+cls, fmt.Sprintf("span %s forwarded at step %d without %s=%q (got %v)", a.Span.ID, ev.Step, k, v, got), wit(o.Attrs))
					}
				}
				for k := range everAttr {
					if _, want := o.Attrs[k]; want {
						continue
					}
					if got, ok := ev.Fields[k]; ok {
						run.Violation("C06/attributes/"+path+"/removed-attribute-still-added", fmt.Sprintf("span %s forwarded at step %d carries %s=%v, which is not configured at that point", a.Span.ID, ev.Step, k, got), wit(o.Attrs))
					}
				}
				// hostname
				if hostname != "" {
					got, has := ev.Fields[types.MetaRefineryLocalHostname]
					cls := changed(func(x c06Opts) bool { return x.Host })
					if of.Coalesced {
						cls = "changed-by-coalesced-reload"
						run.Count("hostname_checks_after_coalesced_reload", 1)
					}
					switch {
					case o.Host && (!has || got != hostname):
						run.Violation("C06/hostname/"+path+"/missing-while-enabled/"+cls, fmt.Sprintf("AddHostMetadataToTrace is on (since reload step %d) but span %s forwarded at step %d has %s=%v, hostname is %q", of.Step, a.Span.ID, ev.Step, types.MetaRefineryLocalHostname, got, hostname), wit(hostname))
					case !o.Host && has:
						run.Violation("C06/hostname/"+path+"/present-while-disabled/"+cls, fmt.Sprintf("AddHostMetadataToTrace is off (since reload step %d) but span %s forwarded at step %d has %s=%v", of.Step, a.Span.ID, ev.Step, types.MetaRefineryLocalHostname, got), wit(nil))
					}
				}
				// decision reason
				{
					got, has := ev.Fields[types.MetaRefineryReason]
					cls := changed(func(x c06Opts) bool { return x.Reason })
					want, wantCls := "", ""
					switch {
					case tr.Mode == "stress":
						want = "verif-stress"
					case tr.Env == "env-det":
						want = "deterministic"
					case d >= 0:
						v, dbl := verInForce(d)
						want = fmt.Sprintf("keep-v%d!", v)
						if droppedDry {
							want = fmt.Sprintf("drop-v%d!", v)
							if base == "late" {
								want = "late arriving span" // a drop decision keeps no reason on record
							}
						}
						if dbl && base == "on-time" {
							wantCls = "/after-back-to-back-reloads"
							run.Count("reason_checks_after_back_to_back_reloads", 1)
						}
					}
					switch {
					case o.Reason && !has:
						run.Violation("C06/reason/"+path+"/missing-while-enabled/"+cls, fmt.Sprintf("AddRuleReasonToTrace is on but span %s forwarded at step %d has no %s", a.Span.ID, ev.Step, types.MetaRefineryReason), wit(want))
					case o.Reason && want != "":
						if s, _ := got.(string); !strings.Contains(s, want) {
							run.Violation("C06/reason/"+path+"/not-the-decision-reason"+wantCls, fmt.Sprintf("span %s: %s=%q does not name the decision (%q)", a.Span.ID, types.MetaRefineryReason, got, want), wit(want))
						}
					case !o.Reason && has:
						run.Violation("C06/reason/"+path+"/present-while-disabled/"+cls, fmt.Sprintf("AddRuleReasonToTrace is off but span %s forwarded at step %d has %s=%v", a.Span.ID, ev.Step, types.MetaRefineryReason, got), wit(nil))
					}
				}
				// root counts (roots forwarded by the trace sampler only)
				// dry-run marker on every span that took the sampler path
				if dryRun && !a.Stressed {
					run.Count("dryrun_marker_checks_"+path, 1)
					if got, ok := ev.Fields[config.DryRunFieldName].(bool); !ok || got != !droppedDry {
						run.Violation("C06/dryrun-marker/"+path+"/missing-or-wrong", fmt.Sprintf("dry run: span %s forwarded at step %d has %s=%v, the sampler's decision for its trace is keep=%v", a.Span.ID, ev.Step, config.DryRunFieldName, ev.Fields[config.DryRunFieldName], !droppedDry), wit(!droppedDry))
					}
				}
				if a.Span.Kind != "root" || a.Stressed || stressTouchedBeforeDecision || d < 0 || (droppedDry && base == "late") {
					continue
				}
				limit := d - 1 // on-time root: spans received before the decision step
				rootPath := "on-time-root"
				if a.Step > d {
					limit, rootPath = a.Step, "late-root" // late root: everything received up to and including itself
				}
				var nAll, nSpan, nEvent, nLink int64
				otherLate := false
				for _, b := range obs.Accepted {
					if b.Step > limit {
						continue
					}
					nAll++
					switch c06Kind(b.Span.Kind) {
					case "event":
						nEvent++
					case "link":
						nLink++
					default:
						nSpan++
					}
					if b.Step > d && b.Span.ID != a.Span.ID {
						otherLate = true
					}
				}
				if rootPath == "late-root" && otherLate {
					lateRootWithLate = true
				}
				mode, want := "no-counts", map[string]int64{}
				switch {
				case o.Counts:
					mode = "all-counts"
					want = map[string]int64{types.MetaSpanCount: nSpan, types.MetaSpanEventCount: nEvent, types.MetaSpanLinkCount: nLink, types.MetaEventCount: nAll}
				case o.SpanCount:
					mode = "span-count-only"
					want = map[string]int64{types.MetaSpanCount: nAll}
				}
				run.Count("roots_checked_"+rootPath+"_"+mode, 1)
				for _, name := range []string{types.MetaSpanCount, types.MetaSpanEventCount, types.MetaSpanLinkCount, types.MetaEventCount} {
					got, has := c06FieldInt(ev, name)
					w, wanted := want[name]
					switch {
					case wanted && got != w: // an int64 meta field of value 0 reads as absent
						run.Violation("C06/root-counts/"+rootPath+"/"+mode+"/"+name+"-wrong",
							fmt.Sprintf("root %s of trace %s forwarded at step %d: %s=%d (present=%v), Refinery had received %d spans of the trace (%d spans, %d span events, %d links) by then", a.Span.ID, id, ev.Step, name, got, has, nAll, nSpan, nEvent, nLink), wit(want))
					case !wanted && has:
						run.Violation("C06/root-counts/"+rootPath+"/"+mode+"/"+name+"-present-while-disabled",
							fmt.Sprintf("root %s forwarded at step %d carries %s=%d although the options in force do not ask for it", a.Span.ID, ev.Step, name, got), wit(want))
					}
				}
			}
		}
		keys := make([]string, 0, len(statesSeen))
		for k := range statesSeen {
			keys = append(keys, k)
		}
		sort.Strings(keys)
		if lateRootWithLate && len(reloadsWithTraffic) >= 2 {
			run.Nontrivial(fmt.Sprintf("start h%v r%v s%v c%v | %s", start.Host, start.Reason, start.SpanCount, start.Counts, strings.Join(keys, ",")))
		}
		run.Count("double_reloads", int64(doubleReloads))
		run.Count("coalesced_reloads", int64(coalescedReloads))
		run.Count("option_reloads", int64(len(history)-1))
		run.Count("option_reloads_followed_by_forwarded_spans", int64(len(reloadsWithTraffic)))
		run.Count("events_forwarded", int64(e.EventCount()))
		run.Count("steps", int64(e.Step()))
		if ci < 2 {
			run.Sample(map[string]any{"config": cfg.describe(), "start": start, "reloads": history, "traces": len(traces), "states": keys})
		}
	})
}
