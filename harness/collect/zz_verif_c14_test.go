//go:build verif

package collect

// C14, unit "collect": each trace is sampled by the sampler configured for its destination —
// at the REAL collector worker (makeDecision, its per-worker sampler cache), which the
// route-level unit only reproduces with glue.
//
// Per case a real InMemCollector (E1) with DatasetPrefix P and rules samplers for a few
// targets, among them deliberately an environment name X and the classic target P.X of a
// dataset that is ALSO called X. A PRNG-ordered sequence of single-root traces — environment
// keys (environment X / Y / unknown) and classic keys (dataset X / Y / unknown) — is decided
// on ONE worker (Workers: 1) or on several (trace ids of the colliding pair chosen on the same
// worker); a reload may fall in between. Every forwarded root carries meta.refinery.reason
// (AddRuleReasonToTrace), which names the rule — unique per target — that decided it.
// Oracle (documentation): classic key -> P.dataset, other key -> environment, else __default__.

import (
	"fmt"
	"strings"
	"testing"
	"time"

	"github.com/honeycombio/refinery/config"
	"github.com/honeycombio/refinery/internal/verifkit"
)

// c14AddWithKey is E1.AddSpan for a span that carries the given API key (E1 builds spans with
// one fixed environment key).
func c14AddWithKey(e *E1, s E1Span, apiKey string) error {
	if e.Failed() != "" {
		return fmt.Errorf("E1 failed")
	}
	e.beginStep()
	e.logOp("span-with-key", map[string]any{"span": s, "api_key": apiKey})
	sp := e.build(s)
	sp.APIKey = apiKey
	err := e.coll.AddSpan(sp)
	e.quiesce(0)
	return err
}

func c14Rules(name string) *config.V2SamplerChoice {
	return &config.V2SamplerChoice{RulesBasedSampler: &config.RulesBasedSamplerConfig{Rules: []*config.RulesBasedSamplerRule{
		{Name: name, SampleRate: 1},
	}}}
}

type c14Trace struct {
	Trace    string `json:"trace"`
	Classic  bool   `json:"classic_key"`
	APIKey   string `json:"api_key"`
	Env      string `json:"environment"`
	Dataset  string `json:"dataset"`
	Target   string `json:"documented_target"`
	Expected string `json:"expected_rule"`
	Got      string `json:"reason"`
	Worker   int    `json:"worker"`
	Epoch    int    `json:"config_epoch"`
}

func TestVerif_C14Collect(t *testing.T) {
	run := verifkit.Start(t, "C14", "collect")
	defer run.Finish()
	defer e1TuneRuntime(run)()
	run.Rule("case = real InMemCollector (1..3 workers) with DatasetPrefix P (4 of 5 cases) and rules samplers for environment X, classic target P.X of the dataset " +
		"that is also named X, and a PRNG subset of Y / P.Y / unprefixed dataset names / __default__, every rule uniquely named; 6..14 single-root traces in PRNG order, " +
		"half classic keys (config and ingest shapes) half environment keys, the X/X pair on the same worker, an optional reload (renamed rules, possibly another prefix) in " +
		"between. Non-trivial = a forwarded root named its deciding rule; distinct = (prefix set, key class, how the target resolves, first/later use of the name on that worker).")
	run.Assume("MockConfig.DetermineSamplerKey / GetSamplerConfigForDestName mirror fileConfig (the route unit covers the real fileConfig); the subject here is the collector worker's own selection and sampler cache")
	run.Assume("meta.refinery.reason of the forwarded root names the rule that decided the trace (AddRuleReasonToTrace on, SampleRate 1 everywhere so every trace is forwarded)")

	run.Cases("worker-selection", run.N(60, 1500), func(ci int, rng *verifkit.Rand) {
		prefix := verifkit.Pick(rng, "classic", "pfx", "P9", "prod", "")
		names := []string{"shared", "other", "third"}
		verifkit.Shuffle(rng, names)
		X, Y, Z := names[0], names[1], names[2]
		pfx := func(ds string) string {
			if prefix == "" {
				return ds
			}
			return prefix + "." + ds
		}
		epoch := 0
		mkSamplers := func() map[string]*config.V2SamplerChoice {
			m := map[string]*config.V2SamplerChoice{"__default__": c14Rules(fmt.Sprintf("default@%d", epoch))}
			add := func(target string) { m[target] = c14Rules(fmt.Sprintf("%s@%d", target, epoch)) }
			add(X)
			if prefix != "" {
				add(pfx(X))
			}
			if rng.Bool() {
				add(Y)
			}
			if rng.Bool() && prefix != "" {
				add(pfx(Y))
			}
			if rng.Chance(0.3) && prefix != "" {
				add(Z) // an unprefixed dataset name must NOT catch classic traffic when a prefix is set
			}
			return m
		}
		samplers := mkSamplers()
		workers := rng.Range(1, 3)
		tick := 10 * time.Millisecond
		e := e1Start(t, E1Config{Workers: workers, AddRuleReason: true, Samplers: samplers,
			Traces: config.TracesConfig{SendTicker: config.Duration(tick), SendDelay: config.Duration(tick), TraceTimeout: config.Duration(time.Second), MaxExpiredTraces: 3000}})
		defer e.Stop()
		e.Reload("dataset-prefix", func(c *config.MockConfig) { c.DatasetPrefix = prefix })

		classicKey := func() string {
			if rng.Bool() {
				return rng.Hex(32)
			}
			b := []byte("hcxic_")
			for len(b) < 64 {
				b = append(b, "0123456789abcdefghijklmnopqrstuvwxyz"[rng.Intn(36)])
			}
			return string(b)
		}
		envKey := func() string { return "hcxik_" + rng.Hex(58) }

		// the worker the colliding pair is decided on
		home := rng.Intn(workers)
		traceOn := func(w int) string {
			for {
				id := "t" + rng.Hex(12)
				if w < 0 || e.WorkerOf(id) == w {
					return id
				}
			}
		}
		var traces []*c14Trace
		n := rng.Range(6, 14)
		reloadAt := -1
		if rng.Chance(0.4) {
			reloadAt = rng.Range(2, n-2)
		}
		firstUse := map[string]bool{}
		for i := 0; i < n; i++ {
			if i == reloadAt {
				epoch++
				if rng.Chance(0.5) && prefix != "" {
					prefix = verifkit.Pick(rng, "classic", "pfx", "P9")
				}
				samplers = mkSamplers()
				ns, np := samplers, prefix
				e.Reload("rules+prefix", func(c *config.MockConfig) { c.Samplers, c.DatasetPrefix = ns, np })
				firstUse = map[string]bool{}
			}
			name := verifkit.Pick(rng, X, X, X, Y, Z, "unknown")
			tr := &c14Trace{Classic: rng.Bool(), Epoch: epoch}
			w := -1
			if name == X {
				w = home
			}
			tr.Trace = traceOn(w)
			tr.Worker = e.WorkerOf(tr.Trace)
			if tr.Classic {
				tr.APIKey, tr.Dataset, tr.Env, tr.Target = classicKey(), name, "", pfx(name)
			} else {
				tr.APIKey, tr.Dataset, tr.Env, tr.Target = envKey(), verifkit.Pick(rng, "svc", X, Y), name, name
			}
			tr.Expected = fmt.Sprintf("default@%d", epoch)
			resolves := "default"
			if _, ok := samplers[tr.Target]; ok {
				tr.Expected = fmt.Sprintf("%s@%d", tr.Target, epoch)
				resolves = "configured"
			}
			s := e.NewSpan(tr.Trace, "root")
			s.Env, s.Dataset = tr.Env, tr.Dataset
			if err := c14AddWithKey(e, s, tr.APIKey); err != nil {
				run.Inconclusive("collector refused a span: " + err.Error())
				return
			}
			// decide it before the next trace arrives, so the order of decisions is the PRNG order
			e.Advance(3 * tick)
			use := "first-use-of-name-on-worker"
			k := fmt.Sprintf("%d|%s", tr.Worker, name)
			if firstUse[k] {
				use = "name-seen-before-on-worker"
			}
			firstUse[k] = true
			kc := "environment-key"
			if tr.Classic {
				kc = "classic-key"
			}
			traces = append(traces, tr)
			defer func(tr *c14Trace, sig string) {
				if tr.Got != "" {
					run.Nontrivial(sig)
				}
			}(tr, fmt.Sprintf("prefix=%v|%s|%s|%s", prefix != "", kc, resolves, use))
		}
		e.Flush(false)
		if f := e.Failed(); f != "" {
			run.Inconclusive(f)
			return
		}
		byTrace := map[string]*c14Trace{}
		for _, tr := range traces {
			byTrace[tr.Trace] = tr
		}
		for _, ev := range e.Events() {
			tr := byTrace[ev.Trace]
			if tr == nil {
				continue
			}
			tr.Got, _ = ev.Fields["meta.refinery.reason"].(string)
		}
		for i, tr := range traces {
			run.Count("traces_decided", 1)
			if tr.Got == "" {
				run.Violation("C14/collect/trace-not-forwarded-or-without-reason", "a SampleRate-1 trace was not forwarded with a reason", map[string]any{"trace": tr, "ops": e.Ops()})
				continue
			}
			if strings.Contains(tr.Got, "/"+tr.Expected) || strings.HasSuffix(tr.Got, tr.Expected) {
				continue
			}
			kc := "environment-key"
			if tr.Classic {
				kc = "classic-key"
			}
			// was the same destination NAME used before on this worker under the other key class?
			shared := "name-not-used-before"
			for _, prev := range traces[:i] {
				if prev.Worker == tr.Worker && prev.Epoch == tr.Epoch && prev.Classic != tr.Classic &&
					((tr.Classic && prev.Env == tr.Dataset) || (!tr.Classic && prev.Dataset == tr.Env)) {
					shared = "after-same-name-under-other-key-class"
				}
			}
			run.Violation("C14/collect/"+kc+"/"+shared+"/other-sampler-decided",
				fmt.Sprintf("trace with %s (environment %q, dataset %q) was decided by %q; the documented target is %q (rule %s)", kc, tr.Env, tr.Dataset, tr.Got, tr.Target, tr.Expected),
				map[string]any{"trace": tr, "all_traces_in_decision_order": traces, "prefix": prefix})
		}
	})
}
