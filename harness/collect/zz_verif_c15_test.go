//go:build verif

package collect

import (
	"context"
	"fmt"
	"math"
	"sort"
	"strings"
	"testing"
	"time"

	"github.com/jonboulle/clockwork"

	"github.com/honeycombio/refinery/config"
	"github.com/honeycombio/refinery/internal/peer"
	"github.com/honeycombio/refinery/internal/verifkit"
	"github.com/honeycombio/refinery/logger"
	"github.com/honeycombio/refinery/metrics"
	"github.com/honeycombio/refinery/pubsub"
)

// C15: stress relief switches with hysteresis on a bounded stress level.
//
// A reference state machine runs in lock-step beside the real StressRelief on
// one clockwork.FakeClock. The driver (not the background goroutine) calls
// Recalc; after every Recalc the monitor reads the stress_level gauge and
// Stressed() and compares them with what the property allows:
//
//   gauge   = max(local, RMS of the latest non-expired non-zero report of each
//             peer), any integer rounding of the RMS accepted, the node's own
//             level accepted both as part of the RMS and not, a report whose age
//             is exactly PeerEntryTimeout accepted both as recent and as expired;
//             in [0,100] whenever all held reports are.
//   local   = whatever the real Recalc returns (curves are observed), only its
//             range [0,100] is asserted.
//   relief  = never: off, always: on, monitor: on when gauge >= ActivationLevel
//             while off; stays off below it; once on, stays on while gauge >=
//             DeactivationLevel and while less than MinimumActivationDuration
//             has passed since it was last at or above it; goes off once the
//             gauge is below DeactivationLevel and more than that has passed
//             (exactly that duration: either). Where a reload mid-episode makes
//             "last at or above it" or the duration ambiguous, every reading is
//             accepted.

// ---- adapters (only place that touches unexported identifiers) -------------

func c15KeepBackgroundOut(s *StressRelief) { s.disableStressLevelReport = true }
func c15OwnID(s *StressRelief) string      { return s.hostID }
func c15Report(level uint, id string) string {
	return newStressReliefMessage(level, id).String()
}

const c15Topic = stressReliefTopic
const c15Expiry = peer.PeerEntryTimeout

// ---- test doubles around the real StressRelief ------------------------------

// c15Bus is a pubsub that hands a published message to the subscribed callbacks
// synchronously on the caller's goroutine (LocalPubSub would start a goroutine
// per message, which makes the receipt instant depend on the scheduler).
type c15Bus struct {
	subs map[string][]pubsub.SubscriptionCallback
}

type c15Sub struct{}

func (c15Sub) Close() {}

func (b *c15Bus) Publish(ctx context.Context, topic, message string) error {
	for _, cb := range b.subs[topic] {
		cb(ctx, message)
	}
	return nil
}
func (b *c15Bus) Subscribe(ctx context.Context, topic string, cb pubsub.SubscriptionCallback) pubsub.Subscription {
	if b.subs == nil {
		b.subs = map[string][]pubsub.SubscriptionCallback{}
	}
	b.subs[topic] = append(b.subs[topic], cb)
	return c15Sub{}
}
func (b *c15Bus) FormatTopic(topic string) string { return "c15-cluster:" + topic }
func (b *c15Bus) Close()                          {}
func (b *c15Bus) Start() error                    { return nil }
func (b *c15Bus) Stop() error                     { return nil }

type c15Health struct{}

func (c15Health) Register(string, time.Duration) {}
func (c15Health) Unregister(string)              {}
func (c15Health) Ready(string, bool)             {}

// ---- history ------------------------------------------------------------------

type c15step struct {
	Op      string  `json:"op"`
	AdvNs   int64   `json:"advance_ns,omitempty"`
	Peer    string  `json:"peer,omitempty"`
	Level   uint    `json:"level,omitempty"`
	Mode    string  `json:"mode,omitempty"`
	Act     uint    `json:"activation,omitempty"`
	Deact   uint    `json:"deactivation,omitempty"`
	MinNs   int64   `json:"min_duration_ns,omitempty"`
	Read    string  `json:"readings,omitempty"`
	AtNs    int64   `json:"t_ns"`
	Local   uint    `json:"local,omitempty"`
	Gauge   float64 `json:"stress_level,omitempty"`
	Before  bool    `json:"stressed_before,omitempty"`
	After   bool    `json:"stressed_after,omitempty"`
	Comment string  `json:"note,omitempty"`
}

type c15rep struct {
	level uint
	ts    time.Time
}

type c15epoch struct {
	from time.Time
	min  time.Duration
}

type c15obs struct {
	at    time.Time
	level uint
}

type c15case struct {
	run   *verifkit.Run
	rng   *verifkit.Rand
	clock *clockwork.FakeClock
	t0    time.Time
	sr    *StressRelief
	cfg   *config.MockConfig
	mm    *metrics.MockMetrics
	bus   *c15Bus
	topic string
	own   string

	// model
	reports map[string]c15rep
	mode    string
	act     uint
	deact   uint
	minDur  time.Duration
	epochs  []c15epoch // MinimumActivationDuration values in effect, by time
	obs     []c15obs   // (time, gauge) of every Recalc
	lc      time.Time  // last Recalc in monitor mode while on with gauge >= deact (then-threshold)
	lcSet   bool
	la      time.Time // last Recalc in any mode with gauge >= deact (then-threshold)
	laSet   bool
	wild    bool // case may contain peer reports above 100

	hist   []c15step
	events strings.Builder

	// measured
	activations, deactivations, heldByDuration, boundaryDur, boundaryExp, reloadsMidEpisode, expiries int
}

func (c *c15case) ns() int64 { return int64(c.clock.Now().Sub(c.t0)) }

func (c *c15case) witness(extra ...any) map[string]any {
	w := map[string]any{
		"history":              c.hist,
		"peer_entry_timeout":   int64(c15Expiry),
		"config_now":           map[string]any{"mode": c.mode, "activation": c.act, "deactivation": c.deact, "min_duration_ns": int64(c.minDur)},
		"own_id":               c.own,
		"reports_held_ns_ago":  c.reportDump(),
		"note_time":            "all times are nanoseconds on the fake clock since the start of the case",
		"note_report_boundary": "a report is definitely recent while its age < peer_entry_timeout and definitely expired when > ",
	}
	for i := 0; i+1 < len(extra); i += 2 {
		w[fmt.Sprint(extra[i])] = extra[i+1]
	}
	return w
}

func (c *c15case) reportDump() map[string]any {
	now := c.clock.Now()
	m := map[string]any{}
	for id, r := range c.reports {
		m[id] = map[string]any{"level": r.level, "age_ns": int64(now.Sub(r.ts))}
	}
	return m
}

// ---- operations -----------------------------------------------------------------

func (c *c15case) reload(mode string, act, deact uint, min time.Duration) {
	c.cfg.Mux.Lock()
	c.cfg.StressRelief = config.StressReliefConfig{
		Mode:                      mode,
		ActivationLevel:           act,
		DeactivationLevel:         deact,
		SamplingRate:              uint64(c.rng.Range(1, 100)),
		MinimumActivationDuration: config.Duration(min),
	}
	c.cfg.Mux.Unlock()
	c.sr.UpdateFromConfig()
	if c.sr.Stressed() && (mode != c.mode || act != c.act || deact != c.deact || min != c.minDur) && len(c.obs) > 0 {
		c.reloadsMidEpisode++
		c.events.WriteByte('R')
	}
	c.mode, c.act, c.deact = mode, act, deact
	if min != c.minDur || len(c.epochs) == 0 {
		c.epochs = append(c.epochs, c15epoch{from: c.clock.Now(), min: min})
	}
	c.minDur = min
	c.hist = append(c.hist, c15step{Op: "reload", Mode: mode, Act: act, Deact: deact, MinNs: int64(min), AtNs: c.ns()})
}

func (c *c15case) peerReport(id string, level uint) {
	// the real encoder and the real subscription callback
	_ = c.bus.Publish(context.Background(), c.topic, c15Report(level, id))
	if id != c.own {
		c.reports[id] = c15rep{level: level, ts: c.clock.Now()}
	}
	c.hist = append(c.hist, c15step{Op: "peer-report", Peer: id, Level: level, AtNs: c.ns()})
}

func (c *c15case) advance(d time.Duration) {
	c.clock.Advance(d)
	c.hist = append(c.hist, c15step{Op: "advance", AdvNs: int64(d), AtNs: c.ns()})
}

// readings sets queue/memory gauges. target<0 means raw random values.
func (c *c15case) readings(target float64, caps [3]float64) {
	rng := c.rng
	nums := [3]string{NUMERATOR_PEER_QUEUE, NUMERATOR_INCOMING_QUEUE, NUMERATOR_MEMORY_HEAP_ALLOC}
	vals := [3]float64{}
	if target < 0 {
		for i := range vals {
			switch rng.Intn(6) {
			case 0:
				vals[i] = 0
			case 1:
				vals[i] = caps[i] * 3 // far above capacity
			case 2:
				vals[i] = -5
			case 3:
				vals[i] = caps[i]
			default:
				vals[i] = caps[i] * rng.Float64()
			}
		}
	} else {
		f := target / 100
		driver := rng.Intn(3)
		for i := range vals {
			var r float64
			g := f
			if i != driver {
				g = f * rng.Float64() * 0.9
			}
			if i < 2 { // sqrt curve
				r = g * g
			} else { // sigmoid curve, inverted
				x := (g - 0.5) / 0.400305589
				if x > 1.5 {
					x = 1.5
				}
				if x < -1.5 {
					x = -1.5
				}
				r = 0.5 + math.Tan(x)/6
			}
			vals[i] = r * caps[i]
		}
	}
	for i, n := range nums {
		c.mm.Gauge(n, vals[i])
	}
	c.hist = append(c.hist, c15step{Op: "readings", Read: fmt.Sprintf("peer_queue=%g incoming_queue=%g heap=%g", vals[0], vals[1], vals[2]), AtNs: c.ns()})
}

func c15rms(levels []float64) float64 {
	if len(levels) == 0 {
		return 0
	}
	var s float64
	for _, l := range levels {
		s += l * l
	}
	return math.Sqrt(s / float64(len(levels)))
}

func c15roundingOK(g, want float64) bool {
	return g >= math.Floor(want-1e-9) && g <= math.Ceil(want+1e-9)
}

// allowedGauge says whether g is an allowed stress level for local level L and
// the given definitely-recent and boundary levels.
func c15allowedGauge(g float64, L uint, definite, boundary []float64) bool {
	if len(boundary) > 8 {
		boundary = boundary[:8]
	}
	for mask := 0; mask < 1<<len(boundary); mask++ {
		vals := append([]float64(nil), definite...)
		for i, b := range boundary {
			if mask&(1<<i) != 0 {
				vals = append(vals, b)
			}
		}
		// own level not part of the RMS
		if c15roundingOK(g, math.Max(float64(L), c15rms(vals))) {
			return true
		}
		// own level is one of the reports (it is a node of the cluster), when non-zero
		if L != 0 {
			if c15roundingOK(g, math.Max(float64(L), c15rms(append(vals, float64(L))))) {
				return true
			}
		}
	}
	return false
}

// recalc calls the real Recalc and checks everything the property says about it.
func (c *c15case) recalc() {
	now := c.clock.Now()
	before := c.sr.Stressed()
	local := c.sr.Recalc()
	after := c.sr.Stressed()
	g, ok := c.mm.Get("stress_level")
	c.run.Count("recalcs", 1)
	st := c15step{Op: "recalc", AtNs: c.ns(), Local: local, Gauge: g, Before: before, After: after}
	c.hist = append(c.hist, st)
	if !ok {
		c.run.Violation("C15/stress-level/gauge-not-published", "Recalc did not publish the stress_level gauge", c.witness())
		return
	}

	// (1) own level range
	if local > 100 {
		c.run.Violation("C15/local-level/out-of-range", fmt.Sprintf("Recalc returned an own stress level of %d (outside 0..100)", local), c.witness())
	}

	// (2) the level acted on
	var definite, boundary, zeros, expired []float64
	allInRange := true
	for id, r := range c.reports {
		age := now.Sub(r.ts)
		switch {
		case age > c15Expiry:
			expired = append(expired, float64(r.level))
			delete(c.reports, id)
			c.expiries++
			continue
		case r.level == 0:
			zeros = append(zeros, 0)
		case age == c15Expiry:
			boundary = append(boundary, float64(r.level))
			c.boundaryExp++
		default:
			definite = append(definite, float64(r.level))
		}
		if r.level > 100 {
			allInRange = false
		}
	}
	sort.Float64s(definite)
	sort.Float64s(boundary)
	if len(expired) > 0 {
		c.events.WriteByte('x')
	}
	if len(boundary) > 0 {
		c.events.WriteByte('b')
	}
	if !c15allowedGauge(g, local, definite, boundary) {
		class := "other"
		all := append(append([]float64(nil), definite...), boundary...)
		var expiredNZ []float64
		for _, v := range expired {
			if v != 0 {
				expiredNZ = append(expiredNZ, v)
			}
		}
		nZero := len(zeros) + len(expired) - len(expiredNZ)
		mean := func(xs []float64) float64 {
			var s float64
			for _, v := range xs {
				s += v
			}
			return s / float64(len(xs))
		}
		switch {
		case g < float64(local):
			class = "below-own-level"
		case len(expiredNZ) > 0 && c15allowedGauge(g, local, append(append([]float64(nil), all...), expiredNZ...), nil):
			class = "expired-report-counted"
		case nZero > 0 && c15allowedGauge(g, local, append(append([]float64(nil), all...), make([]float64, nZero)...), nil):
			class = "zero-report-counted"
		case len(all) > 0 && c15allowedGauge(g, local, nil, nil):
			class = "recent-reports-ignored"
		case len(all) > 0 && (c15roundingOK(g, math.Max(float64(local), mean(all))) || c15roundingOK(g, math.Max(float64(local), mean(append(all, float64(local)))))):
			class = "mean-instead-of-rms"
		}
		c.run.Violation("C15/stress-level/not-max-of-own-and-peer-rms/"+class,
			fmt.Sprintf("stress_level=%v with own level %d, recent non-zero peer levels %v (at the expiry instant: %v, zero reports: %d, expired: %v)", g, local, definite, boundary, len(zeros), expired),
			c.witness())
	}
	if allInRange && (g < 0 || g > 100) {
		c.run.Violation("C15/stress-level/out-of-range", fmt.Sprintf("stress_level=%v although own level and every held peer report are within 0..100", g), c.witness())
	}
	if g < 0 {
		g = 0
	}
	lvl := uint(g)
	c.obs = append(c.obs, c15obs{at: now, level: lvl})

	// (3) the switch
	atOrAbove := lvl >= c.deact
	if atOrAbove {
		c.la, c.laSet = now, true
	}
	switch c.mode {
	case "never", "":
		c.events.WriteByte('n')
		if after {
			c.run.Violation("C15/never/relief-on", "Stressed()=true after a recalculation in never mode", c.witness())
		}
	case "always":
		c.events.WriteByte('a')
		if !after {
			c.run.Violation("C15/always/relief-off", "Stressed()=false after a recalculation in always mode", c.witness())
		}
	case "monitor":
		if !before {
			if lvl >= c.act {
				if !after {
					c.run.Violation("C15/monitor/not-activated-at-activation-level",
						fmt.Sprintf("relief was off, stress_level=%d >= ActivationLevel=%d, still off after the recalculation", lvl, c.act), c.witness())
				} else {
					c.activations++
					c.events.WriteByte('A')
					c.lc, c.lcSet = now, true
				}
			} else {
				c.events.WriteByte('o')
				if after {
					c.run.Violation("C15/monitor/activated-below-activation-level",
						fmt.Sprintf("relief was off, stress_level=%d < ActivationLevel=%d, on after the recalculation", lvl, c.act), c.witness())
				}
			}
			break
		}
		// relief was on
		if atOrAbove {
			c.lc, c.lcSet = now, true
			c.events.WriteByte('k')
			if !after {
				c.run.Violation("C15/monitor/deactivated-at-or-above-deactivation-level",
					fmt.Sprintf("relief was on, stress_level=%d >= DeactivationLevel=%d, off after the recalculation", lvl, c.deact), c.witness())
			}
			break
		}
		// below DeactivationLevel: how long since it was last at or above it?
		// candidates for that instant under the different readings of a mid-episode reload
		far := c.t0.Add(-1000 * time.Hour)
		cands := []time.Time{far, far, far}
		if c.lcSet {
			cands[0] = c.lc
		}
		if c.laSet {
			cands[1] = c.la
		}
		for i := len(c.obs) - 1; i >= 0; i-- { // with the threshold as it is now
			if c.obs[i].level >= c.deact {
				cands[2] = c.obs[i].at
				break
			}
		}
		earliest, latest := cands[0], cands[0]
		for _, t := range cands[1:] {
			if t.Before(earliest) {
				earliest = t
			}
			if t.After(latest) {
				latest = t
			}
		}
		// durations in effect at any time since the earliest candidate
		dmin, dmax := c.minDur, c.minDur
		for i, e := range c.epochs {
			end := now
			if i+1 < len(c.epochs) {
				end = c.epochs[i+1].from
			}
			if end.Before(earliest) {
				continue
			}
			if e.min < dmin {
				dmin = e.min
			}
			if e.min > dmax {
				dmax = e.min
			}
		}
		maxElapsed, minElapsed := now.Sub(earliest), now.Sub(latest)
		if minElapsed == dmax || maxElapsed == dmin {
			c.boundaryDur++
			c.events.WriteByte('=')
		}
		if !after {
			c.deactivations++
			c.events.WriteByte('D')
			if maxElapsed < dmin {
				c.run.Violation("C15/monitor/deactivated-before-minimum-duration",
					fmt.Sprintf("relief went off at stress_level=%d only %v after the level was last at or above DeactivationLevel=%d; MinimumActivationDuration=%v", lvl, maxElapsed, c.deact, dmin), c.witness())
			}
		} else {
			c.heldByDuration++
			c.events.WriteByte('h')
			if minElapsed > dmax {
				c.run.Violation("C15/monitor/still-on-after-minimum-duration",
					fmt.Sprintf("relief still on at stress_level=%d < DeactivationLevel=%d although %v > MinimumActivationDuration=%v passed since the level was last at or above it", lvl, c.deact, minElapsed, dmax), c.witness())
			}
		}
	}
}

// ---- case generator ----------------------------------------------------------------

func c15thresholds(rng *verifkit.Rand) (act, deact uint) {
	// documented precondition: ActivationLevel > DeactivationLevel, both percentages
	switch rng.Intn(6) {
	case 0:
		return 90, 75
	case 1:
		d := uint(rng.Range(0, 99))
		return d + 1, d
	case 2:
		return 100, uint(rng.Range(0, 99))
	default:
		d := uint(rng.Range(0, 98))
		return uint(rng.Range(int(d)+1, 100)), d
	}
}

func c15minDur(rng *verifkit.Rand) time.Duration {
	switch rng.Intn(6) {
	case 0:
		return 0
	case 1:
		return time.Duration(rng.Range(1, 999)) * time.Millisecond
	case 2:
		return 10 * time.Second
	case 3:
		return c15Expiry // coincides with report expiry
	default:
		return time.Duration(rng.Range(1, 20)) * 500 * time.Millisecond
	}
}

func (c *c15case) pickLevel() uint {
	rng := c.rng
	near := func(x uint) uint {
		v := int(x) + rng.Range(-2, 2)
		if v < 0 {
			v = 0
		}
		if v > 100 {
			v = 100
		}
		return uint(v)
	}
	switch rng.Intn(10) {
	case 0:
		return 0
	case 1:
		return c.act
	case 2:
		return c.deact
	case 3:
		return near(c.act)
	case 4:
		return near(c.deact)
	case 5:
		return 100
	case 6:
		return 1
	default:
		return uint(rng.Range(0, 100))
	}
}

func c15run(run *verifkit.Run, i int, rng *verifkit.Rand) {
	t0 := time.Date(2024, 5, 1, 12, 0, 0, 0, time.UTC)
	c := &c15case{run: run, rng: rng, clock: clockwork.NewFakeClockAt(t0), t0: t0, reports: map[string]c15rep{}}
	c.mm = &metrics.MockMetrics{}
	c.mm.Start()
	c.bus = &c15Bus{}
	c.cfg = &config.MockConfig{}
	c.own = verifkit.Pick(rng, "http://10.0.0.1:8081", "http://refinery-0:8081", "http://[2600:1f18::1]:8081")
	c.sr = &StressRelief{
		RefineryMetrics: c.mm,
		Config:          c.cfg,
		Logger:          &logger.NullLogger{},
		Health:          c15Health{},
		PubSub:          c.bus,
		Peer:            peer.NewMockPeers([]string{c.own}, c.own),
		Clock:           c.clock,
		Done:            make(chan struct{}),
	}
	c15KeepBackgroundOut(c.sr)
	if err := c.sr.Start(); err != nil {
		run.Inconclusive("harness: StressRelief.Start failed: " + err.Error())
		return
	}
	defer close(c.sr.Done)
	if c15OwnID(c.sr) != c.own {
		run.Inconclusive("harness: unexpected own id")
		return
	}
	c.topic = c.bus.FormatTopic(c15Topic)
	if len(c.bus.subs[c.topic]) == 0 {
		run.Inconclusive("harness: StressRelief did not subscribe to " + c.topic)
		return
	}

	// capacities (constants for the case); a zero or missing capacity makes that reading count as 0
	caps := [3]float64{}
	dens := [3]string{DENOMINATOR_PEER_CAP, DENOMINATOR_INCOMING_CAP, DENOMINATOR_MEMORY_MAX_ALLOC}
	for k := range caps {
		caps[k] = verifkit.Pick(rng, 1.0, 1000, 10000, 30000, 1<<30, 1<<34)
		switch rng.Intn(12) {
		case 0:
			c.mm.Store(dens[k], 0)
		case 1: // not registered at all
		default:
			c.mm.Store(dens[k], caps[k])
		}
	}

	c.wild = rng.Chance(0.12)
	act, deact := c15thresholds(rng)
	mode := verifkit.Pick(rng, "monitor", "monitor", "monitor", "monitor", "monitor", "never", "always", "")
	c.reload(mode, act, deact, c15minDur(rng))
	c.readings(0, caps)
	peers := []string{"http://10.0.0.2:8081", "http://10.0.0.3:8081", "peer-3", "http://[2600:1f18::4]:8081"}[:rng.Range(1, 4)]

	steps := rng.Range(25, 90)
	for s := 0; s < steps; s++ {
		doRecalc := true
		switch k := rng.Intn(100); {
		case k < 22: // own load
			var target float64
			switch rng.Intn(8) {
			case 0:
				target = -1
			case 1:
				target = 0
			case 2:
				target = 100
			case 3, 4:
				target = float64(c.pickLevel()) + 0.5
			default:
				target = float64(rng.Range(0, 100))
			}
			c.readings(target, caps)
		case k < 45: // peer report
			id := peers[rng.Intn(len(peers))]
			if rng.Chance(0.08) {
				id = c.own // Redis echoes the node's own publication
			}
			lv := c.pickLevel()
			if c.wild && rng.Chance(0.2) {
				lv = uint(rng.Range(101, 1000))
			}
			c.peerReport(id, lv)
			if rng.Chance(0.3) { // several reports between recalculations
				c.peerReport(peers[rng.Intn(len(peers))], c.pickLevel())
			}
			doRecalc = rng.Chance(0.7)
		case k < 55: // reload
			m, a, d, md := c.mode, c.act, c.deact, c.minDur
			switch rng.Intn(5) {
			case 0:
				m = verifkit.Pick(rng, "monitor", "monitor", "never", "always")
			case 1:
				a, d = c15thresholds(rng)
			case 2:
				md = c15minDur(rng)
			case 3: // move thresholds around the current level
				if len(c.obs) > 0 {
					l := c.obs[len(c.obs)-1].level
					if l >= 1 && l <= 100 && rng.Bool() {
						d = l - 1
						a = l
					} else if l < 100 {
						d = l
						a = l + 1
					}
				}
			default:
				m = "monitor"
				a, d = c15thresholds(rng)
				md = c15minDur(rng)
			}
			c.reload(m, a, d, md)
			doRecalc = rng.Chance(0.6)
		default: // time passes
			now := c.clock.Now()
			var d time.Duration
			var aims []time.Duration
			if c.lcSet {
				if t := c.lc.Add(c.minDur).Sub(now); t > 1 {
					aims = append(aims, t)
				}
			}
			for _, r := range c.reports {
				if t := r.ts.Add(c15Expiry).Sub(now); t > 1 {
					aims = append(aims, t)
				}
			}
			sort.Slice(aims, func(a, b int) bool { return aims[a] < aims[b] })
			switch {
			case len(aims) > 0 && rng.Chance(0.45):
				d = aims[rng.Intn(len(aims))] + time.Duration(rng.Range(-1, 1))
			case rng.Chance(0.4):
				d = 100 * time.Millisecond
			case rng.Chance(0.1):
				d = c15Expiry + time.Duration(rng.Range(0, 2000))*time.Millisecond
			default:
				d = time.Duration(rng.Range(1, 3000)) * time.Millisecond
			}
			c.advance(d)
			doRecalc = rng.Chance(0.9)
		}
		if doRecalc {
			c.recalc()
		}
	}
	c.recalc()

	run.Count("activations", int64(c.activations))
	run.Count("deactivations", int64(c.deactivations))
	run.Count("recalcs_held_on_by_minimum_duration", int64(c.heldByDuration))
	run.Count("recalcs_at_minimum_duration_instant", int64(c.boundaryDur))
	run.Count("peer_reports_at_expiry_instant", int64(c.boundaryExp))
	run.Count("peer_reports_expired", int64(c.expiries))
	run.Count("reloads_while_relief_on", int64(c.reloadsMidEpisode))
	if c.activations > 0 && c.deactivations > 0 && (c.heldByDuration > 0 || c.reloadsMidEpisode > 0) && c.expiries+c.boundaryExp > 0 {
		// abstract signature: the sequence of recalculation outcomes, runs collapsed
		var b strings.Builder
		var last rune
		for _, r := range c.events.String() {
			if r != last {
				b.WriteRune(r)
			}
			last = r
		}
		run.Nontrivial(b.String())
	}
	if i < 2 {
		run.Sample(map[string]any{"history": c.hist})
	}
}

func TestVerif_C15(t *testing.T) {
	run := verifkit.Start(t, "C15", "collect")
	defer run.Finish()
	run.Rule("seeded histories of 25..90 steps against one real StressRelief on a FakeClock: own queue/memory readings aimed at levels around the thresholds (through the real sqrt/sigmoid curves, also raw out-of-capacity, negative and zero-capacity readings), peer reports through the real subscription callback (levels 0, 1, 100, at and around ActivationLevel/DeactivationLevel, the node's own echo, in 12% of the cases also levels above 100), clock advances aimed at a report's age = PeerEntryTimeout and at MinimumActivationDuration after the level was last at or above DeactivationLevel (each -1ns/0/+1ns), reloads of mode, thresholds (ActivationLevel > DeactivationLevel as documented) and duration while relief is on; Recalc is called by the driver after most steps. Non-trivial = the history contains an activation, a deactivation, a recalculation where relief was held on only by the minimum duration or a reload while on, and a peer report that expired or sat exactly at the expiry instant; distinct = distinct sequences of recalculation outcomes with runs collapsed")
	run.Assume("clockwork.FakeClock is StressRelief's only time source; metrics.MockMetrics returns the last value set for a gauge/constant")
	run.Assume("'recent' means younger than peer.PeerEntryTimeout measured from receipt; a report exactly that old may count either way; the latest report of a peer replaces its earlier ones")
	run.Assume("readings: the level acted on is the stress_level gauge published by the same Recalc")
	run.Cases("histories", run.N(2500, 150000), func(i int, rng *verifkit.Rand) { c15run(run, i, rng) })
}
